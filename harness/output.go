package main

import (
	"bufio"
	"encoding/base64"
	"encoding/json"
	"regexp"
	"sync"
	"time"

	"github.com/taskctl/taskctl/pkg/output"
	"github.com/taskctl/taskctl/pkg/task"
)

// engine "output": output.NewTaskOutput in front of a synchronised sink that records every Write it receives (C19).
// A case is a list of writers (one task each) with the chunks each of them writes to its TaskOutput.Stdout();
// mode "seq": one after the other; mode "par": all goroutines released together.
// Also two third-party validations used by the Coq model of the prefixed writer:
//   "scan":  bufio.ScanLines(data, true) iterated   "strip": the ANSI regexp of the real package (through the prefixed writer itself)

type outWriter struct {
	Name   string   `json:"name"`
	Chunks []string `json:"chunks_b64"`
}

type outCase struct {
	ID      int         `json:"id"`
	Format  string      `json:"format"`
	Mode    string      `json:"mode"`
	Writers []outWriter `json:"writers"`
	Scan    string      `json:"scan_b64"`
	Strip   string      `json:"strip_b64"`
}

type outObs struct {
	ID      int      `json:"id"`
	Writes  []string `json:"writes_b64"`          // what reached the sink, one entry per Write call, in order
	Logs    []string `json:"log_stdout_b64"`      // Task.Log.Stdout per writer
	Lines   []string `json:"scan_lines_b64,omitempty"`
	Strip   string   `json:"stripped_b64,omitempty"`
	Err     string   `json:"err,omitempty"`
	Hung    bool     `json:"hung"`
	Panic   string   `json:"panic,omitempty"`
}

func init() { engines["output"] = outputEngine }

type recSink struct {
	mu     sync.Mutex
	writes [][]byte
}

func (s *recSink) Write(p []byte) (int, error) {
	s.mu.Lock()
	defer s.mu.Unlock()
	cp := make([]byte, len(p))
	copy(cp, p)
	s.writes = append(s.writes, cp)
	return len(p), nil
}

// the regular expression of pkg/output/prefixed.go, copied: the harness validates the Coq model of it against Go's
// regexp engine; the package's own (unexported) copy is exercised through the prefixed writer
const ansiCopy = "[\u001B\u009B][[\\]()#;?]*(?:(?:(?:[a-zA-Z\\d]*(?:;[a-zA-Z\\d]*)*)?\u0007)|(?:(?:\\d{1,4}(?:;\\d{0,4})*)?[\\dA-PRZcf-ntqry=><~]))"

var ansiCopyRe = regexp.MustCompile(ansiCopy)

func outputEngine(raw json.RawMessage) (interface{}, error) {
	var c outCase
	if err := json.Unmarshal(raw, &c); err != nil {
		return nil, err
	}
	obs := outObs{ID: c.ID}
	if c.Scan != "" || c.Strip != "" {
		if c.Scan != "" {
			data, _ := base64.StdEncoding.DecodeString(c.Scan)
			for {
				adv, line, err := bufio.ScanLines(data, true)
				if err != nil || adv == 0 {
					break
				}
				obs.Lines = append(obs.Lines, base64.StdEncoding.EncodeToString(line))
				data = data[adv:]
			}
		}
		if c.Strip != "" {
			data, _ := base64.StdEncoding.DecodeString(c.Strip)
			obs.Strip = base64.StdEncoding.EncodeToString(ansiCopyRe.ReplaceAllLiteral(data, []byte{}))
		}
		return obs, nil
	}
	sink := &recSink{}
	tasks := make([]*task.Task, len(c.Writers))
	var mu sync.Mutex
	done := make(chan struct{})
	go func() {
		defer close(done)
		defer func() {
			if p := recover(); p != nil {
				mu.Lock()
				obs.Panic = "panic"
				mu.Unlock()
			}
		}()
		one := func(i int) {
			w := c.Writers[i]
			t := task.NewTask()
			t.Name = w.Name
			tasks[i] = t
			to, err := output.NewTaskOutput(t, c.Format, sink, sink)
			if err != nil {
				mu.Lock()
				obs.Err = err.Error()
				mu.Unlock()
				return
			}
			to.Start()
			so := to.Stdout()
			for _, ch := range w.Chunks {
				b, _ := base64.StdEncoding.DecodeString(ch)
				so.Write(b)
			}
			to.Finish()
		}
		if c.Mode == "par" {
			var wg sync.WaitGroup
			start := make(chan struct{})
			for i := range c.Writers {
				wg.Add(1)
				go func(i int) {
					defer wg.Done()
					<-start
					one(i)
				}(i)
			}
			close(start)
			wg.Wait()
		} else {
			for i := range c.Writers {
				one(i)
			}
		}
	}()
	select {
	case <-done:
	case <-time.After(20 * time.Second):
		obs.Hung = true
		return obs, nil
	}
	sink.mu.Lock()
	for _, w := range sink.writes {
		obs.Writes = append(obs.Writes, base64.StdEncoding.EncodeToString(w))
	}
	sink.mu.Unlock()
	for _, t := range tasks {
		if t != nil {
			obs.Logs = append(obs.Logs, base64.StdEncoding.EncodeToString(t.Log.Stdout.Bytes()))
		} else {
			obs.Logs = append(obs.Logs, "")
		}
	}
	return obs, nil
}
