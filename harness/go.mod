module github.com/taskctl/taskctl/verifharness

go 1.16

require (
	github.com/taskctl/taskctl v0.0.0
	github.com/bmatcuk/doublestar v1.1.5
	github.com/briandowns/spinner v0.0.0-20200215035459-6dc224009eae
	github.com/emicklei/dot v0.10.2
	github.com/fsnotify/fsnotify v1.4.9
	github.com/imdario/mergo v0.3.8
	github.com/logrusorgru/aurora v0.0.0-20191017060258-dc85c304c434
	github.com/manifoldco/promptui v0.7.0
	github.com/mattn/go-colorable v0.1.4 // indirect
	github.com/mattn/go-isatty v0.0.10 // indirect
	github.com/mitchellh/mapstructure v1.1.2
	github.com/pelletier/go-toml v1.8.0
	github.com/sirupsen/logrus v1.4.2
	github.com/urfave/cli/v2 v2.2.0
	gopkg.in/yaml.v2 v2.3.0
	mvdan.cc/sh/v3 v3.1.1
)

replace github.com/taskctl/taskctl => /repo
