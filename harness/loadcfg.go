package main

import (
	"encoding/json"
	"errors"
	"fmt"
	"os"
	"path/filepath"
	"sync/atomic"

	"github.com/taskctl/taskctl/internal/config"
	"github.com/taskctl/taskctl/pkg/scheduler"
)

// engine "loadcfg": a pipeline given as stage list is written as a JSON configuration file and loaded
// through config.Loader (readFile -> decode -> buildFromDefinition -> buildPipeline).   (C05, C18)

type loadCase struct {
	ID     int          `json:"id"`
	Mode   string       `json:"mode"`
	Stages []graphStage `json:"stages"`
	Dir    string       `json:"dir"`
}

var loadSeq int64

func init() { engines["loadcfg"] = loadcfgEngine }

func emptyHome(dir string) {
	h := filepath.Join(dir, "emptyhome")
	os.MkdirAll(h, 0o755)
	os.Setenv("HOME", h)
}

func loadcfgEngine(raw json.RawMessage) (interface{}, error) {
	var c loadCase
	if err := json.Unmarshal(raw, &c); err != nil {
		return nil, err
	}
	emptyHome(c.Dir)
	stages := []map[string]interface{}{}
	names := map[string]bool{}
	tasks := map[string]interface{}{"t": map[string]interface{}{"command": []string{"true"}}}
	seen := map[string]bool{}
	for k, s := range c.Stages {
		st := map[string]interface{}{"name": s.Name, "task": "t"}
		// every other stage gets its name by DEFAULT (it is named after its task), unless the name is declared twice
		if (k+c.ID)%2 == 0 && !seen[s.Name] {
			tasks[s.Name] = map[string]interface{}{"command": []string{"true"}}
			st = map[string]interface{}{"task": s.Name}
		}
		seen[s.Name] = true
		if len(s.Deps) > 0 {
			st["depends_on"] = s.Deps
		}
		stages = append(stages, st)
		names[s.Name] = true
		for _, d := range s.Deps {
			names[d] = true
		}
	}
	doc := map[string]interface{}{
		"tasks":     tasks,
		"pipelines": map[string]interface{}{"p": stages},
	}
	b, _ := json.Marshal(doc)
	file := filepath.Join(c.Dir, fmt.Sprintf("loadcfg_%d_%d.json", os.Getpid(), atomic.AddInt64(&loadSeq, 1)))
	if err := os.WriteFile(file, b, 0o644); err != nil {
		return nil, err
	}
	defer os.Remove(file)

	obs := graphObs{ID: c.ID}
	cl := config.NewConfigLoader(config.NewConfig())
	cfg, err := cl.Load(file)
	if err != nil {
		if errors.Is(err, scheduler.ErrCycleDetected) {
			obs.Err = "cycle"
		} else {
			obs.Err = "other"
		}
		obs.Msg = err.Error()
		return obs, nil
	}
	g := cfg.Pipelines["p"]
	if g == nil {
		obs.Err = "other"
		obs.Msg = "pipeline p missing after load"
		return obs, nil
	}
	obs.Err = "none"
	obs.To = map[string][]string{}
	obs.From = map[string][]string{}
	for n := range names {
		obs.To[n] = append([]string{}, g.To(n)...)
		obs.From[n] = append([]string{}, g.From(n)...)
	}
	return obs, nil
}
