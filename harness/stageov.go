package main

import (
	"encoding/json"
	"fmt"
	"sync"
	"time"

	"github.com/taskctl/taskctl/pkg/scheduler"
	"github.com/taskctl/taskctl/pkg/task"
	"github.com/taskctl/taskctl/pkg/variables"
)

// engine "stageov": pipelines whose stages share ONE task with different env / variables / dir overrides;
// a recording runner.Runner snapshots what each execution is handed.   (C08)

type ovStage struct {
	Deps  []int             `json:"deps"`
	Env   map[string]string `json:"env"`  // nil: stage.Env == nil
	Vars  map[string]string `json:"vars"` // nil: stage.Variables == nil
	Dir   string            `json:"dir"`
	DelUs int               `json:"delay_us"`
	Allow bool              `json:"allow"` // the stage allows failure
}

type ovCase struct {
	ID      int               `json:"id"`
	Env     map[string]string `json:"env"`
	Vars    map[string]string `json:"vars"`
	Dir     string            `json:"dir"`
	Stages  []ovStage         `json:"stages"`
	Stages2 []ovStage         `json:"stages2"` // a second pipeline over the same task, run afterwards
}

type ovSnap struct {
	Env  map[string]string `json:"env"`
	Vars map[string]string `json:"vars"`
	Dir  string            `json:"dir"`
	Rest string            `json:"rest"` // everything else the task is made of
}

// restOf: name, commands, hooks, condition, variations, timeout, allow_failure, exportAs, context, interactive
func restOf(t *task.Task) string {
	to := "none"
	if t.Timeout != nil {
		to = t.Timeout.String()
	}
	return fmt.Sprintf("%s|%q|%q|%q|%q|%v|%s|%v|%s|%s|%v", t.Name, t.Commands, t.Before, t.After, t.Condition, t.Variations, to, t.AllowFailure, t.ExportAs, t.Context, t.Interactive)
}

type ovObs struct {
	ID      int      `json:"id"`
	Rest0   string   `json:"rest0"`   // the task's own "everything else", before any use
	P1      []ovSnap `json:"p1"`      // in the order the executions began
	Direct1 ovSnap   `json:"direct1"` // direct run of the task after pipeline 1
	P2      []ovSnap `json:"p2"`
	Direct2 ovSnap   `json:"direct2"`
	Err     string   `json:"err,omitempty"`
	Panic   string   `json:"panic,omitempty"`
}

type recRunner struct {
	mu    sync.Mutex
	snaps []ovSnap
	delay map[string]time.Duration
}

func toStrMap(c variables.Container) map[string]string {
	res := map[string]string{}
	if c == nil {
		return res
	}
	for k, v := range c.Map() {
		res[k] = fmt.Sprintf("%v", v)
	}
	return res
}

func (r *recRunner) Run(t *task.Task) error {
	s := ovSnap{Env: toStrMap(t.Env), Vars: toStrMap(t.Variables), Dir: t.Dir, Rest: restOf(t)}
	r.mu.Lock()
	r.snaps = append(r.snaps, s)
	d := r.delay[s.Env["VK"]]
	r.mu.Unlock()
	if d > 0 {
		time.Sleep(d)
	}
	return nil
}
func (r *recRunner) Cancel() {}
func (r *recRunner) Finish() {}

func init() { engines["stageov"] = stageovEngine }

func containerOrNil(m map[string]string) variables.Container {
	if m == nil {
		return nil
	}
	return variables.FromMap(m)
}

func runOvPipeline(t *task.Task, sts []ovStage, rec *recRunner) error {
	stages := []*scheduler.Stage{}
	for i, s := range sts {
		deps := []string{}
		for _, d := range s.Deps {
			deps = append(deps, fmt.Sprintf("s%d", d))
		}
		st := &scheduler.Stage{Name: fmt.Sprintf("s%d", i), Task: t, DependsOn: deps, Dir: s.Dir, AllowFailure: s.Allow}
		if s.Env != nil {
			st.Env = variables.FromMap(s.Env)
		}
		if s.Vars != nil {
			st.Variables = variables.FromMap(s.Vars)
		}
		stages = append(stages, st)
		if s.Env != nil {
			rec.delay[s.Env["VK"]] = time.Duration(s.DelUs) * time.Microsecond
		}
	}
	g, err := scheduler.NewExecutionGraph(stages...)
	if err != nil {
		return err
	}
	sd := scheduler.NewScheduler(rec)
	sd.VerifSetPause(300 * time.Microsecond)
	done := make(chan error, 1)
	go func() { done <- sd.Schedule(g) }()
	select {
	case err = <-done:
		return err
	case <-time.After(5 * time.Second):
		return fmt.Errorf("schedule did not return")
	}
}

func stageovEngine(raw json.RawMessage) (res interface{}, err error) {
	var c ovCase
	if err := json.Unmarshal(raw, &c); err != nil {
		return nil, err
	}
	obs := ovObs{ID: c.ID}
	defer func() {
		if p := recover(); p != nil {
			obs.Panic = fmt.Sprint(p)
			res = obs
			err = nil
		}
	}()
	t := task.FromCommands("true")
	t.Name = "shared"
	t.Env = variables.FromMap(c.Env)
	t.Variables = variables.FromMap(c.Vars)
	t.Dir = c.Dir
	// the rest of the task: every field has a value of its own, none of them the zero value
	t.Commands = []string{"true", "echo shared"}
	t.Before, t.After, t.Condition = []string{"echo b"}, []string{"echo a"}, "true"
	t.Variations = []map[string]string{{"V": "1"}, {"V": "2"}}
	to := 7 * time.Second
	t.Timeout = &to
	t.ExportAs, t.Context = "SHARED_OUT", "local"
	obs.Rest0 = restOf(t)
	rec := &recRunner{delay: map[string]time.Duration{}}
	if e := runOvPipeline(t, c.Stages, rec); e != nil {
		obs.Err = e.Error()
	}
	obs.P1 = rec.snaps
	rec.snaps = nil
	rec.Run(t)
	obs.Direct1 = rec.snaps[0]
	rec.snaps = nil
	if len(c.Stages2) > 0 {
		if e := runOvPipeline(t, c.Stages2, rec); e != nil {
			obs.Err += " / " + e.Error()
		}
		obs.P2 = rec.snaps
		rec.snaps = nil
		rec.Run(t)
		obs.Direct2 = rec.snaps[0]
	}
	return obs, nil
}
