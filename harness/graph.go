package main

import (
	"encoding/json"
	"errors"

	"github.com/taskctl/taskctl/pkg/scheduler"
)

// engine "graph": scheduler.NewExecutionGraph / AddStage / To / From   (C05)

type graphStage struct {
	Name string   `json:"name"`
	Deps []string `json:"deps"`
}

type graphCase struct {
	ID     int          `json:"id"`
	Stages []graphStage `json:"stages"`
}

type graphObs struct {
	ID   int                 `json:"id"`
	Err  string              `json:"err"` // none | cycle | other
	Msg  string              `json:"msg,omitempty"`
	To   map[string][]string `json:"to,omitempty"`
	From map[string][]string `json:"from,omitempty"`
}

func init() { engines["graph"] = graphEngine }

func graphEngine(raw json.RawMessage) (interface{}, error) {
	var c graphCase
	if err := json.Unmarshal(raw, &c); err != nil {
		return nil, err
	}
	stages := make([]*scheduler.Stage, 0, len(c.Stages))
	names := map[string]bool{}
	for _, s := range c.Stages {
		stages = append(stages, &scheduler.Stage{Name: s.Name, DependsOn: s.Deps})
		names[s.Name] = true
		for _, d := range s.Deps {
			names[d] = true
		}
	}
	obs := graphObs{ID: c.ID}
	g, err := scheduler.NewExecutionGraph(stages...)
	if err != nil {
		if errors.Is(err, scheduler.ErrCycleDetected) {
			obs.Err = "cycle"
		} else {
			obs.Err = "other"
		}
		obs.Msg = err.Error()
		return obs, nil
	}
	obs.Err = "none"
	obs.To = map[string][]string{}
	obs.From = map[string][]string{}
	for n := range names {
		obs.To[n] = append([]string{}, g.To(n)...)
		obs.From[n] = append([]string{}, g.From(n)...)
	}
	return obs, nil
}
