package main

import (
	"encoding/json"
	"fmt"
	"os"
	"path/filepath"
	"sort"
	"sync/atomic"

	"github.com/bmatcuk/doublestar"
)

// engine "glob": third-party validation for C20 - doublestar.Glob and doublestar.PathMatch on a generated tree
type globCase struct {
	ID       int      `json:"id"`
	Dir      string   `json:"dir"`
	Dirs     []string `json:"dirs"`
	Files    []string `json:"files"`
	Patterns []string `json:"patterns"`
}
type globObs struct {
	ID    int        `json:"id"`
	Glob  [][]string `json:"glob"`  // per pattern: what Glob returns (sorted)
	Match [][]string `json:"match"` // per pattern: the tree paths for which PathMatch is true (sorted)
	Errs  []string   `json:"errs,omitempty"`
}

var globSeq int64

func init() { engines["glob"] = globEngine }

func globEngine(raw json.RawMessage) (interface{}, error) {
	var c globCase
	if err := json.Unmarshal(raw, &c); err != nil {
		return nil, err
	}
	obs := globObs{ID: c.ID}
	root := filepath.Join(c.Dir, fmt.Sprintf("glob_%d_%d", os.Getpid(), atomic.AddInt64(&globSeq, 1)))
	defer os.RemoveAll(root)
	for _, d := range c.Dirs {
		os.MkdirAll(filepath.Join(root, d), 0o755)
	}
	for _, f := range c.Files {
		os.MkdirAll(filepath.Dir(filepath.Join(root, f)), 0o755)
		os.WriteFile(filepath.Join(root, f), []byte("x"), 0o644)
	}
	old, _ := os.Getwd()
	if err := os.Chdir(root); err != nil {
		return nil, err
	}
	defer os.Chdir(old)
	tree := append(append([]string{}, c.Dirs...), c.Files...)
	for _, p := range c.Patterns {
		g, err := doublestar.Glob(p)
		if err != nil {
			obs.Errs = append(obs.Errs, err.Error())
		}
		sort.Strings(g)
		obs.Glob = append(obs.Glob, g)
		m := []string{}
		for _, x := range tree {
			ok, err := doublestar.PathMatch(p, x)
			if err != nil {
				obs.Errs = append(obs.Errs, err.Error())
			}
			if ok {
				m = append(m, x)
			}
		}
		sort.Strings(m)
		obs.Match = append(obs.Match, m)
	}
	return obs, nil
}
