//go:build verif
// +build verif

package scheduler

import "time"

// VerifSetPause sets the scheduler's polling pause.
// Only built with the `verif` tag; used by the verification harness to speed up schedule exploration.
func (s *Scheduler) VerifSetPause(d time.Duration) {
	s.pause = d
}
