package main

import (
	"encoding/json"
	"errors"
	"fmt"
	"sort"
	"sync"
	"time"

	"github.com/taskctl/taskctl/pkg/scheduler"
	"github.com/taskctl/taskctl/pkg/task"
	"github.com/taskctl/taskctl/pkg/variables"
)

// engine "sched": the real scheduler.Scheduler driven with a checker-controlled runner.Runner.   (C01-C04)
//
// Run blocks inside the controlled Runner until the driver releases it with the outcome the case prescribes;
// the driver explores the completion orders of the stages that are in flight together (stateless DFS over
// choice prefixes, one fresh Schedule per maximal path).

type schedStage struct {
	Deps  []int  `json:"deps"`
	Allow bool   `json:"allow"`
	Cond  string `json:"cond"` // none | true | false | err
	Ok    bool   `json:"ok"`
	Task  int    `json:"task"` // stages with the same number share one *task.Task
}

type schedCase struct {
	ID       int          `json:"id"`
	Stages   []schedStage `json:"stages"`
	Decl     []int        `json:"decl"`   // declaration order (indices)
	Cancel   int          `json:"cancel"` // -1: never; -2: before Schedule; k>=0: at the k-th decision point
	MaxPaths int          `json:"max_paths"`
	Choices  []int        `json:"choices"`
	Single   bool         `json:"single"` // run only the path given by Choices
	PauseUs  int          `json:"pause_us"`
	Free     bool         `json:"free"` // the Runner does not block: every Run returns at once with its prescribed outcome (stress runs)
}

type schedRun struct {
	Choices  []int           `json:"choices"`
	Trace    [][]interface{} `json:"trace"`
	Fin      []int           `json:"fin"`
	Err      bool            `json:"err"`
	Returned bool            `json:"returned"`
	QTimeout bool            `json:"qtimeout"`
	BuildErr string          `json:"build_err,omitempty"`
	options  []int
}

type schedObs struct {
	ID        int        `json:"id"`
	Runs      []schedRun `json:"runs"`
	Truncated bool       `json:"truncated"`
}

func init() { engines["sched"] = schedEngine }

// number of quiescence waits that timed out in this process: after a few, waiting long is pointless
// (the implementation deviates systematically) and the limit drops so that a broken tree is reported in minutes
var qTimeouts int

func qLimit() time.Duration {
	if qTimeouts >= 3 {
		return 120 * time.Millisecond
	}
	return 3 * time.Second
}

// ---- the controlled runner -------------------------------------------------------------------------

type ctlRunner struct {
	mu        sync.Mutex
	inflight  map[int]chan bool
	entered   map[int]bool
	returned  map[int]bool
	trace     [][]interface{}
	cancelled bool
	taskStage map[string]int // fallback identification by task name
	free      []bool         // non-nil: free-running mode, free[i] = outcome of stage i
}

func newCtl() *ctlRunner {
	return &ctlRunner{inflight: map[int]chan bool{}, entered: map[int]bool{}, returned: map[int]bool{}, taskStage: map[string]int{}}
}

func (r *ctlRunner) stageOf(t *task.Task) int {
	if t.Env != nil {
		if v, ok := t.Env.Get("VSTAGE").(string); ok && v != "" {
			var i int
			if _, err := fmt.Sscanf(v, "s%d", &i); err == nil {
				return i
			}
		}
	}
	if i, ok := r.taskStage[t.Name]; ok {
		return i
	}
	return -1
}

func (r *ctlRunner) Run(t *task.Task) error {
	r.mu.Lock()
	i := r.stageOf(t)
	if r.entered[i] && r.free == nil {
		// the same stage is handed to the Runner a second time: recorded (the monitors judge it), answered at once so that
		// the first run's release is not lost and the exploration goes on
		r.trace = append(r.trace, []interface{}{"S", i})
		r.trace = append(r.trace, []interface{}{"R", i, false})
		r.mu.Unlock()
		return errors.New("stage started twice")
	}
	r.entered[i] = true
	r.trace = append(r.trace, []interface{}{"S", i})
	if r.cancelled {
		r.returned[i] = true
		r.trace = append(r.trace, []interface{}{"R", i, false})
		r.mu.Unlock()
		return errors.New("context canceled")
	}
	if r.free != nil {
		ok := i >= 0 && i < len(r.free) && r.free[i]
		r.returned[i] = true
		r.trace = append(r.trace, []interface{}{"R", i, ok})
		r.mu.Unlock()
		if ok {
			return nil
		}
		return errors.New("task failed")
	}
	ch := make(chan bool, 1)
	r.inflight[i] = ch
	r.mu.Unlock()

	ok := <-ch

	r.mu.Lock()
	delete(r.inflight, i)
	r.returned[i] = true
	r.trace = append(r.trace, []interface{}{"R", i, ok})
	r.mu.Unlock()
	if ok {
		return nil
	}
	return errors.New("task failed")
}

// Cancel implements the Runner contract: runs in flight end with an error; returns once they have returned.
func (r *ctlRunner) Cancel() {
	r.mu.Lock()
	r.cancelled = true
	for _, ch := range r.inflight {
		select {
		case ch <- false:
		default:
		}
	}
	r.mu.Unlock()
	deadline := time.Now().Add(5 * time.Second)
	for time.Now().Before(deadline) {
		r.mu.Lock()
		n := len(r.inflight)
		r.mu.Unlock()
		if n == 0 {
			return
		}
		time.Sleep(100 * time.Microsecond)
	}
}

func (r *ctlRunner) Finish() {}

// snapshotQ records a quiescent point: the in-flight set and the trace entry are taken under one lock,
// so that the entry is consistent with its position in the trace
func (r *ctlRunner) snapshotQ() []int {
	r.mu.Lock()
	defer r.mu.Unlock()
	res := []int{}
	for i := range r.inflight {
		res = append(res, i)
	}
	sort.Ints(res)
	r.trace = append(r.trace, []interface{}{"Q", res})
	return res
}

func (r *ctlRunner) inflightSet() []int {
	r.mu.Lock()
	defer r.mu.Unlock()
	res := []int{}
	for i := range r.inflight {
		res = append(res, i)
	}
	sort.Ints(res)
	return res
}

// ---- one run --------------------------------------------------------------------------------------

func condPath(c string) string {
	switch c {
	case "true":
		return "/bin/true"
	case "false":
		return "/bin/false"
	case "err":
		return "/nonexistent/verif-no-such-command"
	}
	return ""
}

func schedRunOnce(c *schedCase, choices []int) schedRun {
	res := schedRun{Choices: append([]int{}, choices...)}
	n := len(c.Stages)
	r := newCtl()
	tasks := map[int]*task.Task{}
	stages := make([]*scheduler.Stage, n)
	for i, s := range c.Stages {
		t, ok := tasks[s.Task]
		if !ok {
			t = task.FromCommands("true")
			t.Name = fmt.Sprintf("t%d", s.Task)
			tasks[s.Task] = t
		}
		r.taskStage[t.Name] = i
		deps := []string{}
		for _, d := range s.Deps {
			deps = append(deps, fmt.Sprintf("s%d", d))
		}
		stages[i] = &scheduler.Stage{
			Name:         fmt.Sprintf("s%d", i),
			Task:         t,
			DependsOn:    deps,
			AllowFailure: s.Allow,
			Condition:    condPath(s.Cond),
			Env:          variables.FromMap(map[string]string{"VSTAGE": fmt.Sprintf("s%d", i)}),
		}
	}
	decl := c.Decl
	if len(decl) != n {
		decl = make([]int, n)
		for i := range decl {
			decl[i] = i
		}
	}
	ordered := make([]*scheduler.Stage, 0, n)
	for _, i := range decl {
		ordered = append(ordered, stages[i])
	}
	g, err := scheduler.NewExecutionGraph(ordered...)
	if err != nil {
		res.BuildErr = err.Error()
		return res
	}
	sd := scheduler.NewScheduler(r)
	pause := time.Duration(c.PauseUs) * time.Microsecond
	if c.PauseUs <= 0 {
		pause = time.Millisecond
	}
	if c.Free {
		r.free = make([]bool, n)
		for i, s := range c.Stages {
			r.free[i] = s.Ok
		}
		pause = 0 // busy polling: the loop visits stages as fast as it can while goroutines write their statuses
	}
	sd.VerifSetPause(pause)

	cancelled := false
	record := func(ev ...interface{}) {
		r.mu.Lock()
		r.trace = append(r.trace, ev)
		r.mu.Unlock()
	}
	if c.Cancel == -2 {
		record("X")
		sd.Cancel()
		cancelled = true
	}
	for _, s := range c.Stages {
		if s.Cond == "err" {
			cancelled = true // the scheduler will cancel itself in its first pass
		}
	}
	done := make(chan error, 1)
	go func() { done <- sd.Schedule(g) }()

	finished := false
	var schedErr error
	pollDone := func() bool {
		if finished {
			return true
		}
		select {
		case e := <-done:
			finished = true
			schedErr = e
		default:
		}
		return finished
	}

	status := func(i int) int32 { return stages[i].ReadStatus() }
	satisfied := func(d int) bool {
		st := status(d)
		return st == scheduler.StatusDone || st == scheduler.StatusSkipped || (st == scheduler.StatusError && c.Stages[d].Allow)
	}
	blocked := func(d int) bool {
		st := status(d)
		return st == scheduler.StatusCanceled || (st == scheduler.StatusError && !c.Stages[d].Allow)
	}
	// is the scheduler still expected to do something on its own (without a release by the driver)?
	pending := func() bool {
		r.mu.Lock()
		entered := map[int]bool{}
		returned := map[int]bool{}
		for k, v := range r.entered {
			entered[k] = v
		}
		for k, v := range r.returned {
			returned[k] = v
		}
		r.mu.Unlock()
		for i, s := range c.Stages {
			switch status(i) {
			case scheduler.StatusRunning:
				if !entered[i] || returned[i] {
					return true
				}
			case scheduler.StatusError:
				if returned[i] && s.Allow {
					return true // Done follows
				}
			case scheduler.StatusWaiting:
				if cancelled {
					continue
				}
				if s.Cond == "false" || s.Cond == "err" {
					return true
				}
				all, anyBlocked := true, false
				for _, d := range s.Deps {
					if d < 0 || d >= n {
						all = false
						continue
					}
					if blocked(d) {
						anyBlocked = true
					}
					if !satisfied(d) {
						all = false
					}
				}
				if all || anyBlocked {
					return true
				}
			}
		}
		return false
	}
	quiesce := func(limit time.Duration) bool {
		deadline := time.Now().Add(limit)
		for {
			if cancelled {
				// after a cancellation the loop leaves; wait for Schedule to return or for runs to appear
				if pollDone() || len(r.inflightSet()) > 0 {
					if !pending() || pollDone() {
						return true
					}
				}
			} else if !pending() {
				return true
			}
			if time.Now().After(deadline) {
				return false
			}
			time.Sleep(150 * time.Microsecond)
		}
	}

	step := 0
	for iter := 0; iter < 4*n+8; iter++ {
		if !quiesce(qLimit()) {
			res.QTimeout = true
			qTimeouts++
		}
		infl := r.inflightSet()
		if pollDone() && len(infl) == 0 {
			break
		}
		if res.QTimeout && len(infl) == 0 {
			break
		}
		infl = r.snapshotQ()
		if c.Cancel == step && !cancelled {
			record("X")
			sd.Cancel()
			cancelled = true
			step++
			continue
		}
		if len(infl) == 0 {
			// nothing in flight, nothing pending, Schedule not back: give it a moment, then give up
			t0 := time.Now()
			for !pollDone() && time.Since(t0) < qLimit() && len(r.inflightSet()) == 0 {
				time.Sleep(200 * time.Microsecond)
			}
			if !pollDone() && len(r.inflightSet()) == 0 {
				break
			}
			continue
		}
		idx := 0
		if step < len(choices) {
			idx = choices[step] % len(infl)
		}
		res.options = append(res.options, len(infl))
		for len(res.Choices) <= step {
			res.Choices = append(res.Choices, 0)
		}
		res.Choices[step] = idx
		i := infl[idx]
		r.mu.Lock()
		ch := r.inflight[i]
		r.mu.Unlock()
		if ch != nil {
			select {
			case ch <- c.Stages[i].Ok:
			default:
			}
		}
		t0 := time.Now()
		for time.Since(t0) < 3*time.Second {
			r.mu.Lock()
			ret := r.returned[i]
			r.mu.Unlock()
			if ret {
				break
			}
			time.Sleep(50 * time.Microsecond)
		}
		step++
	}
	// let Schedule return
	t0 := time.Now()
	for !pollDone() && time.Since(t0) < qLimit() {
		time.Sleep(200 * time.Microsecond)
	}
	res.Returned = pollDone()
	if !res.Returned {
		qTimeouts++
	}
	if !res.Returned {
		// do not leave goroutines blocked in Run for ever
		r.Cancel()
	}
	res.Err = schedErr != nil
	res.Fin = make([]int, n)
	for i := range stages {
		res.Fin[i] = int(status(i))
	}
	r.mu.Lock()
	res.Trace = append([][]interface{}{}, r.trace...)
	r.mu.Unlock()
	res.Choices = res.Choices[:min(len(res.Choices), len(res.options))]
	return res
}

func min(a, b int) int {
	if a < b {
		return a
	}
	return b
}

func schedEngine(raw json.RawMessage) (interface{}, error) {
	var c schedCase
	c.Cancel = -1
	if err := json.Unmarshal(raw, &c); err != nil {
		return nil, err
	}
	obs := schedObs{ID: c.ID, Runs: []schedRun{}}
	if c.MaxPaths <= 0 {
		c.MaxPaths = 24
	}
	if c.Single {
		obs.Runs = append(obs.Runs, schedRunOnce(&c, c.Choices))
		return obs, nil
	}
	stack := [][]int{{}}
	for len(stack) > 0 {
		if len(obs.Runs) >= c.MaxPaths {
			obs.Truncated = true
			break
		}
		prefix := stack[len(stack)-1]
		stack = stack[:len(stack)-1]
		run := schedRunOnce(&c, prefix)
		obs.Runs = append(obs.Runs, run)
		for step := len(run.options) - 1; step >= len(prefix); step-- {
			for alt := 1; alt < run.options[step]; alt++ {
				np := append([]int{}, run.Choices[:step]...)
				np = append(np, alt)
				stack = append(stack, np)
			}
		}
	}
	return obs, nil
}
