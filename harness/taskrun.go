package main

import (
	"errors"
	"bytes"
	"encoding/base64"
	"encoding/json"
	"fmt"
	"os"
	"path/filepath"
	"sort"
	"strings"
	"sync"
	"sync/atomic"
	"time"

	"github.com/taskctl/taskctl/pkg/executor"
	"github.com/taskctl/taskctl/pkg/runner"
	"github.com/taskctl/taskctl/pkg/scheduler"
	"github.com/taskctl/taskctl/pkg/task"
	"github.com/taskctl/taskctl/pkg/utils"
	"github.com/taskctl/taskctl/pkg/variables"
)

// engine "taskrun": the real runner.TaskRunner on tasks whose commands leave tokens in a trace file.
// (C06, C07, C11, C13, C14; with a plan of steps also C12)

type trContext struct {
	Up     []string          `json:"up"`
	Down   []string          `json:"down"`
	Before []string          `json:"before"`
	After  []string          `json:"after"`
	Env    map[string]string `json:"env"`
	Dir    string            `json:"dir"`
}

type trTask struct {
	Name       string              `json:"name"`
	Commands   []string            `json:"commands"`
	Before     []string            `json:"before"`
	After      []string            `json:"after"`
	Condition  string              `json:"condition"`
	Variations []map[string]string `json:"variations"`
	Allow      bool                `json:"allow"`
	TimeoutMs  int                 `json:"timeout_ms"`
	Env        map[string]string   `json:"env"`
	Vars       map[string]string   `json:"vars"`
	Context    string              `json:"context"`
	ExportAs   string              `json:"export_as"`
	Dir        string              `json:"dir"`
	Interactive bool               `json:"interactive"`
}

type trStage struct {
	Task  int    `json:"task"`
	Deps  []int  `json:"deps"`
	Allow bool   `json:"allow"`
	Cond  string `json:"cond"` // stage condition: an executable path ("" = none)
}

// a plan step: {"op":"run","tasks":[i]} sequential run; {"op":"par","tasks":[i,j]} simultaneous runs;
// {"op":"pipeline","stages":[...]} ; {"op":"finish"} ; {"op":"cancel","after_ms":n} (asynchronous, n ms after the step starts)
type trStep struct {
	Op      string    `json:"op"`
	Tasks   []int     `json:"tasks"`
	Stages  []trStage `json:"stages"`
	AfterMs int       `json:"after_ms"`
}

type trCase struct {
	ID       int                  `json:"id"`
	Dir      string               `json:"dir"`
	Contexts map[string]trContext `json:"contexts"`
	Tasks    []trTask             `json:"tasks"`
	Plan     []trStep             `json:"plan"`
	Format   string               `json:"format"`
	Vars     map[string]string    `json:"vars"`
	SinkFails bool                `json:"sink_fails"` // the first write to the runner's output fails
}

type trResult struct {
	Step     int    `json:"step"`
	Task     int    `json:"task"`
	Err      bool   `json:"err"`
	ErrMsg   string `json:"errmsg,omitempty"`
	ExitErr  bool   `json:"exit_err"` // the returned error is an exit status
	Errored  bool   `json:"errored"`
	Skipped  bool   `json:"skipped"`
	ExitCode int    `json:"exit_code"`
	Output   string `json:"output_b64"`
	StartMs  int64  `json:"start_ms"`
	EndMs    int64  `json:"end_ms"`
}

type trObs struct {
	ID        int        `json:"id"`
	Results   []trResult `json:"results"`
	Trace     []string   `json:"trace"`
	Stdout    string     `json:"stdout_b64"`
	PipeErr   []bool     `json:"pipe_err,omitempty"`
	PipeFin   [][]int    `json:"pipe_fin,omitempty"`
	CancelMs  []int64    `json:"cancel_ms,omitempty"` // how long each Cancel() call took
	CancelNs  []int64    `json:"cancel_done_ns,omitempty"` // wall clock (UnixNano) at which each Cancel() call returned
	CancelCalls int      `json:"cancel_calls"`
	Hung      bool       `json:"hung"`
	WallMs    int64      `json:"wall_ms"`
	SetupErr  string     `json:"setup_err,omitempty"`
	PanicText string     `json:"panic,omitempty"`
}

var trSeq int64

func init() { engines["taskrun"] = taskrunEngine }

type lockedBuf struct {
	mu       sync.Mutex
	b        bytes.Buffer
	failOnce bool // the first Write fails (a terminal that went away for a moment)
}

func (l *lockedBuf) Write(p []byte) (int, error) {
	l.mu.Lock()
	defer l.mu.Unlock()
	if l.failOnce {
		l.failOnce = false
		return 0, errors.New("write failed")
	}
	return l.b.Write(p)
}

func buildTrTask(d trTask) *task.Task {
	t := task.NewTask()
	t.Name = d.Name
	t.Commands = d.Commands
	t.Before = d.Before
	t.After = d.After
	t.Condition = d.Condition
	t.Variations = d.Variations
	t.AllowFailure = d.Allow
	t.Interactive = d.Interactive
	if d.TimeoutMs > 0 {
		to := time.Duration(d.TimeoutMs) * time.Millisecond
		t.Timeout = &to
	}
	if d.Env != nil {
		t.Env = variables.FromMap(d.Env)
	}
	if d.Vars != nil {
		t.Variables = variables.FromMap(d.Vars)
	}
	t.Context = d.Context
	t.ExportAs = d.ExportAs
	t.Dir = d.Dir
	return t
}

func taskrunEngine(raw json.RawMessage) (res interface{}, err error) {
	var c trCase
	if err := json.Unmarshal(raw, &c); err != nil {
		return nil, err
	}
	obs := trObs{ID: c.ID}
	t00 := time.Now()
	defer func() {
		if p := recover(); p != nil {
			obs.PanicText = fmt.Sprint(p)
			res = obs
			err = nil
		}
	}()
	work := filepath.Join(c.Dir, fmt.Sprintf("tr_%d_%d", os.Getpid(), atomic.AddInt64(&trSeq, 1)))
	os.MkdirAll(work, 0o755)
	defer os.RemoveAll(work)
	trace := filepath.Join(work, "trace")
	os.WriteFile(trace, nil, 0o644)
	os.Setenv("TRACE", trace)
	os.Setenv("WORKDIR", work)

	contexts := map[string]*runner.ExecutionContext{}
	for name, cd := range c.Contexts {
		contexts[name] = runner.NewExecutionContext(&utils.Binary{}, cd.Dir, variables.FromMap(cd.Env), cd.Up, cd.Down, cd.Before, cd.After)
		contexts[name].Executable = nil
	}
	vars := variables.FromMap(map[string]string{"Args": ""})
	for k, v := range c.Vars {
		vars.Set(k, v)
	}
	tr, e := runner.NewTaskRunner(runner.WithContexts(contexts), runner.WithVariables(vars))
	if e != nil {
		obs.SetupErr = e.Error()
		return obs, nil
	}
	out := &lockedBuf{failOnce: c.SinkFails}
	tr.Stdout = out
	tr.Stderr = out
	if c.Format != "" {
		tr.OutputFormat = c.Format
	}
	tasks := make([]*task.Task, len(c.Tasks))
	for i, d := range c.Tasks {
		tasks[i] = buildTrTask(d)
	}
	var mu sync.Mutex
	runOne := func(step, i int) {
		t := tasks[i]
		st := time.Since(t00).Milliseconds()
		e := tr.Run(t)
		r := trResult{Step: step, Task: i, Err: e != nil, Errored: t.Errored, Skipped: t.Skipped, ExitCode: int(t.ExitCode),
			Output: base64.StdEncoding.EncodeToString([]byte(t.Output())), StartMs: st, EndMs: time.Since(t00).Milliseconds()}
		if e != nil {
			r.ErrMsg = e.Error()
			_, r.ExitErr = executor.IsExitStatus(e)
		}
		mu.Lock()
		obs.Results = append(obs.Results, r)
		mu.Unlock()
	}
	finished := make(chan struct{})
	var cancelWg sync.WaitGroup
	go func() {
		defer close(finished)
		defer func() {
			if p := recover(); p != nil {
				mu.Lock()
				obs.PanicText = fmt.Sprint(p)
				mu.Unlock()
			}
		}()
		for si, st := range c.Plan {
			switch st.Op {
			case "run":
				for _, i := range st.Tasks {
					runOne(si, i)
				}
			case "par":
				var wg sync.WaitGroup
				start := make(chan struct{})
				for _, i := range st.Tasks {
					wg.Add(1)
					go func(i int) {
						defer wg.Done()
						<-start
						runOne(si, i)
					}(i)
				}
				close(start)
				wg.Wait()
			case "pipeline":
				stages := []*scheduler.Stage{}
				for k, s := range st.Stages {
					deps := []string{}
					for _, d := range s.Deps {
						deps = append(deps, fmt.Sprintf("s%d", d))
					}
					stages = append(stages, &scheduler.Stage{Name: fmt.Sprintf("s%d", k), Task: tasks[s.Task], DependsOn: deps, AllowFailure: s.Allow, Condition: s.Cond})
				}
				g, e := scheduler.NewExecutionGraph(stages...)
				if e != nil {
					mu.Lock()
					obs.SetupErr = e.Error()
					mu.Unlock()
					continue
				}
				sd := scheduler.NewScheduler(tr)
				sd.VerifSetPause(2 * time.Millisecond)
				if st.AfterMs < 0 { // Scheduler.Cancel completed BEFORE the run is started
					mu.Lock()
					obs.CancelCalls++
					mu.Unlock()
					t0 := time.Now()
					sd.Cancel()
					mu.Lock()
					obs.CancelMs = append(obs.CancelMs, time.Since(t0).Milliseconds())
					obs.CancelNs = append(obs.CancelNs, time.Now().UnixNano())
					mu.Unlock()
				}
				if st.AfterMs > 0 { // Scheduler.Cancel from another goroutine, AfterMs into the run
					cancelWg.Add(1)
					mu.Lock()
					obs.CancelCalls++
					mu.Unlock()
					go func(ms int) {
						defer cancelWg.Done()
						time.Sleep(time.Duration(ms) * time.Millisecond)
						t0 := time.Now()
						sd.Cancel()
						mu.Lock()
						obs.CancelMs = append(obs.CancelMs, time.Since(t0).Milliseconds())
						obs.CancelNs = append(obs.CancelNs, time.Now().UnixNano())
						mu.Unlock()
					}(st.AfterMs)
				}
				e = sd.Schedule(g)
				fin := []int{}
				mu.Lock()
				for k, s := range stages {
					fin = append(fin, int(s.ReadStatus()))
					t := s.Task
					// the error Run returned to the stage goroutine shows as the stage's status
					r := trResult{Step: si, Task: st.Stages[k].Task, Err: s.ReadStatus() == scheduler.StatusError, Errored: t.Errored, Skipped: t.Skipped, ExitCode: int(t.ExitCode),
						Output: base64.StdEncoding.EncodeToString([]byte(t.Output()))}
					obs.Results = append(obs.Results, r)
				}
				obs.PipeErr = append(obs.PipeErr, e != nil)
				obs.PipeFin = append(obs.PipeFin, fin)
				mu.Unlock()
			case "finish":
				tr.Finish()
			case "cancel":
				cancelWg.Add(1)
				mu.Lock()
				obs.CancelCalls++
				mu.Unlock()
				go func(ms int) {
					defer cancelWg.Done()
					time.Sleep(time.Duration(ms) * time.Millisecond)
					t0 := time.Now()
					tr.Cancel()
					mu.Lock()
					obs.CancelMs = append(obs.CancelMs, time.Since(t0).Milliseconds())
					obs.CancelNs = append(obs.CancelNs, time.Now().UnixNano())
					mu.Unlock()
				}(st.AfterMs)
			case "cancel_sync":
				mu.Lock()
				obs.CancelCalls++
				mu.Unlock()
				t0 := time.Now()
				tr.Cancel()
				mu.Lock()
				obs.CancelMs = append(obs.CancelMs, time.Since(t0).Milliseconds())
				obs.CancelNs = append(obs.CancelNs, time.Now().UnixNano())
				mu.Unlock()
			case "sleep":
				time.Sleep(time.Duration(st.AfterMs) * time.Millisecond)
			}
		}
		cancelWg.Wait()
	}()
	select {
	case <-finished:
	case <-time.After(20 * time.Second):
		obs.Hung = true
	}
	mu.Lock()
	defer mu.Unlock()
	b, _ := os.ReadFile(trace)
	for _, l := range strings.Split(string(b), "\n") {
		if l != "" {
			obs.Trace = append(obs.Trace, l)
		}
	}
	// per-task trace files "$TRACE.<suffix>" (used by tasks that run concurrently and write long lines), in name order
	if extra, _ := filepath.Glob(trace + ".*"); extra != nil {
		sort.Strings(extra)
		for _, f := range extra {
			b, _ := os.ReadFile(f)
			for _, l := range strings.Split(string(b), "\n") {
				if l != "" {
					obs.Trace = append(obs.Trace, l)
				}
			}
		}
	}
	out.mu.Lock()
	obs.Stdout = base64.StdEncoding.EncodeToString(out.b.Bytes())
	out.mu.Unlock()
	obs.WallMs = time.Since(t00).Milliseconds()
	return obs, nil
}
