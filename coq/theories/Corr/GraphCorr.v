(** Comparison functions used by the generated cases.v of C05: observed behaviour of
    scheduler.NewExecutionGraph / To / From versus the model [build]. *)
From Coq Require Import List Arith NArith Bool.
Import ListNotations.
From TaskctlV Require Import Model.Graph.

Fixpoint list_eqb (a b : list nat) : bool :=
  match a, b with
  | [], [] => true
  | x :: a', y :: b' => Nat.eqb x y && list_eqb a' b'
  | _, _ => false
  end.

(* o_err: 0 = accepted, 1 = ErrCycleDetected, 2 = any other error *)
Record graph_obs := mkGO { o_err : nat; o_tofrom : list (nat * (list nat * list nat)) }.

Definition err_ok (stages : list stage_decl) (o : graph_obs) : bool :=
  match build stages with
  | BCycle => Nat.eqb (o_err o) 1
  | BOk _ => Nat.eqb (o_err o) 0
  | BFuel => false
  end.

Definition edges_ok (stages : list stage_decl) (o : graph_obs) : bool :=
  match build stages with
  | BOk g => forallb (fun x => list_eqb (fst (snd x)) (preds g (fst x)) && list_eqb (snd (snd x)) (succs g (fst x))) (o_tofrom o)
  | _ => true
  end.

Definition same_bres (a b : bres) : bool :=
  match a, b with BOk _, BOk _ => true | BCycle, BCycle => true | BFuel, BFuel => true | _, _ => false end.

Definition legacy_differs (stages : list stage_decl) : bool := negb (same_bres (build stages) (build_legacy stages)).
Definition is_cyclic (stages : list stage_decl) : bool := match build stages with BCycle => true | _ => false end.

(* case identifiers are binary numbers: thousands of cases would be unary monsters as nat *)
Definition bad_ids {A} (p : A -> bool) (cases : list (N * A)) : list N :=
  map fst (filter (fun c => negb (p (snd c))) cases).
Definition sel_ids {A} (p : A -> bool) (cases : list (N * A)) : list N :=
  map fst (filter (fun c => p (snd c)) cases).
