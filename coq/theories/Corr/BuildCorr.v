(** Judging accept/reject decisions of the configuration builder (the taskctl binary) against Model/Build.v  (C18). *)
From Coq Require Import List Arith Bool.
Import ListNotations.
From TaskctlV Require Import Model.Build.
(* observed: accepted (exit 0 of `taskctl -c FILE list`) *)
Definition build_ok (c : defn * bool) : bool := Bool.eqb (build_def false (fst c)) (snd c).
Definition bad_ids {A} (p : A -> bool) (cases : list (nat * A)) : list nat := map fst (filter (fun c => negb (p (snd c))) cases).
