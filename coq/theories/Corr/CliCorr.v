(** Comparison of observed taskctl process runs with Model/Cli.v. *)
From Coq Require Import List Arith NArith Bool.
Import ListNotations.
From TaskctlV Require Import Model.Cli.

Fixpoint list_eqb (a b : list nat) : bool :=
  match a, b with
  | [], [] => true
  | x :: a', y :: b' => Nat.eqb x y && list_eqb a' b'
  | _, _ => false
  end.

(* targets: numbers; [bad]: the targets that fail; observed: which targets ran (in order) and the process exit status *)
Definition targets_ok (bad : list nat) (targets ranobs : list nat) (exitobs : nat) : bool :=
  let r := run_targets (fun t => negb (existsb (Nat.eqb t) bad)) targets in
  list_eqb (ran r) ranobs && Nat.eqb (exit_status r) exitobs.

(* argv (0 = "--"): the targets that ran and the argument list the tasks saw *)
Definition argv_ok (argv : list nat) (ranobs argsobs : list nat) : bool :=
  list_eqb (targets_of argv) ranobs && list_eqb (task_args argv) argsobs.

Definition bad_ids {A} (p : A -> bool) (cases : list (N * A)) : list N := map fst (filter (fun c => negb (p (snd c))) cases).

(* targets with effects: [bad] fail, [cancelling] succeed but leave the runner cancelled; observed: the targets that ran, whether a target
   was refused (`context canceled`), the exit status *)
Definition targets_e_ok (bad cancelling : list nat) (targets ranobs : list nat) (refusedobs : bool) (exitobs : nat) : bool :=
  let eff t := if existsb (Nat.eqb t) bad then EFail else if existsb (Nat.eqb t) cancelling then ECancelOk else EOk in
  let r := run_targets_e eff targets in
  list_eqb (ran_e r) ranobs && Bool.eqb (match refused_e r with Some _ => true | None => false end) refusedobs && Nat.eqb (exit_e r) exitobs.
