(** Judging the paths a watcher registers and the task runs it makes (the taskctl binary, real inotify)  (C20). *)
From Coq Require Import List Arith Bool.
Import ListNotations.
From TaskctlV Require Import Model.Glob.

Fixpoint seg_eqb (a b : seg) : bool := match a, b with [], [] => true | x :: a', y :: b' => Nat.eqb x y && seg_eqb a' b' | _, _ => false end.
Fixpoint fpath_eqb (a b : fpath) : bool := match a, b with [], [] => true | x :: a', y :: b' => seg_eqb x y && fpath_eqb a' b' | _, _ => false end.
Definition incl_b (a b : list fpath) : bool := forallb (fun x => existsb (fpath_eqb x) b) a.
(* the registered paths, as a set *)
Definition select_ok (c : (list fpath * list pattern * list pattern) * list fpath) : bool :=
  let '(tree, inc, exc, observed) := c in
  let want := select tree inc exc in incl_b want observed && incl_b observed want.

Definition trun_eqb (a b : trun) : bool :=
  match a, b with RInit, RInit => true | REvent k p, REvent k' p' => Nat.eqb k k' && Nat.eqb p p' | _, _ => false end.
Fixpoint truns_eqb (a b : list trun) : bool := match a, b with [], [] => true | x :: a', y :: b' => trun_eqb x y && truns_eqb a' b' | _, _ => false end.
(* the task runs, given the events fsnotify delivered (read from the watcher's own debug log) *)
Definition events_ok (c : (list nat * list fsevent) * list trun) : bool :=
  let '(events, evs, runs) := c in truns_eqb (serve false events evs) runs.
Definition bad_ids {A} (p : A -> bool) (cases : list (nat * A)) : list nat := map fst (filter (fun c => negb (p (snd c))) cases).

(* third-party validation: doublestar.PathMatch / Glob on a tree, per pattern, against [gmatch] *)
Definition glob_ok (c : (list fpath * pattern) * (list fpath * list fpath)) : bool :=
  let '(tree, p, (matched, globbed)) := c in
  let want := filter (gmatch p) tree in
  incl_b want matched && incl_b matched want && incl_b want globbed && incl_b globbed want.
