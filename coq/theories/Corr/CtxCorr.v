(** Monitors and predictions for observed context-hook traces (engine `taskrun`, the binary). Observed tokens are
    anonymous for context hooks (a context's before/after command does not know which run it serves). *)
From Coq Require Import List Arith NArith Bool.
Import ListNotations.
From TaskctlV Require Import Model.Ctx.

Inductive otok := OUpB (c : nat) | OUpE (c : nat) | OCb (c : nat) | OCa (c : nat) | OBody (r : nat) | ODown (c : nat).

Definition otok_eqb (a b : otok) : bool :=
  match a, b with
  | OUpB x, OUpB y | OUpE x, OUpE y | OCb x, OCb y | OCa x, OCa y | OBody x, OBody y | ODown x, ODown y => Nat.eqb x y
  | _, _ => false
  end.
Definition project (g : ccfg) (t : ctok) : otok :=
  match t with
  | UpB c => OUpB c | UpE c => OUpE c | CBef r => OCb (ctx_of g r) | CAft r => OCa (ctx_of g r) | Body r => OBody r | Down c => ODown c
  end.
Definition cnt (p : otok -> bool) (l : list otok) : nat := length (filter p l).
Fixpoint olist_eqb (a b : list otok) : bool :=
  match a, b with
  | [], [] => true
  | x :: a', y :: b' => otok_eqb x y && olist_eqb a' b'
  | _, _ => false
  end.

(* sequential prediction: the runs one after another (a step that is not enabled is skipped), then Finish *)
Fixpoint crun_skip (g : ccfg) (s : cstate) (es : list nat) : cstate :=
  match es with
  | [] => s
  | r :: es' => match cstep g s r with Some s' => crun_skip g s' es' | None => crun_skip g s es' end
  end.
Definition seq_trace (g : ccfg) (finish : bool) : list otok :=
  let s := crun_skip g cinit (flat_map (fun r => repeat r 7) (seq 0 (nruns g))) in
  map (project g) (rev (ctrace (if finish then cfinish g s else s))).

(* the monitor: the statement of C14 read off an observed trace [tr] (oldest first) of runs 0..n-1;
   [errs] = the error each run returned; [finish] = Finish was called at the end *)
Definition ctxs (g : ccfg) : list nat := nodup_nat (map (ctx_of g) (seq 0 (nruns g))).
Definition runs_of (g : ccfg) (c : nat) : list nat := filter (fun r => Nat.eqb (ctx_of g r) c) (seq 0 (nruns g)).

Fixpoint prefix_ok (g : ccfg) (seen : list otok) (tr : list otok) : bool :=
  match tr with
  | [] => true
  | t :: tr' =>
    (match t with
     | OCb c | OCa c => existsb (otok_eqb (OUpE c)) seen
     | OBody r => existsb (otok_eqb (OUpE (ctx_of g r))) seen
                  (* its own context-before came first: more before-tokens than task-tokens of that context so far *)
                  && Nat.ltb (cnt (fun x => match x with OBody q => Nat.eqb (ctx_of g q) (ctx_of g r) | _ => false end) seen)
                             (cnt (otok_eqb (OCb (ctx_of g r))) seen)
     | OUpE c => existsb (otok_eqb (OUpB c)) seen
     | ODown c => true
     | OUpB c => true
     end)
    && (match t with OCa c => Nat.ltb (cnt (otok_eqb (OCa c)) seen)
                                      (cnt (fun x => match x with OBody q => Nat.eqb (ctx_of g q) c | _ => false end) seen)
                     | _ => true end)
    && prefix_ok g (t :: seen) tr'
  end.

Definition ctx_mon (g : ccfg) (tr : list otok) (errs : list bool) (finish : bool) : bool :=
  prefix_ok g [] tr
  && forallb (fun c =>
       let used := negb (match runs_of g c with [] => true | _ => false end) in
       Nat.eqb (cnt (otok_eqb (OUpB c)) tr) (if used then 1 else 0)
       && Nat.eqb (cnt (otok_eqb (OUpE c)) tr) (if used then 1 else 0)
       && (if up_ok g c
           then Nat.eqb (cnt (otok_eqb (OCb c)) tr) (length (runs_of g c))
                && Nat.eqb (cnt (otok_eqb (OCa c)) tr) (length (filter (cbef_ok g) (runs_of g c)))
                && forallb (fun r => Nat.eqb (cnt (otok_eqb (OBody r)) tr) (if cbef_ok g r then 1 else 0)) (runs_of g c)
           else Nat.eqb (cnt (otok_eqb (OCb c)) tr) 0 && Nat.eqb (cnt (otok_eqb (OCa c)) tr) 0
                && forallb (fun r => Nat.eqb (cnt (otok_eqb (OBody r)) tr) 0 && nth r errs false) (runs_of g c))
       && Nat.eqb (cnt (otok_eqb (ODown c)) tr) (if finish && used then 1 else 0))
     (ctxs g)
  (* down comes after everything else *)
  && (let fix tail_downs (l : list otok) := match l with [] => true | ODown _ :: l' => tail_downs l' | _ :: _ => false end in
      let fix go (l : list otok) := match l with [] => true | ODown c :: l' => tail_downs l' | _ :: l' => go l' end in go tr)
  (* the error each run reports *)
  && forallb (fun r => Bool.eqb (nth r errs false)
                         (negb (up_ok g (ctx_of g r)) || negb (cbef_ok g r) || negb (body_ok g r))) (seq 0 (nruns g)).

(* the order in which Finish visits the contexts is not determined (a sync.Map is ranged over): downs are compared as counts
   by the monitor, the rest of the trace token by token *)
Definition no_down (l : list otok) : list otok := filter (fun t => match t with ODown _ => false | _ => true end) l.
Definition seq_ok (g : ccfg) (tr : list otok) (finish : bool) : bool := olist_eqb (no_down (seq_trace g finish)) (no_down tr).

(* a run that was CANCELLED from outside: some runs never start, hooks of interrupted runs still pair up; what remains of the statement:
   the order rules of [prefix_ok], no up / down twice, down exactly for the contexts that were started, and down after everything else *)
Definition ctx_mon_cancelled (g : ccfg) (tr : list otok) (finish : bool) : bool :=
  prefix_ok g [] tr
  && forallb (fun c =>
       Nat.leb (cnt (otok_eqb (OUpB c)) tr) 1 && Nat.leb (cnt (otok_eqb (OUpE c)) tr) 1
       && Nat.leb (cnt (otok_eqb (OCa c)) tr) (cnt (otok_eqb (OCb c)) tr)
       && Nat.eqb (cnt (otok_eqb (ODown c)) tr) (if finish then cnt (otok_eqb (OUpB c)) tr else 0))
     (ctxs g)
  && (let fix tail_downs (l : list otok) := match l with [] => true | ODown _ :: l' => tail_downs l' | _ :: _ => false end in
      let fix go (l : list otok) := match l with [] => true | ODown c :: l' => tail_downs l' | _ :: l' => go l' end in go tr).
