(** Monitor for observed cancellation scenarios (engine `taskrun` in a child process). *)
From Coq Require Import List Arith NArith Bool.
Import ListNotations.

(* one run: number of commands (hooks included), how many were started, how many ended by themselves, error returned *)
Record crun_obs := mkCR { cr_ncmds : nat; cr_started : nat; cr_ended : nat; cr_err : bool }.
Record c12_obs := mkC12 {
  co_crashed : bool;          (* the child process died (panic, fatal error) *)
  co_hung : bool;             (* the scenario did not finish within its bound *)
  co_cancels_returned : bool; (* every Cancel call returned, within the bound *)
  co_late_starts : nat;       (* commands started after the first Cancel had returned *)
  co_runs : list crun_obs }.

(* the statement of C12 read off the observation: no crash, no hang, Cancel returned, nothing started afterwards, and a
   run that reports success started and completed every one of its commands (cf. C12_success_means_everything_ran) *)
Definition c12_mon (o : c12_obs) : bool :=
  negb (co_crashed o) && negb (co_hung o) && co_cancels_returned o && Nat.eqb (co_late_starts o) 0
  && forallb (fun r => cr_err r || (Nat.eqb (cr_started r) (cr_ncmds r) && Nat.eqb (cr_ended r) (cr_ncmds r))) (co_runs o).
