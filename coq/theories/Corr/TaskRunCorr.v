(** Comparison of an observed TaskRunner.Run (engine `taskrun`) with [run_task]. *)
From Coq Require Import List Arith NArith ZArith Bool.
Import ListNotations.
From TaskctlV Require Import Model.TaskRun.

Definition tok_eqb (a b : tok) : bool :=
  match a, b with
  | TCond, TCond => true
  | TBefore i, TBefore j => Nat.eqb i j
  | TCmd v c, TCmd w d => Nat.eqb v w && Nat.eqb c d
  | TAfter i, TAfter j => Nat.eqb i j
  | _, _ => false
  end.
Fixpoint list_eqb {A} (eq : A -> A -> bool) (a b : list A) : bool :=
  match a, b with
  | [], [] => true
  | x :: a', y :: b' => eq x y && list_eqb eq a' b'
  | _, _ => false
  end.

Record observed := mkObs { ob_trace : list tok; ob_err : bool; ob_errored : bool; ob_skipped : bool; ob_exit : Z; ob_output : list N }.

Definition trace_ok (t : task) (o : observed) : bool := list_eqb tok_eqb (o_trace (run_task t)) (ob_trace o).
Definition status_ok (t : task) (o : observed) : bool :=
  let m := run_task t in
  Bool.eqb (o_err m) (ob_err o) && Bool.eqb (o_errored m) (ob_errored o) && Bool.eqb (o_skipped m) (ob_skipped o) && Z.eqb (o_exit m) (ob_exit o).
Definition output_ok (t : task) (o : observed) : bool := list_eqb N.eqb (o_output (run_task t)) (ob_output o).

Definition bad_ids {A} (p : A -> bool) (cases : list (N * A)) : list N := map fst (filter (fun c => negb (p (snd c))) cases).
