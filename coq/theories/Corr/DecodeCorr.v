(** Judging the agreement between formats observed through the binary against Model/Decode.v  (C16). *)
From Coq Require Import List ZArith Bool.
Import ListNotations.
From TaskctlV Require Import Model.Decode.
Open Scope Z_scope.

Definition sval_eqb (a b : sval) : bool :=
  match a, b with
  | SLit x, SLit y => Nat.eqb x y | SDecimal x, SDecimal y => Z.eqb x y | SFloat x, SFloat y => Nat.eqb x y | SBool x, SBool y => Bool.eqb x y
  | _, _ => false
  end.
Fixpoint dv_eqb (a b : dv) {struct a} : bool :=
  match a, b with
  | DStr x, DStr y => sval_eqb x y
  | DBool x, DBool y => Bool.eqb x y
  | DDur x, DDur y => Z.eqb x y
  | DDurStr x, DDurStr y => Nat.eqb x y
  | DErr, DErr => true
  | DList l, DList l' =>
    (fix go (l l' : list dv) : bool := match l, l' with [] , [] => true | x :: r, y :: r' => dv_eqb x y && go r r' | _, _ => false end) l l'
  | DMap m, DMap m' =>
    (fix go (m m' : list (nat * dv)) : bool :=
       match m, m' with [], [] => true | (k, x) :: r, (k', y) :: r' => Nat.eqb k k' && dv_eqb x y && go r r' | _, _ => false end) m m'
  | _, _ => false
  end.
(* a scalar placed at a position of type t: do YAML and JSON (and JSON and TOML) decode it alike?  observed: did the binary
   print the same from the two files? *)
Definition agree_ok (c : (av * ty) * (bool * bool)) : bool :=
  let '(a, t, (yj, jt)) := c in
  Bool.eqb (dv_eqb (wd t (native Yaml a)) (wd t (native Json a))) yj && Bool.eqb (dv_eqb (wd t (native Json a)) (wd t (native Toml a))) jt.
Definition bad_ids {A} (p : A -> bool) (cases : list (nat * A)) : list nat := map fst (filter (fun c => negb (p (snd c))) cases).
