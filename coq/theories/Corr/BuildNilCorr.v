(** Judging loads of configurations with empty (nil) bodies and env files against Model/BuildNil.v  (C15). *)
From Coq Require Import List Arith Bool.
Import ListNotations.
From TaskctlV Require Import Model.BuildNil.
(* observed kind: 0 = loaded, 1 = error message and exit status 1, 2 = crash *)
Definition files_of (l : list envfile) : nat -> envfile := fun i => nth i l None.
Definition nil_ok (c : (ndefn * list envfile) * nat) : bool :=
  match build_from_definition false (files_of (snd (fst c))) (fst (fst c)) with
  | BOk => Nat.eqb (snd c) 0 | BErr => Nat.eqb (snd c) 1 | BPanic => Nat.eqb (snd c) 2 end.
Definition bad_ids {A} (p : A -> bool) (cases : list (nat * A)) : list nat := map fst (filter (fun c => negb (p (snd c))) cases).
