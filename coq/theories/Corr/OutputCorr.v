(** Judging observed output capture / export (engine `taskrun`) against Model/Output.v  (C11). *)
From Coq Require Import List Arith NArith Bool.
Import ListNotations.
From TaskctlV Require Import Model.Output.

Fixpoint bytes_eqb (a b : list N) : bool :=
  match a, b with
  | [], [] => true
  | x :: a', y :: b' => N.eqb x y && bytes_eqb a' b'
  | _, _ => false
  end.
Fixpoint lbytes_eqb (a b : list (list N)) : bool :=
  match a, b with
  | [], [] => true
  | x :: a', y :: b' => bytes_eqb x y && lbytes_eqb a' b'
  | _, _ => false
  end.
Definition opt_bytes_eqb (a b : option (list N)) : bool :=
  match a, b with Some x, Some y => bytes_eqb x y | None, None => true | _, _ => false end.

(* one producer task: its name, exportAs, its jobs in execution order (variation-major), and what was observed:
   Task.Output(), the .Output each executed job saw, the variables a task run afterwards found in its environment
   that the harness did not put there *)
Record prod_case := mkPC { pc_name : list N; pc_export : list N; pc_jobs : list ojob;
                           pc_output : list N; pc_seen : list (list N); pc_newvars : benv }.

Definition model_of (p : prod_case) := exec_chain (pc_jobs p) [].
Definition capture_ok (p : prod_case) : bool := bytes_eqb (snd (fst (model_of p))) (pc_output p).
Definition seen_ok (p : prod_case) : bool := lbytes_eqb (fst (fst (model_of p))) (pc_seen p).
(* exactly one new variable, under the derived name, holding the captured text - or none when the task did not complete *)
Definition export_ok (p : prod_case) : bool :=
  if snd (model_of p)
  then match pc_newvars p with
       | [(k, v)] => bytes_eqb k (export_name (pc_export p) (pc_name p)) && bytes_eqb v (snd (fst (model_of p)))
       | _ => false
       end
  else match pc_newvars p with [] => true | _ => false end.
(* the statement itself, without the model's prediction of the bytes: the consumer sees, under the derived name, exactly
   the text that Task.Output() reports *)
Definition export_monitor (p : prod_case) : bool :=
  if snd (model_of p)
  then opt_bytes_eqb (blookup (export_name (pc_export p) (pc_name p)) (pc_newvars p)) (Some (pc_output p))
  else true.

(* pipelines: stage k = (name, exportAs, jobs, deps); observed: for every stage whose task ran, the new variables it saw *)
Record pstage := mkPS { ps_name : list N; ps_export : list N; ps_jobs : list ojob; ps_deps : list nat }.
Definition ps_var (s : pstage) := export_name (ps_export s) (ps_name s).
Definition ps_prod (s : pstage) : option (list N) :=
  let m := exec_chain (ps_jobs s) [] in if snd m then Some (snd (fst m)) else None.
Definition dflt_ps := mkPS [] [] [] [].
(* every dependency that completed is visible, with exactly its text, to the dependant *)
Definition pipe_ok (stages : list pstage) (seen : list (nat * benv)) : bool :=
  forallb (fun ob : nat * benv =>
    forallb (fun d => let sd := nth d stages dflt_ps in
                      match ps_prod sd with
                      | Some out => opt_bytes_eqb (blookup (ps_var sd) (snd ob)) (Some out)
                      | None => true
                      end) (ps_deps (nth (fst ob) stages dflt_ps))) seen.

Definition bad_ids {A} (p : A -> bool) (cases : list (N * A)) : list N := map fst (filter (fun c => negb (p (snd c))) cases).
