(** Judging observed loads of generated directory trees (the taskctl binary) against Model/Loader.v  (C17). *)
From Coq Require Import List Arith Bool.
Import ListNotations.
From TaskctlV Require Import Model.Loader.

Definition fs_of (l : list (path * node)) : fsys :=
  fun p => match find (fun e => if path_eq_dec (fst e) p then true else false) l with Some e => snd e | None => NMissing end.

(* observed outcome: 0 = loaded (exit 0), 1 = rejected with an error message (exit 1), 2 = crashed, 3 = did not end in time;
   ids: what the accumulated task printed, i.e. the definitions that were merged, in order *)
Record lobs := mkLO { lo_kind : nat; lo_ids : list nat }.
Record lcase := mkLC { lc_fs : list (path * node); lc_root : path; lc_obs : lobs }.

Fixpoint nat_list_eqb (a b : list nat) : bool :=
  match a, b with [], [] => true | x :: a', y :: b' => Nat.eqb x y && nat_list_eqb a' b' | _, _ => false end.

Definition model_of (c : lcase) := fst (load_top false (fs_of (lc_fs c)) (S (S (length (lc_fs c)))) (lc_root c)).
Definition model_ok (c : lcase) : bool :=
  match model_of c with
  | LOk d => Nat.eqb (lo_kind (lc_obs c)) 0 && nat_list_eqb d (lo_ids (lc_obs c))
  | LErr => Nat.eqb (lo_kind (lc_obs c)) 1
  | LPanic => Nat.eqb (lo_kind (lc_obs c)) 2
  | LOut => false
  end.

(* the statement, independently of [load]: the closure computed by plain iteration of the import relation *)
Fixpoint closure (fs : fsys) (n : nat) (front : list path) (seen : list path) : list path :=
  match n with
  | 0 => seen
  | S n' =>
    let new := filter (fun p => negb (memb p seen)) (nodup path_eq_dec (flat_map (imports_of fs) front)) in
    match new with [] => seen | _ => closure fs n' new (seen ++ new) end
  end.
Definition readable_b (fs : fsys) (p : path) : bool :=
  match fs p with
  | NFile c => match cf_import c with IBad => false | _ => forallb (fun t => match t with TBad => false | _ => true end) (targets fs p c) end
  | _ => false
  end.
Definition count_occ_nat (x : nat) (l : list nat) : nat := length (filter (Nat.eqb x) l).
Definition monitor_ok (c : lcase) : bool :=
  let fs := fs_of (lc_fs c) in
  let cl := closure fs (S (length (lc_fs c))) [lc_root c] [lc_root c] in
  let want := flat_map (defs_of fs) cl in
  let o := lc_obs c in
  if forallb (readable_b fs) cl
  then Nat.eqb (lo_kind o) 0                                                    (* terminates, loads *)
       && forallb (fun x => Nat.eqb (count_occ_nat x (lo_ids o)) 1) want        (* every reachable file's definitions, once *)
       && forallb (fun x => existsb (Nat.eqb x) want) (lo_ids o)                (* nothing else *)
  else Nat.eqb (lo_kind o) 1.                                                   (* a broken import fails with an error *)

Definition bad_ids {A} (p : A -> bool) (cases : list (nat * A)) : list nat := map fst (filter (fun c => negb (p (snd c))) cases).
