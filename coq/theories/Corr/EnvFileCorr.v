(** Comparison of what commands saw from a task's env_file with Model/EnvFile.v. *)
From Coq Require Import List Arith NArith Bool.
Import ListNotations.
From TaskctlV Require Import Model.SetFlag Model.EnvFile.

Definition opt_lbeq (a b : option (list nat)) : bool :=
  match a, b with Some x, Some y => lbeq x y | None, None => true | _, _ => false end.

(* text: the bytes of the env file; obs: (name, what the command saw: None = unset) *)
Definition envtext_ok (text : list nat) (obs : list (list nat * option (list nat))) : bool :=
  forallb (fun nv => opt_lbeq (vlookup (fst nv) (read_env_text text)) (snd nv)) obs.
