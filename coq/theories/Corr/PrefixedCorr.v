(** Judging the Write calls observed at a synchronised sink behind output.NewTaskOutput (engine `output`)  (C19). *)
From Coq Require Import List Arith NArith Bool.
Import ListNotations.
From TaskctlV Require Import Model.Prefixed Model.Regex.

Fixpoint beq (a b : list N) : bool :=
  match a, b with [], [] => true | x :: a', y :: b' => N.eqb x y && beq a' b' | _, _ => false end.
Fixpoint lbeq (a b : list (list N)) : bool :=
  match a, b with [], [] => true | x :: a', y :: b' => beq x y && lbeq a' b' | _, _ => false end.
(* strip a known prefix *)
Fixpoint after_prefix (p w : list N) : option (list N) :=
  match p, w with
  | [], _ => Some w
  | x :: p', y :: w' => if N.eqb x y then after_prefix p' w' else None
  | _ :: _, [] => None
  end.
(* strip a trailing CR LF *)
Definition before_crlf (w : list N) : option (list N) :=
  match rev w with
  | l :: c :: r => if N.eqb l LF && N.eqb c CR then Some (rev r) else None
  | _ => None
  end.
Definition no_lf (s : list N) : bool := forallb (fun b => negb (N.eqb b LF)) s.

(* a write belongs to the first writer whose coloured name it starts with; its payload is what stands between the
   prefix and the final CR LF *)
Fixpoint parse_write (names : list (list N)) (k : nat) (w : list N) : option (nat * list N) :=
  match names with
  | [] => None
  | n :: names' =>
    match after_prefix (prefix n) w with
    | Some rest => match before_crlf rest with Some pl => Some (k, pl) | None => None end
    | None => parse_write names' (S k) w
    end
  end.

Record pcase := mkPCase { p_names : list (list N); p_chunks : list (list (list N)); p_writes : list (list N) }.

Definition parsed (c : pcase) : list (option (nat * list N)) := map (parse_write (p_names c) 0) (p_writes c).
Definition payloads_of (c : pcase) (t : nat) : list (list N) :=
  flat_map (fun o => match o with Some (k, pl) => if Nat.eqb k t then [pl] else [] | None => [] end) (parsed c).
Definition tasks_of (c : pcase) : list nat := seq 0 (length (p_names c)).
Definition chunks_of (c : pcase) (t : nat) : list (list N) := nth t (p_chunks c) [].

(* correspondence: every writer's payload sequence is what the model of the prefixed writer predicts *)
Definition model_ok (c : pcase) : bool :=
  forallb (fun o => match o with Some _ => true | None => false end) (parsed c) &&
  forallb (fun t => lbeq (payloads_of c t) (payloads strip_ansi (chunks_of c t))) (tasks_of c).

(* the statement itself: whole lines, one task each; removing prefixes, terminators and ANSI sequences gives every task's
   own output with terminators and ANSI sequences removed.  Accepts a writer that strips and one that does not. *)
Definition monitor_ok (c : pcase) : bool :=
  forallb (fun o => match o with Some (_, pl) => no_lf pl | None => false end) (parsed c) &&
  forallb (fun t =>
    let want := rmnl (strip_ansi (concat (chunks_of c t))) in
    beq (rmnl (concat (payloads_of c t))) want || beq (rmnl (concat (map strip_ansi (payloads_of c t)))) want) (tasks_of c).

(* the class of known finding K1: some Write boundary of some writer cuts an escape sequence *)
Fixpoint strip_safe_b (chunks : list (list N)) : bool :=
  match chunks with
  | [] => true
  | ch :: cs => beq (strip_ansi (ch ++ concat cs)) (strip_ansi ch ++ strip_ansi (concat cs)) && strip_safe_b cs
  end.
Definition all_safe (c : pcase) : bool := forallb (fun t => strip_safe_b (chunks_of c t)) (tasks_of c).

(* raw: one writer; the sink receives exactly the chunks (empty writes may or may not be forwarded) *)
Definition raw_ok (c : pcase) : bool :=
  lbeq (filter nonempty (p_writes c)) (filter nonempty (raw_writes (chunks_of c 0))).
Definition raw_monitor (c : pcase) : bool := beq (concat (p_writes c)) (concat (chunks_of c 0)).

(* validation of the two third-party pieces of the model *)
Definition scan_ok (data : list N) (lines : list (list N)) : bool := lbeq (pieces data) lines.
Definition stripv_ok (data stripped : list N) : bool := beq (strip_ansi data) stripped.

Definition bad_ids {A} (p : A -> bool) (cases : list (N * A)) : list N := map fst (filter (fun c => negb (p (snd c))) cases).
