(** Compact notation for byte lists in generated cases files: [hx "6162"] = [97; 98]%N (lower-case hexadecimal).
    Only an input notation: Coq parses a string literal much faster than a list of numerals. *)
From Coq Require Import String Ascii NArith List.
Import ListNotations.
Definition hexval (c : ascii) : N := let n := N_of_ascii c in if (n <? 58)%N then (n - 48)%N else (n - 87)%N.
Fixpoint hx (s : string) : list N :=
  match s with
  | String a (String b r) => (16 * hexval a + hexval b)%N :: hx r
  | _ => []
  end.
Arguments hx _%string_scope.
Example hx_example : hx "00617fff" = [0; 97; 127; 255]%N.
Proof. vm_compute. reflexivity. Qed.
