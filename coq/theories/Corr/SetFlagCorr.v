(** Comparison of what commands saw after `--set` flags with Model/SetFlag.v. *)
From Coq Require Import List Arith NArith Bool.
Import ListNotations.
From TaskctlV Require Import Model.SetFlag.

(* flags: the texts given to --set, in command-line order; cfgv: the value the configuration file gives to every observed name;
   obs: (name, value the command saw) *)
Definition setflag_ok (flags : list (list nat)) (cfgv : list nat) (obs : list (list nat * list nat)) : bool :=
  forallb (fun nv => lbeq (match vlookup (fst nv) (apply_sets flags []) with Some v => v | None => cfgv end) (snd nv)) obs.
