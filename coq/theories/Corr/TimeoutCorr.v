(** Judging observed runs of tasks with a timeout (engine `taskrun`, real sleeps)  (C13). *)
From Coq Require Import List Arith NArith ZArith Bool.
Import ListNotations.
From TaskctlV Require Import Model.TaskRun Model.Timeout Corr.TaskRunCorr.

(* observed: the trace of started commands, the result fields, and whether Run returned within the bound *)
Record tobs := mkTO { to_obs : observed; to_timely : bool }.
Definition c13_trace_ok (t : ttask) (o : tobs) : bool := trace_ok (to_task t) (to_obs o).
Definition c13_status_ok (t : ttask) (o : tobs) : bool :=
  let m := run_task (to_task t) in
  Bool.eqb (o_err m) (ob_err (to_obs o)) && Bool.eqb (o_errored m) (ob_errored (to_obs o)) && Bool.eqb (o_skipped m) (ob_skipped (to_obs o)).
Definition c13_timely (t : ttask) (o : tobs) : bool := to_timely o.

(* through the binary: the commands that started (trace file), whether the process reported failure, whether it ended within the bound *)
Definition c13_cli_trace_ok (t : ttask) (trace : list tok) : bool := list_eqb tok_eqb (o_trace (run_task (to_task t))) trace.
Definition c13_cli_status_ok (t : ttask) (failed : bool) : bool := Bool.eqb (o_err (run_task (to_task t))) failed.
