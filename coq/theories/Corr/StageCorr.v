(** Comparison of what the recording Runner was handed (engine `stageov`) with [expected]. *)
From Coq Require Import List Arith Bool.
Import ListNotations.
From TaskctlV Require Import Model.Stage.

Definition opt_eqb (a b : option nat) : bool :=
  match a, b with Some x, Some y => Nat.eqb x y | None, None => true | _, _ => false end.
Definition keys (m : amap) : list nat := map fst m.
Definition amap_equiv (a b : amap) : bool :=
  forallb (fun k => opt_eqb (lookup k a) (lookup k b)) (keys a ++ keys b).
Definition settings_equiv (a b : settings) : bool :=
  amap_equiv (s_env a) (s_env b) && amap_equiv (s_vars a) (s_vars b) && Nat.eqb (s_dir a) (s_dir b) && Nat.eqb (s_rest a) (s_rest b).

(* remove the first element of l equivalent to x *)
Fixpoint remove_one (x : settings) (l : list settings) : option (list settings) :=
  match l with
  | [] => None
  | y :: l' => if settings_equiv x y then Some l' else match remove_one x l' with Some r => Some (y :: r) | None => None end
  end.
Fixpoint multiset_equiv (a b : list settings) : bool :=
  match a with
  | [] => match b with [] => true | _ => false end
  | x :: a' => match remove_one x b with Some b' => multiset_equiv a' b' | None => false end
  end.

(* a pipeline over task 0: the executions (in any order) were handed exactly the expected settings, one each;
   the direct run afterwards sees the task's own settings *)
Definition pipeline_ok (t : settings) (ovs : list overrides) (handed : list settings) (direct : settings) : bool :=
  multiset_equiv (map (fun ov => expected (fun _ => t) (Stage 0 ov)) ovs) handed
  && settings_equiv direct t.
