(** Comparison of observed command environments / variables / directories with Model/Env.v. *)
From Coq Require Import List Arith NArith Bool.
Import ListNotations.
From TaskctlV Require Import Model.Stage Model.Env.

Definition opt_eqb (a b : option nat) : bool :=
  match a, b with Some x, Some y => Nat.eqb x y | None, None => true | _, _ => false end.

Definition env_ok (L : env_layers) (name : nat) (observed : option nat) : bool := opt_eqb (proc_lookup L name) observed.
Definition vars_ok (V : var_layers) (name : nat) (observed : option nat) : bool := opt_eqb (lookup name (vars_seen V)) observed.
Definition dir_ok (D : dir_layers) (observed : nat) : bool := Nat.eqb (job_dir D) observed.
