(** Acceptance of observed scheduler runs by the LTS of Model/Sched.v, and executable monitors that read the
    properties C01-C04 directly off an observed trace.

    The harness observes, per run of the real Scheduler with the checker-controlled Runner:
      TS i        Runner.Run entered for stage i            TR i ok     Runner.Run returned (ok = no error)
      TX          Scheduler.Cancel called by the driver      TQ l        quiescent point: l = stages inside Run
    plus the final status of every stage and whether Schedule returned an error.
    [elab] inserts the silent events (visits that skip/cancel, the Fin of an allowed failure, the Exit) and
    [accepts] replays the elaborated event list through [run]: soundness is by construction ([accepts_sound]). *)
From Coq Require Import List Arith Bool Lia.
Import ListNotations.
From TaskctlV Require Import Model.Sched.

Inductive tev := TS (i : nat) | TR (i : nat) (ok : bool) | TX | TQ (inflight : list nat).

Definition status_code (x : status) : nat :=
  match x with Waiting => 0 | Running => 1 | Skipped => 2 | Done => 3 | Error => 4 | Canceled => 5 end.

Record acc := mkAcc { a_s : state; a_es : list event (* newest first *); a_ok : bool; a_c04 : bool; a_infl : bool }.

Definition do_ev (c : config) (a : acc) (e : event) : acc :=
  match step c (a_s a) e with
  | Some s' => mkAcc s' (e :: a_es a) (a_ok a) (a_c04 a) (a_infl a)
  | None => mkAcc (a_s a) (a_es a) false (a_c04 a) (a_infl a)
  end.

(* would visiting i now settle it without starting it? (skip by condition, condition error, cancellation) *)
Definition silent_visit (c : config) (s : state) (i : nat) : bool :=
  match st s i with
  | Waiting =>
    match cond_of c i with
    | CErr | CFalse => true
    | _ => match check c (st s) (deps_of c i) VReady with VCancel => true | _ => false end
    end
  | _ => false
  end.

Definition cond_settles (c : config) (s : state) (i : nat) : bool :=
  match st s i with
  | Waiting => match cond_of c i with CErr | CFalse => true | _ => false end
  | _ => false
  end.

Definition would_start (c : config) (s : state) (i : nat) : bool :=
  match st s i with
  | Waiting =>
    match cond_of c i with
    | CErr | CFalse => false
    | _ => match check c (st s) (deps_of c i) VReady with VReady => true | _ => false end
    end
  | _ => false
  end.

Definition saturate_pass (c : config) (a : acc) : acc :=
  fold_left (fun a i => if negb (cancelled (a_s a)) && silent_visit c (a_s a) i then do_ev c a (Visit i) else a)
            (seq 0 (length c)) a.
Fixpoint iter {A} (n : nat) (f : A -> A) (x : A) : A := match n with 0 => x | S n' => iter n' f (f x) end.
Definition saturate (c : config) (a : acc) : acc := iter (length c) (saturate_pass c) a.

Definition eligible_now (c : config) (s : state) : list nat := filter (would_start c s) (seq 0 (length c)).
Definition running_now (c : config) (s : state) : list nat :=
  filter (fun i => match st s i with Running => true | _ => false end) (seq 0 (length c)).

Fixpoint list_eqb (a b : list nat) : bool :=
  match a, b with
  | [], [] => true
  | x :: a', y :: b' => Nat.eqb x y && list_eqb a' b'
  | _, _ => false
  end.

Definition elab_ev (c : config) (a : acc) (t : tev) : acc :=
  match t with
  | TS i =>
    (* dependencies that are settled by their own condition (skipped, or a condition error) were visited before i started,
       even when eager saturation had stopped because the run was already cancelled *)
    let a0 := fold_left (fun a d => if Nat.ltb d (length c) && cond_settles c (a_s a) d then do_ev c a (Visit d) else a) (deps_of c i) a in
    let a1 := do_ev c a0 (Visit i) in
    let a2 := match st (a_s a1) i with Running => a1 | _ => mkAcc (a_s a1) (a_es a1) false (a_c04 a1) (a_infl a1) end in
    saturate c a2
  | TR i ok =>
    let a1 := do_ev c a (Ret i ok) in
    let a2 := if negb ok && allow_of c i then do_ev c a1 (Fin i) else a1 in
    saturate c a2
  | TX => do_ev c a ExtCancel
  | TQ l =>
    let s := a_s a in
    mkAcc s (a_es a) (a_ok a)
          (a_c04 a && (cancelled s || match eligible_now c s with [] => true | _ => false end))
          (a_infl a && list_eqb l (running_now c s))
  end.

(* after the trace: visits that explain statuses the real loop still assigned (runs that were cancelled) *)
Definition reconcile_pass (c : config) (fin : list nat) (a : acc) : acc :=
  fold_left (fun a i => match st (a_s a) i with
                        | Waiting => if Nat.eqb (nth i fin 0) 0 then a
                                     else if silent_visit c (a_s a) i then do_ev c a (Visit i) else a
                        | _ => a end)
            (seq 0 (length c)) a.

Definition elab (c : config) (tr : list tev) (fin : list nat) : acc :=
  let a0 := saturate c (mkAcc init [] true true true) in
  let a0' := match tr with TX :: _ => mkAcc init [] true true true | _ => a0 end in
  let a1 := fold_left (elab_ev c) tr a0' in
  let a2 := iter (length c) (reconcile_pass c fin) a1 in
  do_ev c a2 Exit.

Definition proj_obs (tr : list tev) : list obs :=
  flat_map (fun t => match t with TS i => [OStart i] | TR i ok => [ORet i ok] | _ => [] end) tr.

Definition obs_eqb (a b : obs) : bool :=
  match a, b with
  | OStart i, OStart j => Nat.eqb i j
  | ORet i x, ORet j y => Nat.eqb i j && Bool.eqb x y
  | _, _ => false
  end.
Fixpoint obs_list_eqb (a b : list obs) : bool :=
  match a, b with
  | [], [] => true
  | x :: a', y :: b' => obs_eqb x y && obs_list_eqb a' b'
  | _, _ => false
  end.

Definition statuses_match (c : config) (s : state) (fin : list nat) : bool :=
  Nat.eqb (length fin) (length c) &&
  forallb (fun i => Nat.eqb (status_code (st s i)) (nth i fin 0)) (seq 0 (length c)).

Definition accepts (c : config) (tr : list tev) (fin : list nat) (err : bool) : bool :=
  let a := elab c tr fin in
  a_ok a &&
  match run c init (rev (a_es a)) with
  | Some s => statuses_match c s fin && Bool.eqb (gerr s) err && returned_b c s && obs_list_eqb (rev (log s)) (proj_obs tr)
  | None => false
  end.

Lemma obs_eqb_eq a b : obs_eqb a b = true -> a = b.
Proof.
  destruct a as [i|i x], b as [j|j y]; cbn; try discriminate.
  - intros H. apply Nat.eqb_eq in H. subst. reflexivity.
  - intros H. apply andb_true_iff in H. destruct H as (H1 & H2). apply Nat.eqb_eq in H1. apply eqb_prop in H2. subst. reflexivity.
Qed.
Lemma obs_list_eqb_eq a : forall b, obs_list_eqb a b = true -> a = b.
Proof.
  induction a as [|x a IH]; intros [|y b]; cbn; try discriminate; [reflexivity|].
  intros H. apply andb_true_iff in H. destruct H as (H1 & H2). apply obs_eqb_eq in H1. apply IH in H2. subst. reflexivity.
Qed.

(* every accepted observation IS an execution of the LTS: all theorems over [exec] apply to it *)
Theorem accepts_sound c tr fin err :
  accepts c tr fin err = true ->
  exists es s, exec c es s /\ rev (log s) = proj_obs tr /\ returned_b c s = true /\ gerr s = err /\
               length fin = length c /\ (forall i, i < length c -> status_code (st s i) = nth i fin 0).
Proof.
  unfold accepts. intros H. apply andb_true_iff in H. destruct H as (_ & H).
  destruct (run c init (rev (a_es (elab c tr fin)))) as [s|] eqn:E; [|discriminate].
  apply andb_true_iff in H. destruct H as (H & Hobs).
  apply andb_true_iff in H. destruct H as (H & Hret).
  apply andb_true_iff in H. destruct H as (Hst & Hg).
  exists (rev (a_es (elab c tr fin))), s. split; [exact E|].
  split; [apply obs_list_eqb_eq; assumption|]. split; [assumption|].
  split; [apply eqb_prop; assumption|].
  unfold statuses_match in Hst. apply andb_true_iff in Hst. destruct Hst as (Hl & Hs).
  split; [apply Nat.eqb_eq; assumption|].
  intros i Hi. rewrite forallb_forall in Hs. apply Nat.eqb_eq. apply Hs. apply in_seq. lia.
Qed.

(* ------------------------------------------------------------------------------------------------
   monitors: the statements of C01-C04 read directly off the observed trace (no model state involved) *)

Definition cond_is (a b : condres) : bool :=
  match a, b with CNone, CNone | CTrue, CTrue | CFalse, CFalse | CErr, CErr => true | _, _ => false end.

(* C01: at every start of i, each dependency d has finished: skipped by its condition, or returned ok,
   or returned a failure that is allowed (or its condition could not run and failure is allowed) *)
Fixpoint c01_scan (c : config) (seen : list tev) (tr : list tev) : bool :=
  match tr with
  | [] => true
  | t :: tr' =>
    (match t with
     | TS i => forallb (fun d =>
                 cond_is (cond_of c d) CFalse
                 || existsb (fun e => match e with TR j ok => Nat.eqb j d && (ok || allow_of c d) | _ => false end) seen
                 || (cond_is (cond_of c d) CErr && allow_of c d)) (deps_of c i)
     | _ => true
     end) && c01_scan c (t :: seen) tr'
  end.
Definition c01_mon (c : config) (tr : list tev) : bool := c01_scan c [] tr.

Definition count_starts (tr : list tev) (i : nat) : nat :=
  length (filter (fun t => match t with TS j => Nat.eqb i j | _ => false end) tr).
Definition was_cancelled (c : config) (tr : list tev) (fin : list nat) : bool :=
  existsb (fun t => match t with TX => true | _ => false end) tr
  || existsb (fun i => cond_is (cond_of c i) CErr) (seq 0 (length c)).

Definition sat_code (c : config) (fin : list nat) (d : nat) : bool :=
  match nth d fin 0 with 3 | 2 => true | 4 => allow_of c d | _ => false end.
Definition runnable_b (c : config) (i : nat) : bool := negb (cond_is (cond_of c i) CErr) && negb (cond_is (cond_of c i) CFalse).

(* C03: nothing runs twice; if not cancelled nothing is left waiting/running, and every stage whose dependencies were
   satisfied and whose condition did not exclude it ran exactly once *)
Definition c03_mon (c : config) (tr : list tev) (fin : list nat) : bool :=
  forallb (fun i => Nat.leb (count_starts tr i) 1) (seq 0 (length c))
  && (was_cancelled c tr fin
      || forallb (fun i => negb (Nat.eqb (nth i fin 0) 0) && negb (Nat.eqb (nth i fin 0) 1)
                           && (negb (runnable_b c i && forallb (sat_code c fin) (deps_of c i)) || Nat.eqb (count_starts tr i) 1))
                 (seq 0 (length c))).

(* C02: the final statuses are a fixed point of the declarative rule, and the error flag says whether a stage failed *)
Definition code_status (n : nat) : status :=
  match n with 0 => Waiting | 1 => Running | 2 => Skipped | 3 => Done | 4 => Error | _ => Canceled end.
Definition fixpoint_b (c : config) (out : nat -> bool) (f : nat -> status) : bool :=
  forallb (fun i => status_eqb (f i) (final_of c out f i) && settled_b (f i)) (seq 0 (length c)).
Definition c02_mon (c : config) (outs : list bool) (tr : list tev) (fin : list nat) (err : bool) : bool :=
  was_cancelled c tr fin
  || (let f := fun i => code_status (nth i fin 0) in
      fixpoint_b c (fun i => nth i outs true) f
      && Bool.eqb err (existsb (fun i => Nat.eqb (nth i fin 0) 4) (seq 0 (length c)))
      && forallb (fun i => Bool.eqb (Nat.eqb (count_starts tr i) 1) (Nat.eqb (nth i fin 0) 3 || Nat.eqb (nth i fin 0) 4)) (seq 0 (length c))).

(* one record per observed run *)
Record verdicts := mkV { v_accept : bool; v_c01 : bool; v_c02 : bool; v_c03 : bool; v_c04 : bool; v_infl : bool }.
Definition judge (c : config) (outs : list bool) (tr : list tev) (fin : list nat) (err : bool) : verdicts :=
  let a := elab c tr fin in
  mkV (accepts c tr fin err) (c01_mon c tr) (c02_mon c outs tr fin err) (c03_mon c tr fin) (a_c04 a) (a_infl a).
