
(** C02: every status is either unresolved or equals the declarative [Final] relation, which is
    functional on acyclic graphs: the end state does not depend on the schedule. *)
From Coq Require Import List Arith Bool Lia.
Import ListNotations.
From TaskctlV Require Import Model.Sched Proofs.SchedInv Proofs.SchedStep Proofs.SchedInv2 Proofs.SchedLive.

Section C02.
Variable c : config.
Variable out : nat -> bool.

Definition runnable_cond i := cond_of c i = CNone \/ cond_of c i = CTrue.
Definition wf_deps := SchedLive.wf_deps c.
Definition no_cond_err := forall i, cond_of c i <> CErr.

Inductive Final : nat -> status -> Prop :=
| FSkip i : cond_of c i = CFalse -> Final i Skipped
| FCanc i d : runnable_cond i -> In d (deps_of c i) -> (Final d Error \/ Final d Canceled) -> Final i Canceled
| FRun i : runnable_cond i -> (forall d, In d (deps_of c i) -> Final d Done \/ Final d Skipped) ->
           Final i (if out i || allow_of c i then Done else Error).

Lemma Final_Error_inv i : Final i Error -> allow_of c i = false /\ out i = false.
Proof.
  intros H. remember Error as x eqn:Ex.
  destruct H as [j Hc|j d Hr Hd Hf|j Hr Hall]; try discriminate.
  destruct (out j), (allow_of c j); cbn in Ex; try discriminate; auto.
Qed.

Definition resolved (s : state) (i : nat) : Prop :=
  match st s i with
  | Waiting => True
  | Running => runnable_cond i /\ (forall d, In d (deps_of c i) -> Final d Done \/ Final d Skipped)
  | Skipped => Final i Skipped
  | Done => Final i Done
  | Error => Final i Error \/ (In i (pend s) /\ Final i Done)
  | Canceled => Final i Canceled
  end.

Definition inv2 (s : state) : Prop := forall i, i < length c -> resolved s i.

Definition rets_follow (es : list event) := forall i ok, In (Ret i ok) es -> ok = out i.

Lemma resolved_other s s' j :
  st s' j = st s j -> (In j (pend s) -> In j (pend s')) -> resolved s j -> resolved s' j.
Proof.
  unfold resolved. intros -> Hp. destruct (st s j); auto. intros [H|[H1 H2]]; [left; assumption | right; split; auto].
Qed.

Theorem inv2_step s e s' :
  SchedLive.wf_deps c -> no_cond_err -> inv c s -> inv2 s -> step c s e = Some s' ->
  (forall i ok, e = Ret i ok -> ok = out i) -> inv2 s'.
Proof.
  intros Hwf Hnce I I2 H Hout. unfold step in H.
  destruct (fatal s); [discriminate|].
  destruct e as [i|i ok|i| |].
  - destruct (exited s); [discriminate|].
    destruct (negb (i <? length c)) eqn:Hlt; [discriminate|].
    apply negb_false_iff, Nat.ltb_lt in Hlt.
    destruct (st s i) eqn:Hst; try (injection H as <-; assumption).
    assert (Hnp : ~ In i (pend s)) by (intros Hin; apply (inv_pend _ _ I) in Hin; destruct Hin as (Hin & _); congruence).
    destruct (cond_of c i) eqn:Hc.
    4: { exfalso. apply (Hnce i). assumption. }
    3: { injection H as <-. intros j Hj. destruct (Nat.eq_dec j i) as [->|Hne].
         - unfold resolved; cbn. rewrite upd_same. constructor; assumption.
         - eapply resolved_other; [cbn; apply upd_other; assumption | cbn; auto | apply I2; assumption]. }
    all: assert (Hrun : runnable_cond i) by (unfold runnable_cond; rewrite Hc; auto).
    all: destruct (check c (st s) (deps_of c i) VReady) eqn:Hck; injection H as <-; try assumption.
    all: try (intros j Hj; apply (resolved_other s); [reflexivity | auto | apply I2; assumption]).
    all: intros j Hj; (destruct (Nat.eq_dec j i) as [->|Hne];
         [ unfold resolved; cbn; rewrite upd_same
         | eapply resolved_other; [cbn; apply upd_other; assumption | cbn; auto | apply I2; assumption] ]).
    (* VReady: Running *)
    1,3: split; [assumption|]; intros d Hd; apply check_ready in Hck; destruct Hck as [_ Hall];
         specialize (Hall d Hd); pose proof (I2 d (Hwf _ _ Hlt Hd)) as Rd; unfold resolved in Rd;
         destruct Hall as [Hs|[Hs|[Hs Ha]]]; rewrite Hs in Rd; auto;
         destruct Rd as [Rd|[_ Rd]]; [apply Final_Error_inv in Rd; destruct Rd; congruence | left; assumption].
    (* VCancel *)
    all: apply (check_cancel c) in Hck; destruct Hck as [Hck|(d & Hd & Hk)]; [discriminate|];
         pose proof (I2 d (Hwf _ _ Hlt Hd)) as Rd; unfold resolved in Rd;
         apply (FCanc i d); try assumption;
         destruct Hk as [[Hs Ha]|Hs]; rewrite Hs in Rd;
         [ destruct Rd as [Rd|[Rp _]]; [left; assumption | apply (inv_pend _ _ I) in Rp; destruct Rp as (_ & Rp & _); congruence]
         | right; assumption ].
  - destruct (negb (i <? length c)) eqn:Hlt; [discriminate|].
    apply negb_false_iff, Nat.ltb_lt in Hlt.
    destruct (st s i) eqn:Hst; try discriminate.
    pose proof (I2 i Hlt) as Ri. unfold resolved in Ri. rewrite Hst in Ri. destruct Ri as [Hrun Hdeps].
    pose proof (FRun i Hrun Hdeps) as HF.
    specialize (Hout i ok eq_refl). subst ok.
    destruct (out i) eqn:Ho; [|destruct (allow_of c i) eqn:Ha]; injection H as <-; cbn in HF.
    all: intros j Hj; (destruct (Nat.eq_dec j i) as [->|Hne];
         [ unfold resolved; cbn; rewrite upd_same
         | eapply resolved_other; [cbn; apply upd_other; assumption | cbn; auto | apply I2; assumption] ]).
    + assumption.
    + right. split; [left; reflexivity | assumption].
    + left. assumption.
  - destruct (existsb (Nat.eqb i) (pend s)) eqn:Hp; [|discriminate]. injection H as <-.
    apply existsb_exists in Hp. destruct Hp as (i' & Hin & He). apply Nat.eqb_eq in He. subst i'.
    destruct (inv_pend _ _ I _ Hin) as (Hst & Ha & _).
    intros j Hj. destruct (Nat.eq_dec j i) as [->|Hne].
    + unfold resolved; cbn. rewrite upd_same.
      pose proof (I2 i Hj) as Ri. unfold resolved in Ri. rewrite Hst in Ri.
      destruct Ri as [Ri|[_ Ri]]; [apply Final_Error_inv in Ri; destruct Ri; congruence | assumption].
    + eapply resolved_other; [cbn; apply upd_other; assumption | | apply I2; assumption].
      cbn. intros Hjp. apply filter_In. split; [assumption|]. apply negb_true_iff, Nat.eqb_neq. auto.
  - injection H as <-. intros j Hj. apply (resolved_other s); [reflexivity | auto | apply I2; assumption].
  - destruct (exited s); [discriminate|]. destruct (cancelled s || all_settled c (st s)); [|discriminate].
    injection H as <-. intros j Hj. apply (resolved_other s); [reflexivity | auto | apply I2; assumption].
Qed.

(* functionality of Final on acyclic graphs *)
Definition acyclic := exists rank : nat -> nat, forall i d, In d (deps_of c i) -> rank d < rank i.

Lemma Final_functional : acyclic -> forall i a b, Final i a -> Final i b -> a = b.
Proof.
  intros (rank & Hrank).
  assert (H : forall n i, rank i < n -> forall a b, Final i a -> Final i b -> a = b).
  { induction n as [|n IH]; intros i Hn a b Ha Hb; [lia|].
    assert (IH' : forall d, In d (deps_of c i) -> forall x y, Final d x -> Final d y -> x = y).
    { intros d Hd. apply IH. specialize (Hrank i d Hd). lia. }
    inversion Ha as [j Hc|j d Hr Hd Hf|j Hr Hall]; subst;
    inversion Hb as [j' Hc'|j' d' Hr' Hd' Hf'|j' Hr' Hall']; subst; try reflexivity.
    all: try (destruct Hr as [Hr|Hr]; congruence).
    all: try (destruct Hr' as [Hr'|Hr']; congruence).
    - exfalso. destruct (Hall' d Hd) as [X|X]; destruct Hf as [Y|Y]; pose proof (IH' d Hd _ _ X Y); discriminate.
    - exfalso. destruct (Hall d' Hd') as [X|X]; destruct Hf' as [Y|Y]; pose proof (IH' d' Hd' _ _ X Y); discriminate. }
  intros i a b. apply (H (S (rank i))). lia.
Qed.

End C02.



(* ---------- lifting to complete runs ---------- *)
Section C02b.
Variable c : config.
Variable out : nat -> bool.

Lemma inv2_init : inv2 c out init.
Proof. intros i _. exact I. Qed.

Lemma inv2_run es : forall s s',
  SchedLive.wf_deps c -> no_cond_err c -> (forall i ok, In (Ret i ok) es -> ok = out i) ->
  inv c s -> inv2 c out s -> run c s es = Some s' -> inv c s' /\ inv2 c out s'.
Proof.
  induction es as [|e es IH]; intros s s' Hwf Hnc Hout I I2 H; cbn in H.
  - injection H as <-. split; assumption.
  - destruct (step c s e) as [s1|] eqn:E; [|discriminate].
    apply (IH s1 s' Hwf Hnc).
    + intros i ok Hin. apply Hout. right. assumption.
    + exact (inv_step c s e s1 I E).
    + apply (inv2_step c out s e s1 Hwf Hnc I I2 E). intros i ok ->. apply Hout. left. reflexivity.
    + assumption.
Qed.

(* when Schedule has returned without having been cancelled, every stage carries its declarative final status *)
Theorem final_at_return es s :
  SchedLive.wf_deps c -> no_cond_err c -> (forall i ok, In (Ret i ok) es -> ok = out i) ->
  exec c es s -> exited s = true -> pend s = [] -> cancelled s = false ->
  forall i, i < length c -> Final c out i (st s i).
Proof.
  intros Hwf Hnc Hout Hex Hx Hp Hc i Hi.
  destruct (inv2_run es init s Hwf Hnc Hout (inv_init c) inv2_init Hex) as (I & I2).
  destruct (exec_inv _ _ _ Hex) as (_ & B).
  pose proof (ib_exit _ _ B Hx Hc i Hi) as Hs.
  pose proof (I2 i Hi) as Hr. unfold resolved in Hr.
  destruct (st s i) eqn:Hst; cbn in Hs; try discriminate; try assumption.
  destruct Hr as [Hr|[Hr _]]; [assumption | rewrite Hp in Hr; destruct Hr].
Qed.

(* timing independence: two complete, uncancelled runs of one pipeline with the same task outcomes end alike *)
Theorem same_final_statuses es1 s1 es2 s2 :
  acyclic c -> SchedLive.wf_deps c -> no_cond_err c ->
  (forall i ok, In (Ret i ok) es1 -> ok = out i) -> (forall i ok, In (Ret i ok) es2 -> ok = out i) ->
  exec c es1 s1 -> exited s1 = true -> pend s1 = [] -> cancelled s1 = false ->
  exec c es2 s2 -> exited s2 = true -> pend s2 = [] -> cancelled s2 = false ->
  forall i, i < length c -> st s1 i = st s2 i.
Proof.
  intros Ha Hwf Hnc Ho1 Ho2 E1 X1 P1 C1 E2 X2 P2 C2 i Hi.
  apply (Final_functional c out Ha i).
  - exact (final_at_return es1 s1 Hwf Hnc Ho1 E1 X1 P1 C1 i Hi).
  - exact (final_at_return es2 s2 Hwf Hnc Ho2 E2 X2 P2 C2 i Hi).
Qed.

(* ---------- the error flag ---------- *)
Record invG (s : state) : Prop := {
  ig_gerr : gerr s = true -> exists i, i < length c /\ st s i = Error /\ allow_of c i = false;
  ig_hard : forall i, In (ORet i false) (log s) -> allow_of c i = false -> gerr s = true /\ st s i = Error;
  ig_soft : forall i, st s i = Error -> allow_of c i = true -> cond_of c i <> CErr -> In i (pend s);
  ig_cerr : forall i, st s i = Error -> cond_of c i = CErr -> allow_of c i = false -> gerr s = true
}.

Lemma invG_init : invG init.
Proof. constructor; cbn; intros; try discriminate; contradiction. Qed.

Lemma invG_step s e s' : inv c s -> invB c s -> invG s -> step c s e = Some s' -> invG s'.
Proof.
  intros I B G H. apply step_Step in H.
  destruct H as [i Hf Hx Hi Hidle | i Hf Hx Hi Hst Hc | i Hf Hx Hi Hst Hc
                | i Hf Hx Hi Hst Hc1 Hc2 Hck | i Hf Hx Hi Hst Hc1 Hc2 Hck | i Hf Hx Hi Hst Hc1 Hc2 Hck
                | i Hf Hi Hst | i Hf Hi Hst Ha | i Hf Hi Hst Ha | i Hf Hp | Hf | Hf Hx Hex].
  - assumption.
  - (* the condition cannot be evaluated: Error, and the run's error unless the stage allows failure *)
    constructor; cbn [st log pend gerr].
    + intros Hg. apply orb_true_iff in Hg. destruct Hg as [Hg|Hg].
      * destruct (ig_gerr _ G Hg) as (j & Hj & Hs & Ha). exists j. repeat split; try assumption. updc; [congruence | assumption].
      * apply negb_true_iff in Hg. exists i. repeat split; try assumption. apply upd_same.
    + intros j Hl Ha. destruct (ig_hard _ G j Hl Ha) as (Hg & Hs). split; [rewrite Hg; reflexivity|]. updc; [reflexivity | assumption].
    + intros j Hs Ha Hc'. updc; [contradiction | apply (ig_soft _ G); assumption].
    + intros j Hs Hc' Ha. updc; [rewrite Ha; apply orb_true_r | rewrite (ig_cerr _ G j Hs Hc' Ha); reflexivity].
  - constructor; cbn [st log pend gerr].
    + intros Hg. destruct (ig_gerr _ G Hg) as (j & Hj & Hs & Ha). exists j. repeat split; try assumption. updc; [congruence | assumption].
    + intros j Hl Ha. destruct (ig_hard _ G j Hl Ha) as (Hg & Hs). split; [assumption|]. updc; [congruence | assumption].
    + intros j Hs Ha Hc'. updc; [discriminate | apply (ig_soft _ G); assumption].
    + intros j Hs Hc' Ha. updc; [discriminate | apply (ig_cerr _ G j); assumption].
  - destruct G; constructor; cbn [st log pend gerr]; assumption.
  - constructor; cbn [st log pend gerr].
    + intros Hg. destruct (ig_gerr _ G Hg) as (j & Hj & Hs & Ha). exists j. repeat split; try assumption. updc; [congruence | assumption].
    + intros j Hl Ha. destruct (ig_hard _ G j Hl Ha) as (Hg & Hs). split; [assumption|]. updc; [congruence | assumption].
    + intros j Hs Ha Hc'. updc; [discriminate | apply (ig_soft _ G); assumption].
    + intros j Hs Hc' Ha. updc; [discriminate | apply (ig_cerr _ G j); assumption].
  - constructor; cbn [st log pend gerr].
    + intros Hg. destruct (ig_gerr _ G Hg) as (j & Hj & Hs & Ha). exists j. repeat split; try assumption. updc; [congruence | assumption].
    + intros j [Hl|Hl] Ha; [discriminate|]. destruct (ig_hard _ G j Hl Ha) as (Hg & Hs). split; [assumption|]. updc; [congruence | assumption].
    + intros j Hs Ha Hc'. updc; [discriminate | apply (ig_soft _ G); assumption].
    + intros j Hs Hc' Ha. updc; [discriminate | apply (ig_cerr _ G j); assumption].
  - (* ret ok *)
    constructor; cbn [st log pend gerr].
    + intros Hg. destruct (ig_gerr _ G Hg) as (j & Hj & Hs & Ha). exists j. repeat split; try assumption. updc; [congruence | assumption].
    + intros j [Hl|Hl] Ha; [discriminate|]. destruct (ig_hard _ G j Hl Ha) as (Hg & Hs). split; [assumption|]. updc; [congruence | assumption].
    + intros j Hs Ha Hc'. updc; [discriminate | apply (ig_soft _ G); assumption].
    + intros j Hs Hc' Ha. updc; [discriminate | apply (ig_cerr _ G j); assumption].
  - (* ret allowed *)
    constructor; cbn [st log pend gerr].
    + intros Hg. destruct (ig_gerr _ G Hg) as (j & Hj & Hs & Ha'). exists j. repeat split; try assumption. updc; [congruence | assumption].
    + intros j [Hl|Hl] Ha'; [injection Hl as <-; congruence|]. destruct (ig_hard _ G j Hl Ha') as (Hg & Hs). split; [assumption|]. updc; [reflexivity | assumption].
    + intros j Hs Ha' Hc'. updc; [left; reflexivity | right; apply (ig_soft _ G); assumption].
    + intros j Hs Hc' Ha'. updc; [congruence | apply (ig_cerr _ G j); assumption].
  - (* ret hard *)
    constructor; cbn [st log pend gerr].
    + intros _. exists i. repeat split; try assumption. rewrite upd_same; reflexivity.
    + intros j [Hl|Hl] Ha'; [injection Hl as <-; split; [reflexivity | rewrite upd_same; reflexivity]|].
      destruct (ig_hard _ G j Hl Ha') as (Hg & Hs). split; [reflexivity|]. updc; [reflexivity | assumption].
    + intros j Hs Ha' Hc'. updc; [congruence | apply (ig_soft _ G); assumption].
    + intros j Hs Hc' Ha'. reflexivity.
  - (* fin *)
    destruct (inv_pend _ _ I _ Hp) as (Hst & Ha & Hlog).
    constructor; cbn [st log pend gerr].
    + intros Hg. destruct (ig_gerr _ G Hg) as (j & Hj & Hs & Ha'). exists j. repeat split; try assumption. updc; [congruence | assumption].
    + intros j Hl Ha'. destruct (ig_hard _ G j Hl Ha') as (Hg & Hs). split; [assumption|]. updc; [congruence | assumption].
    + intros j Hs Ha' Hc'. updc; [discriminate|]. apply filter_In. split; [apply (ig_soft _ G); assumption|].
      apply negb_true_iff, Nat.eqb_neq. auto.
    + intros j Hs Hc' Ha'. updc; [discriminate | apply (ig_cerr _ G j); assumption].
  - destruct G; constructor; cbn [st log pend gerr]; assumption.
  - destruct G; constructor; cbn [st log pend gerr]; assumption.
Qed.

Lemma exec_invG es s : exec c es s -> invG s.
Proof.
  intros H.
  assert (X : inv c s /\ invB c s /\ invG s).
  { revert H. unfold exec.
    apply (run_ind_inv c (fun s => inv c s /\ invB c s /\ invG s)).
    - intros s0 e s1 (I & B & G) E. split; [exact (inv_step c s0 e s1 I E)|]. split; [exact (invB_step c s0 e s1 I B E) | exact (invG_step s0 e s1 I B G E)].
    - split; [apply inv_init|]. split; [apply invB_init | apply invG_init]. }
  apply X.
Qed.

(* the run reports an error exactly when some stage that does not allow failure ended in Error - because its task failed or
   because its condition could not be evaluated (no hypothesis on the conditions any more: repair F18) *)
Theorem error_iff_some_stage_failed es s :
  exec c es s -> pend s = [] ->
  (gerr s = true <-> exists i, i < length c /\ st s i = Error /\ allow_of c i = false).
Proof.
  intros Hex Hp. pose proof (exec_invG es s Hex) as G. destruct (exec_inv _ _ _ Hex) as (I & B). split.
  - intros Hg. exact (ig_gerr _ G Hg).
  - intros (i & Hi & Hs & Ha). destruct (inv_err _ _ I i Hs) as [Hl|Hc].
    + apply (ig_hard _ G i Hl Ha).
    + exact (ig_cerr _ G i Hs Hc Ha).
Qed.

(* ... and with conditions that can all be evaluated, a stage that allows failure never stays in Error: any Error is reported *)
Corollary error_iff_some_stage_in_error es s :
  no_cond_err c -> exec c es s -> pend s = [] ->
  (gerr s = true <-> exists i, i < length c /\ st s i = Error).
Proof.
  intros Hnc Hex Hp. rewrite (error_iff_some_stage_failed es s Hex Hp). split.
  - intros (i & Hi & Hs & _). exists i. split; assumption.
  - intros (i & Hi & Hs). exists i. repeat split; try assumption.
    destruct (allow_of c i) eqn:Ha; [|reflexivity]. exfalso.
    pose proof (ig_soft _ (exec_invG es s Hex) i Hs Ha (Hnc i)) as Hin. rewrite Hp in Hin. destruct Hin.
Qed.

(* which stages ran *)
Theorem ran_iff_done_or_error es s :
  no_cond_err c -> exec c es s -> exited s = true -> cancelled s = false ->
  forall i, i < length c -> (In (OStart i) (log s) <-> (st s i = Done \/ st s i = Error)).
Proof.
  intros Hnc Hex Hx Hc i Hi. destruct (exec_inv _ _ _ Hex) as (I & B). split.
  - intros Hin. destruct (ib_started _ _ B i Hin) as (_ & [Hs|Hs]); [|assumption].
    pose proof (ib_exit _ _ B Hx Hc i Hi) as Hse. rewrite Hs in Hse. discriminate.
  - intros Hs. destruct (ib_doneerr _ _ B i Hs) as [Hin|Hce]; [assumption | exfalso; apply (Hnc i); assumption].
Qed.

(* ---------- exactly the dependants of a hard failure are cancelled ---------- *)
Inductive blocking_path : nat -> nat -> Prop :=
| bp_one f i : In f (deps_of c i) -> blocking_path f i
| bp_step f m i : blocking_path f m -> runnable_cond c m -> In m (deps_of c i) -> blocking_path f i.

Lemma canceled_if_blocked f i : blocking_path f i -> Final c out f Error -> runnable_cond c i -> Final c out i Canceled.
Proof.
  induction 1 as [f i Hd | f m i Hp IH Hm Hd]; intros Hf Hr.
  - apply (FCanc c out i f); [assumption | assumption | left; assumption].
  - apply (FCanc c out i m); [assumption | assumption | right; apply IH; assumption].
Qed.

Lemma canceled_only_if_blocked : acyclic c ->
  forall i, Final c out i Canceled -> runnable_cond c i /\ exists f, Final c out f Error /\ blocking_path f i.
Proof.
  intros (rank & Hrank).
  assert (H : forall n i, rank i < n -> Final c out i Canceled -> runnable_cond c i /\ exists f, Final c out f Error /\ blocking_path f i).
  { induction n as [|n IH]; intros i Hn Hf; [lia|].
    inversion Hf as [j Hc|j d Hr Hd Hfd|j Hr Hall Heq]; subst.
    - split; [assumption|]. destruct Hfd as [He|Hcn].
      + exists d. split; [assumption | apply bp_one; assumption].
      + destruct (IH d) as (Hrd & f & Hfe & Hp); [specialize (Hrank i d Hd); lia | assumption|].
        exists f. split; [assumption | eapply bp_step; eassumption].
    - exfalso. destruct (out i || allow_of c i); discriminate. }
  intros i. apply (H (S (rank i))). lia.
Qed.

Theorem canceled_iff_blocked : acyclic c -> forall i,
  Final c out i Canceled <-> (runnable_cond c i /\ exists f, Final c out f Error /\ blocking_path f i).
Proof.
  intros Ha i. split; [apply canceled_only_if_blocked; assumption|].
  intros (Hr & f & Hf & Hp). eapply canceled_if_blocked; eassumption.
Qed.

(* a failure that is allowed, and a stage skipped by its condition, never end in Error: they block nothing *)
Theorem soft_outcomes_are_not_errors i x : Final c out i x -> (allow_of c i = true \/ cond_of c i = CFalse) -> x <> Error.
Proof.
  intros Hf Hs ->. pose proof (Final_Error_inv c out i Hf) as (Ha & _).
  destruct Hs as [Hs|Hs]; [congruence|].
  inversion Hf as [j Hc|j d Hr Hd Hfd|j Hr Hall Heq]; subst.
  destruct Hr as [Hr|Hr]; congruence.
Qed.

End C02b.

Lemma acyclic_cfg_equiv c : acyclic_cfg c <-> acyclic c.
Proof.
  split; intros (rank & H); exists rank.
  - intros i d Hd. destruct (le_lt_dec (length c) i) as [Hle|Hlt]; [|apply H; assumption].
    unfold deps_of, stage_of in Hd. rewrite nth_overflow in Hd by assumption. destruct Hd.
  - intros i d _ Hd. apply H. assumption.
Qed.
