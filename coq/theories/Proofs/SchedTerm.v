(** Termination of a pipeline run, as a theorem about rounds (C03).
    A ROUND is any stretch of the execution that contains one visit of every stage (a full pass of the polling loop, in any
    order, with anything interleaved) and at whose end no task is running: this is what fairness of the Go scheduler and
    termination of the commands give.  On an accepted (acyclic, no dangling dependency) pipeline the number of Waiting stages
    strictly decreases with every round that starts with something Waiting; after at most [length c] rounds nothing is
    Waiting or Running, the loop's exit is enabled, and Schedule returns. *)
From Coq Require Import List Arith Bool Lia.
Import ListNotations.
From TaskctlV Require Import Model.Sched Proofs.SchedInv Proofs.SchedStep Proofs.SchedLive.

Definition is_waiting (x : status) : bool := match x with Waiting => true | _ => false end.
Definition nwaiting (c : config) (s : state) : nat := length (filter (fun i => is_waiting (st s i)) (seq 0 (length c))).

Lemma filter_length_mono {A} (p q : A -> bool) l : (forall x, In x l -> p x = true -> q x = true) ->
  length (filter p l) <= length (filter q l).
Proof.
  induction l as [|x l IH]; intros H; cbn [filter]; [lia|].
  assert (IH' := IH (fun y Hy => H y (or_intror Hy))).
  destruct (p x) eqn:Ep; [rewrite (H x (or_introl eq_refl) Ep); cbn; lia|]. destruct (q x); cbn; lia.
Qed.
Lemma filter_length_strict {A} (p q : A -> bool) l x : (forall y, In y l -> p y = true -> q y = true) ->
  In x l -> p x = false -> q x = true -> length (filter p l) < length (filter q l).
Proof.
  induction l as [|y l IH]; intros H Hin Hp Hq; [destruct Hin|]. cbn [filter].
  destruct Hin as [->|Hin].
  - rewrite Hp, Hq. cbn. pose proof (filter_length_mono p q l (fun z Hz => H z (or_intror Hz))). lia.
  - specialize (IH (fun z Hz => H z (or_intror Hz)) Hin Hp Hq).
    destruct (p y) eqn:Ep; [rewrite (H y (or_introl eq_refl) Ep); cbn; lia|]. destruct (q y); cbn; lia.
Qed.

Lemma nwaiting_decreases c s s' :
  (forall j, st s' j = Waiting -> st s j = Waiting) -> (exists i, i < length c /\ st s i = Waiting /\ st s' i <> Waiting) ->
  nwaiting c s' < nwaiting c s.
Proof.
  intros Hback (i & Hi & Hw & Hn). unfold nwaiting.
  apply (filter_length_strict _ _ _ i).
  - intros y _ Hy. destruct (st s' y) eqn:E; try discriminate. now rewrite (Hback y E).
  - apply in_seq. lia.
  - destruct (st s' i); try reflexivity. contradiction.
  - now rewrite Hw.
Qed.

Lemma nwaiting_zero c s : nwaiting c s = 0 -> forall i, i < length c -> st s i <> Waiting.
Proof.
  unfold nwaiting. intros H i Hi Hw.
  assert (Hin: In i (filter (fun i => is_waiting (st s i)) (seq 0 (length c)))) by (apply filter_In; split; [apply in_seq; lia|now rewrite Hw]).
  destruct (filter _ _); [destruct Hin|discriminate].
Qed.

(* one round from s to s' *)
Definition round (c : config) (s : state) (es : list event) (s' : state) : Prop :=
  run c s es = Some s' /\ (forall i, i < length c -> In (Visit i) es) /\ (forall i, i < length c -> st s' i <> Running).

Inductive rounds (c : config) : state -> nat -> state -> Prop :=
| rounds_0 s : rounds c s 0 s
| rounds_S s es s1 n s2 : round c s es s1 -> rounds c s1 n s2 -> rounds c s (S n) s2.

Lemma exec_app c es0 s es s' : exec c es0 s -> run c s es = Some s' -> exec c (es0 ++ es) s'.
Proof. unfold exec. intros H1 H2. eapply run_app; eauto. Qed.

Theorem rounds_exhaust_waiting c : acyclic_cfg c -> wf_deps c ->
  forall n es0 s s', exec c es0 s -> (forall i, i < length c -> st s i <> Running) ->
  rounds c s n s' -> nwaiting c s <= n -> nwaiting c s' = 0.
Proof.
  intros Ha Hw. induction n as [|n IH]; intros es0 s s' Hex Hnr Hr Hle.
  - inversion Hr; subst. lia.
  - inversion Hr as [|? es s1 ? ? Hround Hrest]; subst. destruct Hround as (Hrun & Hfull & Hnr1).
    destruct (Nat.eq_dec (nwaiting c s) 0) as [Hz|Hnz].
    + (* nothing waits: nothing can start to wait *)
      assert (nwaiting c s1 = 0).
      { assert (Hback: forall j, st s1 j = Waiting -> st s j = Waiting) by (intros j; eapply run_waiting_back; eassumption).
        unfold nwaiting in *. destruct (filter (fun i => is_waiting (st s1 i)) (seq 0 (length c))) as [|x l] eqn:E; [reflexivity|].
        exfalso. assert (Hx: In x (x :: l)) by now left. rewrite <- E in Hx. apply filter_In in Hx. destruct Hx as (Hx1 & Hx2).
        destruct (st s1 x) eqn:Es; try discriminate. apply in_seq in Hx1.
        exact (nwaiting_zero c s Hz x ltac:(lia) (Hback x Es)). }
      eapply (IH (es0 ++ es) s1 s'); eauto using exec_app. lia.
    + assert (Hsome: exists i, i < length c /\ st s i = Waiting).
      { unfold nwaiting in Hnz. destruct (filter (fun i => is_waiting (st s i)) (seq 0 (length c))) as [|x l] eqn:E; [contradiction|].
        assert (Hx: In x (x :: l)) by now left. rewrite <- E in Hx. apply filter_In in Hx. destruct Hx as (Hx1 & Hx2). apply in_seq in Hx1.
        exists x. split; [lia|]. destruct (st s x); try discriminate. reflexivity. }
      destruct (full_pass_makes_progress c es0 s Ha Hw Hex Hnr Hsome es s1 Hrun Hfull) as (Hback & Hprog).
      pose proof (nwaiting_decreases c s s1 Hback Hprog).
      eapply (IH (es0 ++ es) s1 s'); eauto using exec_app. lia.
Qed.

(* after at most [length c] rounds nothing waits or runs; if the allowed failures have finished too, the loop can leave *)
Theorem terminates_within_rounds c : acyclic_cfg c -> wf_deps c ->
  forall es0 s s', exec c es0 s -> (forall i, i < length c -> st s i <> Running) ->
  rounds c s (length c) s' -> (forall i, i < length c -> st s' i <> Running) -> fatal s' = false -> exited s' = false ->
  all_settled c (st s') = true /\ exists s'', step c s' Exit = Some s''.
Proof.
  intros Ha Hw es0 s s' Hex Hnr Hr Hnr' Hf Hx.
  assert (Hle: nwaiting c s <= length c).
  { unfold nwaiting. rewrite <- (seq_length (length c) 0) at 2.
    generalize (seq 0 (length c)). intros l. induction l as [|x l IHl]; cbn [filter length]; [lia|]. destruct (is_waiting (st s x)); cbn [length]; lia. }
  pose proof (rounds_exhaust_waiting c Ha Hw (length c) es0 s s' Hex Hnr Hr Hle) as Hz.
  assert (Hall: all_settled c (st s') = true).
  { unfold all_settled. apply forallb_forall. intros i Hi. apply in_seq in Hi.
    pose proof (nwaiting_zero c s' Hz i ltac:(lia)) as H1. pose proof (Hnr' i ltac:(lia)) as H2.
    destruct (st s' i); try reflexivity; contradiction. }
  split; [exact Hall|]. now apply settled_can_exit.
Qed.
