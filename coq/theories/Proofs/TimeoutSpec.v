(** Lemmas about Model/Timeout.v (C13). *)
From Coq Require Import List Arith NArith ZArith Bool Lia.
Import ListNotations.
From TaskctlV Require Import Model.TaskRun Model.Timeout Proofs.TaskRunSpec.

Lemma timed_fatal_iff T c : timed_res (Some T) c = Fatal <-> (T < d_dur c)%N.
Proof.
  unfold timed_res. destruct (T <? d_dur c)%N eqn:E.
  - apply N.ltb_lt in E. split; auto.
  - apply N.ltb_ge in E. split; [discriminate|]. intros H. exfalso. apply (N.lt_irrefl T). eapply N.lt_le_trans; eauto.
Qed.

Lemma timed_within T c : (d_dur c <= T)%N -> timed_res (Some T) c = timed_res None c.
Proof. intros H. unfold timed_res. apply N.ltb_ge in H. now rewrite H. Qed.

Lemma fatal_stops allow j : job_res j = Fatal -> stops allow j = true.
Proof. unfold stops. now intros ->. Qed.

Lemma first_index_at {A} (P : A -> bool) l : forall p j, first_index P (firstn p l) = None -> nth_error l p = Some j -> P j = true ->
  first_index P l = Some p.
Proof.
  induction l as [|x l IH]; intros p j Hf Hn Hp; [destruct p; discriminate|].
  destruct p as [|p]; cbn in *.
  - injection Hn as ->. now rewrite Hp.
  - destruct (P x); [discriminate|]. destruct (first_index P (firstn p l)) eqn:E; [discriminate|].
    now rewrite (IH p j E Hn Hp).
Qed.

(* a command still running when the timeout expires: the task is reported failed - also when it allows failure - and
   nothing after that command starts (no later command, no after hook) *)
Theorem overrun_fails t p j : let tk := to_task t in
  cond_passes tk -> first_index before_fails_b (t_before tk) = None ->
  first_index (stops (t_allow tk)) (firstn p (jobs tk)) = None ->          (* the p-th job is reached *)
  nth_error (jobs tk) p = Some j -> job_res j = Fatal ->                   (* ... and it overruns *)
  o_err (run_task tk) = true /\ o_errored (run_task tk) = true /\ o_stored (run_task tk) = false /\
  o_trace (run_task tk) = cond_tok tk ++ before_toks 0 (t_before tk) (length (t_before tk)) ++ flat_map job_tok (firstn (S p) (jobs tk)).
Proof.
  intros tk Hc Hb Hf Hn Hj.
  assert (Hp: first_index (stops (t_allow tk)) (jobs tk) = Some p) by (eapply first_index_at; eauto using fatal_stops).
  destruct (stops_at_first_failure tk p Hc Hb Hp) as (Ht & He & Hed & _ & Hs & _). auto.
Qed.

(* commands that finish within the timeout are unaffected: the timed task behaves exactly as the same task without timeout *)
Theorem within_unaffected t T : tt_timeout t = Some T -> (forall c, In c (all_cmds t) -> (d_dur c <= T)%N) ->
  run_task (to_task t) = run_task (to_task (untimed t)).
Proof.
  intros HT Hall. f_equal. unfold to_task, untimed. cbn [tt_timeout tt_cond tt_before tt_jobs tt_after tt_allow]. rewrite HT.
  assert (Hin: forall c, In c (all_cmds t) -> timed_res (Some T) c = timed_res None c) by (intros c Hc; apply timed_within; auto).
  unfold all_cmds in Hin. f_equal.
  - destruct (tt_cond t) as [c|]; [|reflexivity]. cbn. f_equal. apply Hin. now left.
  - apply map_ext_in. intros c Hc. apply Hin. apply in_or_app. right. apply in_or_app. now left.
  - apply map_ext_in. intros l Hl. apply map_ext_in. intros c Hc. f_equal. apply Hin.
    apply in_or_app. right. apply in_or_app. right. apply in_or_app. left. apply in_concat. eauto.
  - apply map_ext_in. intros c Hc. apply Hin. apply in_or_app. right. apply in_or_app. right. apply in_or_app. now right.
Qed.

(* an overrunning after hook is merely cut short: whatever the durations of the after hooks, the task is not failed
   and every after hook is started *)
Theorem after_cut_short t : let tk := to_task t in
  cond_passes tk -> first_index before_fails_b (t_before tk) = None -> first_index (stops (t_allow tk)) (jobs tk) = None ->
  o_err (run_task tk) = false /\ o_errored (run_task tk) = false /\
  o_trace (run_task tk) = cond_tok tk ++ before_toks 0 (t_before tk) (length (t_before tk)) ++ flat_map job_tok (jobs tk)
                          ++ map TAfter (seq 0 (length (tt_after t))).
Proof.
  intros tk Hc Hb Hj. rewrite (runs_everything tk Hc Hb Hj). cbn [o_err o_errored o_trace]. repeat split.
  unfold run_after, tk, to_task. cbn [t_after]. now rewrite map_length.
Qed.
