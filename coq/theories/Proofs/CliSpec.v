From Coq Require Import List Arith Bool Lia.
Import ListNotations.
From TaskctlV Require Import Model.Cli.

Theorem run_targets_prefix ok targets :
  ran (run_targets ok targets) = match first_failed ok targets with Some k => firstn (S k) targets | None => targets end.
Proof.
  induction targets as [|t ts IH]; cbn; [reflexivity|].
  destruct (ok t); cbn; [|reflexivity].
  rewrite IH. destruct (first_failed ok ts); reflexivity.
Qed.

Theorem exit_zero_iff_all_ok ok targets : exit_status (run_targets ok targets) = 0 <-> forallb ok targets = true.
Proof.
  induction targets as [|t ts IH]; cbn; [split; reflexivity|].
  destruct (ok t); cbn; [assumption | split; discriminate].
Qed.

(* the split of the argument vector at the first "--" *)
Theorem argv_split argv :
  (forall w, In w (targets_of argv) -> is_dash w = false) /\
  (argv = targets_of argv ++ (if existsb is_dash argv then 0 :: task_args argv else [])).
Proof.
  induction argv as [|w ws (IH1 & IH2)]; cbn; [split; [intros ? [] | reflexivity]|].
  destruct (is_dash w) eqn:E; cbn.
  - split; [intros ? []|]. unfold is_dash in E. apply Nat.eqb_eq in E. subst. reflexivity.
  - split; [intros x [<-|H]; [assumption | apply IH1; assumption]|]. f_equal. assumption.
Qed.

Theorem task_args_no_dash argv : existsb is_dash argv = false -> task_args argv = [].
Proof.
  induction argv as [|w ws IH]; cbn; [reflexivity|].
  destruct (is_dash w); cbn; [discriminate | assumption].
Qed.

(* ---- targets that may leave the runner cancelled ---- *)
Theorem run_targets_e_prefix eff targets : exists rest, targets = ran_e (run_targets_e eff targets) ++ rest.
Proof.
  induction targets as [|t ts (rest & IH)]; cbn [run_targets_e]; [exists []; reflexivity|].
  destruct (eff t); cbn [ran_e].
  - exists rest. cbn [app]. f_equal. exact IH.
  - exists ts. reflexivity.
  - destruct ts; cbn [ran_e]; [exists []; reflexivity | eexists; reflexivity].
Qed.

(* exit status zero exactly when every requested target ran and none of them failed *)
Theorem exit_e_zero_iff eff targets :
  exit_e (run_targets_e eff targets) = 0 <->
  (ran_e (run_targets_e eff targets) = targets /\ forallb (fun t => match eff t with EFail => false | _ => true end) targets = true).
Proof.
  induction targets as [|t ts IH]; cbn [run_targets_e forallb]; [cbn; tauto|].
  destruct (eff t) eqn:E; cbn [ran_e exit_e].
  - rewrite IH. cbn [andb]. split.
    + intros (Hr & Hf). split; [f_equal; exact Hr | exact Hf].
    + intros (Hr & Hf). injection Hr as Hr. split; assumption.
  - split; [discriminate | intros (_ & H); discriminate].
  - destruct ts as [|u ts']; cbn [ran_e exit_e forallb andb].
    + split; [intros _; split; reflexivity | reflexivity].
    + split; [discriminate | intros (Hr & _); discriminate].
Qed.

(* a refused target is the one right after a target that left the runner cancelled, and the process fails *)
Theorem refused_e_spec eff targets u : refused_e (run_targets_e eff targets) = Some u ->
  exit_e (run_targets_e eff targets) = 1 /\
  exists pre t post, targets = pre ++ t :: u :: post /\ eff t = ECancelOk /\ ran_e (run_targets_e eff targets) = pre ++ [t].
Proof.
  induction targets as [|t ts IH]; cbn [run_targets_e]; [discriminate|].
  destruct (eff t) eqn:E; cbn [refused_e exit_e ran_e].
  - intros H. destruct (IH H) as (Hx & pre & t' & post & Ht & He & Hr). split; [exact Hx|].
    exists (t :: pre), t', post. repeat split; [rewrite Ht; reflexivity | exact He | rewrite Hr; reflexivity].
  - discriminate.
  - destruct ts as [|v ts']; cbn [refused_e exit_e ran_e]; [discriminate|].
    intros H. injection H as <-. split; [reflexivity|]. exists [], t, ts'. repeat split; assumption.
Qed.

(* without such targets this is the plain loop *)
Theorem run_targets_e_plain eff targets : (forall t, In t targets -> eff t <> ECancelOk) ->
  let r := run_targets (fun t => match eff t with EOk => true | _ => false end) targets in
  ran_e (run_targets_e eff targets) = ran r /\ exit_e (run_targets_e eff targets) = exit_status r /\ refused_e (run_targets_e eff targets) = None.
Proof.
  induction targets as [|t ts IH]; intros H; cbn [run_targets_e run_targets]; [repeat split|].
  destruct (eff t) eqn:E; cbn [ran_e exit_e refused_e ran exit_status].
  - destruct (IH (fun x Hx => H x (or_intror Hx))) as (H1 & H2 & H3). rewrite H1, H2, H3. repeat split.
  - repeat split.
  - exfalso. exact (H t (or_introl eq_refl) E).
Qed.
