From Coq Require Import List Arith Bool Lia.
Import ListNotations.
From TaskctlV Require Import Model.Cli.

Theorem run_targets_prefix ok targets :
  ran (run_targets ok targets) = match first_failed ok targets with Some k => firstn (S k) targets | None => targets end.
Proof.
  induction targets as [|t ts IH]; cbn; [reflexivity|].
  destruct (ok t); cbn; [|reflexivity].
  rewrite IH. destruct (first_failed ok ts); reflexivity.
Qed.

Theorem exit_zero_iff_all_ok ok targets : exit_status (run_targets ok targets) = 0 <-> forallb ok targets = true.
Proof.
  induction targets as [|t ts IH]; cbn; [split; reflexivity|].
  destruct (ok t); cbn; [assumption | split; discriminate].
Qed.

(* the split of the argument vector at the first "--" *)
Theorem argv_split argv :
  (forall w, In w (targets_of argv) -> is_dash w = false) /\
  (argv = targets_of argv ++ (if existsb is_dash argv then 0 :: task_args argv else [])).
Proof.
  induction argv as [|w ws (IH1 & IH2)]; cbn; [split; [intros ? [] | reflexivity]|].
  destruct (is_dash w) eqn:E; cbn.
  - split; [intros ? []|]. unfold is_dash in E. apply Nat.eqb_eq in E. subst. reflexivity.
  - split; [intros x [<-|H]; [assumption | apply IH1; assumption]|]. f_equal. assumption.
Qed.

Theorem task_args_no_dash argv : existsb is_dash argv = false -> task_args argv = [].
Proof.
  induction argv as [|w ws IH]; cbn; [reflexivity|].
  destruct (is_dash w); cbn; [discriminate | assumption].
Qed.
