(** C03 / C04: what holds when Schedule returns, exactly-once execution of eligible stages, progress of a
    polling pass (termination argument), and stability of eligibility (independent stages all start). *)
From Coq Require Import List Arith Bool Lia.
Import ListNotations.
From TaskctlV Require Import Model.Sched Proofs.SchedInv Proofs.SchedStep Proofs.SchedInv2.

(* ---------- starts of the log ---------- *)
Lemma starts_In l i : In i (starts l) <-> In (OStart i) l.
Proof.
  unfold starts. rewrite in_flat_map. split.
  - intros (o & Ho & Hi). destruct o as [j|j ok]; cbn in Hi; [destruct Hi as [<-|[]]; assumption | destruct Hi].
  - intros H. exists (OStart i). split; [assumption | left; reflexivity].
Qed.

Lemma starts_nodup l : NoDup (filter is_start l) -> NoDup (starts l).
Proof.
  induction l as [|o l IH]; cbn; intros H; [constructor|].
  destruct o as [j|j ok]; cbn in *.
  - inversion H as [|? ? Hn Hnd]; subst. constructor; [|apply IH; assumption].
    intros Hin. apply Hn. apply filter_In. split; [apply starts_In; assumption | reflexivity].
  - apply IH; assumption.
Qed.

Theorem exec_starts_nodup c es s : exec c es s -> NoDup (starts (log s)).
Proof. intros H. apply starts_nodup. apply (C03_no_double_run c es s H). Qed.

(* ---------- when Schedule has returned ---------- *)
Theorem on_return_settled c es s :
  exec c es s -> exited s = true -> cancelled s = false ->
  forall i, i < length c -> st s i <> Waiting /\ st s i <> Running.
Proof.
  intros H Hx Hc i Hi. destruct (exec_inv _ _ _ H) as (_ & B).
  pose proof (ib_exit _ _ B Hx Hc i Hi) as Hs. destruct (st s i); cbn in Hs; split; congruence.
Qed.

Theorem eligible_ran_once c es s :
  exec c es s -> exited s = true -> cancelled s = false ->
  forall i, i < length c -> runnable c i -> (forall d, In d (deps_of c i) -> sat_status c (st s) d) ->
  count_occ Nat.eq_dec (starts (log s)) i = 1.
Proof.
  intros H Hx Hc i Hi Hr Hd. destruct (exec_inv _ _ _ H) as (I & B).
  assert (Hin : In (OStart i) (log s)).
  { pose proof (ib_exit _ _ B Hx Hc i Hi) as Hs. destruct (st s i) eqn:Hst; cbn in Hs; try discriminate.
    - exfalso. apply (inv_skip _ _ I) in Hst. destruct Hr as (_ & Hr). contradiction.
    - destruct (ib_doneerr _ _ B i (or_introl Hst)) as [Hin|Hce]; [assumption | destruct Hr as (Hr & _); contradiction].
    - destruct (ib_doneerr _ _ B i (or_intror Hst)) as [Hin|Hce]; [assumption | destruct Hr as (Hr & _); contradiction].
    - exfalso. destruct (ib_cancel _ _ B i Hst) as (_ & d & Hdin & Hs').
      specialize (Hd d Hdin). unfold sat_status in Hd.
      destruct Hs' as [[Hs' Ha]|Hs']; destruct Hd as [Hd|[Hd|[Hd Ha']]]; congruence. }
  apply NoDup_count_occ'; [eapply exec_starts_nodup; eassumption | apply starts_In; assumption].
Qed.

Theorem never_twice c es s : exec c es s -> forall i, count_occ Nat.eq_dec (starts (log s)) i <= 1.
Proof. intros H i. apply NoDup_count_occ. eapply exec_starts_nodup; eassumption. Qed.

Theorem not_started_unless_eligible c es s :
  exec c es s -> forall i, In (OStart i) (log s) -> runnable c i.
Proof. intros H i Hi. destruct (exec_inv _ _ _ H) as (_ & B). apply (ib_started _ _ B i Hi). Qed.

(* once cancelled, the loop can always be left *)
Theorem cancelled_can_exit c s : fatal s = false -> exited s = false -> cancelled s = true -> exists s', step c s Exit = Some s'.
Proof. intros Hf Hx Hc. unfold step. rewrite Hf, Hx, Hc. cbn. eexists; reflexivity. Qed.

Theorem settled_can_exit c s : fatal s = false -> exited s = false -> all_settled c (st s) = true -> exists s', step c s Exit = Some s'.
Proof. intros Hf Hx Hc. unfold step. rewrite Hf, Hx, Hc, orb_true_r. eexists; reflexivity. Qed.

(* a live goroutine can always finish: its Ret / Fin is enabled *)
Theorem running_can_return c es s i ok : exec c es s -> fatal s = false -> i < length c -> st s i = Running -> exists s', step c s (Ret i ok) = Some s'.
Proof.
  intros _ Hf Hi Hst. unfold step. rewrite Hf. apply Nat.ltb_lt in Hi. rewrite Hi. cbn. rewrite Hst.
  destruct ok; [|destruct (allow_of c i)]; eexists; reflexivity.
Qed.

Theorem pending_can_finish c s i : fatal s = false -> In i (pend s) -> exists s', step c s (Fin i) = Some s'.
Proof.
  intros Hf Hi. unfold step. rewrite Hf.
  assert (H : existsb (Nat.eqb i) (pend s) = true) by (apply existsb_exists; exists i; split; [assumption | apply Nat.eqb_refl]).
  rewrite H. eexists; reflexivity.
Qed.

Lemma event_eq_visit (e : event) i : {e = Visit i} + {e <> Visit i}.
Proof. destruct e as [j|j ok|j| |]; try (right; discriminate). destruct (Nat.eq_dec j i) as [->|H]; [left; reflexivity | right; congruence]. Qed.

(* ---------- stability ---------- *)
Lemma sat_stable c s e s' d : inv c s -> step c s e = Some s' -> sat_status c (st s) d -> sat_status c (st s') d.
Proof.
  intros I H Hs. apply step_Step in H. unfold sat_status in *.
  destruct H; cbn [st]; try assumption; updc; try assumption;
    try (destruct Hs as [Hs|[Hs|[Hs _]]]; congruence).
  - (* Fin *) left; reflexivity.
Qed.

Lemma log_mono c s e s' o : step c s e = Some s' -> In o (log s) -> In o (log s').
Proof. intros H Ho. apply step_Step in H. destruct H; cbn [log]; try assumption; right; assumption. Qed.

Lemma log_mono_run c es : forall s s' o, run c s es = Some s' -> In o (log s) -> In o (log s').
Proof.
  induction es as [|e es IH]; intros s s' o H Ho; cbn in H.
  - injection H as <-. assumption.
  - destruct (step c s e) as [s1|] eqn:E; [|discriminate]. eapply IH; [eassumption | eapply log_mono; eassumption].
Qed.

Definition eligible (c : config) (s : state) (i : nat) : Prop :=
  i < length c /\ st s i = Waiting /\ runnable c i /\ forall d, In d (deps_of c i) -> sat_status c (st s) d.

Lemma eligible_stable c s e s' i : inv c s -> step c s e = Some s' -> e <> Visit i -> eligible c s i -> eligible c s' i.
Proof.
  intros I H He (Hi & Hst & Hr & Hd).
  split; [assumption|]. split; [|split; [assumption | intros d Hin; eapply sat_stable; eauto]].
  pose proof H as H0. apply step_Step in H0.
  destruct H0 as [j|j|j|j|j|j|j|j|j|j| |]; cbn [st]; try assumption; updc; try assumption; try congruence.
  - (* Fin j = i : i would be pending, hence Error *)
    match goal with Hp : In _ (pend s) |- _ => apply (inv_pend _ _ I) in Hp; destruct Hp as (Hp & _); congruence end.
Qed.

Lemma check_ready_conv c f ds :
  (forall d, In d ds -> d < length c /\ sat_status c f d) -> check c f ds VReady = VReady.
Proof.
  induction ds as [|d ds IH]; intros H; cbn [check]; [reflexivity|].
  destruct (H d (or_introl eq_refl)) as (Hd & Hs). apply Nat.ltb_lt in Hd. rewrite Hd.
  assert (IH' : check c f ds VReady = VReady) by (apply IH; intros d' Hin; apply H; right; assumption).
  unfold sat_status in Hs. destruct Hs as [Hs|[Hs|[Hs Ha]]]; rewrite Hs; [assumption | assumption | rewrite Ha; assumption].
Qed.

Lemma eligible_visit c s s' i : invB c s -> eligible c s i -> step c s (Visit i) = Some s' ->
  st s' i = Running /\ log s' = OStart i :: log s.
Proof.
  intros B (Hi & Hst & (Hr1 & Hr2) & Hd) H.
  assert (Hck : check c (st s) (deps_of c i) VReady = VReady).
  { apply check_ready_conv. intros d Hin. split; [|apply Hd; assumption].
    destruct (le_lt_dec (length c) d) as [Hle|Hlt]; [|assumption].
    exfalso. pose proof (ib_range _ _ B d Hle) as Hw. specialize (Hd d Hin). unfold sat_status in Hd.
    destruct Hd as [Hd|[Hd|[Hd _]]]; congruence. }
  unfold step in H. destruct (fatal s); [discriminate|]. destruct (exited s); [discriminate|].
  apply Nat.ltb_lt in Hi. rewrite Hi in H. cbn in H. rewrite Hst in H.
  destruct (cond_of c i); try contradiction; rewrite Hck in H; injection H as <-; cbn; rewrite upd_same; split; reflexivity.
Qed.

(* C04: any stretch of the run that contains stage i's visit starts i if it was eligible at the beginning of the stretch,
   whatever else happens in between (completions of other stages, other visits, cancellation) *)
Theorem eligible_gets_started c es : forall s s' i,
  inv c s -> invB c s -> run c s es = Some s' -> In (Visit i) es -> eligible c s i -> In (OStart i) (log s').
Proof.
  induction es as [|e es IH]; intros s s' i I B H Hin He; [destruct Hin|].
  cbn in H. destruct (step c s e) as [s1|] eqn:E; [|discriminate].
  assert (I1 : inv c s1) by (exact (inv_step c s e s1 I E)).
  assert (B1 : invB c s1) by (exact (invB_step c s e s1 I B E)).
  destruct (event_eq_visit e i) as [->|Hne].
  - destruct (eligible_visit _ _ _ _ B He E) as (_ & Hl).
    eapply log_mono_run; [eassumption | rewrite Hl; left; reflexivity].
  - destruct Hin as [->|Hin]; [contradiction|].
    apply (IH s1 s' i I1 B1 H Hin). exact (eligible_stable c s e s1 i I E Hne He).
Qed.

(* C04, second form: with no completion at all in between (visits only), every stage that was eligible is
   Running at the end: they are in flight together *)
Lemma visit_keeps_running c s j s' i : step c s (Visit j) = Some s' -> st s i = Running -> st s' i = Running.
Proof.
  intros H Hr. apply step_Step in H.
  inversion H; subst; cbn [st]; try assumption; updc; try assumption; congruence.
Qed.

Theorem eligible_in_flight_together c es : forall s s',
  inv c s -> invB c s -> run c s es = Some s' -> (forall e, In e es -> exists j, e = Visit j) ->
  forall i, (In (Visit i) es /\ eligible c s i) \/ st s i = Running -> st s' i = Running.
Proof.
  induction es as [|e es IH]; intros s s' I B H Hall i Hi.
  - cbn in H. injection H as <-. destruct Hi as [[[] _]|Hi]; assumption.
  - cbn in H. destruct (step c s e) as [s1|] eqn:E; [|discriminate].
    assert (I1 : inv c s1) by (exact (inv_step c s e s1 I E)).
    assert (B1 : invB c s1) by (exact (invB_step c s e s1 I B E)).
    assert (Hall' : forall e0, In e0 es -> exists j, e0 = Visit j) by (intros e0 H0; apply Hall; right; assumption).
    apply (IH s1 s' I1 B1 H Hall' i).
    destruct (Hall e (or_introl eq_refl)) as (j & ->).
    destruct Hi as [[Hin He]|Hr].
    + destruct (Nat.eq_dec j i) as [->|Hne].
      * right. apply (eligible_visit _ _ _ _ B He E).
      * left. split; [destruct Hin as [Hin|Hin]; [congruence | assumption]|].
        apply (eligible_stable c s (Visit j) s1 i I E); [congruence | assumption].
    + right. eapply visit_keeps_running; eassumption.
Qed.

(* ---------- progress of the polling loop (termination argument of C03) ---------- *)
Definition acyclic_cfg (c : config) := exists rank : nat -> nat, forall i d, i < length c -> In d (deps_of c i) -> rank d < rank i.
Definition wf_deps (c : config) := forall i d, i < length c -> In d (deps_of c i) -> d < length c.

Definition resolvable (c : config) (s : state) (i : nat) : Prop :=
  i < length c /\ st s i = Waiting /\ forall d, In d (deps_of c i) -> d < length c /\ settled_b (st s d) = true.

Lemma forallb_false_ex {A} (p : A -> bool) l : forallb p l = false -> exists x, In x l /\ p x = false.
Proof.
  induction l as [|a l IH]; cbn; [discriminate|].
  destruct (p a) eqn:Ha; cbn; intros H.
  - destruct (IH H) as (x & Hx & Hp). exists x. split; [right; assumption | assumption].
  - exists a. split; [left; reflexivity | assumption].
Qed.

Theorem some_waiting_stage_is_resolvable c s :
  acyclic_cfg c -> wf_deps c -> (forall i, i < length c -> st s i <> Running) ->
  (exists i, i < length c /\ st s i = Waiting) -> exists i, resolvable c s i.
Proof.
  intros (rank & Hrank) Hwf Hnr (i0 & Hi0 & Hw0).
  assert (H : forall k i, rank i < k -> i < length c -> st s i = Waiting -> exists j, resolvable c s j).
  { induction k as [|k IH]; intros i Hk Hi Hw; [lia|].
    destruct (forallb (fun d => settled_b (st s d)) (deps_of c i)) eqn:Hall.
    - exists i. split; [assumption|]. split; [assumption|]. intros d Hd. split; [eapply Hwf; eassumption|].
      rewrite forallb_forall in Hall. apply Hall. assumption.
    - apply forallb_false_ex in Hall. destruct Hall as (d & Hd & Hs).
      assert (Hdl : d < length c) by (eapply Hwf; eassumption).
      apply (IH d); [specialize (Hrank i d Hi Hd); lia | assumption |].
      specialize (Hnr d Hdl). destruct (st s d); cbn in Hs; congruence. }
  apply (H (S (rank i0)) i0); [lia | assumption | assumption].
Qed.

Lemma check_settled c f ds : (forall d, In d ds -> d < length c /\ settled_b (f d) = true) ->
  forall acc, (acc = VReady \/ acc = VCancel) -> check c f ds acc = VReady \/ check c f ds acc = VCancel.
Proof.
  induction ds as [|d ds IH]; intros H acc Hacc; cbn [check]; [assumption|].
  destruct (H d (or_introl eq_refl)) as (Hd & Hs). apply Nat.ltb_lt in Hd. rewrite Hd.
  assert (IH' : forall acc, acc = VReady \/ acc = VCancel -> check c f ds acc = VReady \/ check c f ds acc = VCancel)
    by (apply IH; intros d' Hin; apply H; right; assumption).
  destruct (f d); cbn in Hs; try discriminate; try (apply IH'; assumption); try (apply IH'; right; reflexivity).
  destruct (allow_of c d); apply IH'; [assumption | right; reflexivity].
Qed.

Lemma resolvable_visit c s s' i : resolvable c s i -> step c s (Visit i) = Some s' -> st s' i <> Waiting.
Proof.
  intros (Hi & Hst & Hd) H. unfold step in H.
  destruct (fatal s); [discriminate|]. destruct (exited s); [discriminate|].
  apply Nat.ltb_lt in Hi. rewrite Hi in H. cbn in H. rewrite Hst in H.
  destruct (check_settled c (st s) (deps_of c i) Hd VReady (or_introl eq_refl)) as [Hck|Hck];
    destruct (cond_of c i); rewrite ?Hck in H; injection H as <-; cbn; rewrite upd_same; discriminate.
Qed.

Lemma settled_stable c s e s' d : step c s e = Some s' -> settled_b (st s d) = true -> settled_b (st s' d) = true.
Proof.
  intros H Hs. apply step_Step in H.
  inversion H; subst; cbn [st]; try assumption; updc; try assumption; try reflexivity;
    match goal with Hx : st s _ = _ |- _ => rewrite Hx in Hs; discriminate end.
Qed.

Lemma nonwaiting_stable c s e s' i : step c s e = Some s' -> st s i <> Waiting -> st s' i <> Waiting.
Proof.
  intros H Hs. apply step_Step in H.
  inversion H; subst; cbn [st]; try assumption; updc; try assumption; discriminate.
Qed.

Lemma waiting_back c s e s' i : step c s e = Some s' -> st s' i = Waiting -> st s i = Waiting.
Proof.
  intros H Hs. destruct (st s i) eqn:E; [reflexivity| | | | |];
    exfalso; apply (nonwaiting_stable c s e s' i H); congruence.
Qed.

Lemma resolvable_stable c s e s' i : inv c s -> step c s e = Some s' -> e <> Visit i -> resolvable c s i -> resolvable c s' i.
Proof.
  intros I H He (Hi & Hst & Hd).
  split; [assumption|]. split; [|intros d Hin; destruct (Hd d Hin); split; [assumption | eapply settled_stable; eassumption]].
  pose proof H as H0. apply step_Step in H0.
  destruct H0 as [j|j|j|j|j|j|j|j|j|j| |]; cbn [st]; try assumption; updc; try assumption; try congruence.
  match goal with Hp : In _ (pend s) |- _ => apply (inv_pend _ _ I) in Hp; destruct Hp as (Hp & _); congruence end.
Qed.

Theorem pass_resolves c es : forall s s' i,
  inv c s -> run c s es = Some s' -> In (Visit i) es -> resolvable c s i -> st s' i <> Waiting.
Proof.
  induction es as [|e es IH]; intros s s' i I H Hin Hr; [destruct Hin|].
  cbn in H. destruct (step c s e) as [s1|] eqn:E; [|discriminate].
  assert (I1 : inv c s1) by (exact (inv_step c s e s1 I E)).
  assert (Hkeep : forall es s1 s', run c s1 es = Some s' -> st s1 i <> Waiting -> st s' i <> Waiting).
  { clear. induction es as [|e es IH]; intros s1 s' H Hn; cbn in H; [injection H as <-; assumption|].
    destruct (step c s1 e) as [s2|] eqn:E; [|discriminate]. eapply IH; [eassumption | eapply nonwaiting_stable; eassumption]. }
  destruct (event_eq_visit e i) as [->|Hne].
  - apply (Hkeep es s1 s' H). eapply resolvable_visit; eassumption.
  - destruct Hin as [->|Hin]; [contradiction|].
    apply (IH s1 s' i I1 H Hin). exact (resolvable_stable c s e s1 i I E Hne Hr).
Qed.

Lemma run_waiting_back c es : forall s s' i, run c s es = Some s' -> st s' i = Waiting -> st s i = Waiting.
Proof.
  induction es as [|e es IH]; intros s s' i H Hw; cbn in H; [injection H as <-; assumption|].
  destruct (step c s e) as [s1|] eqn:E; [|discriminate]. eapply waiting_back; [eassumption|]. eapply IH; eassumption.
Qed.

(* One full polling pass, with anything interleaved, strictly shrinks the set of Waiting stages whenever no task is
   running and something is still Waiting: the loop cannot spin for ever on an acyclic pipeline without bad references *)
Theorem full_pass_makes_progress c es0 s :
  acyclic_cfg c -> wf_deps c -> exec c es0 s ->
  (forall i, i < length c -> st s i <> Running) -> (exists i, i < length c /\ st s i = Waiting) ->
  forall es s', run c s es = Some s' -> (forall i, i < length c -> In (Visit i) es) ->
  (forall j, st s' j = Waiting -> st s j = Waiting) /\ (exists i, i < length c /\ st s i = Waiting /\ st s' i <> Waiting).
Proof.
  intros Ha Hwf Hex Hnr Hw es s' Hrun Hfull.
  destruct (exec_inv _ _ _ Hex) as (I & _).
  split; [intros j; eapply run_waiting_back; eassumption|].
  destruct (some_waiting_stage_is_resolvable c s Ha Hwf Hnr Hw) as (i & Hr).
  exists i. destruct Hr as (Hi & Hst & Hd). split; [assumption|]. split; [assumption|].
  eapply pass_resolves; [exact I | eassumption | apply Hfull; assumption | split; [assumption | split; assumption]].
Qed.
