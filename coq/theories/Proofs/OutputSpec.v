(** Lemmas about Model/Output.v (C11). *)
From Coq Require Import List Arith NArith Bool Lia.
Import ListNotations.
From TaskctlV Require Import Model.Sched Model.Output Proofs.SchedInv.

(* ---- execute's loop ---- *)
Fixpoint nexec (js : list ojob) : nat :=
  match js with [] => 0 | j :: js' => if oj_stops j then 1 else S (nexec js') end.
Definition completes (js : list ojob) : bool := forallb (fun j => negb (oj_stops j)) js.

Lemma exec_chain_spec : forall js prev,
  exec_chain js prev = (firstn (nexec js) (prev :: map combined_of js), flat_map stdout_of (firstn (nexec js) js), completes js).
Proof.
  induction js as [|j js IH]; intros prev; cbn [exec_chain nexec completes forallb map firstn flat_map]; [reflexivity|].
  destruct (oj_stops j) eqn:Hs; cbn [negb andb firstn flat_map].
  - now rewrite app_nil_r.
  - rewrite IH. reflexivity.
Qed.

Lemma nexec_le js : nexec js <= length js.
Proof. induction js as [|j js IH]; cbn [nexec length]; [lia|]. destruct (oj_stops j); lia. Qed.

Lemma completes_nexec js : completes js = true -> nexec js = length js.
Proof.
  induction js as [|j js IH]; cbn [completes forallb nexec length]; [reflexivity|].
  destruct (oj_stops j); cbn [negb andb]; [discriminate|]. intros H. now rewrite (IH H).
Qed.

(* the k-th executed job (k >= 1) sees exactly what the (k-1)-th wrote, stdout and stderr; the first one sees [prev] *)
Theorem seen_is_previous_output js prev k : S k < nexec js ->
  nth (S k) (fst (fst (exec_chain js prev))) [] = combined_of (nth k js (mkOJ [] false)).
Proof.
  rewrite exec_chain_spec. cbn [fst]. intros Hk.
  assert (Hn: forall (A : Type) n (l : list A) d i, i < n -> nth i (firstn n l) d = nth i l d).
  { intros A n; induction n as [|n IHn]; intros l d i Hi; [lia|]. destruct l as [|x l]; [now destruct i|].
    destruct i as [|i]; cbn [firstn nth]; [reflexivity|]. apply IHn. lia. }
  rewrite Hn by lia. cbn [nth].
  exact (map_nth combined_of js (mkOJ [] false) k).
Qed.

Theorem first_sees_nothing js prev : 0 < nexec js -> nth 0 (fst (fst (exec_chain js prev))) [1%N] = prev.
Proof. rewrite exec_chain_spec. cbn [fst]. destruct (nexec js); [lia|]. reflexivity. Qed.

Theorem captured_exactly js prev : completes js = true ->
  exec_chain js prev = (firstn (length js) (prev :: map combined_of js), flat_map stdout_of js, true).
Proof. intros H. rewrite exec_chain_spec, (completes_nexec _ H), H, firstn_all. reflexivity. Qed.

(* ---- the exported name ---- *)
Open Scope N_scope.
Lemma env_byte_ident b : ident_byte (env_byte b) = true.
Proof. unfold env_byte. destruct (ident_byte (up_byte b)) eqn:H; [exact H|reflexivity]. Qed.

Lemma env_name_ident name : forallb ident_byte (env_name name) = true.
Proof.
  unfold env_name. rewrite forallb_app. apply andb_true_iff. split; [|reflexivity].
  induction name as [|b name IH]; cbn [map forallb]; [reflexivity|]. now rewrite env_byte_ident, IH.
Qed.

Lemma env_name_length name : length (env_name name) = (length name + 7)%nat.
Proof. unfold env_name. now rewrite app_length, map_length. Qed.

Lemma env_name_nth name i : (i < length name)%nat -> nth i (env_name name) 0 = env_byte (nth i name 0).
Proof.
  intros Hi. unfold env_name. rewrite app_nth1 by now rewrite map_length.
  rewrite (nth_indep _ 0 (env_byte 0)) by now rewrite map_length.
  apply map_nth.
Qed.

(* character-wise reading of the statement: lower-case letters are upper-cased, A-Z 0-9 _ stay, everything else is '_' *)
Lemma env_byte_spec b : env_byte b =
  if is_lower b then b - 32 else if is_upper b || is_digit b || (b =? 95) then b else 95.
Proof.
  unfold env_byte, up_byte. destruct (is_lower b) eqn:HL.
  - assert (HU: is_upper (b - 32) = true).
    { unfold is_lower in HL. apply andb_true_iff in HL. destruct HL as [H1 H2].
      apply N.leb_le in H1. apply N.leb_le in H2. unfold is_upper. apply andb_true_iff.
      split; apply N.leb_le; lia. }
    unfold ident_byte. rewrite HU. now rewrite orb_true_r.
  - unfold ident_byte. rewrite HL. reflexivity.
Qed.
Close Scope N_scope.

(* ---- dependants see it ---- *)
Lemma blookup_env_of_log var prod l d out :
  In (ORet d true) l -> prod d = Some out ->
  (forall d', In (ORet d' true) l -> var d' = var d -> prod d' = prod d) ->
  blookup (var d) (env_of_log var prod l) = Some out.
Proof.
  induction l as [|o l IH]; intros Hin Hp Hu; [destruct Hin|].
  cbn [env_of_log]. destruct o as [j|j ok].
  - apply IH; [destruct Hin as [H|H]; [discriminate|exact H] | exact Hp | intros d' H'; apply Hu; now right].
  - destruct ok.
    + destruct (prod j) as [oj|] eqn:Hj.
      * cbn [blookup]. destruct (list_eq_dec N.eq_dec (var d) (var j)) as [E|E].
        -- assert (Hq: prod j = prod d) by (apply Hu; [now left | now symmetry]). congruence.
        -- apply IH; [|exact Hp|intros d' H'; apply Hu; now right].
           destruct Hin as [H|H]; [|exact H]. injection H as H. subst j. congruence.
      * apply IH; [|exact Hp|intros d' H'; apply Hu; now right].
        destruct Hin as [H|H]; [|exact H]. injection H as H. subst j. congruence.
    + apply IH; [destruct Hin as [H|H]; [discriminate|exact H] | exact Hp | intros d' H'; apply Hu; now right].
Qed.

Theorem dependants_see_output c es s : exec c es s ->
  forall l2 i l1, log s = l2 ++ OStart i :: l1 ->
  forall d, In d (deps_of c i) ->
  cond_of c d <> CFalse -> cond_of c d <> CErr ->                   (* d is not skipped / errored by a stage condition *)
  (forall ok, In (ORet d ok) (log s) -> ok = true) ->               (* d's task does not fail *)
  forall var prod out, prod d = Some out ->                         (* ... and stores its output when it returns *)
  (forall d', In (ORet d' true) l1 -> var d' = var d -> prod d' = prod d) ->    (* nobody else exports another text under d's name *)
  blookup (var d) (env_of_log var prod l1) = Some out.
Proof.
  intros Hex l2 i l1 Hlog d Hd Hc1 Hc2 Hok var prod out Hp Hu.
  pose proof (C01_deps_finished_before_start c es s Hex l2 i l1 Hlog d Hd) as Hf.
  destruct Hf as [Hf|[[ok [Hin _]]|[Hf _]]]; [contradiction| |contradiction].
  assert (ok = true) as -> by (apply Hok; rewrite Hlog; apply in_or_app; right; now right).
  now apply blookup_env_of_log.
Qed.
