(** Lemmas about Model/Prefixed.v (C19). *)
From Coq Require Import List Arith NArith Bool Lia.
Import ListNotations.
From TaskctlV Require Import Model.Prefixed.

Lemma rmnl_app a b : rmnl (a ++ b) = rmnl a ++ rmnl b.
Proof. apply filter_app. Qed.

Lemma rmnl_concat l : rmnl (concat l) = concat (map rmnl l).
Proof. induction l as [|x l IH]; cbn [concat map]; [reflexivity|]. now rewrite rmnl_app, IH. Qed.

Section Writer.
  Variable strip : list N -> list N.
  Hypothesis strip_nil : strip [] = [].
  (* the stripper is local to lines: true of the ANSI regexp because none of its character classes contains CR or LF *)
  Hypothesis strip_local : forall a nl b, nl = LF \/ nl = CR -> strip (a ++ nl :: b) = strip a ++ nl :: strip b.

  Lemma drop_cr_ok cur_rev : rmnl (strip (drop_cr_rev cur_rev)) = rmnl (strip (rev cur_rev)).
  Proof.
    destruct cur_rev as [|c r]; cbn [drop_cr_rev]; [reflexivity|].
    destruct (N.eqb c CR) eqn:E; [|reflexivity].
    apply N.eqb_eq in E. subst c. cbn [rev].
    rewrite (strip_local (rev r) CR [] (or_intror eq_refl)), strip_nil, rmnl_app.
    cbn. now rewrite app_nil_r.
  Qed.

  Lemma concat_strip_nonempty l : concat (map strip (filter nonempty l)) = concat (map strip l).
  Proof.
    induction l as [|x l IH]; [reflexivity|]. cbn [filter map concat].
    destruct x as [|b x]; cbn [nonempty map concat]; [now rewrite strip_nil|]. now rewrite IH.
  Qed.

  Lemma pieces_aux_spec p : forall cur_rev,
    rmnl (concat (map strip (pieces_aux p cur_rev))) = rmnl (strip (rev cur_rev ++ p)).
  Proof.
    induction p as [|b p IH]; intros cur_rev; cbn [pieces_aux].
    - rewrite app_nil_r. destruct cur_rev as [|c r].
      + cbn. now rewrite strip_nil.
      + cbn [map concat]. rewrite app_nil_r. apply drop_cr_ok.
    - destruct (N.eqb b LF) eqn:E.
      + apply N.eqb_eq in E. subst b. cbn [map concat].
        rewrite rmnl_app, IH, drop_cr_ok. cbn [rev app].
        rewrite (strip_local (rev cur_rev) LF p (or_introl eq_refl)), rmnl_app.
        reflexivity.
      + rewrite IH. cbn [rev]. now rewrite <- app_assoc.
  Qed.

  Lemma chunk_faithful p : rmnl (concat (chunk_payloads strip p)) = rmnl (strip p).
  Proof. unfold chunk_payloads, pieces. rewrite concat_strip_nonempty, pieces_aux_spec. reflexivity. Qed.

  Lemma payloads_cons c cs : payloads strip (c :: cs) = chunk_payloads strip c ++ payloads strip cs.
  Proof. reflexivity. Qed.

  (* nothing lost, duplicated or reordered, for every chunking that does not cut an escape sequence *)
  Theorem prefixed_faithful chunks : strip_safe strip chunks ->
    rmnl (concat (payloads strip chunks)) = rmnl (strip (concat chunks)).
  Proof.
    induction chunks as [|c cs IH]; intros Hs.
    - cbn. now rewrite strip_nil.
    - destruct Hs as [Hc Hs]. rewrite payloads_cons, concat_app, rmnl_app, chunk_faithful, (IH Hs).
      cbn [concat]. now rewrite Hc, rmnl_app.
  Qed.

  (* every line handed to the line writer is free of LF and non-empty *)
  Lemma drop_cr_no_lf cur_rev : ~ In LF cur_rev -> ~ In LF (drop_cr_rev cur_rev).
  Proof.
    intros H. destruct cur_rev as [|c r]; cbn [drop_cr_rev]; [auto|].
    destruct (N.eqb c CR); intros Hin; apply in_rev in Hin; apply H; [now right|exact Hin].
  Qed.
  Lemma pieces_aux_no_lf p : forall cur_rev, ~ In LF cur_rev -> Forall (fun l => ~ In LF l) (pieces_aux p cur_rev).
  Proof.
    induction p as [|b p IH]; intros cur_rev H; cbn [pieces_aux].
    - destruct cur_rev; [constructor|]. constructor; [now apply drop_cr_no_lf|constructor].
    - destruct (N.eqb b LF) eqn:E.
      + constructor; [now apply drop_cr_no_lf|]. apply IH. auto.
      + apply IH. intros [Hb|Hin]; [subst b; now rewrite N.eqb_refl in E|auto].
  Qed.

  Theorem prefixed_whole_lines name chunks :
    Forall (fun w => exists line, line <> [] /\ ~ In LF line /\ w = prefix name ++ strip line ++ [CR; LF]) (prefixed_writes strip name chunks).
  Proof.
    unfold prefixed_writes, payloads. apply Forall_forall. intros w Hw.
    apply in_map_iff in Hw. destruct Hw as [pl [<- Hpl]].
    apply in_flat_map in Hpl. destruct Hpl as [c [_ Hpl]].
    unfold chunk_payloads in Hpl. apply in_map_iff in Hpl. destruct Hpl as [line [<- Hl]].
    apply filter_In in Hl. destruct Hl as [Hl Hne].
    exists line. split; [now destruct line|]. split; [|reflexivity].
    pose proof (pieces_aux_no_lf c [] (fun x => x)) as HF. rewrite Forall_forall in HF. now apply HF.
  Qed.
End Writer.

(* raw forwards the writes unchanged, in order *)
Theorem raw_identity chunks : concat (raw_writes chunks) = concat chunks /\ raw_writes chunks = chunks.
Proof. split; reflexivity. Qed.

(* concurrent tasks: whatever the interleaving at the sink, the writes carrying task t's prefix are exactly t's writes,
   in t's order *)
Theorem interleaving_projects {A} (f : nat -> list A) l : interleaving f l ->
  forall t, map snd (filter (fun x => Nat.eqb (fst x) t) l) = f t.
Proof.
  induction 1 as [f Hnil|f u e r l Hu _ IH]; intros t.
  - now rewrite Hnil.
  - cbn [filter fst]. destruct (Nat.eqb u t) eqn:E.
    + apply Nat.eqb_eq in E. subst u. cbn [map snd]. rewrite IH. unfold updl. rewrite Nat.eqb_refl. now rewrite Hu.
    + rewrite IH. unfold updl. rewrite Nat.eqb_sym, E. reflexivity.
Qed.

(* no task outcome makes the cockpit decorator crash (repaired remove); the pinned remove crashes on a task that was
   never added *)
Lemma cockpit_step_ok s c : s <> CPanic -> cockpit_step true s c <> CPanic.
Proof. destruct s as [|sp n]; [congruence|]. intros _. destruct c; cbn; [discriminate|discriminate|]. destruct sp; discriminate. Qed.
Theorem cockpit_never_panics ks : cockpit_run true ks <> CPanic.
Proof.
  unfold cockpit_run. generalize (flat_map calls_of ks). intros cs.
  assert (H: forall s, s <> CPanic -> fold_left (cockpit_step true) cs s <> CPanic).
  { induction cs as [|c cs IH]; intros s Hs; cbn [fold_left]; [exact Hs|]. apply IH. now apply cockpit_step_ok. }
  apply H. discriminate.
Qed.
