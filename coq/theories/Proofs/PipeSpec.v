(** Scheduler x runner (Model/Pipe.v): every composed execution projects onto an execution of each component, the
    synchronisation invariant, and the pipeline-level consequences for C01 / C03 / C12. *)
From Coq Require Import List Arith Bool Lia.
Import ListNotations.
From TaskctlV Require Import Model.Sched Model.Cancel Model.Pipe Proofs.SchedStep Proofs.SchedInv Proofs.SchedInv2 Proofs.CancelInv.

Section Pipe.
Variable c : config.
Variable n : nat -> nat.

Lemma xrun_app es1 : forall es2 s s1 s2, xrun n s es1 = Some s1 -> xrun n s1 es2 = Some s2 -> xrun n s (es1 ++ es2) = Some s2.
Proof.
  induction es1 as [|e es1 IH]; intros es2 s s1 s2 H1 H2; cbn in *.
  - injection H1 as <-. assumption.
  - destruct (xstep n s e) as [s'|]; [|discriminate]. eapply IH; eassumption.
Qed.

Lemma run1 s e s' : Sched.step c s e = Some s' -> run c s [e] = Some s'.
Proof. intros H. cbn. rewrite H. reflexivity. Qed.
Lemma xrun1 s e s' : xstep n s e = Some s' -> xrun n s [e] = Some s'.
Proof. intros H. cbn. rewrite H. reflexivity. Qed.

(* one composed step is zero or one step of each component *)
Lemma pstep_proj s e s' : pstep c n s e = Some s' ->
  run c (sc s) (proj_s c s e) = Some (sc s') /\ xrun n (xr s) (proj_x c s e) = Some (xr s').
Proof.
  intros H. destruct e as [i|i|i|i|i|j| |]; cbn [pstep proj_s proj_x] in *.
  - destruct (blk s); [discriminate|]. destruct (Sched.step c (sc s) (Visit i)) as [sc'|] eqn:E; [|discriminate].
    destruct (cerr_visit c (sc s) i).
    + destruct (xstep n (xr s) (ECan (loop_id (nloop s)))) as [x'|] eqn:X; [|discriminate]. injection H as <-. cbn [sc xr].
      split; [apply run1; assumption | apply xrun1; assumption].
    + injection H as <-. cbn [sc xr]. split; [apply run1; assumption | reflexivity].
  - destruct (rp (xr s) i) eqn:R.
    1: destruct (Nat.ltb i (length c) && is_running (st (sc s) i) && negb (fatal (sc s))); [|discriminate].
    all: destruct (xstep n (xr s) (ERun i)) as [x'|] eqn:X; [|discriminate]; injection H as <-; cbn [sc xr];
         (split; [reflexivity | apply xrun1; assumption]).
  - destruct (xstep n (xr s) (EIntr i)) as [x'|] eqn:X; [|discriminate]. injection H as <-. cbn [sc xr].
    split; [reflexivity | apply xrun1; assumption].
  - destruct (rp (xr s) i); try discriminate.
    destruct (Sched.step c (sc s) (Ret i (negb err))) as [sc'|] eqn:E; [|discriminate]. injection H as <-. cbn [sc xr].
    split; [apply run1; assumption | reflexivity].
  - destruct (Sched.step c (sc s) (Fin i)) as [sc'|] eqn:E; [|discriminate]. injection H as <-. cbn [sc xr].
    split; [apply run1; assumption | reflexivity].
  - destruct (kp (xr s) (ext_id j)) eqn:K.
    + destruct (Sched.step c (sc s) ExtCancel) as [sc'|] eqn:E; [|discriminate].
      destruct (xstep n (xr s) (ECan (ext_id j))) as [x'|] eqn:X; [|discriminate]. injection H as <-. cbn [sc xr].
      split; [apply run1; assumption | apply xrun1; assumption].
    + destruct (xstep n (xr s) (ECan (ext_id j))) as [x'|] eqn:X; [|discriminate]. injection H as <-. cbn [sc xr].
      split; [reflexivity | apply xrun1; assumption].
    + discriminate.
  - destruct (blk s) as [j|]; [|discriminate]. destruct (xstep n (xr s) (ECan j)) as [x'|] eqn:X; [|discriminate].
    injection H as <-. cbn [sc xr]. split; [reflexivity | apply xrun1; assumption].
  - destruct (blk s); [discriminate|]. destruct (Sched.step c (sc s) Exit) as [sc'|] eqn:E; [|discriminate]. injection H as <-.
    cbn [sc xr]. split; [apply run1; assumption | reflexivity].
Qed.

Theorem prun_components es : forall s s', prun c n s es = Some s' ->
  exists es1 es2, run c (sc s) es1 = Some (sc s') /\ xrun n (xr s) es2 = Some (xr s').
Proof.
  induction es as [|e es IH]; intros s s' H; cbn in H.
  - injection H as <-. exists [], []. split; reflexivity.
  - destruct (pstep c n s e) as [s1|] eqn:E; [|discriminate]. destruct (pstep_proj _ _ _ E) as (A & B).
    destruct (IH _ _ H) as (es1 & es2 & A2 & B2).
    exists (proj_s c s e ++ es1), (proj_x c s e ++ es2). split; [eapply run_app | eapply xrun_app]; eassumption.
Qed.

Theorem preach_components es s : preach c n es s -> exists es1 es2, exec c es1 (sc s) /\ xreach n es2 (xr s).
Proof. intros H. apply (prun_components es pinit s H). Qed.

(* ---- the synchronisation invariant ---- *)
Record psync (s : pstate) : Prop := {
  ps_flag : Sched.cancelled (sc s) = Cancel.cancelled (xr s);
  ps_run  : forall i, rp (xr s) i <> RNew ->
              st (sc s) i = Running \/ exists err, rp (xr s) i = RDone err /\ In (ORet i (negb err)) (log (sc s));
  ps_ret  : forall i ok, In (ORet i ok) (log (sc s)) -> rp (xr s) i = RDone (negb ok);
  ps_blk  : forall j, blk s = Some j -> kp (xr s) j = KWait /\ exists m, j = loop_id m /\ m < nloop s;
  ps_fresh : forall m, nloop s <= m -> kp (xr s) (loop_id m) = KNew
}.

Lemma psync_init : psync pinit.
Proof.
  constructor; cbn.
  - reflexivity.
  - intros i H. exfalso. apply H. reflexivity.
  - intros i ok [].
  - intros j H. discriminate.
  - reflexivity.
Qed.

(* what a scheduler step that is not a return does to statuses and to the log *)
Lemma visit_keeps s i s' : Sched.step c s (Visit i) = Some s' ->
  (forall k, st s k = Running -> st s' k = Running) /\ (forall o, In o (log s) -> In o (log s')) /\
  (forall k ok, In (ORet k ok) (log s') -> In (ORet k ok) (log s)) /\
  Sched.cancelled s' = (Sched.cancelled s || cerr_visit c s i).
Proof.
  unfold Sched.step, cerr_visit. destruct (fatal s); [discriminate|]. destruct (exited s); [discriminate|].
  destruct (Nat.ltb i (length c)); cbn [negb andb]; [|discriminate].
  destruct (st s i) eqn:Si; try (intros H; injection H as <-; repeat split; auto; rewrite orb_false_r; reflexivity).
  assert (K : forall x k, st s k = Running -> upd (st s) i x k = Running).
  { intros x k Hk. unfold upd. destruct (Nat.eqb k i) eqn:Ek; [apply Nat.eqb_eq in Ek; subst; congruence | assumption]. }
  destruct (cond_of c i).
  3: { intros H; injection H as <-; cbn. repeat split; auto. rewrite orb_false_r. reflexivity. }
  3: { intros H; injection H as <-; cbn. repeat split; auto. rewrite orb_true_r. reflexivity. }
  all: destruct (check c (st s) (deps_of c i) VReady); intros H; injection H as <-; cbn; rewrite ?orb_false_r;
       repeat split; auto; try (intros k ok [Hk|Hk]; [discriminate | assumption]).
Qed.

Lemma xstep_run_other s i s' : xstep n s (ERun i) = Some s' -> forall k, k <> i -> rp s' k = rp s k.
Proof.
  intros H k Hk. cbn in H. destruct (rp s i) as [| |q|q|q|q]; try discriminate;
    try (injection H as <-; cbn; apply updr_other; assumption).
  destruct (Nat.leb (n i) q); [injection H as <-; cbn; apply updr_other; assumption|].
  destruct (Cancel.cancelled s); injection H as <-; cbn; apply updr_other; assumption.
Qed.
Lemma xstep_run_meta s i s' : xstep n s (ERun i) = Some s' -> Cancel.cancelled s' = Cancel.cancelled s /\ kp s' = kp s /\ rp s' i <> RNew /\ (forall e, rp s i <> RDone e).
Proof.
  intros H. cbn in H. destruct (rp s i) as [| |q|q|q|q] eqn:R; try discriminate.
  1,2,4,5: injection H as <-; cbn; rewrite updr_same; repeat split; try discriminate; destruct (Cancel.cancelled s); discriminate.
  destruct (Nat.leb (n i) q); [injection H as <-; cbn; rewrite updr_same; repeat split; discriminate|].
  destruct (Cancel.cancelled s); injection H as <-; cbn; rewrite updr_same; repeat split; discriminate.
Qed.
Lemma xstep_intr_meta s i s' : xstep n s (EIntr i) = Some s' ->
  Cancel.cancelled s' = Cancel.cancelled s /\ kp s' = kp s /\ (forall k, k <> i -> rp s' k = rp s k) /\ rp s' i <> RNew /\ (forall e, rp s i <> RDone e).
Proof.
  intros H. cbn in H. destruct (rp s i) as [| |q|q|q|q] eqn:R; try discriminate. destruct (Cancel.cancelled s); [|discriminate]. injection H as <-. cbn.
  rewrite updr_same. repeat split; try discriminate. intros k' Hk. apply updr_other. assumption.
Qed.
Lemma xstep_can_meta s j s' : xstep n s (ECan j) = Some s' ->
  rp s' = rp s /\ (forall k, k <> j -> kp s' k = kp s k) /\
  ((kp s j = KNew /\ kp s' j = KWait /\ Cancel.cancelled s' = true) \/ (kp s j = KWait /\ kp s' j = KDone /\ Cancel.cancelled s' = Cancel.cancelled s)).
Proof.
  intros H. cbn in H. destruct (kp s j) eqn:K; try discriminate.
  - injection H as <-. cbn. rewrite updr_same. repeat split; [intros k Hk; apply updr_other; assumption | left; repeat split].
  - destruct (Nat.eqb (running s) 0); [|discriminate]. injection H as <-. cbn. rewrite updr_same.
    repeat split; [intros k Hk; apply updr_other; assumption | right; repeat split].
Qed.

Lemma parity m j : loop_id m <> ext_id j.
Proof. unfold loop_id, ext_id. lia. Qed.


Lemma loop_inj a b : loop_id a = loop_id b -> a = b.
Proof. unfold loop_id. lia. Qed.

Lemma ret_keeps s i ok s' : Sched.step c s (Ret i ok) = Some s' ->
  st s i = Running /\ st s' i <> Running /\ (forall k, k <> i -> st s' k = st s k) /\ log s' = ORet i ok :: log s /\
  Sched.cancelled s' = Sched.cancelled s.
Proof.
  unfold Sched.step. destruct (fatal s); [discriminate|]. destruct (Nat.ltb i (length c)); cbn [negb]; [|discriminate].
  destruct (st s i) eqn:Si; try discriminate.
  destruct ok; [|destruct (allow_of c i)]; intros H; injection H as <-; cbn; unfold upd; rewrite Nat.eqb_refl;
    (repeat split; try discriminate; intros k Hk; apply Nat.eqb_neq in Hk; rewrite Hk; reflexivity).
Qed.

Lemma fin_keeps s i s' : Sched.step c s (Fin i) = Some s' ->
  In i (pend s) /\ (forall k, k <> i -> st s' k = st s k) /\ log s' = log s /\ Sched.cancelled s' = Sched.cancelled s.
Proof.
  unfold Sched.step. destruct (fatal s); [discriminate|]. destruct (existsb (Nat.eqb i) (pend s)) eqn:E; [|discriminate].
  intros H; injection H as <-; cbn. split.
  - apply existsb_exists in E. destruct E as (x & Hx & Ex). apply Nat.eqb_eq in Ex. subst. assumption.
  - repeat split. intros k Hk. unfold upd. apply Nat.eqb_neq in Hk. rewrite Hk. reflexivity.
Qed.

Lemma ext_keeps s s' : Sched.step c s ExtCancel = Some s' -> st s' = st s /\ log s' = log s /\ Sched.cancelled s' = true.
Proof. unfold Sched.step. destruct (fatal s); [discriminate|]. intros H; injection H as <-. repeat split. Qed.
Lemma exit_keeps s s' : Sched.step c s Exit = Some s' -> st s' = st s /\ log s' = log s /\ Sched.cancelled s' = Sched.cancelled s.
Proof.
  unfold Sched.step. destruct (fatal s); [discriminate|]. destruct (exited s); [discriminate|].
  destruct (Sched.cancelled s || all_settled c (st s)); [|discriminate]. intros H; injection H as <-. repeat split.
Qed.

Lemma psync_step s e s' : psync s -> inv c (sc s) -> xinv n (xr s) -> pstep c n s e = Some s' -> psync s'.
Proof.
  intros [F R T B Fr] I XI H. destruct e as [i|i|i|i|i|j| |]; cbn [pstep] in H.
  - (* PVisit *)
    destruct (blk s) eqn:Bs; [discriminate|]. destruct (Sched.step c (sc s) (Visit i)) as [sc'|] eqn:E; [|discriminate].
    destruct (visit_keeps _ _ _ E) as (Kr & Kl & Kb & Kc).
    destruct (cerr_visit c (sc s) i) eqn:CE.
    + destruct (xstep n (xr s) (ECan (loop_id (nloop s)))) as [x'|] eqn:X; [|discriminate]. injection H as <-.
      destruct (xstep_can_meta _ _ _ X) as (Hrp & Hkp & Hj).
      assert (Hnew : kp (xr s) (loop_id (nloop s)) = KNew) by (apply Fr; lia).
      destruct Hj as [(_ & K2 & Hc)|(K1 & _)]; [|congruence].
      constructor; cbn [sc xr blk nloop].
      * rewrite Kc, orb_true_r, Hc. reflexivity.
      * rewrite Hrp. intros k Hk. destruct (R k Hk) as [Hr|(err & Hd & Hin)]; [left; auto | right; exists err; split; auto].
      * rewrite Hrp. intros k ok Hin. apply T. apply Kb. assumption.
      * intros j Hj'. injection Hj' as <-. split; [assumption | exists (nloop s); split; [reflexivity | lia]].
      * intros m Hm. rewrite Hkp; [apply Fr; lia|]. intros Heq. apply loop_inj in Heq. lia.
    + injection H as <-. constructor; cbn [sc xr blk nloop].
      * rewrite Kc, orb_false_r. assumption.
      * intros k Hk. destruct (R k Hk) as [Hr|(err & Hd & Hin)]; [left; auto | right; exists err; split; auto].
      * intros k ok Hin. apply T. apply Kb. assumption.
      * intros j Hj. discriminate.
      * assumption.
  - (* PRun *)
    assert (G : rp (xr s) i = RNew -> st (sc s) i = Running \/ pstep c n s (PRun i) = None).
    { intros Rn. cbn [pstep]. rewrite Rn. destruct (Nat.ltb i (length c)); cbn [andb]; [|right; reflexivity].
      destruct (st (sc s) i); cbn; auto. }
    assert (X : exists x', xstep n (xr s) (ERun i) = Some x' /\ s' = mkP (sc s) x' (blk s) (nloop s) /\ (rp (xr s) i = RNew -> st (sc s) i = Running)).
    { destruct (rp (xr s) i) eqn:Rr.
      1: destruct (Nat.ltb i (length c) && is_running (st (sc s) i) && negb (fatal (sc s))) eqn:Gd; [|discriminate].
      all: destruct (xstep n (xr s) (ERun i)) as [x'|]; [|discriminate]; injection H as <-; exists x'; repeat split; try discriminate.
      intros _. apply andb_prop in Gd. destruct Gd as (Gd & _). apply andb_prop in Gd. destruct Gd as (_ & Gd).
      destruct (st (sc s) i); try discriminate. reflexivity. }
    clear G. destruct X as (x' & X & -> & G). destruct (xstep_run_meta _ _ _ X) as (Hc & Hk & Hn & Hd).
    pose proof (xstep_run_other _ _ _ X) as Ho. constructor; cbn [sc xr blk nloop].
    + rewrite Hc. assumption.
    + intros k Hk'. destruct (Nat.eq_dec k i) as [->|Hne].
      * assert (Hcase : rp (xr s) i = RNew \/ rp (xr s) i <> RNew) by (destruct (rp (xr s) i); [left; reflexivity | right; discriminate ..]).
        destruct Hcase as [Hn0|Hn0]; [left; apply G; assumption|].
        destruct (R i Hn0) as [Hr|(err' & Hd' & _)]; [left; assumption | exfalso; eapply Hd; eassumption].
      * rewrite (Ho k Hne) in *. apply R. assumption.
    + intros k ok Hin. pose proof (T k ok Hin) as Tk. destruct (Nat.eq_dec k i) as [->|Hne]; [exfalso; eapply Hd; eassumption | rewrite (Ho k Hne); assumption].
    + rewrite Hk. assumption.
    + rewrite Hk. assumption.
  - (* PIntr *)
    destruct (xstep n (xr s) (EIntr i)) as [x'|] eqn:X; [|discriminate]. injection H as <-.
    destruct (xstep_intr_meta _ _ _ X) as (Hc & Hk & Ho & Hn & Hd). constructor; cbn [sc xr blk nloop].
    + rewrite Hc. assumption.
    + intros k Hk'. destruct (Nat.eq_dec k i) as [->|Hne].
      * assert (Hnn : rp (xr s) i <> RNew) by (intros Rn; cbn in X; rewrite Rn in X; discriminate).
        destruct (R i Hnn) as [Hr|(err' & Hd' & _)]; [left; assumption | exfalso; eapply Hd; eassumption].
      * rewrite (Ho k Hne) in *. apply R. assumption.
    + intros k ok Hin. pose proof (T k ok Hin) as Tk. destruct (Nat.eq_dec k i) as [->|Hne]; [exfalso; eapply Hd; eassumption | rewrite (Ho k Hne); assumption].
    + rewrite Hk. assumption.
    + rewrite Hk. assumption.
  - (* PRet *)
    destruct (rp (xr s) i) eqn:Rr; try discriminate.
    destruct (Sched.step c (sc s) (Ret i (negb err))) as [sc'|] eqn:E; [|discriminate]. injection H as <-.
    destruct (ret_keeps _ _ _ _ E) as (Hrun & Hnr & Hoth & Hlog & Hc). constructor; cbn [sc xr blk nloop].
    + rewrite Hc. assumption.
    + intros k Hk. destruct (Nat.eq_dec k i) as [->|Hne].
      * right. exists err. split; [assumption | rewrite Hlog; left; reflexivity].
      * rewrite (Hoth k Hne), Hlog. destruct (R k Hk) as [Hr|(err' & Hd' & Hin)]; [left; assumption | right; exists err'; split; [assumption | right; assumption]].
    + intros k ok Hin. rewrite Hlog in Hin. destruct Hin as [Heq|Hin]; [|apply T; assumption].
      injection Heq as <- <-. rewrite negb_involutive. assumption.
    + assumption.
    + assumption.
  - (* PFin *)
    destruct (Sched.step c (sc s) (Fin i)) as [sc'|] eqn:E; [|discriminate]. injection H as <-.
    destruct (fin_keeps _ _ _ E) as (Hp & Hoth & Hlog & Hc). destruct (inv_pend _ _ I i Hp) as (He & _ & Hin).
    constructor; cbn [sc xr blk nloop].
    + rewrite Hc. assumption.
    + intros k Hk. rewrite Hlog. destruct (Nat.eq_dec k i) as [->|Hne].
      * destruct (R i Hk) as [Hr|Hd]; [congruence | right; assumption].
      * rewrite (Hoth k Hne). apply R. assumption.
    + rewrite Hlog. assumption.
    + assumption.
    + assumption.
  - (* PExt *)
    destruct (kp (xr s) (ext_id j)) eqn:K; [| |discriminate].
    + destruct (Sched.step c (sc s) ExtCancel) as [sc'|] eqn:E; [|discriminate].
      destruct (xstep n (xr s) (ECan (ext_id j))) as [x'|] eqn:X; [|discriminate]. injection H as <-.
      destruct (ext_keeps _ _ E) as (Hst & Hlog & Hc). destruct (xstep_can_meta _ _ _ X) as (Hrp & Hkp & Hj).
      destruct Hj as [(_ & _ & Hxc)|(K1 & _)]; [|congruence].
      constructor; cbn [sc xr blk nloop].
      * congruence.
      * rewrite Hrp, Hst, Hlog. assumption.
      * rewrite Hrp, Hlog. assumption.
      * intros j' Hj'. destruct (B j' Hj') as (Kw & m & -> & Hm). split; [|exists m; split; [reflexivity | assumption]].
        rewrite Hkp; [assumption | apply parity].
      * intros m Hm. rewrite Hkp; [apply Fr; assumption | apply parity].
    + destruct (xstep n (xr s) (ECan (ext_id j))) as [x'|] eqn:X; [|discriminate]. injection H as <-.
      destruct (xstep_can_meta _ _ _ X) as (Hrp & Hkp & Hj).
      destruct Hj as [(K1 & _)|(_ & _ & Hxc)]; [congruence|].
      constructor; cbn [sc xr blk nloop].
      * congruence.
      * rewrite Hrp. assumption.
      * rewrite Hrp. assumption.
      * intros j' Hj'. destruct (B j' Hj') as (Kw & m & -> & Hm). split; [|exists m; split; [reflexivity | assumption]].
        rewrite Hkp; [assumption | apply parity].
      * intros m Hm. rewrite Hkp; [apply Fr; assumption | apply parity].
  - (* PLoopCan *)
    destruct (blk s) as [j|] eqn:Bs; [|discriminate]. destruct (xstep n (xr s) (ECan j)) as [x'|] eqn:X; [|discriminate].
    injection H as <-. destruct (B j eq_refl) as (Kw & m & -> & Hm). destruct (xstep_can_meta _ _ _ X) as (Hrp & Hkp & Hj).
    destruct Hj as [(K1 & _)|(_ & _ & Hxc)]; [congruence|].
    constructor; cbn [sc xr blk nloop].
    + congruence.
    + rewrite Hrp. assumption.
    + rewrite Hrp. assumption.
    + intros j' Hj'. discriminate.
    + intros m' Hm'. rewrite Hkp; [apply Fr; assumption|]. intros Heq. apply loop_inj in Heq. lia.
  - (* PExit *)
    destruct (blk s) eqn:Bs; [discriminate|]. destruct (Sched.step c (sc s) Exit) as [sc'|] eqn:E; [|discriminate]. injection H as <-.
    destruct (exit_keeps _ _ E) as (Hst & Hlog & Hc). constructor; cbn [sc xr blk nloop].
    + congruence.
    + rewrite Hst, Hlog. assumption.
    + rewrite Hlog. assumption.
    + intros j Hj. discriminate.
    + assumption.
Qed.

(* every reachable composed state satisfies the synchronisation invariant and both component invariants *)
Lemma prun_invs es : forall s s', psync s -> inv c (sc s) -> xinv n (xr s) -> prun c n s es = Some s' ->
  psync s' /\ inv c (sc s') /\ xinv n (xr s').
Proof.
  induction es as [|e es IH]; intros s s' P I X H; cbn in H.
  - injection H as <-. split; [assumption | split; assumption].
  - destruct (pstep c n s e) as [s1|] eqn:E; [|discriminate]. destruct (pstep_proj _ _ _ E) as (A & B).
    apply (IH s1 s'); [eapply psync_step; eassumption | eapply inv_run; eassumption | eapply xrun_inv; eassumption | assumption].
Qed.
Theorem preach_invs es s : preach c n es s -> psync s /\ inv c (sc s) /\ xinv n (xr s).
Proof. intros H. apply (prun_invs es pinit s); [apply psync_init | apply inv_init | apply xinv_init | exact H]. Qed.

(* ---- consequences at the level of the pipeline run ---- *)

(* the scheduler's flag and the runner's context are cancelled together *)
Theorem pipe_flags_agree es s : preach c n es s -> Sched.cancelled (sc s) = Cancel.cancelled (xr s).
Proof. intros H. apply (ps_flag _ (proj1 (preach_invs _ _ H))). Qed.

(* a Run call is in progress only in a stage whose status is Running: commands of stage i run after its start was logged,
   hence (C01) after every dependency has finished *)
Theorem pipe_run_only_in_running_stage es s i : preach c n es s -> active (rp (xr s) i) = true -> st (sc s) i = Running.
Proof.
  intros H Ha. destruct (preach_invs _ _ H) as (P & _ & _).
  destruct (ps_run _ P i) as [Hr|(err & Hd & _)]; [intros Hn; rewrite Hn in Ha; discriminate | assumption | rewrite Hd in Ha; discriminate].
Qed.

(* a stage is reported successful only if every command of its task was started (none skipped, none interrupted) *)
Theorem pipe_stage_success_means_everything_ran es s i : preach c n es s -> In (ORet i true) (log (sc s)) ->
  forall k, k < n i -> In (XStart i k) (xtrace (xr s)).
Proof.
  intros H Hin. destruct (preach_invs _ _ H) as (P & _ & X). apply (xi_ok _ _ X i). right. apply (ps_ret _ P i true Hin).
Qed.

(* once any Cancel - from outside or by the loop after a condition error - has flagged the cancellation, no command of any
   stage is started any more, whatever the scheduler goes on to do (stages it still starts have their Run refused) *)
Theorem pipe_nothing_starts_after_cancel es0 s es s' : preach c n es0 s -> Sched.cancelled (sc s) = true ->
  prun c n s es = Some s' -> xtrace (xr s') = xtrace (xr s).
Proof.
  intros H Hc Hr. destruct (preach_invs _ _ H) as (P & _ & _). destruct (prun_components _ _ _ Hr) as (es1 & es2 & _ & B).
  apply (nothing_starts_after_cancel n es2 _ _ B). rewrite <- (ps_flag _ P). assumption.
Qed.

(* ... and every stage whose Run is entered after that comes back with an error, which the scheduler records *)
Theorem pipe_run_after_cancel_fails es s i s1 s2 : preach c n es s -> Sched.cancelled (sc s) = true -> rp (xr s) i = RNew ->
  pstep c n s (PRun i) = Some s1 -> pstep c n s1 (PRun i) = Some s2 -> rp (xr s2) i = RLeaving true.
Proof.
  intros H Hc Hn H1 H2. destruct (preach_invs _ _ H) as (P & _ & _). rewrite (ps_flag _ P) in Hc.
  destruct (pstep_proj _ _ _ H1) as (_ & B1). destruct (pstep_proj _ _ _ H2) as (_ & B2). cbn [proj_x xrun] in B1, B2.
  destruct (xstep n (xr s) (ERun i)) as [x1|] eqn:E1; [|discriminate]. injection B1 as B1.
  destruct (xstep n (xr s1) (ERun i)) as [x2|] eqn:E2; [|discriminate]. injection B2 as B2. subst x1 x2.
  eapply run_after_cancel_fails; eassumption.
Qed.

(* the loop blocked inside its own Cancel is never stuck: the Cancel can return, or a run it waits for can take a step *)
Theorem pipe_blocked_loop_is_not_stuck es s j : preach c n es s -> blk s = Some j ->
  (exists s', pstep c n s PLoopCan = Some s') \/ (exists i s', active (rp (xr s) i) = true /\ pstep c n s (PRun i) = Some s').
Proof.
  intros H Hb. destruct (preach_invs _ _ H) as (P & _ & X). destruct (preach_components _ _ H) as (_ & es2 & _ & Hx).
  destruct (ps_blk _ P j Hb) as (Kw & _).
  destruct (waiting_cancel_is_not_stuck n es2 (xr s) j Hx Kw) as [(x' & Hs)|(i & x' & Ha & Hs)].
  - left. cbn [pstep]. rewrite Hb, Hs. eexists; reflexivity.
  - right. exists i. cbn [pstep]. destruct (rp (xr s) i) eqn:Rr; try discriminate; rewrite Hs; eexists; (split; [reflexivity | reflexivity]).
Qed.

(* once cancelled and the loop not blocked, the polling loop can be left: the pipeline run returns (with C03_pending_can_finish
   and C12_runs_never_block for the goroutines still in flight) *)
Theorem pipe_cancelled_can_exit es s : preach c n es s -> Sched.cancelled (sc s) = true -> blk s = None ->
  fatal (sc s) = false -> exited (sc s) = false -> exists s', pstep c n s PExit = Some s'.
Proof.
  intros H Hc Hb Hf Hx. cbn [pstep]. rewrite Hb. unfold Sched.step. rewrite Hf, Hx, Hc. cbn. eexists; reflexivity.
Qed.
End Pipe.
