(** Format independence of weak decoding on the portable domain (C16). *)
From Coq Require Import List ZArith Bool Lia.
Import ListNotations.
From TaskctlV Require Import Model.Decode.
Open Scope Z_scope.

Section AvInd.
  Variable P : av -> Prop.
  Hypothesis Hs : forall s, P (AStr s).
  Hypothesis Hb : forall b, P (ABool b).
  Hypothesis Hi : forall z, P (AInt z).
  Hypothesis Hd : forall d, P (ADec d).
  Hypothesis Hl : forall l, Forall P l -> P (AList l).
  Hypothesis Hm : forall m, Forall (fun kv => P (snd kv)) m -> P (AMap m).
  Fixpoint av_ind' (a : av) : P a :=
    match a with
    | AStr s => Hs s | ABool b => Hb b | AInt z => Hi z | ADec d => Hd d
    | AList l => Hl l ((fix go (l : list av) : Forall P l := match l with [] => Forall_nil _ | x :: l' => Forall_cons _ (av_ind' x) (go l') end) l)
    | AMap m => Hm m ((fix go (m : list (nat * av)) : Forall (fun kv => P (snd kv)) m :=
                        match m with [] => Forall_nil _ | kv :: m' => Forall_cons _ (av_ind' (snd kv)) (go m') end) m)
    end.
End AvInd.

Lemma round53_exact z : Z.abs z <=? two53 = true -> round53 z = z.
Proof. intros H. unfold round53. now rewrite H. Qed.

(* TOML and YAML hand over the same values *)
Theorem toml_is_yaml a : native Toml a = native Yaml a.
Proof.
  induction a as [s|b|z|d|l IH|m IH] using av_ind'; cbn [native]; try reflexivity.
  - f_equal. induction IH as [|x l Hx _ IHl]; cbn [map]; [reflexivity|]. now rewrite Hx, IHl.
  - f_equal. induction IH as [|[k x] m Hx _ IHm]; [reflexivity|]. cbn [snd] in Hx. now rewrite Hx, IHm.
Qed.

(* JSON's float64 numbers decode like YAML's integers as long as the integers are exactly representable *)
Theorem json_like_yaml a : portable a = true -> forall t, wd t (native Json a) = wd t (native Yaml a).
Proof.
  induction a as [s|b|z|d|l IH|m IH] using av_ind'; intros Hp t; cbn [native portable] in *.
  - reflexivity.
  - reflexivity.
  - rewrite (round53_exact z Hp). destruct t; try reflexivity; destruct t; reflexivity.
  - reflexivity.
  - destruct t; try reflexivity. cbn [wd]. f_equal.
    induction IH as [|x l Hx _ IHl]; cbn [map]; [reflexivity|]. cbn [forallb] in Hp. apply andb_true_iff in Hp. destruct Hp as [H1 H2].
    now rewrite (Hx H1), (IHl H2).
  - destruct t; try reflexivity. cbn [wd]. f_equal.
    induction IH as [|[k x] m Hx _ IHm]; [reflexivity|]. cbn [snd] in Hx. apply andb_true_iff in Hp. destruct Hp as [H1 H2].
    now rewrite (Hx H1), (IHm H2).
Qed.

Theorem format_independent a : portable a = true -> forall t,
  wd t (native Yaml a) = wd t (native Json a) /\ wd t (native Json a) = wd t (native Toml a).
Proof. intros Hp t. rewrite toml_is_yaml, (json_like_yaml a Hp t). split; reflexivity. Qed.
