(** C12: safety and deadlock-freedom of the repaired Run/Cancel hand-shake, for all interleavings. *)
From Coq Require Import List Arith Bool Lia.
Import ListNotations.
From TaskctlV Require Import Model.Cancel.

Lemma updr_same {A} (f : nat -> A) i x : updr f i x i = x.
Proof. unfold updr. rewrite Nat.eqb_refl. reflexivity. Qed.
Lemma updr_other {A} (f : nat -> A) i x j : j <> i -> updr f i x j = f j.
Proof. unfold updr. intros H. apply Nat.eqb_neq in H. rewrite H. reflexivity. Qed.

Definition active (p : rpc) : bool := match p with REntered | RIdle _ | RBusy _ | RLeaving _ => true | _ => false end.

Section C12.
Variable ncmds : nat -> nat.

Definition xreach (es : list cev) (s : xstate) : Prop := xrun ncmds xinit es = Some s.

Record xinv (s : xstate) : Prop := {
  xi_act : exists act, NoDup act /\ length act = running s /\ forall i, In i act <-> active (rp s i) = true;
  xi_kp : forall j, kp s j <> KNew -> cancelled s = true;
  xi_idle : forall i k, rp s i = RIdle k -> k <= ncmds i /\ forall k', k' < k -> In (XStart i k') (xtrace s);
  xi_busy : forall i k, rp s i = RBusy k -> k < ncmds i /\ forall k', k' <= k -> In (XStart i k') (xtrace s);
  xi_ok : forall i, rp s i = RLeaving false \/ rp s i = RDone false -> forall k', k' < ncmds i -> In (XStart i k') (xtrace s)
}.

Lemma xinv_init : xinv xinit.
Proof.
  constructor; cbn.
  - exists []. split; [constructor|]. split; [reflexivity|]. intros i. split; [intros [] | discriminate].
  - intros j H. contradiction.
  - intros; discriminate.
  - intros; discriminate.
  - intros i [H|H]; discriminate.
Qed.

Lemma remove_length i l : NoDup l -> In i l -> S (length (remove Nat.eq_dec i l)) = length l.
Proof.
  induction l as [|a l IH]; intros Hnd Hin; [destruct Hin|].
  inversion Hnd as [|? ? Hna Hnd']; subst. cbn. destruct (Nat.eq_dec i a) as [->|Hne].
  - rewrite notin_remove by assumption. reflexivity.
  - cbn. f_equal. apply IH; [assumption|]. destruct Hin as [H|H]; [congruence | assumption].
Qed.

Lemma remove_nodup i l : NoDup l -> NoDup (remove Nat.eq_dec i l).
Proof.
  induction l as [|a l IH]; intros Hnd; cbn; [constructor|].
  inversion Hnd as [|? ? Hna Hnd']; subst. destruct (Nat.eq_dec i a); [apply IH; assumption|].
  constructor; [|apply IH; assumption]. intros Hin. apply in_remove in Hin. destruct Hin. contradiction.
Qed.

(* the set of active runs when run i moves from p to p' *)
Lemma act_same (s : xstate) i p' :
  active (rp s i) = active p' ->
  (exists act, NoDup act /\ length act = running s /\ forall q, In q act <-> active (rp s q) = true) ->
  exists act, NoDup act /\ length act = running s /\ forall q, In q act <-> active (updr (rp s) i p' q) = true.
Proof.
  intros Ha (act & Hnd & Hl & Hi). exists act. split; [assumption|]. split; [assumption|].
  intros q. rewrite Hi. unfold updr. destruct (Nat.eqb_spec q i) as [Eqi|Hne]; [subst q|]; [rewrite Ha; reflexivity | reflexivity].
Qed.

Lemma xinv_step s e s' : xinv s -> xstep ncmds s e = Some s' -> xinv s'.
Proof.
  intros I H. destruct e as [i|i|j]; cbn in H.
  - destruct (rp s i) eqn:Hp.
    + (* enter *)
      injection H as <-. constructor; cbn [rp kp cancelled running xtrace].
      * destruct (xi_act _ I) as (act & Hnd & Hl & Hi). exists (i :: act).
        assert (Hni : ~ In i act) by (intros Hin; apply Hi in Hin; rewrite Hp in Hin; discriminate).
        split; [constructor; assumption|]. split; [cbn; congruence|].
        intros q. unfold updr. destruct (Nat.eqb_spec q i) as [Eqi|Hne]; [subst q|]; cbn.
        -- split; [reflexivity | intros _; left; reflexivity].
        -- rewrite <- Hi. split; [intros [E|E]; [congruence | assumption] | intros E; right; assumption].
      * apply (xi_kp _ I).
      * intros q k Hq. unfold updr in Hq. destruct (Nat.eqb_spec q i) as [Eqi|Hne]; [subst q|]; [discriminate | apply (xi_idle _ I); assumption].
      * intros q k Hq. unfold updr in Hq. destruct (Nat.eqb_spec q i) as [Eqi|Hne]; [subst q|]; [discriminate | apply (xi_busy _ I); assumption].
      * intros q Hq. unfold updr in Hq. destruct (Nat.eqb_spec q i) as [Eqi|Hne]; [subst q|]; [destruct Hq; discriminate | apply (xi_ok _ I); assumption].
    + (* check context *)
      injection H as <-. constructor; cbn [rp kp cancelled running xtrace].
      * apply act_same; [rewrite Hp; destruct (cancelled s); reflexivity | apply (xi_act _ I)].
      * apply (xi_kp _ I).
      * intros q k Hq. unfold updr in Hq. destruct (Nat.eqb_spec q i) as [Eqi|Hne]; [subst q|]; [|apply (xi_idle _ I); assumption].
        destruct (cancelled s); [discriminate|]. injection Hq as <-. split; [lia | intros k' Hk; lia].
      * intros q k Hq. unfold updr in Hq. destruct (Nat.eqb_spec q i) as [Eqi|Hne]; [subst q|]; [destruct (cancelled s); discriminate | apply (xi_busy _ I); assumption].
      * intros q Hq. unfold updr in Hq. destruct (Nat.eqb_spec q i) as [Eqi|Hne]; [subst q|]; [destruct (cancelled s); destruct Hq; discriminate | apply (xi_ok _ I); assumption].
    + (* idle k *)
      destruct (xi_idle _ I i k Hp) as (Hk & Hst).
      destruct (Nat.leb (ncmds i) k) eqn:Hle.
      * apply Nat.leb_le in Hle. injection H as <-. constructor; cbn [rp kp cancelled running xtrace].
        -- apply act_same; [rewrite Hp; reflexivity | apply (xi_act _ I)].
        -- apply (xi_kp _ I).
        -- intros q k0 Hq. unfold updr in Hq. destruct (Nat.eqb_spec q i) as [Eqi|Hne]; [subst q|]; [discriminate | apply (xi_idle _ I); assumption].
        -- intros q k0 Hq. unfold updr in Hq. destruct (Nat.eqb_spec q i) as [Eqi|Hne]; [subst q|]; [discriminate | apply (xi_busy _ I); assumption].
        -- intros q Hq. unfold updr in Hq. destruct (Nat.eqb_spec q i) as [Eqi|Hne]; [subst q|]; [intros k' Hk'; apply Hst; lia | apply (xi_ok _ I); assumption].
      * apply Nat.leb_gt in Hle. destruct (cancelled s) eqn:Hc; injection H as <-; constructor; cbn [rp kp cancelled running xtrace].
        -- apply act_same; [rewrite Hp; reflexivity | apply (xi_act _ I)].
        -- intros j Hj. pose proof (xi_kp _ I j Hj). congruence.
        -- intros q k0 Hq. unfold updr in Hq. destruct (Nat.eqb_spec q i) as [Eqi|Hne]; [subst q|]; [discriminate | apply (xi_idle _ I); assumption].
        -- intros q k0 Hq. unfold updr in Hq. destruct (Nat.eqb_spec q i) as [Eqi|Hne]; [subst q|]; [discriminate | apply (xi_busy _ I); assumption].
        -- intros q Hq. unfold updr in Hq. destruct (Nat.eqb_spec q i) as [Eqi|Hne]; [subst q|]; [destruct Hq; discriminate | apply (xi_ok _ I); assumption].
        -- apply act_same; [rewrite Hp; reflexivity | apply (xi_act _ I)].
        -- intros j Hj. pose proof (xi_kp _ I j Hj). congruence.
        -- intros q k0 Hq. unfold updr in Hq. destruct (Nat.eqb_spec q i) as [Eqi|Hne]; [subst q|]; [discriminate|].
           destruct (xi_idle _ I q k0 Hq) as (A & B). split; [assumption | intros k' Hk'; right; apply B; assumption].
        -- intros q k0 Hq. unfold updr in Hq. destruct (Nat.eqb_spec q i) as [Eqi|Hne]; [subst q|].
           ++ injection Hq as <-. split; [assumption|]. intros k' Hk'. destruct (Nat.eq_dec k' k) as [->|Hne']; [left; reflexivity | right; apply Hst; lia].
           ++ destruct (xi_busy _ I q k0 Hq) as (A & B). split; [assumption | intros k' Hk'; right; apply B; assumption].
        -- intros q Hq. unfold updr in Hq. destruct (Nat.eqb_spec q i) as [Eqi|Hne]; [subst q|]; [destruct Hq; discriminate|].
           intros k' Hk'. right. apply (xi_ok _ I q Hq k' Hk').
    + (* busy k: the command completes *)
      destruct (xi_busy _ I i k Hp) as (Hk & Hst).
      injection H as <-. constructor; cbn [rp kp cancelled running xtrace].
      * apply act_same; [rewrite Hp; reflexivity | apply (xi_act _ I)].
      * apply (xi_kp _ I).
      * intros q k0 Hq. unfold updr in Hq. destruct (Nat.eqb_spec q i) as [Eqi|Hne]; [subst q|]; [|apply (xi_idle _ I); assumption].
        injection Hq as <-. split; [lia | intros k' Hk'; apply Hst; lia].
      * intros q k0 Hq. unfold updr in Hq. destruct (Nat.eqb_spec q i) as [Eqi|Hne]; [subst q|]; [discriminate | apply (xi_busy _ I); assumption].
      * intros q Hq. unfold updr in Hq. destruct (Nat.eqb_spec q i) as [Eqi|Hne]; [subst q|]; [destruct Hq; discriminate | apply (xi_ok _ I); assumption].
    + (* leave *)
      injection H as <-. constructor; cbn [rp kp cancelled running xtrace].
      * destruct (xi_act _ I) as (act & Hnd & Hl & Hi).
        assert (Hin : In i act) by (apply Hi; rewrite Hp; reflexivity).
        exists (remove Nat.eq_dec i act). split; [apply remove_nodup; assumption|].
        split; [pose proof (remove_length i act Hnd Hin); lia|].
        intros q. unfold updr. destruct (Nat.eqb_spec q i) as [Eqi|Hne]; [subst q|]; cbn.
        -- split; [intros E; apply remove_In in E; destruct E | discriminate].
        -- rewrite <- Hi. split; [intros E; apply in_remove in E; apply E | intros E; apply in_in_remove; assumption].
      * apply (xi_kp _ I).
      * intros q k0 Hq. unfold updr in Hq. destruct (Nat.eqb_spec q i) as [Eqi|Hne]; [subst q|]; [discriminate | apply (xi_idle _ I); assumption].
      * intros q k0 Hq. unfold updr in Hq. destruct (Nat.eqb_spec q i) as [Eqi|Hne]; [subst q|]; [discriminate | apply (xi_busy _ I); assumption].
      * intros q Hq. unfold updr in Hq. destruct (Nat.eqb_spec q i) as [Eqi|Hne]; [subst q|]; [|apply (xi_ok _ I); assumption].
        apply (xi_ok _ I i). left. destruct Hq as [Hq|Hq]; [discriminate | injection Hq as <-; assumption].
    + discriminate.
  - (* interrupt *)
    destruct (rp s i) eqn:Hp; try discriminate. destruct (cancelled s) eqn:Hc; [|discriminate].
    injection H as <-. constructor; cbn [rp kp cancelled running xtrace].
    + apply act_same; [rewrite Hp; reflexivity | apply (xi_act _ I)].
    + intros j Hj. reflexivity.
    + intros q k0 Hq. unfold updr in Hq. destruct (Nat.eqb_spec q i) as [Eqi|Hne]; [subst q|]; [discriminate | apply (xi_idle _ I); assumption].
    + intros q k0 Hq. unfold updr in Hq. destruct (Nat.eqb_spec q i) as [Eqi|Hne]; [subst q|]; [discriminate | apply (xi_busy _ I); assumption].
    + intros q Hq. unfold updr in Hq. destruct (Nat.eqb_spec q i) as [Eqi|Hne]; [subst q|]; [destruct Hq; discriminate | apply (xi_ok _ I); assumption].
  - (* canceller *)
    destruct (kp s j) eqn:Hk.
    + injection H as <-. destruct I; constructor; cbn [rp kp cancelled running xtrace]; try assumption. intros; reflexivity.
    + destruct (Nat.eqb (running s) 0); [|discriminate]. injection H as <-.
      assert (Hc : cancelled s = true) by (apply (xi_kp _ I j); congruence).
      destruct I; constructor; cbn [rp kp cancelled running xtrace]; try assumption. intros; assumption.
    + discriminate.
Qed.

Lemma xrun_inv es : forall s s', xinv s -> xrun ncmds s es = Some s' -> xinv s'.
Proof.
  induction es as [|e es IH]; intros s s' I H; cbn in H; [injection H as <-; assumption|].
  destruct (xstep ncmds s e) as [s1|] eqn:E; [|discriminate]. eapply IH; [eapply xinv_step; eassumption | eassumption].
Qed.
Lemma xreach_inv es s : xreach es s -> xinv s.
Proof. intros H. eapply xrun_inv; [apply xinv_init | exact H]. Qed.

(* ---- no deadlock: a waiting Cancel can return, or a run it waits for can take a step ---- *)
Theorem waiting_cancel_is_not_stuck es s j : xreach es s -> kp s j = KWait ->
  (exists s', xstep ncmds s (ECan j) = Some s') \/ (exists i s', active (rp s i) = true /\ xstep ncmds s (ERun i) = Some s').
Proof.
  intros H Hk. pose proof (xreach_inv _ _ H) as I. destruct (xi_act _ I) as (act & Hnd & Hl & Hi).
  destruct act as [|i act].
  - left. cbn. rewrite Hk. cbn in Hl. rewrite <- Hl. cbn. eexists; reflexivity.
  - right. assert (Ha : active (rp s i) = true) by (apply Hi; left; reflexivity).
    exists i. cbn. destruct (rp s i) eqn:Hp; try discriminate; try (eexists; split; [reflexivity | reflexivity]).
    destruct (Nat.leb (ncmds i) k); [eexists; split; reflexivity|]. destruct (cancelled s); eexists; split; reflexivity.
Qed.

(* every thread that has not finished can take a step, except a Cancel waiting for runs in flight: no other blocking *)
Theorem unfinished_run_can_step s i : (forall e, rp s i <> RDone e) -> exists s', xstep ncmds s (ERun i) = Some s'.
Proof.
  intros H. cbn. destruct (rp s i) eqn:Hp; try (eexists; reflexivity).
  - destruct (Nat.leb (ncmds i) k); [eexists; reflexivity|]. destruct (cancelled s); eexists; reflexivity.
  - exfalso. apply (H err). reflexivity.
Qed.

(* ---- once the context is cancelled no further command starts; cancellation is irrevocable ---- *)
Lemma cancelled_stays s e s' : xstep ncmds s e = Some s' -> cancelled s = true -> cancelled s' = true /\ xtrace s' = xtrace s.
Proof.
  intros H Hc. destruct e as [i|i|j]; cbn in H.
  - destruct (rp s i); try discriminate; try (injection H as <-; split; [assumption | reflexivity]).
    destruct (Nat.leb (ncmds i) k); [injection H as <-; split; [assumption | reflexivity]|].
    rewrite Hc in H. injection H as <-. split; reflexivity.
  - destruct (rp s i); try discriminate. destruct (cancelled s); [|discriminate]. injection H as <-. split; reflexivity.
  - destruct (kp s j); try discriminate.
    + injection H as <-. split; reflexivity.
    + destruct (Nat.eqb (running s) 0); [|discriminate]. injection H as <-. split; [assumption | reflexivity].
Qed.

Theorem nothing_starts_after_cancel es : forall s s', xrun ncmds s es = Some s' -> cancelled s = true ->
  cancelled s' = true /\ xtrace s' = xtrace s.
Proof.
  induction es as [|e es IH]; intros s s' H Hc; cbn in H; [injection H as <-; split; [assumption | reflexivity]|].
  destruct (xstep ncmds s e) as [s1|] eqn:E; [|discriminate].
  destruct (cancelled_stays _ _ _ E Hc) as (Hc1 & Ht1). destruct (IH s1 s' H Hc1) as (Hc2 & Ht2). split; [assumption | congruence].
Qed.

Theorem after_cancel_returned_nothing_starts es0 s j es s' :
  xreach es0 s -> kp s j <> KNew -> xrun ncmds s es = Some s' -> xtrace s' = xtrace s.
Proof.
  intros H Hk Hr. pose proof (xreach_inv _ _ H) as I. apply (nothing_starts_after_cancel es s s' Hr). apply (xi_kp _ I j Hk).
Qed.

(* ---- a run reports success only if every one of its commands was started (and none was interrupted) ---- *)
Theorem success_means_everything_ran es s i : xreach es s -> rp s i = RDone false ->
  forall k, k < ncmds i -> In (XStart i k) (xtrace s).
Proof. intros H Hp. apply (xi_ok _ (xreach_inv _ _ H) i). right. assumption. Qed.

(* a run that enters after the cancellation reports an error *)
Theorem run_after_cancel_fails s i s1 s2 : cancelled s = true -> rp s i = RNew ->
  xstep ncmds s (ERun i) = Some s1 -> xstep ncmds s1 (ERun i) = Some s2 -> rp s2 i = RLeaving true.
Proof.
  intros Hc Hp H1 H2. cbn in H1. rewrite Hp in H1. injection H1 as <-. cbn in H2. rewrite updr_same in H2.
  rewrite Hc in H2. injection H2 as <-. cbn. rewrite updr_same. reflexivity.
Qed.

(* ---- every execution is finite: a measure that each step strictly decreases ---- *)
Definition wr (n : nat) (p : rpc) : nat :=
  match p with
  | RNew => 2 * n + 5 | REntered => 2 * n + 4
  | RIdle k => 2 * (n - k) + 3 | RBusy k => 2 * (n - k) + 2
  | RLeaving _ => 1 | RDone _ => 0
  end.
Definition wk (p : kpc) : nat := match p with KNew => 2 | KWait => 1 | KDone => 0 end.
Definition mu (rs ks : list nat) (s : xstate) : nat :=
  list_sum (map (fun i => wr (ncmds i) (rp s i)) rs) + list_sum (map (fun j => wk (kp s j)) ks).

Lemma sum_updr {A} (g : nat -> A -> nat) (f : nat -> A) i x l : NoDup l -> In i l ->
  list_sum (map (fun j => g j (updr f i x j)) l) + g i (f i) = list_sum (map (fun j => g j (f j)) l) + g i x.
Proof.
  induction l as [|a l IH]; intros Hnd Hin; [destruct Hin|].
  inversion Hnd as [|? ? Hna Hnd']; subst. simpl.
  destruct (Nat.eq_dec a i) as [->|Hne].
  - rewrite updr_same.
    assert (E : map (fun j => g j (updr f i x j)) l = map (fun j => g j (f j)) l).
    { apply map_ext_in. intros j Hj. rewrite updr_other; [reflexivity | intros ->; contradiction]. }
    rewrite E. lia.
  - rewrite updr_other by assumption. destruct Hin as [Hin|Hin]; [congruence|]. specialize (IH Hnd' Hin). lia.
Qed.

Definition ev_in (rs ks : list nat) (e : cev) : Prop :=
  match e with ERun i | EIntr i => In i rs | ECan j => In j ks end.

Theorem every_step_decreases_mu rs ks s e s' : NoDup rs -> NoDup ks -> xinv s -> ev_in rs ks e ->
  xstep ncmds s e = Some s' -> mu rs ks s' < mu rs ks s.
Proof.
  intros Hr Hk I Hin H. unfold mu. destruct e as [i|i|j]; cbn in H, Hin.
  - destruct (rp s i) eqn:Hp; try discriminate.
    + injection H as <-. cbn [rp kp]. pose proof (sum_updr (fun i p => wr (ncmds i) p) (rp s) i REntered rs Hr Hin) as E. rewrite Hp in E. cbn [wr] in E. lia.
    + injection H as <-. cbn [rp kp]. pose proof (sum_updr (fun i p => wr (ncmds i) p) (rp s) i (if cancelled s then RLeaving true else RIdle 0) rs Hr Hin) as E.
      rewrite Hp in E. cbn [wr] in E. destruct (cancelled s); cbn [wr] in E; lia.
    + destruct (xi_idle _ I i k Hp) as (Hkn & _).
      destruct (Nat.leb (ncmds i) k) eqn:Hle; [|apply Nat.leb_gt in Hle; destruct (cancelled s)]; injection H as <-; cbn [rp kp].
      * pose proof (sum_updr (fun i p => wr (ncmds i) p) (rp s) i (RLeaving false) rs Hr Hin) as E. rewrite Hp in E. cbn [wr] in E. lia.
      * pose proof (sum_updr (fun i p => wr (ncmds i) p) (rp s) i (RLeaving true) rs Hr Hin) as E. rewrite Hp in E. cbn [wr] in E. lia.
      * pose proof (sum_updr (fun i p => wr (ncmds i) p) (rp s) i (RBusy k) rs Hr Hin) as E. rewrite Hp in E. cbn [wr] in E. lia.
    + destruct (xi_busy _ I i k Hp) as (Hkn & _). injection H as <-. cbn [rp kp].
      pose proof (sum_updr (fun i p => wr (ncmds i) p) (rp s) i (RIdle (S k)) rs Hr Hin) as E. rewrite Hp in E. cbn [wr] in E. lia.
    + injection H as <-. cbn [rp kp]. pose proof (sum_updr (fun i p => wr (ncmds i) p) (rp s) i (RDone err) rs Hr Hin) as E. rewrite Hp in E. cbn [wr] in E. lia.
  - destruct (rp s i) eqn:Hp; try discriminate. destruct (cancelled s); [|discriminate]. injection H as <-. cbn [rp kp].
    pose proof (sum_updr (fun i p => wr (ncmds i) p) (rp s) i (RLeaving true) rs Hr Hin) as E. rewrite Hp in E. cbn [wr] in E. lia.
  - destruct (kp s j) eqn:Hp; try discriminate.
    + injection H as <-. cbn [rp kp]. pose proof (sum_updr (fun _ p => wk p) (kp s) j KWait ks Hk Hin) as E. rewrite Hp in E. cbn [wk] in E. lia.
    + destruct (Nat.eqb (running s) 0); [|discriminate]. injection H as <-. cbn [rp kp].
      pose proof (sum_updr (fun _ p => wk p) (kp s) j KDone ks Hk Hin) as E. rewrite Hp in E. cbn [wk] in E. lia.
Qed.

(* hence no execution of the threads rs, ks is longer than the initial measure: Cancel returns, the runs return *)
Theorem executions_are_bounded rs ks es : NoDup rs -> NoDup ks -> forall s s', xinv s -> Forall (ev_in rs ks) es ->
  xrun ncmds s es = Some s' -> length es + mu rs ks s' <= mu rs ks s.
Proof.
  intros Hr Hk. induction es as [|e es IH]; intros s s' I Hall H; cbn in H; [injection H as <-; cbn; lia|].
  destruct (xstep ncmds s e) as [s1|] eqn:E; [|discriminate].
  inversion Hall as [|? ? He Hall']; subst.
  pose proof (every_step_decreases_mu rs ks s e s1 Hr Hk I He E) as Hlt.
  pose proof (xinv_step _ _ _ I E) as I1. specialize (IH s1 s' I1 Hall' H). cbn [length]. lia.
Qed.
End C12.
