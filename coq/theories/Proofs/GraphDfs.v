(** Correctness of the grey/black DFS of Model/Graph.v and of the incremental build. *)
From Coq Require Import List Arith Bool Lia.
Import ListNotations.
From TaskctlV Require Import Model.Graph.

Lemma mem_In x l : mem x l = true <-> In x l.
Proof.
  unfold mem. rewrite existsb_exists. split.
  - intros (y & Hy & He). apply Nat.eqb_eq in He. subst. assumption.
  - intros H. exists x. split; [assumption | apply Nat.eqb_refl].
Qed.

Lemma mem_false x l : mem x l = false <-> ~ In x l.
Proof. rewrite <- mem_In. destruct (mem x l); split; congruence. Qed.

Section DFS.
Variable succ : nat -> list nat.

Inductive reach : nat -> nat -> Prop :=
| reach_refl x : reach x x
| reach_step x y z : In y (succ x) -> reach y z -> reach x z.

Definition reach_plus x z := exists y, In y (succ x) /\ reach y z.

Lemma reach_trans x y z : reach x y -> reach y z -> reach x z.
Proof. induction 1; intros; [assumption | econstructor; eauto]. Qed.

(* the inner loop of dfs, named *)
Definition go_loop (f : nat) (t : nat) (path : list nat) :=
  fix go (ns : list nat) (b : list nat) {struct ns} : res :=
    match ns with
    | [] => Ok (t :: b)
    | n :: ns' =>
      match dfs succ f n (t :: path) b with
      | Ok b' => go ns' b'
      | r => r
      end
    end.

Lemma dfs_unfold f t path black :
  dfs succ (S f) t path black =
  if mem t path then Cycle else if mem t black then Ok black else go_loop f t path (succ t) black.
Proof. reflexivity. Qed.

(* ---------- soundness ---------- *)
Lemma dfs_sound fuel : forall t path black,
  dfs succ fuel t path black = Cycle ->
  (exists u, In u path /\ reach t u) \/ (exists x, reach t x /\ reach_plus x x).
Proof.
  induction fuel as [|f IH]; intros t path black H; [discriminate|].
  rewrite dfs_unfold in H.
  destruct (mem t path) eqn:Hp.
  { left. exists t. split; [apply mem_In; assumption | constructor]. }
  destruct (mem t black) eqn:Hb; [discriminate|].
  assert (Hgo : forall ns b, incl ns (succ t) -> go_loop f t path ns b = Cycle ->
     (exists u, In u path /\ reach t u) \/ (exists x, reach t x /\ reach_plus x x)).
  { induction ns as [|n ns' IHns]; intros b Hincl Hc; [discriminate|].
    cbn [go_loop] in Hc.
    destruct (dfs succ f n (t :: path) b) as [|b1|] eqn:Hd.
    - apply IH in Hd. assert (Hn : In n (succ t)) by (apply Hincl; left; reflexivity).
      destruct Hd as [(u & [<-|Hu] & Hr) | (x & Hr & Hx)].
      + right. exists t. split; [constructor | exists n; split; assumption].
      + left. exists u. split; [assumption | econstructor; eassumption].
      + right. exists x. split; [econstructor; eassumption | assumption].
    - apply (IHns b1); [intros z Hz; apply Hincl; right; assumption | assumption].
    - discriminate. }
  apply (Hgo (succ t) black); [apply incl_refl | assumption].
Qed.

(* ---------- completeness ---------- *)
Definition topo (b : list nat) : Prop :=
  forall l1 u l2, b = l1 ++ u :: l2 -> forall v, In v (succ u) -> In v l2.

Lemma topo_nil : topo [].
Proof. intros l1 u l2 H. destruct l1; discriminate. Qed.

Lemma topo_cons t b : topo b -> (forall v, In v (succ t) -> In v b) -> topo (t :: b).
Proof.
  intros Hb Ht l1 u l2 H v Hv. destruct l1 as [|a l1]; cbn in H; injection H as -> ->.
  - apply Ht; assumption.
  - eapply Hb; [reflexivity | eassumption].
Qed.

Lemma dfs_complete fuel : forall t path black b',
  dfs succ fuel t path black = Ok b' -> topo black ->
  topo b' /\ In t b' /\ (exists l, b' = l ++ black).
Proof.
  induction fuel as [|f IH]; intros t path black b' H Htopo; [discriminate|].
  rewrite dfs_unfold in H.
  destruct (mem t path) eqn:Hp; [discriminate|].
  destruct (mem t black) eqn:Hb.
  { injection H as <-. repeat split; [assumption | apply mem_In; assumption | exists []; reflexivity]. }
  assert (Hgo : forall ns b done_, topo b -> (exists l, b = l ++ black) ->
     (forall v, In v done_ -> In v b) ->
     go_loop f t path ns b = Ok b' ->
     (forall v, In v (succ t) -> In v (done_ ++ ns)) ->
     topo b' /\ In t b' /\ (exists l, b' = l ++ black)).
  { induction ns as [|n ns' IHns]; intros b done_ Hb' Hext Hdone Hr Hsup; cbn [go_loop] in Hr.
    - injection Hr as <-. rewrite app_nil_r in Hsup.
      split; [apply topo_cons; [assumption | intros v Hv; apply Hdone, Hsup; assumption]|].
      split; [left; reflexivity|]. destruct Hext as (l & ->). exists (t :: l). reflexivity.
    - destruct (dfs succ f n (t :: path) b) as [|b1|] eqn:Hd; try discriminate.
      apply IH in Hd; [|assumption]. destruct Hd as (Ht1 & Hn1 & (l1 & ->)).
      apply (IHns (l1 ++ b) (done_ ++ [n])); try assumption.
      + destruct Hext as (l & ->). exists (l1 ++ l). rewrite app_assoc. reflexivity.
      + intros v Hv. apply in_app_or in Hv. destruct Hv as [Hv | [<- | []]];
          [apply in_or_app; right; apply Hdone; assumption | assumption].
      + intros v Hv. rewrite <- app_assoc. apply Hsup. assumption. }
  apply (Hgo (succ t) black []); try assumption.
  - exists []. reflexivity.
  - intros v [].
  - intros v Hv; exact Hv.
Qed.

Lemma topo_reach_down b : topo b -> forall u z, reach u z ->
  forall l1 l2, b = l1 ++ u :: l2 -> z = u \/ In z l2.
Proof.
  intros Ht u z Hr. induction Hr as [x | x y z Hy Hyz IH]; intros l1 l2 Hb; [left; reflexivity|].
  right. pose proof (Ht _ _ _ Hb y Hy) as Hin.
  apply in_split in Hin. destruct Hin as (m1 & m2 & ->).
  destruct (IH (l1 ++ x :: m1) m2) as [-> | Hz].
  - rewrite Hb, <- app_assoc. reflexivity.
  - apply in_or_app. right. left. reflexivity.
  - apply in_or_app. right. right. assumption.
Qed.

Lemma topo_no_cycle b : topo b -> forall n l1 x l2, length l2 <= n -> b = l1 ++ x :: l2 -> ~ reach_plus x x.
Proof.
  intros Ht. induction n as [|n IHn]; intros l1 x l2 Hlen Hb (y & Hy & Hyx).
  - destruct l2; [|cbn in Hlen; lia]. pose proof (Ht _ _ _ Hb y Hy) as [].
  - pose proof (Ht _ _ _ Hb y Hy) as Hin.
    apply in_split in Hin. destruct Hin as (m1 & m2 & ->).
    assert (Hb' : b = (l1 ++ x :: m1) ++ y :: m2) by (rewrite Hb, <- app_assoc; reflexivity).
    rewrite app_length in Hlen; cbn in Hlen.
    destruct (topo_reach_down b Ht y x Hyx _ _ Hb') as [-> | Hx].
    + apply (IHn (l1 ++ y :: m1) y m2); [lia | assumption | exists y; split; assumption].
    + apply in_split in Hx. destruct Hx as (a & c & ->).
      apply (IHn ((l1 ++ x :: m1) ++ y :: a) x c).
      * rewrite app_length in Hlen; cbn in Hlen; lia.
      * rewrite Hb', <- !app_assoc. cbn. reflexivity.
      * exists y; split; assumption.
Qed.

Theorem dfs_ok_no_cycle fuel t b' :
  dfs succ fuel t [] [] = Ok b' -> forall x, reach t x -> ~ reach_plus x x.
Proof.
  intros H x Hr.
  apply dfs_complete in H; [|apply topo_nil]. destruct H as (Ht & Hin & _).
  apply in_split in Hin. destruct Hin as (l1 & l2 & Hb).
  destruct (topo_reach_down _ Ht t x Hr _ _ Hb) as [-> | Hx].
  - eapply topo_no_cycle; [eassumption | apply le_n | eassumption].
  - apply in_split in Hx. destruct Hx as (a & c & ->).
    eapply (topo_no_cycle _ Ht _ (l1 ++ t :: a) x c); [apply le_n|].
    rewrite Hb, <- app_assoc. reflexivity.
Qed.

Theorem dfs_cycle_real fuel t :
  dfs succ fuel t [] [] = Cycle -> exists x, reach t x /\ reach_plus x x.
Proof.
  intros H. apply dfs_sound in H. destruct H as [(u & [] & _) | H]; assumption.
Qed.

(* ---------- fuel sufficiency: the DFS path is duplicate-free, so its depth is bounded ---------- *)
Lemma dfs_fuel_enough (U : list nat) :
  (forall x y, In x U -> In y (succ x) -> In y U) ->
  forall fuel t path black,
  NoDup path -> incl path U -> In t U -> length U < fuel + length path ->
  dfs succ fuel t path black <> OutOfFuel.
Proof.
  intros Hclosed. induction fuel as [|f IH]; intros t path black Hnd Hincl Ht Hlen.
  - pose proof (NoDup_incl_length Hnd Hincl). cbn in Hlen. lia.
  - rewrite dfs_unfold.
    destruct (mem t path) eqn:Hp; [discriminate|].
    destruct (mem t black) eqn:Hb; [discriminate|].
    apply mem_false in Hp.
    assert (Hgo : forall ns b, incl ns (succ t) -> go_loop f t path ns b <> OutOfFuel).
    { induction ns as [|n ns' IHns]; intros b Hsub; cbn [go_loop]; [discriminate|].
      assert (Hn : dfs succ f n (t :: path) b <> OutOfFuel).
      { apply IH.
        - constructor; assumption.
        - intros z [<-|Hz]; [assumption | apply Hincl; assumption].
        - apply (Hclosed t); [assumption | apply Hsub; left; reflexivity].
        - cbn [length]. lia. }
      destruct (dfs succ f n (t :: path) b) as [|b1|]; try congruence.
      apply IHns. intros z Hz. apply Hsub. right. assumption. }
    apply Hgo. apply incl_refl.
Qed.

End DFS.

Lemma reach_mono (s1 s2 : nat -> list nat) :
  (forall a b, In b (s1 a) -> In b (s2 a)) -> forall x y, reach s1 x y -> reach s2 x y.
Proof.
  intros H x y Hr. induction Hr as [x | x y z Hy _ IH]; [constructor|].
  econstructor; [apply H; eassumption | assumption].
Qed.

(* ---------- graphs as edge lists ---------- *)
Lemma succs_In g x y : In y (succs g x) <-> In (x, y) g.
Proof.
  unfold succs. rewrite in_map_iff. split.
  - intros ((a & b) & Hb & Hin). cbn in Hb. subst b. apply filter_In in Hin. destruct Hin as (Hin & He).
    cbn in He. apply Nat.eqb_eq in He. subst a. assumption.
  - intros Hin. exists (x, y). split; [reflexivity|]. apply filter_In. split; [assumption|]. cbn. apply Nat.eqb_refl.
Qed.

Lemma preds_In g x y : In x (preds g y) <-> In (x, y) g.
Proof.
  unfold preds. rewrite in_map_iff. split.
  - intros ((a & b) & Ha & Hin). cbn in Ha. subst a. apply filter_In in Hin. destruct Hin as (Hin & He).
    cbn in He. apply Nat.eqb_eq in He. subst b. assumption.
  - intros Hin. exists (x, y). split; [reflexivity|]. apply filter_In. split; [assumption|]. cbn. apply Nat.eqb_refl.
Qed.

(* relational cyclicity, independent of [succs] *)
Inductive path_plus (E : list edge) : nat -> nat -> Prop :=
| pp_one x y : In (x, y) E -> path_plus E x y
| pp_step x y z : In (x, y) E -> path_plus E y z -> path_plus E x z.

Definition cyclic (E : list edge) : Prop := exists x, path_plus E x x.

Lemma path_plus_reach E x z : path_plus E x z <-> reach_plus (succs E) x z.
Proof.
  split.
  - induction 1 as [x y H | x y z H _ IH].
    + exists y. split; [apply succs_In; assumption | constructor].
    + exists y. split; [apply succs_In; assumption|].
      destruct IH as (w & Hw & Hr). econstructor; eassumption.
  - intros (y & Hy & Hr). apply succs_In in Hy. revert x Hy.
    induction Hr as [y | y w z Hw _ IH]; intros x Hy.
    + constructor; assumption.
    + eapply pp_step; [eassumption|]. apply IH. apply succs_In. assumption.
Qed.

Definition acyclic (g : graph) : Prop := forall x, ~ reach_plus (succs g) x x.

Lemma acyclic_not_cyclic g : acyclic g <-> ~ cyclic g.
Proof.
  unfold acyclic, cyclic. split.
  - intros H (x & Hx). apply (H x). apply path_plus_reach. assumption.
  - intros H x Hx. apply H. exists x. apply path_plus_reach. assumption.
Qed.

Lemma reach_split g f t x y :
  reach (succs (g ++ [(f, t)])) x y ->
  reach (succs g) x y \/ (reach (succs (g ++ [(f, t)])) x f /\ reach (succs (g ++ [(f, t)])) t y).
Proof.
  induction 1 as [x | x y z Hy Hyz IH].
  - left. constructor.
  - apply succs_In in Hy. apply in_app_or in Hy. destruct Hy as [Hy | [Hy | []]].
    + destruct IH as [IH | [IH1 IH2]].
      * left. econstructor; [apply succs_In; eassumption | assumption].
      * right. split; [|assumption]. econstructor; [apply succs_In, in_or_app; left; eassumption | assumption].
    + injection Hy as <- <-. right. split; [constructor | assumption].
Qed.

Lemma acyclic_extend g f t :
  acyclic g ->
  (forall x, reach (succs (g ++ [(f, t)])) t x -> ~ reach_plus (succs (g ++ [(f, t)])) x x) ->
  acyclic (g ++ [(f, t)]).
Proof.
  intros Hg Ht x Hc. pose proof Hc as (y & Hy & Hr).
  apply succs_In in Hy. apply in_app_or in Hy. destruct Hy as [Hy | [Hy | []]].
  - apply reach_split in Hr. destruct Hr as [Hr | [_ Hr]].
    + apply (Hg x). exists y. split; [apply succs_In; assumption | assumption].
    + apply (Ht x); assumption.
  - injection Hy as <- <-. apply (Ht f); assumption.
Qed.

Lemma path_plus_mono g l x y : path_plus g x y -> path_plus (g ++ l) x y.
Proof.
  induction 1 as [x y H | x y z H _ IH].
  - constructor. apply in_or_app. left. assumption.
  - eapply pp_step; [apply in_or_app; left; eassumption | assumption].
Qed.

Lemma cyclic_mono g l : cyclic g -> cyclic (g ++ l).
Proof. intros (x & Hx). exists x. apply path_plus_mono. assumption. Qed.

Lemma add_edge_spec g e :
  acyclic g ->
  match add_edge g e with
  | BOk g' => g' = g ++ [e] /\ acyclic g'
  | BCycle => cyclic (g ++ [e])
  | BFuel => False
  end.
Proof.
  intros Hg. unfold add_edge. destruct e as (f, t). cbv zeta. cbn [snd].
  set (g' := g ++ _).
  destruct (dfs (succs g') (fuel_for g') t [] []) as [|b|] eqn:Hd.
  - apply dfs_cycle_real in Hd. destruct Hd as (x & _ & Hx). unfold cyclic. exists x. apply path_plus_reach. assumption.
  - split; [reflexivity|]. apply acyclic_extend; [assumption|]. intros x Hr. eapply dfs_ok_no_cycle; eassumption.
  - exfalso. revert Hd.
    apply (dfs_fuel_enough (succs g') (t :: map fst g' ++ map snd g')).
    + intros x y _ Hy. apply succs_In in Hy. right. apply in_or_app. right.
      apply in_map_iff. exists (x, y). split; [reflexivity | assumption].
    + constructor.
    + intros z [].
    + left. reflexivity.
    + unfold fuel_for. cbn [length]. rewrite app_length, !map_length. clearbody g'. unfold graph, edge in *. lia.
Qed.

Lemma build_edges_spec es : forall g,
  acyclic g ->
  match build_edges add_edge g es with
  | BOk g' => g' = g ++ es /\ acyclic g'
  | BCycle => cyclic (g ++ es)
  | BFuel => False
  end.
Proof.
  induction es as [|e es IH]; intros g Hg; cbn [build_edges].
  - rewrite app_nil_r. split; [reflexivity | assumption].
  - pose proof (add_edge_spec g e Hg) as He.
    destruct (add_edge g e) as [g'| |].
    + destruct He as (-> & Hg'). specialize (IH _ Hg').
      rewrite <- app_assoc in IH. exact IH.
    + replace (g ++ e :: es) with ((g ++ [e]) ++ es) by (rewrite <- app_assoc; reflexivity).
      apply cyclic_mono. assumption.
    + assumption.
Qed.

Lemma acyclic_nil : acyclic [].
Proof. intros x (y & Hy & _). cbn in Hy. assumption. Qed.

Theorem build_spec stages :
  match build stages with
  | BOk g => g = declared_edges stages /\ ~ cyclic (declared_edges stages)
  | BCycle => cyclic (declared_edges stages)
  | BFuel => False
  end.
Proof.
  unfold build. pose proof (build_edges_spec (declared_edges stages) [] acyclic_nil) as H.
  destruct (build_edges add_edge [] (declared_edges stages)) as [g| |]; cbn [app] in H.
  - destruct H as (-> & Ha). split; [reflexivity | apply acyclic_not_cyclic; assumption].
  - assumption.
  - assumption.
Qed.

Theorem build_reject_iff_cyclic stages : build stages = BCycle <-> cyclic (declared_edges stages).
Proof.
  pose proof (build_spec stages) as H. split.
  - intros E. rewrite E in H. assumption.
  - intros Hc. destruct (build stages) as [g| |]; [destruct H as (_ & Hn); contradiction | reflexivity | contradiction].
Qed.

Theorem build_accept_iff_acyclic stages :
  (exists g, build stages = BOk g) <-> ~ cyclic (declared_edges stages).
Proof.
  pose proof (build_spec stages) as H. split.
  - intros (g & E). rewrite E in H. apply H.
  - intros Hn. destruct (build stages) as [g| |]; [eexists; reflexivity | contradiction | contradiction].
Qed.

Theorem build_never_out_of_fuel stages : build stages <> BFuel.
Proof. pose proof (build_spec stages) as H. destruct (build stages); [discriminate | discriminate | contradiction]. Qed.

(* An accepted pipeline exposes exactly the declared edges, in declaration order *)
Theorem build_exposes_edges stages g :
  build stages = BOk g ->
  forall n, (forall d, In d (preds g n) <-> In (d, n) (declared_edges stages))
         /\ (forall m, In m (succs g n) <-> In (n, m) (declared_edges stages))
         /\ preds g n = preds (declared_edges stages) n
         /\ succs g n = succs (declared_edges stages) n.
Proof.
  intros E n. pose proof (build_spec stages) as H. rewrite E in H. destruct H as (-> & _).
  repeat split; try (apply preds_In); try (apply succs_In).
Qed.

(* with unique stage names, To(n) is literally n's depends_on list *)
Lemma preds_stage_edges_other s n : fst s <> n -> preds (stage_edges s) n = [].
Proof.
  intros Hne. unfold preds, stage_edges. induction (snd s) as [|d ds IH]; [reflexivity|].
  cbn. destruct (Nat.eqb_spec (fst s) n); [contradiction | assumption].
Qed.

Lemma preds_stage_edges_same s : preds (stage_edges s) (fst s) = snd s.
Proof.
  unfold preds, stage_edges. induction (snd s) as [|d ds IH]; [reflexivity|].
  cbn. rewrite Nat.eqb_refl. cbn. f_equal. assumption.
Qed.

Lemma preds_app g1 g2 n : preds (g1 ++ g2) n = preds g1 n ++ preds g2 n.
Proof. unfold preds. rewrite filter_app, map_app. reflexivity. Qed.

Theorem preds_declared_unique stages : NoDup (map fst stages) ->
  forall s, In s stages -> preds (declared_edges stages) (fst s) = snd s.
Proof.
  induction stages as [|a stages IH]; intros Hnd s Hin; [destruct Hin|].
  cbn [declared_edges flat_map]. rewrite preds_app. cbn [map] in Hnd. inversion Hnd as [|? ? Hnotin Hnd']; subst.
  destruct Hin as [<- | Hin].
  - rewrite preds_stage_edges_same.
    assert (Hrest : preds (flat_map stage_edges stages) (fst a) = []).
    { clear IH Hnd Hnd'. induction stages as [|b stages IHs]; [reflexivity|].
      cbn [flat_map]. rewrite preds_app. rewrite preds_stage_edges_other.
      - apply IHs. intros Hc. apply Hnotin. right. assumption.
      - intros Hc. apply Hnotin. left. assumption. }
    rewrite Hrest. apply app_nil_r.
  - rewrite preds_stage_edges_other.
    + apply (IH Hnd' s Hin).
    + intros Hc. apply Hnotin. rewrite Hc. apply in_map. assumption.
Qed.
