(** Precedence laws for environment, working directory and template variables (C09, C10). *)
From Coq Require Import List Arith Bool.
Import ListNotations.
From TaskctlV Require Import Model.Stage Proofs.StageIso Model.Env.

Lemma lookup_with m k v name : lookup name (with_ m k v) = if Nat.eqb name k then Some v else lookup name m.
Proof. reflexivity. Qed.

Theorem env_precedence L name :
  proc_lookup L name =
  first_some [ lookup name (e_variation L); lookup name (e_stage L); lookup name (e_task L); lookup name (e_envfile L);
               (if Nat.eqb name (fst (e_tname L)) then Some (snd (e_tname L)) else None);
               lookup name (e_ctx L); lookup name (e_runner L); lookup name (e_parent L) ].
Proof.
  unfold proc_lookup, job_env. rewrite !lookup_merge, lookup_with, !lookup_merge. cbn [first_some].
  destruct (lookup name (e_variation L)); [reflexivity|].
  destruct (lookup name (e_stage L)); [reflexivity|].
  destruct (lookup name (e_task L)); [reflexivity|].
  destruct (lookup name (e_envfile L)); [reflexivity|].
  destruct (Nat.eqb name (fst (e_tname L))); [reflexivity|].
  destruct (lookup name (e_ctx L)); [reflexivity|].
  destruct (lookup name (e_runner L)); [reflexivity|].
  destruct (lookup name (e_parent L)); reflexivity.
Qed.

Corollary env_passthrough L name :
  lookup name (e_variation L) = None -> lookup name (e_stage L) = None -> lookup name (e_task L) = None ->
  lookup name (e_envfile L) = None -> name <> fst (e_tname L) -> lookup name (e_ctx L) = None -> lookup name (e_runner L) = None ->
  proc_lookup L name = lookup name (e_parent L).
Proof.
  intros H1 H2 H3 H4 H5 H6 H7. rewrite env_precedence, H1, H2, H3, H4, H6, H7.
  apply Nat.eqb_neq in H5. rewrite H5. cbn [first_some]. destruct (lookup name (e_parent L)); reflexivity.
Qed.

Corollary env_task_name L :
  lookup (fst (e_tname L)) (e_variation L) = None -> lookup (fst (e_tname L)) (e_stage L) = None ->
  lookup (fst (e_tname L)) (e_task L) = None -> lookup (fst (e_tname L)) (e_envfile L) = None ->
  proc_lookup L (fst (e_tname L)) = Some (snd (e_tname L)).
Proof. intros H1 H2 H3 H4. rewrite env_precedence, H1, H2, H3, H4, Nat.eqb_refl. reflexivity. Qed.

Theorem dir_precedence D : job_dir D = first_nonzero [d_stage D; d_task D; d_ctx D; d_start D].
Proof.
  unfold job_dir. cbn [first_nonzero].
  destruct (d_stage D) as [|s]; cbn; [|reflexivity].
  destruct (d_task D) as [|t]; cbn; [|reflexivity].
  destruct (d_ctx D) as [|c]; cbn; [|reflexivity].
  destruct (d_start D); reflexivity.
Qed.

Theorem vars_precedence V name :
  lookup name (vars_seen V) =
  first_some [ lookup name (v_stage V); lookup name (v_task V); lookup name (v_args V); lookup name (v_set V);
               lookup name (v_cfg V); lookup name (v_global V); lookup name (v_defaults V) ].
Proof.
  unfold vars_seen. rewrite !lookup_merge. cbn [first_some].
  destruct (lookup name (v_stage V)); [reflexivity|].
  destruct (lookup name (v_task V)); [reflexivity|].
  destruct (lookup name (v_args V)); [reflexivity|].
  destruct (lookup name (v_set V)); [reflexivity|].
  destruct (lookup name (v_cfg V)); [reflexivity|].
  destruct (lookup name (v_global V)); [reflexivity|].
  destruct (lookup name (v_defaults V)); reflexivity.
Qed.

(* built-ins are always defined *)
Theorem builtins_defined V k : (lookup k (v_defaults V) <> None \/ lookup k (v_args V) <> None) -> lookup k (vars_seen V) <> None.
Proof.
  intros H. rewrite vars_precedence. cbn [first_some].
  destruct (lookup k (v_stage V)); [discriminate|].
  destruct (lookup k (v_task V)); [discriminate|].
  destruct (lookup k (v_args V)); [discriminate|].
  destruct (lookup k (v_set V)); [discriminate|].
  destruct (lookup k (v_cfg V)); [discriminate|].
  destruct (lookup k (v_global V)); [discriminate|].
  destruct (lookup k (v_defaults V)); [discriminate|]. destruct H as [H|H]; contradiction.
Qed.
