(** Totality of the repaired builders (C15). *)
From Coq Require Import List Arith Bool.
Import ListNotations.
From TaskctlV Require Import Model.BuildNil.

Lemma read_lines_total ls : read_lines false ls <> BPanic.
Proof. induction ls as [|l ls IH]; cbn; [discriminate|]. destruct l as [|a [|b l]]; cbn; exact IH. Qed.
Theorem read_env_file_total f : read_env_file false f <> BPanic.
Proof. destruct f; cbn; [apply read_lines_total|discriminate]. Qed.

Lemma all_ok_total {A} (f : A -> bres) l : (forall x, f x <> BPanic) -> all_ok f l <> BPanic.
Proof. intros H. induction l as [|x l IH]; cbn; [discriminate|]. specialize (H x). destruct (f x); auto. Qed.

Theorem build_total files d : build_from_definition false files d <> BPanic.
Proof.
  assert (Hc: forall c, build_context false c <> BPanic) by (intros [c|]; unfold build_context, nil_deref; discriminate).
  assert (Ht: forall t, build_task false files t <> BPanic).
  { intros [t|]; unfold build_task, nil_deref; [|discriminate]. destruct (td_envfile t) as [f|]; [|discriminate].
    pose proof (read_env_file_total (files f)) as H. destruct (read_env_file false (files f)); auto; discriminate. }
  assert (Hw: forall n w, build_watcher false n w <> BPanic) by (intros n [w|]; unfold build_watcher, nil_deref; [destruct (Nat.ltb w n)|]; discriminate).
  assert (Hs: forall n s, build_stage false n s <> BPanic) by (intros n [s|]; unfold build_stage, nil_deref; [destruct (Nat.ltb s n)|]; discriminate).
  unfold build_from_definition.
  pose proof (all_ok_total (build_context false) (nd_contexts d) Hc) as H1.
  destruct (all_ok (build_context false) (nd_contexts d)); auto.
  pose proof (all_ok_total (build_task false files) (nd_tasks d) Ht) as H2.
  destruct (all_ok (build_task false files) (nd_tasks d)); auto.
  pose proof (all_ok_total (build_watcher false (length (nd_tasks d))) (nd_watchers d) (Hw _)) as H3.
  destruct (all_ok (build_watcher false (length (nd_tasks d))) (nd_watchers d)); auto.
  apply all_ok_total. intros l. apply all_ok_total. apply Hs.
Qed.
