(** C14 theorems over every reachable state of the context-hook LTS. *)
From Coq Require Import List Arith Bool Lia.
Import ListNotations.
From TaskctlV Require Import Model.Ctx Proofs.CtxInv.

Definition creach (g : ccfg) (es : list nat) (s : cstate) : Prop := crun g cinit es = Some s.

Lemma crun_inv g es : forall s s', inv_up g s /\ inv_run g s /\ finished s = false /\ downed s = [] ->
  crun g s es = Some s' -> inv_up g s' /\ inv_run g s' /\ finished s' = false /\ downed s' = [].
Proof.
  induction es as [|r es IH]; intros s s' H E; cbn in E.
  - injection E as <-. assumption.
  - destruct (cstep g s r) as [s1|] eqn:Es; [|discriminate].
    apply (IH s1 s'); [|assumption]. destruct H as (U & I & F & D).
    pose proof (cstep_CStep g s r s1 Es) as St.
    split; [eapply inv_up_step; eassumption|]. split; [eapply inv_run_step; eassumption|].
    destruct St; cbn; split; try reflexivity; assumption.
Qed.

Lemma creach_inv g es s : creach g es s -> inv_up g s /\ inv_run g s /\ finished s = false /\ downed s = [].
Proof.
  intros H. apply (crun_inv g es cinit s); [|exact H].
  split; [apply inv_up_init|]. split; [apply inv_run_init|]. split; reflexivity.
Qed.

Lemma ctok_eq_dec (a b : ctok) : {a = b} + {a <> b}.
Proof. decide equality; apply Nat.eq_dec. Qed.

(* no token occurs twice: up at most once per context; one context-before, one task, one context-after per run *)
Theorem every_token_at_most_once g es s : creach g es s -> forall t, count_occ ctok_eq_dec (ctrace s) t <= 1.
Proof. intros H t. destruct (creach_inv _ _ _ H) as (_ & I & _). apply NoDup_count_occ. apply (ir_nodup _ _ I). Qed.

(* up ran exactly once for every context some run has arrived at *)
Theorem up_exactly_once_if_used g es s : creach g es s -> forall r, 1 <= pc s r ->
  count_occ ctok_eq_dec (ctrace s) (UpB (ctx_of g r)) = 1.
Proof.
  intros H r Hr. destruct (creach_inv _ _ _ H) as (U & I & _).
  apply NoDup_count_occ'; [apply (ir_nodup _ _ I)|]. apply (iu_upb _ _ U). apply (iu_arr _ _ U). assumption.
Qed.

(* up has COMPLETED before any hook or command of any task in that context; before precedes the task; after follows it *)
Theorem hooks_in_order g es s : creach g es s -> forall l2 t l1, ctrace s = l2 ++ t :: l1 ->
    (forall r, run_tok t r -> In (UpE (ctx_of g r)) l1)
    /\ (forall r, t = Body r -> In (CBef r) l1) /\ (forall r, t = CAft r -> In (Body r) l1).
Proof. intros H. destruct (creach_inv _ _ _ H) as (_ & I & _). apply (ir_order _ _ I). Qed.

(* if up fails, no task using the context runs anything, and each one that returned reported an error *)
Theorem up_fails_nothing_runs g es s : creach g es s -> forall r, up_ok g (ctx_of g r) = false ->
  ~ In (CBef r) (ctrace s) /\ ~ In (Body r) (ctrace s) /\ ~ In (CAft r) (ctrace s) /\ (pc s r = 6 -> rerr s r = true).
Proof.
  intros H r Hf. destruct (creach_inv _ _ _ H) as (U & I & _).
  assert (Hpast : 2 <= pc s r -> up s (ctx_of g r) = UErr).
  { intros Hp. destruct (iu_past _ _ U r Hp) as [Hd|Hd]; [|assumption].
    apply (iu_res _ _ U) in Hd. congruence. }
  assert (A : ~ In (CBef r) (ctrace s)).
  { intros Hin. pose proof (ir_cbef _ _ I r Hin) as Hp. assert (Hu : up s (ctx_of g r) = UErr) by (apply Hpast; lia).
    destruct (ir_uperr _ _ I r Hu) as (X & _). contradiction. }
  assert (B : ~ In (Body r) (ctrace s)).
  { intros Hin. pose proof (ir_body _ _ I r Hin) as Hp. assert (Hu : up s (ctx_of g r) = UErr) by (apply Hpast; lia).
    destruct (ir_uperr _ _ I r Hu) as (_ & X & _). contradiction. }
  split; [assumption|]. split; [assumption|]. split.
  - intros Hin. destruct (in_split _ _ Hin) as (l2 & l1 & E).
    destruct (ir_order _ _ I l2 (CAft r) l1 E) as (_ & _ & H3). specialize (H3 r eq_refl).
    apply B. rewrite E. apply in_or_app. right. right. assumption.
  - intros Hp. assert (Hu : up s (ctx_of g r) = UErr) by (apply Hpast; lia).
    destruct (ir_uperr _ _ I r Hu) as (_ & _ & X). apply X. assumption.
Qed.

(* a run whose task executed and which has returned ran the context's after exactly once - also when the task failed -
   and reported exactly the task's failure *)
Theorem after_runs_once_also_on_failure g es s : creach g es s -> forall r, pc s r = 6 -> In (Body r) (ctrace s) ->
  count_occ ctok_eq_dec (ctrace s) (CAft r) = 1 /\ count_occ ctok_eq_dec (ctrace s) (CBef r) = 1
  /\ rerr s r = negb (body_ok g r).
Proof.
  intros H r Hp Hb. destruct (creach_inv _ _ _ H) as (U & I & _).
  destruct (ir_ret _ _ I r Hp Hb) as (Ha & He).
  split; [apply NoDup_count_occ'; [apply (ir_nodup _ _ I) | assumption]|].
  split; [|assumption]. apply NoDup_count_occ'; [apply (ir_nodup _ _ I)|].
  destruct (in_split _ _ Hb) as (l2 & l1 & E).
  destruct (ir_order _ _ I l2 (Body r) l1 E) as (_ & H2 & _). rewrite E. apply in_or_app. right. right. apply H2. reflexivity.
Qed.

(* ---- Finish ---- *)
Lemma nodup_nat_In x l : In x (nodup_nat l) <-> In x l.
Proof.
  induction l as [|a l IH]; cbn; [reflexivity|].
  destruct (existsb (Nat.eqb a) l) eqn:E.
  - rewrite IH. split; [intros H; right; assumption|]. intros [<-|H]; [|assumption].
    apply existsb_exists in E. destruct E as (y & Hy & Ey). apply Nat.eqb_eq in Ey. subst. assumption.
  - cbn. rewrite IH. reflexivity.
Qed.
Lemma nodup_nat_NoDup l : NoDup (nodup_nat l).
Proof.
  induction l as [|a l IH]; cbn; [constructor|].
  destruct (existsb (Nat.eqb a) l) eqn:E; [assumption|].
  constructor; [|assumption]. rewrite nodup_nat_In. intros Hin.
  assert (X : existsb (Nat.eqb a) l = true) by (apply existsb_exists; exists a; split; [assumption | apply Nat.eqb_refl]). congruence.
Qed.

Lemma used_spec g s c : In c (used_ctxs g s) <-> exists r, r < nruns g /\ pc s r <> 0 /\ ctx_of g r = c.
Proof.
  unfold used_ctxs. rewrite nodup_nat_In, in_map_iff. split.
  - intros (r & Hc & Hin). apply filter_In in Hin. destruct Hin as (Hs & Hp). apply in_seq in Hs.
    exists r. split; [lia|]. split; [|assumption]. apply negb_true_iff, Nat.eqb_neq in Hp. assumption.
  - intros (r & Hr & Hp & Hc). exists r. split; [assumption|]. apply filter_In. split; [apply in_seq; lia|].
    apply negb_true_iff, Nat.eqb_neq. assumption.
Qed.

(* down runs once for exactly the used contexts, after every other token; never for an unused one *)
Theorem finish_runs_down_once g es s : creach g es s ->
  exists downs, ctrace (cfinish g s) = rev (map Down downs) ++ ctrace s /\ NoDup downs
    /\ (forall c, In c downs <-> exists r, r < nruns g /\ pc s r <> 0 /\ ctx_of g r = c)
    /\ (forall c, ~ In (Down c) (ctrace s)).
Proof.
  intros H. destruct (creach_inv _ _ _ H) as (_ & I & _ & D).
  exists (used_ctxs g s). unfold cfinish. rewrite D. cbn [existsb negb ctrace].
  assert (F : filter (fun _ : nat => true) (used_ctxs g s) = used_ctxs g s).
  { induction (used_ctxs g s) as [|a l IHl]; cbn; [reflexivity | rewrite IHl; reflexivity]. }
  rewrite F. split; [reflexivity|]. split; [apply nodup_nat_NoDup|]. split; [apply used_spec | apply (ir_nodown _ _ I)].
Qed.

(* a second Finish runs nothing; after Finish no task step is enabled any more *)
Theorem second_finish_runs_nothing g s : ctrace (cfinish g (cfinish g s)) = ctrace (cfinish g s).
Proof.
  unfold cfinish at 1. cbn [ctrace downed up pc rerr].
  assert (E : filter (fun c => negb (existsb (Nat.eqb c) (downed (cfinish g s)))) (used_ctxs g (cfinish g s)) = []).
  { unfold cfinish at 1. cbn [downed]. unfold used_ctxs. cbn [pc].
    fold (used_ctxs g s).
    assert (G : forall l, (forall c, In c l -> In c (used_ctxs g s)) ->
      filter (fun c => negb (existsb (Nat.eqb c)
        (filter (fun c0 => negb (existsb (Nat.eqb c0) (downed s))) (used_ctxs g s) ++ downed s))) l = []).
    { induction l as [|a l IHl]; intros Hl; cbn; [reflexivity|].
      assert (Ha : existsb (Nat.eqb a) (filter (fun c0 => negb (existsb (Nat.eqb c0) (downed s))) (used_ctxs g s) ++ downed s) = true).
      { rewrite existsb_app. destruct (existsb (Nat.eqb a) (downed s)) eqn:Ed; [apply orb_true_r|].
        apply orb_true_iff. left. apply existsb_exists. exists a. split; [|apply Nat.eqb_refl].
        apply filter_In. split; [apply Hl; left; reflexivity | rewrite Ed; reflexivity]. }
      rewrite Ha. cbn. apply IHl. intros c Hc. apply Hl. right. assumption. }
    apply G. intros c Hc. assumption. }
  rewrite E. reflexivity.
Qed.

Theorem nothing_runs_after_finish g s r : cstep g (cfinish g s) r = None.
Proof. unfold cstep. destruct (negb (r <? nruns g)); [reflexivity|]. reflexivity. Qed.
