(** Proofs about Model/Build.v (C18). *)
From Coq Require Import List Arith Bool Lia.
Import ListNotations.
From TaskctlV Require Import Model.Graph Model.Sched Model.Build Proofs.GraphDfs Proofs.SchedInv Proofs.SchedStep Proofs.SchedLive.

Lemma mem_In x l : mem x l = true <-> In x l.
Proof.
  unfold mem. rewrite existsb_exists. split.
  - intros (y & Hy & He). apply Nat.eqb_eq in He. now subst.
  - intros H. exists x. split; [exact H|apply Nat.eqb_refl].
Qed.
Lemma mem_false x l : mem x l = false <-> ~ In x l.
Proof. rewrite <- mem_In. destruct (mem x l); split; congruence. Qed.

Lemma build_edges_app add es1 : forall g es2,
  build_edges add g (es1 ++ es2) = match build_edges add g es1 with BOk g' => build_edges add g' es2 | r => r end.
Proof.
  induction es1 as [|e es1 IH]; intros g es2; cbn [app build_edges]; [reflexivity|].
  destruct (add g e); auto.
Qed.

Definition decl_of (s : stagedef) : stage_decl := (stage_name s, sd_deps s).

(* the stage loop of buildPipeline succeeds iff every reference resolves, names are non-empty and distinct, and the
   graph builder (C05) accepts the declared dependencies *)
Lemma bp_loop_spec tasks pnames stages : forall names g,
  bp_loop tasks pnames stages names g <> None <->
  (forall s, In s stages -> ref_ok tasks pnames s = true /\ stage_name s <> 0) /\
  NoDup (map stage_name stages) /\ (forall s, In s stages -> ~ In (stage_name s) names) /\
  (exists g', build_edges add_edge g (declared_edges (map decl_of stages)) = BOk g').
Proof.
  induction stages as [|s rest IH]; intros names g; cbn [bp_loop map declared_edges flat_map].
  - split; [intros _|discriminate]. split; [intros ? []|]. split; [constructor|]. split; [intros ? []|]. exists g. reflexivity.
  - destruct (ref_ok tasks pnames s) eqn:Er; cbn [negb].
    2:{ split; [congruence|]. intros (H & _). destruct (H s (or_introl eq_refl)) as [H1 _]. congruence. }
    destruct (Nat.eqb (stage_name s) 0) eqn:En.
    { apply Nat.eqb_eq in En. split; [congruence|]. intros (H & _). destruct (H s (or_introl eq_refl)) as [_ H1]. contradiction. }
    apply Nat.eqb_neq in En.
    destruct (mem (stage_name s) names) eqn:Em.
    { apply mem_In in Em. split; [congruence|]. intros (_ & _ & H & _). exfalso. exact (H s (or_introl eq_refl) Em). }
    apply mem_false in Em.
    change (stage_edges (stage_name s, sd_deps s)) with (stage_edges (decl_of s)).
    rewrite build_edges_app.
    destruct (build_edges add_edge g (stage_edges (decl_of s))) as [g1| |] eqn:Eb.
    + rewrite IH. split.
      * intros (Hr & Hnd & Hnn & Hg). split; [|split; [|split]].
        -- intros x [<-|Hx]; [split; assumption|]. now apply Hr.
        -- constructor; [|exact Hnd]. intros Hin. apply in_map_iff in Hin. destruct Hin as (x & Hx1 & Hx2).
           apply (Hnn x Hx2). apply in_or_app. right. left. now symmetry.
        -- intros x [<-|Hx]; [exact Em|]. intros Hin. apply (Hnn x Hx). apply in_or_app. now left.
        -- exact Hg.
      * intros (Hr & Hnd & Hnn & Hg). inversion Hnd as [|? ? Hn1 Hn2]. subst. split; [|split; [|split]].
        -- intros x Hx. apply Hr. now right.
        -- exact Hn2.
        -- intros x Hx Hin. apply in_app_or in Hin. destruct Hin as [Hin|[Heq|[]]].
           ++ apply (Hnn x (or_intror Hx) Hin).
           ++ apply Hn1. rewrite Heq. now apply in_map.
        -- exact Hg.
    + split; [congruence|]. intros (_ & _ & _ & (g' & Hg)). discriminate.
    + split; [congruence|]. intros (_ & _ & _ & (g' & Hg)). discriminate.
Qed.

Lemma bp_loop_names tasks pnames stages : forall names g names' g',
  bp_loop tasks pnames stages names g = Some (names', g') -> names' = names ++ map stage_name stages.
Proof.
  induction stages as [|s rest IH]; intros names g names' g' H; cbn [bp_loop map] in H.
  - injection H as <- _. now rewrite app_nil_r.
  - destruct (negb (ref_ok tasks pnames s)); [discriminate|]. destruct (Nat.eqb (stage_name s) 0); [discriminate|].
    destruct (mem (stage_name s) names); [discriminate|].
    destruct (build_edges add_edge g (stage_edges (stage_name s, sd_deps s))); try discriminate.
    rewrite (IH _ _ _ _ H), <- app_assoc. reflexivity.
Qed.

(* ---- the declarative reading of the statement ---- *)
Definition pipeline_wf (tasks pnames : list nat) (stages : list stagedef) : Prop :=
  (forall s, In s stages -> ref_ok tasks pnames s = true /\ stage_name s <> 0) /\        (* refers to an existing task or pipeline *)
  NoDup (map stage_name stages) /\                                                        (* stage names unique *)
  (forall s d, In s stages -> In d (sd_deps s) -> In d (map stage_name stages)) /\        (* depends_on names a stage of the same pipeline *)
  ~ cyclic (declared_edges (map decl_of stages)).                                         (* no dependency cycle (C05) *)
Definition well_formed (d : defn) : Prop :=
  (forall w, In w (df_watchers d) -> In (snd w) (df_tasks d)) /\                           (* every watcher refers to an existing task *)
  ~ cyclic (declared_edges (inclusion_decls d)) /\                                        (* no pipeline includes itself, directly or not *)
  (forall p, In p (df_pipelines d) -> pipeline_wf (df_tasks d) (map fst (df_pipelines d)) (snd p)).

Lemma build_pipeline_iff tasks pnames stages : build_pipeline false tasks pnames stages = true <-> pipeline_wf tasks pnames stages.
Proof.
  unfold build_pipeline, pipeline_wf. cbn [orb].
  pose proof (bp_loop_spec tasks pnames stages [] []) as Hs.
  destruct (bp_loop tasks pnames stages [] []) as [[names g]|] eqn:E.
  - assert (Hn: names = map stage_name stages) by (apply (bp_loop_names _ _ _ _ _ _ _ E)).
    destruct Hs as [Hs _]. destruct (Hs ltac:(discriminate)) as (Hr & Hnd & _ & Hg).
    assert (Hac: ~ cyclic (declared_edges (map decl_of stages))) by (apply build_accept_iff_acyclic; exact Hg).
    unfold deps_known. rewrite forallb_forall. split.
    + intros Hk. split; [exact Hr|]. split; [exact Hnd|]. split; [|exact Hac].
      intros s d Hs' Hd. specialize (Hk s Hs'). rewrite forallb_forall in Hk.
      rewrite <- Hn. apply mem_In. now apply Hk.
    + intros (_ & _ & Hk & _) s Hs'. apply forallb_forall. intros d Hd. apply mem_In. rewrite Hn. eapply Hk; eauto.
  - split; [discriminate|]. intros (Hr & Hnd & _ & Hac). exfalso. destruct Hs as [_ Hs].
    apply Hs; [|reflexivity]. split; [exact Hr|]. split; [exact Hnd|]. split; [intros ? ? []|]. now apply build_accept_iff_acyclic.
Qed.

Theorem build_def_iff d : build_def false d = true <-> well_formed d.
Proof.
  unfold build_def, well_formed. cbn [orb]. rewrite !andb_true_iff, !forallb_forall. split.
  - intros ((Hw & Hi) & Hp). split; [|split].
    + intros w Hin. apply mem_In. now apply Hw.
    + apply build_accept_iff_acyclic. destruct (build (inclusion_decls d)) as [g| |]; try discriminate. now exists g.
    + intros p Hin. apply build_pipeline_iff. now apply Hp.
  - intros (Hw & Hi & Hp). split; [split|].
    + intros w Hin. apply mem_In. now apply Hw.
    + apply build_accept_iff_acyclic in Hi. destruct Hi as (g & ->). reflexivity.
    + intros p Hin. apply build_pipeline_iff. now apply Hp.
Qed.

(* ---- consequently: running a pipeline of an accepted configuration never reaches logrus.Fatal ---- *)
Lemma check_not_fatal c f ds : (forall d, In d ds -> d < length c) -> forall acc, acc <> VFatal -> check c f ds acc <> VFatal.
Proof.
  induction ds as [|d ds IH]; intros Hd acc Ha; cbn [check]; [exact Ha|].
  assert (Hlt: Nat.ltb d (length c) = true) by (apply Nat.ltb_lt, Hd; now left). rewrite Hlt.
  assert (Hd': forall x, In x ds -> x < length c) by (intros x Hx; apply Hd; now right).
  destruct (f d); try (apply IH; auto; discriminate).
  - destruct acc; apply IH; auto; discriminate.
  - destruct acc; apply IH; auto; discriminate.
  - destruct (allow_of c d); apply IH; auto; discriminate.
Qed.

Theorem wf_deps_never_fatal c : wf_deps c -> forall es s, exec c es s -> fatal s = false.
Proof.
  intros Hwf es s Hex. unfold exec in Hex.
  apply (run_ind_inv c (fun s => fatal s = false)) with (es := es) (s := init); [|reflexivity|exact Hex].
  intros s0 e s1 Hf Hstep. apply step_Step in Hstep. destruct Hstep; cbn [fatal]; auto.
  exfalso. match goal with H : check _ _ _ VReady = VFatal |- _ => revert H end.
  apply check_not_fatal; [|discriminate]. intros d Hd. eapply Hwf; eauto.
Qed.

Lemma index_of_lt n names : In n names -> index_of n names < length names.
Proof.
  induction names as [|x r IH]; intros H; [destruct H|]. cbn [index_of length].
  destruct (Nat.eqb x n) eqn:E; [lia|]. destruct H as [H|H]; [subst; rewrite Nat.eqb_refl in E; discriminate|]. specialize (IH H). lia.
Qed.

Theorem accepted_pipeline_wf_deps tasks pnames stages : pipeline_wf tasks pnames stages -> wf_deps (to_config stages).
Proof.
  intros (_ & _ & Hk & _) i d Hi Hd. unfold to_config in *. rewrite map_length in *.
  unfold deps_of, stage_of in Hd.
  rewrite (nth_indep _ dflt (mkStage (map (fun d => index_of d (map stage_name stages)) (sd_deps (mkSD 0 0 0 []))) false CNone)) in Hd by now rewrite map_length.
  rewrite (map_nth (fun s => mkStage (map (fun d => index_of d (map stage_name stages)) (sd_deps s)) false CNone)) in Hd.
  cbn [deps] in Hd. apply in_map_iff in Hd. destruct Hd as (n & <- & Hn).
  rewrite <- (map_length stage_name stages). apply index_of_lt. eapply Hk; [|exact Hn]. apply nth_In. exact Hi.
Qed.
