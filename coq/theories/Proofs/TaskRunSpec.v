(** Closed forms for [run_task], stated independently of the recursion that implements it (C06, C07, C11, C13). *)
From Coq Require Import List Arith NArith ZArith Bool Lia.
Import ListNotations.
From TaskctlV Require Import Model.TaskRun.

Definition job := (nat * nat * crun)%type.
Definition job_res (j : job) : res := c_res (snd j).
(* a command that could not be started leaves no token and no output *)
Definition job_tok (j : job) : list tok := match job_res j with NoStart => [] | _ => [TCmd (fst (fst j)) (snd (fst j))] end.
Definition job_out (j : job) : list N := match job_res j with NoStart => [] | _ => c_out (snd j) end.

(* does job j end the task? a failure that is not allowed, or any error that is not an exit status *)
Definition stops (allow : bool) (j : job) : bool :=
  match job_res j with Exit 0%N => false | Exit _ => negb allow | Fatal | NoStart => true end.

Fixpoint first_index {A} (p : A -> bool) (l : list A) : option nat :=
  match l with [] => None | x :: l' => if p x then Some 0 else option_map S (first_index p l') end.

Definition cond_passes (t : task) : Prop := t_cond t = None \/ t_cond t = Some (Exit 0%N).
Definition cond_tok (t : task) : list tok := match t_cond t with Some NoStart => [] | Some _ => [TCond] | None => [] end.
Definition before_tok (k : nat) (b : res) : list tok := match b with NoStart => [] | _ => [TBefore k] end.
(* tokens of the first n before-commands, numbered from k *)
Fixpoint before_toks (k : nat) (bs : list res) (n : nat) : list tok :=
  match n, bs with
  | S n', b :: bs' => before_tok k b ++ before_toks (S k) bs' n'
  | _, _ => []
  end.
Definition before_fails_b (b : res) : bool := negb (res_ok b).

Lemma res_ok_tok k b : res_ok b = true -> before_tok k b = [TBefore k].
Proof. destruct b as [[|n]| |]; cbn; try discriminate; reflexivity. Qed.

Lemma run_before_spec bs : forall k,
  match first_index before_fails_b bs with
  | None => run_before k bs = (before_toks k bs (length bs), true)
  | Some i => run_before k bs = (before_toks k bs (S i), false)
  end.
Proof.
  induction bs as [|b bs IH]; intros k; cbn [first_index run_before length]; [reflexivity|].
  unfold before_fails_b at 1. destruct (res_ok b) eqn:Eb; cbn [negb].
  - specialize (IH (S k)). destruct (first_index before_fails_b bs) as [i|]; cbn [option_map]; rewrite IH;
      cbn [before_toks]; rewrite (res_ok_tok k b Eb); reflexivity.
  - cbn [before_toks]. destruct bs; rewrite app_nil_r; destruct b as [[|n]| |]; try discriminate; reflexivity.
Qed.

Lemma job_tok_eq v c j : job_tok (v, c, j) = match c_res j with NoStart => [] | _ => [TCmd v c] end.
Proof. reflexivity. Qed.
Lemma job_out_eq v c j : job_out (v, c, j) = match c_res j with NoStart => [] | _ => c_out j end.
Proof. reflexivity. Qed.

Lemma run_jobs_spec allow js : forall code,
  match first_index (stops allow) js with
  | None => exists code', run_jobs allow js code = (flat_map job_tok js, flat_map job_out js, code', false)
  | Some p => exists code', run_jobs allow js code = (flat_map job_tok (firstn (S p) js), flat_map job_out (firstn (S p) js), code', true)
  end.
Proof.
  induction js as [|((v, c), j) js IH]; intros code; cbn [first_index].
  - exists code. reflexivity.
  - unfold stops at 1. unfold job_res at 1. cbn [snd run_jobs].
    pose proof (job_tok_eq v c j) as Ht. pose proof (job_out_eq v c j) as Ho.
    destruct (c_res j) as [[|n]| |] eqn:Er.
    + cbn [negb]. specialize (IH code). destruct (first_index (stops allow) js) as [p|]; cbn [option_map];
        destruct IH as (code' & ->); exists code'; cbn [firstn flat_map]; rewrite Ht, Ho; reflexivity.
    + destruct allow; cbn [negb].
      * specialize (IH (Z.of_N (N.pos n))). destruct (first_index (stops true) js) as [p|]; cbn [option_map];
          destruct IH as (code' & ->); exists code'; cbn [firstn flat_map]; rewrite Ht, Ho; reflexivity.
      * exists (Z.of_N (N.pos n)). cbn [firstn flat_map]. rewrite Ht, Ho. rewrite !app_nil_r. reflexivity.
    + exists code. cbn [firstn flat_map]. rewrite Ht, Ho. rewrite !app_nil_r. reflexivity.
    + exists code. cbn [firstn flat_map]. rewrite Ht, Ho. reflexivity.
Qed.

(* the exit status left by the job that stopped the task *)
Lemma run_jobs_code_stop allow js : forall code p,
  first_index (stops allow) js = Some p ->
  forall j n, nth_error js p = Some j -> job_res j = Exit n ->
  snd (fst (run_jobs allow js code)) = Z.of_N n.
Proof.
  induction js as [|((v, c), j0) js IH]; intros code p Hp j n Hj Hn; cbn in Hp; [discriminate|].
  unfold stops at 1 in Hp. unfold job_res at 1 in Hp. cbn [snd] in Hp.
  destruct (c_res j0) as [[|m]| |] eqn:Er.
  - cbn [negb] in Hp. destruct (first_index (stops allow) js) as [q|] eqn:Eq; [|discriminate].
    injection Hp as <-. cbn in Hj. cbn [run_jobs]. rewrite Er.
    specialize (IH code q eq_refl j n Hj Hn).
    destruct (run_jobs allow js code) as (((tr, out), code'), stop). cbn in *. assumption.
  - destruct allow; cbn [negb] in Hp.
    + destruct (first_index (stops true) js) as [q|] eqn:Eq; [|discriminate].
      injection Hp as <-. cbn in Hj. cbn [run_jobs]. rewrite Er.
      specialize (IH (Z.of_N (N.pos m)) q eq_refl j n Hj Hn).
      destruct (run_jobs true js (Z.of_N (N.pos m))) as (((tr, out), code'), stop). cbn in *. assumption.
    + injection Hp as <-. cbn in Hj. injection Hj as <-. cbn [run_jobs]. rewrite Er.
      unfold job_res in Hn. cbn in Hn. rewrite Er in Hn. injection Hn as <-. reflexivity.
  - injection Hp as <-. cbn in Hj. injection Hj as <-. unfold job_res in Hn. cbn in Hn. congruence.
  - injection Hp as <-. cbn in Hj. injection Hj as <-. unfold job_res in Hn. cbn in Hn. congruence.
Qed.

Section Spec.
Variable t : task.

(* ---- C06 ---- *)
Theorem skipped_by_condition n : t_cond t = Some (Exit (Npos n)) ->
  run_task t = mkOut [TCond] false false true (-1) [] false.
Proof. intros H. unfold run_task. rewrite H. reflexivity. Qed.

Theorem condition_cannot_run : t_cond t = Some Fatal \/ t_cond t = Some NoStart ->
  o_trace (run_task t) = cond_tok t /\ o_err (run_task t) = true /\ o_skipped (run_task t) = false.
Proof. intros [H|H]; unfold run_task, cond_tok; rewrite H; repeat split. Qed.

Lemma run_task_passes : cond_passes t ->
  run_task t =
    let '(btr, bok) := run_before 0 (t_before t) in
    if negb bok then mkOut (cond_tok t ++ btr) true false false 0 [] false
    else
      let '(jtr, out, code, stop) := run_jobs (t_allow t) (jobs t) (-1) in
      if stop then mkOut (cond_tok t ++ btr ++ jtr) true true false code out false
      else mkOut (cond_tok t ++ btr ++ jtr ++ run_after (t_after t)) false false false 0 out true.
Proof. intros [H|H]; unfold run_task, cond_tok; rewrite H; reflexivity. Qed.

Theorem before_fails k : cond_passes t -> first_index before_fails_b (t_before t) = Some k ->
  run_task t = mkOut (cond_tok t ++ before_toks 0 (t_before t) (S k)) true false false 0 [] false.
Proof.
  intros Hc Hk. rewrite (run_task_passes Hc).
  pose proof (run_before_spec (t_before t) 0) as Hb. rewrite Hk in Hb. rewrite Hb. reflexivity.
Qed.

Theorem stops_at_first_failure p : cond_passes t -> first_index before_fails_b (t_before t) = None ->
  first_index (stops (t_allow t)) (jobs t) = Some p ->
  o_trace (run_task t) = cond_tok t ++ before_toks 0 (t_before t) (length (t_before t)) ++ flat_map job_tok (firstn (S p) (jobs t))
  /\ o_err (run_task t) = true /\ o_errored (run_task t) = true /\ o_skipped (run_task t) = false
  /\ o_stored (run_task t) = false
  /\ o_output (run_task t) = flat_map job_out (firstn (S p) (jobs t)).
Proof.
  intros Hc Hb Hp. rewrite (run_task_passes Hc).
  pose proof (run_before_spec (t_before t) 0) as Hbs. rewrite Hb in Hbs. rewrite Hbs.
  pose proof (run_jobs_spec (t_allow t) (jobs t) (-1)%Z) as Hj. rewrite Hp in Hj. destruct Hj as (code' & ->).
  cbn. repeat split.
Qed.

Theorem runs_everything : cond_passes t -> first_index before_fails_b (t_before t) = None ->
  first_index (stops (t_allow t)) (jobs t) = None ->
  run_task t = mkOut (cond_tok t ++ before_toks 0 (t_before t) (length (t_before t)) ++ flat_map job_tok (jobs t) ++ run_after (t_after t))
                     false false false 0 (flat_map job_out (jobs t)) true.
Proof.
  intros Hc Hb Hp. rewrite (run_task_passes Hc).
  pose proof (run_before_spec (t_before t) 0) as Hbs. rewrite Hb in Hbs. rewrite Hbs.
  pose proof (run_jobs_spec (t_allow t) (jobs t) (-1)%Z) as Hj. rewrite Hp in Hj. destruct Hj as (code' & ->).
  reflexivity.
Qed.

(* ---- C07: the recorded exit status of the command that ended the task ---- *)
Theorem exit_code_of_failing_command p j n : cond_passes t -> first_index before_fails_b (t_before t) = None ->
  first_index (stops (t_allow t)) (jobs t) = Some p -> nth_error (jobs t) p = Some j -> job_res j = Exit n ->
  o_exit (run_task t) = Z.of_N n /\ o_errored (run_task t) = true /\ o_err (run_task t) = true.
Proof.
  intros Hc Hb Hp Hj Hn. rewrite (run_task_passes Hc).
  pose proof (run_before_spec (t_before t) 0) as Hbs. rewrite Hb in Hbs. rewrite Hbs.
  pose proof (run_jobs_code_stop (t_allow t) (jobs t) (-1)%Z p Hp j n Hj Hn) as Hcode.
  pose proof (run_jobs_spec (t_allow t) (jobs t) (-1)%Z) as Hsp. rewrite Hp in Hsp. destruct Hsp as (code' & Hrun).
  rewrite Hrun in *. cbn in *. subst code'. repeat split.
Qed.

(* the task failed, declaratively: its condition could not run, a before hook failed, or a command ended it *)
Definition task_failed : Prop :=
  t_cond t = Some Fatal \/ t_cond t = Some NoStart
  \/ (cond_passes t /\ first_index before_fails_b (t_before t) <> None)
  \/ (cond_passes t /\ first_index before_fails_b (t_before t) = None /\ first_index (stops (t_allow t)) (jobs t) <> None).

Theorem error_iff_failed : o_err (run_task t) = true <-> task_failed.
Proof.
  unfold task_failed. destruct (t_cond t) as [[[|n]| |]|] eqn:Ec.
  all: unfold cond_passes in *.
  - assert (Hc : cond_passes t) by (right; assumption).
    destruct (first_index before_fails_b (t_before t)) as [k|] eqn:Eb.
    + rewrite (before_fails k Hc Eb). cbn. split; [intros _; right; right; left; split; [assumption | discriminate] | reflexivity].
    + destruct (first_index (stops (t_allow t)) (jobs t)) as [p|] eqn:Ej.
      * destruct (stops_at_first_failure p Hc Eb Ej) as (_ & -> & _). split; [intros _; right; right; right; repeat split; [assumption | discriminate] | reflexivity].
      * rewrite (runs_everything Hc Eb Ej). cbn. split; [discriminate|].
        intros [H|[H|[(_ & H)|(_ & _ & H)]]]; try discriminate; contradiction.
  - rewrite (skipped_by_condition n Ec). cbn. split; [discriminate|].
    intros [H|[H|[([H|H] & _)|([H|H] & _)]]]; congruence.
  - unfold run_task. rewrite Ec. cbn. split; [intros _; left; reflexivity | reflexivity].
  - unfold run_task. rewrite Ec. cbn. split; [intros _; right; left; reflexivity | reflexivity].
  - assert (Hc : cond_passes t) by (left; assumption).
    destruct (first_index before_fails_b (t_before t)) as [k|] eqn:Eb.
    + rewrite (before_fails k Hc Eb). cbn. split; [intros _; right; right; left; split; [assumption | discriminate] | reflexivity].
    + destruct (first_index (stops (t_allow t)) (jobs t)) as [p|] eqn:Ej.
      * destruct (stops_at_first_failure p Hc Eb Ej) as (_ & -> & _). split; [intros _; right; right; right; repeat split; [assumption | discriminate] | reflexivity].
      * rewrite (runs_everything Hc Eb Ej). cbn. split; [discriminate|].
        intros [H|[H|[(_ & H)|(_ & _ & H)]]]; try discriminate; contradiction.
Qed.
End Spec.
