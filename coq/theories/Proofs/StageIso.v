(** C08: isolation of per-stage overrides, for every interleaving of the micro-steps of any number of uses. *)
From Coq Require Import List Arith Bool.
Import ListNotations.
From TaskctlV Require Import Model.Stage.

Lemma lookup_app k a b : lookup k (b ++ a) = match lookup k b with Some v => Some v | None => lookup k a end.
Proof.
  induction b as [|(k', v) b IH]; cbn; [reflexivity|].
  destruct (Nat.eqb k k'); [reflexivity | assumption].
Qed.

Lemma lookup_merge k a b : lookup k (merge a b) = match lookup k b with Some v => Some v | None => lookup k a end.
Proof. apply lookup_app. Qed.

Section Iso.
Variable uses : list use.
Variable st0 : nat -> settings.

Definition minv (s : mstate) : Prop :=
  store s = st0
  /\ (forall u x, priv s u = Some x -> exists us, nth_error uses u = Some us /\ x = expected st0 us)
  /\ (forall u x, In (u, x) (handed s) -> exists us, nth_error uses u = Some us /\ x = expected st0 us).

Lemma minv_init : minv (minit st0).
Proof. split; [reflexivity|]. split; [intros u x H; discriminate | intros u x []]. Qed.

Lemma minv_step s m : minv s -> minv (mexec uses s m).
Proof.
  intros (Hs & Hp & Hh). destruct m as [u|u]; cbn.
  - destruct (nth_error uses u) as [[t|t ov]|] eqn:E; [| |split; [assumption | split; assumption]].
    + split; [assumption|]. split; [|assumption]. cbn. intros v x. unfold updf.
      destruct (Nat.eqb_spec v u) as [->|Hne]; [|apply Hp].
      intros H. injection H as <-. exists (Direct t). split; [assumption|]. cbn. rewrite Hs. reflexivity.
    + split; [assumption|]. split; [|assumption]. cbn. intros v x. unfold updf.
      destruct (Nat.eqb_spec v u) as [->|Hne]; [|apply Hp].
      intros H. injection H as <-. exists (Stage t ov). split; [assumption|]. cbn. rewrite Hs. reflexivity.
  - destruct (priv s u) as [x|] eqn:E; [|split; [assumption | split; assumption]].
    split; [assumption|]. split; [assumption|]. cbn. intros v y [H|H]; [|apply Hh; assumption].
    injection H as <- <-. apply Hp. assumption.
Qed.

Lemma minv_run sched : forall s, minv s -> minv (fold_left (mexec uses) sched s).
Proof. induction sched as [|m sched IH]; intros s H; cbn; [assumption | apply IH, minv_step; assumption]. Qed.

Theorem isolation sched :
  let s' := mrun uses st0 sched in
  store s' = st0 /\
  forall u x, In (u, x) (handed s') -> exists us, nth_error uses u = Some us /\ x = expected st0 us.
Proof.
  cbn. destruct (minv_run sched (minit st0) minv_init) as (Hs & _ & Hh). split; assumption.
Qed.
End Iso.

(* layering, not replacing *)
Theorem layer_env_lookup t ov k :
  lookup k (s_env (layer t ov)) =
  match o_env ov with
  | Some e => match lookup k e with Some v => Some v | None => lookup k (s_env t) end
  | None => lookup k (s_env t)
  end.
Proof. unfold layer; cbn. destruct (o_env ov); [apply lookup_merge | reflexivity]. Qed.

Theorem layer_vars_lookup t ov k :
  lookup k (s_vars (layer t ov)) =
  match o_vars ov with
  | Some e => match lookup k e with Some v => Some v | None => lookup k (s_vars t) end
  | None => lookup k (s_vars t)
  end.
Proof. unfold layer; cbn. destruct (o_vars ov); [apply lookup_merge | reflexivity]. Qed.

Theorem layer_dir t ov : s_dir (layer t ov) = if Nat.eqb (o_dir ov) 0 then s_dir t else o_dir ov.
Proof. reflexivity. Qed.
