(** Invariants of the scheduler LTS (Model/Sched.v): C01 (dependencies finished before a start) and
    "no stage is started twice" are fields of one record invariant preserved by every step. *)
From Coq Require Import List Arith Bool Lia.
Import ListNotations.
From TaskctlV Require Import Model.Sched.

Lemma upd_same f i x : upd f i x i = x.
Proof. unfold upd. rewrite Nat.eqb_refl. reflexivity. Qed.
Lemma upd_other f i x j : j <> i -> upd f i x j = f j.
Proof. unfold upd. intros H. apply Nat.eqb_neq in H. rewrite H. reflexivity. Qed.

(* ------------------------------------------------------------------ *)

Definition finished_in c d (l : list obs) : Prop :=
  cond_of c d = CFalse
  \/ (exists ok, In (ORet d ok) l /\ (ok = true \/ allow_of c d = true))
  \/ (cond_of c d = CErr /\ allow_of c d = true).

Definition sat_status c (f : nat -> status) d : Prop :=
  f d = Done \/ f d = Skipped \/ (f d = Error /\ allow_of c d = true).

Lemma check_ready c f ds acc :
  check c f ds acc = VReady -> acc = VReady /\ forall d, In d ds -> sat_status c f d.
Proof.
  revert acc; induction ds as [|d ds IH]; intros acc H; cbn [check] in H.
  - split; [assumption | intros ? []].
  - destruct (Nat.ltb d (length c)); [|discriminate].
    unfold sat_status.
    destruct (f d) eqn:Hf.
    + apply IH in H; destruct H as [H _]; destruct acc; discriminate.
    + apply IH in H; destruct H as [H _]; destruct acc; discriminate.
    + apply IH in H; destruct H as [-> Hall]; split; [reflexivity|].
      intros d' [<-|Hin]; [rewrite Hf; auto | apply Hall; assumption].
    + apply IH in H; destruct H as [-> Hall]; split; [reflexivity|].
      intros d' [<-|Hin]; [rewrite Hf; auto | apply Hall; assumption].
    + destruct (allow_of c d) eqn:Ha.
      * apply IH in H; destruct H as [-> Hall]; split; [reflexivity|].
        intros d' [<-|Hin]; [rewrite Hf; auto | apply Hall; assumption].
      * apply IH in H; destruct H as [H _]; discriminate.
    + apply IH in H; destruct H as [H _]; discriminate.
Qed.

(* the invariant tying statuses to the observable log *)
Record inv (c : config) (s : state) : Prop := {
  inv_done  : forall i, st s i = Done -> exists ok, In (ORet i ok) (log s) /\ (ok = true \/ allow_of c i = true);
  inv_skip  : forall i, st s i = Skipped -> cond_of c i = CFalse;
  inv_err   : forall i, st s i = Error -> In (ORet i false) (log s) \/ cond_of c i = CErr;
  inv_pend  : forall i, In i (pend s) -> st s i = Error /\ allow_of c i = true /\ In (ORet i false) (log s);
  inv_start : forall i, In (OStart i) (log s) -> st s i <> Waiting;
  inv_nodup : NoDup (filter (fun o => match o with OStart _ => true | _ => false end) (log s));
  inv_c01   : forall l2 i l1, log s = l2 ++ OStart i :: l1 -> forall d, In d (deps_of c i) -> finished_in c d l1
}.

Lemma sat_finished c s d : inv c s -> sat_status c (st s) d -> finished_in c d (log s).
Proof.
  intros I [H|[H|[H Ha]]].
  - right; left. apply (inv_done _ _ I); assumption.
  - left. apply (inv_skip _ _ I); assumption.
  - destruct (inv_err _ _ I _ H) as [Hr|Hc].
    + right; left. exists false. split; [assumption | right; assumption].
    + right; right. split; assumption.
Qed.

Lemma finished_in_mono c d l o : finished_in c d l -> finished_in c d (o :: l).
Proof.
  intros [H|[(ok & Hin & Hok)|H]]; [left; assumption | right; left; exists ok; split; [right; assumption | assumption] | right; right; assumption].
Qed.

Lemma c01_extend_other c (s : state) o :
  (forall i, o <> OStart i) ->
  (forall l2 i l1, log s = l2 ++ OStart i :: l1 -> forall d, In d (deps_of c i) -> finished_in c d l1) ->
  forall l2 i l1, o :: log s = l2 ++ OStart i :: l1 -> forall d, In d (deps_of c i) -> finished_in c d l1.
Proof.
  intros Ho H l2 i l1 E d Hd. destruct l2 as [|x l2]; cbn in E; injection E as E1 E2.
  - exfalso. apply (Ho i). assumption.
  - eapply H; eassumption.
Qed.

Ltac inv_step_tac :=
  repeat match goal with
  | H : Some _ = Some _ |- _ => injection H as <-
  | H : None = Some _ |- _ => discriminate
  end.

Theorem inv_step c s e s' : inv c s -> step c s e = Some s' -> inv c s'.
Proof.
  intros I H. unfold step in H.
  destruct (fatal s); [discriminate|].
  destruct e as [i|i ok|i| |].
  - (* Visit *)
    destruct (exited s); [discriminate|].
    destruct (negb (i <? length c)); [discriminate|].
    destruct (st s i) eqn:Hst; inv_step_tac; try (destruct s; exact I).
    assert (Hns : ~ In (OStart i) (log s)) by (intros Hin; apply (inv_start _ _ I) in Hin; congruence).
    assert (Hnp : ~ In i (pend s)) by (intros Hin; apply (inv_pend _ _ I) in Hin; destruct Hin as (Hin & _); congruence).
    destruct (cond_of c i) eqn:Hc.
    1,2: destruct (check c (st s) (deps_of c i) VReady) eqn:Hck; inv_step_tac; try (destruct s; exact I).
    all: inv_step_tac.
    all: constructor; cbn [st log pend];
      try (intros j Hj; destruct (Nat.eq_dec j i) as [->|Hne];
           [rewrite upd_same in Hj; try discriminate | rewrite upd_other in Hj by assumption]).
    (* the goal soup is handled case by case below *)
    all: try (apply (inv_done _ _ I); assumption).
    all: try (apply (inv_skip _ _ I); assumption).
    all: try (apply (inv_err _ _ I); assumption).
    all: try assumption.
    all: try (right; assumption).
    all: try (destruct (inv_done _ _ I _ Hj) as (ok & Hin & Hok); exists ok; split; [right; assumption | assumption]).
    all: try (destruct (inv_err _ _ I _ Hj) as [Hin|Hcc]; [left; right; assumption | right; assumption]).
    all: try (intros j Hj; destruct (Nat.eq_dec j i) as [->|Hne]; [contradiction |];
              destruct (inv_pend _ _ I _ Hj) as (A & B & C); rewrite upd_other by assumption; repeat split; try assumption; try (right; assumption)).
    all: try (intros j Hj; destruct (Nat.eq_dec j i) as [->|Hne];
              [rewrite upd_same; discriminate | rewrite upd_other by assumption; apply (inv_start _ _ I); assumption]).
    all: try (apply (inv_nodup _ _ I)).
    all: try (apply (inv_c01 _ _ I)).
    (* VReady cases: OStart i pushed *)
    all: try (intros j [Hj|Hj]; [injection Hj as ->; rewrite upd_same; discriminate |
              destruct (Nat.eq_dec j i) as [->|Hne]; [contradiction | rewrite upd_other by assumption; apply (inv_start _ _ I); assumption]]).
    all: try (cbn; constructor; [ rewrite filter_In; intros [Hin _]; contradiction | apply (inv_nodup _ _ I)]).
    all: try (intros l2 j l1 E d Hd; destruct l2 as [|x l2]; cbn in E; injection E as E1 E2;
              [ subst; apply check_ready in Hck; destruct Hck as [_ Hall]; apply sat_finished; [assumption | apply Hall; assumption]
              | eapply (inv_c01 _ _ I); eassumption ]).
    all: try (apply (inv_pend _ _ I)).
    all: try (apply (inv_start _ _ I)).
  - (* Ret *)
    destruct (negb (i <? length c)); [discriminate|].
    destruct (st s i) eqn:Hst; try discriminate.
    assert (Hnp : ~ In i (pend s)) by (intros Hin; apply (inv_pend _ _ I) in Hin; destruct Hin as (Hin & _); congruence).
    destruct ok; [|destruct (allow_of c i) eqn:Ha]; inv_step_tac.
    all: constructor; cbn [st log pend];
      try (intros j Hj; destruct (Nat.eq_dec j i) as [->|Hne];
           [rewrite upd_same in Hj; try discriminate | rewrite upd_other in Hj by assumption]).
    all: try (eexists; split; [left; reflexivity | auto]; fail).
    all: try (apply (inv_skip _ _ I); assumption).
    all: try (left; left; reflexivity).
    all: try (destruct (inv_done _ _ I _ Hj) as (ok & Hin & Hok); exists ok; split; [right; assumption | assumption]).
    all: try (destruct (inv_err _ _ I _ Hj) as [Hin|Hcc]; [left; right; assumption | right; assumption]).
    all: try (intros j Hj; destruct (Nat.eq_dec j i) as [->|Hne]; [contradiction |];
              destruct (inv_pend _ _ I _ Hj) as (A & B & C); rewrite upd_other by assumption; repeat split; try assumption; right; assumption).
    all: try (intros j [Hj|Hj]; [subst; rewrite upd_same; repeat split; [assumption | left; reflexivity] |
              destruct (Nat.eq_dec j i) as [->|Hne]; [contradiction |];
              destruct (inv_pend _ _ I _ Hj) as (A & B & C); rewrite upd_other by assumption; repeat split; try assumption; right; assumption]).
    all: try (intros j [Hj|Hj]; [discriminate |
              destruct (Nat.eq_dec j i) as [->|Hne]; [rewrite upd_same; discriminate | rewrite upd_other by assumption; apply (inv_start _ _ I); assumption]]).
    all: try (cbn; apply (inv_nodup _ _ I)).
    all: try (apply c01_extend_other; [intros; discriminate | apply (inv_c01 _ _ I)]).
  - (* Fin *)
    destruct (existsb (Nat.eqb i) (pend s)) eqn:Hp; [|discriminate]. inv_step_tac.
    apply existsb_exists in Hp. destruct Hp as (i' & Hin & He). apply Nat.eqb_eq in He. subst i'.
    destruct (inv_pend _ _ I _ Hin) as (Hst & Ha & Hlog).
    constructor; cbn [st log pend];
      try (intros j Hj; destruct (Nat.eq_dec j i) as [->|Hne];
           [rewrite upd_same in Hj; try discriminate | rewrite upd_other in Hj by assumption]).
    all: try (exists false; split; [assumption | right; assumption]).
    all: try (apply (inv_done _ _ I); assumption).
    all: try (apply (inv_skip _ _ I); assumption).
    all: try (apply (inv_err _ _ I); assumption).
    all: try (apply (inv_nodup _ _ I)).
    all: try (apply (inv_c01 _ _ I)).
    + intros j Hj. apply filter_In in Hj. destruct Hj as (Hj & Hne).
      assert (j <> i) by (intros ->; rewrite Nat.eqb_refl in Hne; discriminate).
      rewrite upd_other by assumption. apply (inv_pend _ _ I); assumption.
    + intros j Hj. destruct (Nat.eq_dec j i) as [->|Hne]; [rewrite upd_same; discriminate | rewrite upd_other by assumption; apply (inv_start _ _ I); assumption].
  - inv_step_tac. destruct I; constructor; assumption.
  - destruct (exited s); [discriminate|]. destruct (cancelled s || all_settled c (st s)); [|discriminate].
    inv_step_tac. destruct I; constructor; assumption.
Qed.

Lemma inv_init c : inv c init.
Proof.
  constructor; cbn.
  - intros; discriminate.
  - intros; discriminate.
  - intros; discriminate.
  - intros ? [].
  - intros ? [].
  - constructor.
  - intros a b e E. destruct a; discriminate.
Qed.

Lemma inv_run c : forall es s s', inv c s -> run c s es = Some s' -> inv c s'.
Proof.
  induction es as [|e es IH]; intros s s' I H; cbn in H.
  - injection H as <-. assumption.
  - destruct (step c s e) as [s1|] eqn:Hs; [|discriminate]. eapply IH; [eapply inv_step; eassumption | eassumption].
Qed.

Theorem C01_deps_finished_before_start :
  forall c es s, exec c es s ->
  forall l2 i l1, log s = l2 ++ OStart i :: l1 ->
  forall d, In d (deps_of c i) -> finished_in c d l1.
Proof. intros c es s H. apply (inv_c01 c s). eapply inv_run; [apply inv_init | exact H]. Qed.

Theorem C03_no_double_run :
  forall c es s, exec c es s -> NoDup (filter (fun o => match o with OStart _ => true | _ => false end) (log s)).
Proof. intros c es s H. apply (inv_nodup c s). eapply inv_run; [apply inv_init | exact H]. Qed.


