(** Further invariants of the scheduler LTS used by C02-C04: statuses vs log, the cause of a
    cancellation, what holds once the polling loop has been left. *)
From Coq Require Import List Arith Bool Lia.
Import ListNotations.
From TaskctlV Require Import Model.Sched Proofs.SchedInv Proofs.SchedStep.

Definition runnable (c : config) i := cond_of c i <> CErr /\ cond_of c i <> CFalse.

Record invB (c : config) (s : state) : Prop := {
  ib_range   : forall i, length c <= i -> st s i = Waiting;
  ib_retst   : forall i ok, In (ORet i ok) (log s) -> In (OStart i) (log s);
  ib_running : forall i, st s i = Running -> In (OStart i) (log s);
  ib_doneerr : forall i, st s i = Done \/ st s i = Error -> In (OStart i) (log s) \/ cond_of c i = CErr;
  ib_started : forall i, In (OStart i) (log s) -> runnable c i /\ (st s i = Running \/ st s i = Done \/ st s i = Error);
  ib_cancel  : forall i, st s i = Canceled -> runnable c i /\
                 exists d, In d (deps_of c i) /\ ((st s d = Error /\ allow_of c d = false) \/ st s d = Canceled);
  ib_exit    : exited s = true -> cancelled s = false -> forall i, i < length c -> settled_b (st s i) = true;
  ib_running_open : forall i, st s i = Running -> ~ In (ORet i true) (log s) /\ ~ In (ORet i false) (log s)
}.

Lemma check_cancel c f ds acc :
  check c f ds acc = VCancel ->
  acc = VCancel \/ exists d, In d ds /\ ((f d = Error /\ allow_of c d = false) \/ f d = Canceled).
Proof.
  revert acc; induction ds as [|d ds IH]; intros acc H; cbn [check] in H.
  - left; assumption.
  - destruct (Nat.ltb d (length c)); [|discriminate].
    destruct (f d) eqn:Hf.
    + apply IH in H. destruct H as [H|(d' & Hin & H)]; [destruct acc; try discriminate; left; reflexivity | right; exists d'; split; [right; assumption|assumption]].
    + apply IH in H. destruct H as [H|(d' & Hin & H)]; [destruct acc; try discriminate; left; reflexivity | right; exists d'; split; [right; assumption|assumption]].
    + apply IH in H. destruct H as [H|(d' & Hin & H)]; [left; assumption | right; exists d'; split; [right; assumption|assumption]].
    + apply IH in H. destruct H as [H|(d' & Hin & H)]; [left; assumption | right; exists d'; split; [right; assumption|assumption]].
    + destruct (allow_of c d) eqn:Ha.
      * apply IH in H. destruct H as [H|(d' & Hin & H)]; [left; assumption | right; exists d'; split; [right; assumption|assumption]].
      * right. apply IH in H. destruct H as [_|(d' & Hin & H)]; [exists d; split; [left; reflexivity | left; split; assumption] | exists d'; split; [right; assumption|assumption]].
    + right. apply IH in H. destruct H as [_|(d' & Hin & H)]; [exists d; split; [left; reflexivity | right; assumption] | exists d'; split; [right; assumption|assumption]].
Qed.

Lemma all_settled_spec c f : all_settled c f = true <-> forall i, i < length c -> settled_b (f i) = true.
Proof.
  unfold all_settled. rewrite forallb_forall. split.
  - intros H i Hi. apply H. apply in_seq. lia.
  - intros H i Hi. apply in_seq in Hi. apply H. lia.
Qed.

Ltac updc :=
  repeat match goal with
  | H : context [upd _ ?i _ ?j] |- _ =>
      destruct (Nat.eq_dec j i) as [->|?]; [rewrite upd_same in H | rewrite upd_other in H by assumption]
  | |- context [upd _ ?i _ ?j] =>
      destruct (Nat.eq_dec j i) as [->|?]; [rewrite upd_same | rewrite upd_other by assumption]
  end.

Lemma invB_init c : invB c init.
Proof.
  constructor; cbn; try (intros; discriminate); try (intros; contradiction); try reflexivity.
  - intros i [H|H]; discriminate.
Qed.

Lemma in_cons_obs (o o' : obs) l : In o (o' :: l) -> o = o' \/ In o l.
Proof. intros [H|H]; [left; symmetry; assumption | right; assumption]. Qed.

Lemma invB_step c s e s' : inv c s -> invB c s -> step c s e = Some s' -> invB c s'.
Proof.
  intros I B H. apply step_Step in H.
  destruct H as [i Hf Hx Hi Hidle | i Hf Hx Hi Hst Hc | i Hf Hx Hi Hst Hc
                | i Hf Hx Hi Hst Hc1 Hc2 Hck | i Hf Hx Hi Hst Hc1 Hc2 Hck | i Hf Hx Hi Hst Hc1 Hc2 Hck
                | i Hf Hi Hst | i Hf Hi Hst Ha | i Hf Hi Hst Ha | i Hf Hp | Hf | Hf Hx Hex].
  - (* idle *) assumption.
  - (* CErr -> Error, cancelled *)
    constructor; cbn [st log pend exited cancelled].
    + intros j Hj. updc; [lia | apply (ib_range _ _ B); assumption].
    + apply (ib_retst _ _ B).
    + intros j Hj. updc; [discriminate | apply (ib_running _ _ B); assumption].
    + intros j Hj. updc; [right; assumption | apply (ib_doneerr _ _ B); assumption].
    + intros j Hj. destruct (ib_started _ _ B j Hj) as (Hr & Hs). split; [assumption|]. updc; [rewrite Hst in Hs; destruct Hs as [Hs|[Hs|Hs]]; discriminate | assumption].
    + intros j Hj. updc; [discriminate|]. destruct (ib_cancel _ _ B j Hj) as (Hr & d & Hd & Hs). split; [assumption|].
      exists d. split; [assumption|]. updc; [rewrite Hst in Hs; destruct Hs as [[Hs _]|Hs]; discriminate | assumption].
    + intros; discriminate.
    + intros j Hj. updc; [discriminate | apply (ib_running_open _ _ B); assumption].
  - (* CFalse -> Skipped *)
    constructor; cbn [st log pend exited cancelled].
    + intros j Hj. updc; [lia | apply (ib_range _ _ B); assumption].
    + apply (ib_retst _ _ B).
    + intros j Hj. updc; [discriminate | apply (ib_running _ _ B); assumption].
    + intros j Hj. updc; [destruct Hj; discriminate | apply (ib_doneerr _ _ B); assumption].
    + intros j Hj. destruct (ib_started _ _ B j Hj) as (Hr & Hs). split; [assumption|]. updc; [rewrite Hst in Hs; destruct Hs as [Hs|[Hs|Hs]]; discriminate | assumption].
    + intros j Hj. updc; [discriminate|]. destruct (ib_cancel _ _ B j Hj) as (Hr & d & Hd & Hs). split; [assumption|].
      exists d. split; [assumption|]. updc; [rewrite Hst in Hs; destruct Hs as [[Hs _]|Hs]; discriminate | assumption].
    + intros; discriminate.
    + intros j Hj. updc; [discriminate | apply (ib_running_open _ _ B); assumption].
  - (* fatal *)
    destruct B; constructor; cbn [st log pend exited cancelled]; try assumption. intros; discriminate.
  - (* cancel *)
    constructor; cbn [st log pend exited cancelled].
    + intros j Hj. updc; [lia | apply (ib_range _ _ B); assumption].
    + apply (ib_retst _ _ B).
    + intros j Hj. updc; [discriminate | apply (ib_running _ _ B); assumption].
    + intros j Hj. updc; [destruct Hj; discriminate | apply (ib_doneerr _ _ B); assumption].
    + intros j Hj. destruct (ib_started _ _ B j Hj) as (Hr & Hs). split; [assumption|]. updc; [rewrite Hst in Hs; destruct Hs as [Hs|[Hs|Hs]]; discriminate | assumption].
    + intros j Hj. updc.
      * split; [split; assumption|]. apply check_cancel in Hck. destruct Hck as [Hck|(d & Hd & Hs)]; [discriminate|].
        exists d. split; [assumption|]. updc; [rewrite Hst in Hs; destruct Hs as [[Hs _]|Hs]; discriminate | assumption].
      * destruct (ib_cancel _ _ B j Hj) as (Hr & d & Hd & Hs). split; [assumption|].
        exists d. split; [assumption|]. updc; [right; reflexivity | assumption].
    + intros; discriminate.
    + intros j Hj. updc; [discriminate | apply (ib_running_open _ _ B); assumption].
  - (* start *)
    assert (Hns : ~ In (OStart i) (log s)) by (intros Hin; apply (inv_start _ _ I) in Hin; congruence).
    constructor; cbn [st log pend exited cancelled].
    + intros j Hj. updc; [lia | apply (ib_range _ _ B); assumption].
    + intros j ok Hj. destruct Hj as [Hj|Hj]; [discriminate|]. right. apply (ib_retst _ _ B j ok). assumption.
    + intros j Hj. updc; [left; reflexivity | right; apply (ib_running _ _ B); assumption].
    + intros j Hj. updc; [destruct Hj; discriminate|]. destruct (ib_doneerr _ _ B j Hj); [left; right; assumption | right; assumption].
    + intros j Hj. destruct Hj as [Hj|Hj].
      * injection Hj as <-. split; [split; assumption|]. rewrite upd_same. left; reflexivity.
      * destruct (ib_started _ _ B j Hj) as (Hr & Hs). split; [assumption|]. updc; [contradiction | assumption].
    + intros j Hj. updc; [discriminate|]. destruct (ib_cancel _ _ B j Hj) as (Hr & d & Hd & Hs). split; [assumption|].
      exists d. split; [assumption|]. updc; [rewrite Hst in Hs; destruct Hs as [[Hs _]|Hs]; discriminate | assumption].
    + intros; discriminate.
    + intros j Hj. updc.
      * split; intros [Hin|Hin]; try discriminate; apply (ib_retst _ _ B) in Hin; contradiction.
      * destruct (ib_running_open _ _ B j Hj) as (A1 & A2). split; intros [Hin|Hin]; try discriminate; contradiction.
  - (* ret ok *)
    assert (Hs0 : In (OStart i) (log s)) by (apply (ib_running _ _ B); assumption).
    constructor; cbn [st log pend exited cancelled].
    + intros j Hj. updc; [lia | apply (ib_range _ _ B); assumption].
    + intros j ok Hj. destruct Hj as [Hj|Hj]; [injection Hj as <- <-; right; assumption | right; apply (ib_retst _ _ B j ok); assumption].
    + intros j Hj. updc; [discriminate | right; apply (ib_running _ _ B); assumption].
    + intros j Hj. updc; [left; right; assumption|]. destruct (ib_doneerr _ _ B j Hj); [left; right; assumption | right; assumption].
    + intros j Hj. destruct Hj as [Hj|Hj]; [discriminate|].
      destruct (ib_started _ _ B j Hj) as (Hr & Hs). split; [assumption|]. updc; [right; left; reflexivity | assumption].
    + intros j Hj. updc; [discriminate|]. destruct (ib_cancel _ _ B j Hj) as (Hr & d & Hd & Hs). split; [assumption|].
      exists d. split; [assumption|]. updc; [rewrite Hst in Hs; destruct Hs as [[Hs _]|Hs]; discriminate | assumption].
    + intros Hx Hc j Hj. updc; [reflexivity | apply (ib_exit _ _ B); assumption].
    + intros j Hj. updc; [discriminate|]. destruct (ib_running_open _ _ B j Hj) as (A1 & A2).
      split; intros [Hin|Hin]; try contradiction; injection Hin as ->; contradiction.
  - (* ret allowed failure *)
    assert (Hs0 : In (OStart i) (log s)) by (apply (ib_running _ _ B); assumption).
    constructor; cbn [st log pend exited cancelled].
    + intros j Hj. updc; [lia | apply (ib_range _ _ B); assumption].
    + intros j ok Hj. destruct Hj as [Hj|Hj]; [injection Hj as <- <-; right; assumption | right; apply (ib_retst _ _ B j ok); assumption].
    + intros j Hj. updc; [discriminate | right; apply (ib_running _ _ B); assumption].
    + intros j Hj. updc; [left; right; assumption|]. destruct (ib_doneerr _ _ B j Hj); [left; right; assumption | right; assumption].
    + intros j Hj. destruct Hj as [Hj|Hj]; [discriminate|].
      destruct (ib_started _ _ B j Hj) as (Hr & Hs). split; [assumption|]. updc; [right; right; reflexivity | assumption].
    + intros j Hj. updc; [discriminate|]. destruct (ib_cancel _ _ B j Hj) as (Hr & d & Hd & Hs). split; [assumption|].
      exists d. split; [assumption|]. updc; [rewrite Hst in Hs; destruct Hs as [[Hs _]|Hs]; discriminate | assumption].
    + intros Hx Hc j Hj. updc; [reflexivity | apply (ib_exit _ _ B); assumption].
    + intros j Hj. updc; [discriminate|]. destruct (ib_running_open _ _ B j Hj) as (A1 & A2).
      split; intros [Hin|Hin]; try contradiction; injection Hin as ->; contradiction.
  - (* ret hard failure *)
    assert (Hs0 : In (OStart i) (log s)) by (apply (ib_running _ _ B); assumption).
    constructor; cbn [st log pend exited cancelled].
    + intros j Hj. updc; [lia | apply (ib_range _ _ B); assumption].
    + intros j ok Hj. destruct Hj as [Hj|Hj]; [injection Hj as <- <-; right; assumption | right; apply (ib_retst _ _ B j ok); assumption].
    + intros j Hj. updc; [discriminate | right; apply (ib_running _ _ B); assumption].
    + intros j Hj. updc; [left; right; assumption|]. destruct (ib_doneerr _ _ B j Hj); [left; right; assumption | right; assumption].
    + intros j Hj. destruct Hj as [Hj|Hj]; [discriminate|].
      destruct (ib_started _ _ B j Hj) as (Hr & Hs). split; [assumption|]. updc; [right; right; reflexivity | assumption].
    + intros j Hj. updc; [discriminate|]. destruct (ib_cancel _ _ B j Hj) as (Hr & d & Hd & Hs). split; [assumption|].
      exists d. split; [assumption|]. updc; [rewrite Hst in Hs; destruct Hs as [[Hs _]|Hs]; discriminate | assumption].
    + intros Hx Hc j Hj. updc; [reflexivity | apply (ib_exit _ _ B); assumption].
    + intros j Hj. updc; [discriminate|]. destruct (ib_running_open _ _ B j Hj) as (A1 & A2).
      split; intros [Hin|Hin]; try contradiction; injection Hin as ->; contradiction.
  - (* fin *)
    destruct (inv_pend _ _ I _ Hp) as (Hst & Ha & Hlog).
    constructor; cbn [st log pend exited cancelled].
    + intros j Hj. updc; [|apply (ib_range _ _ B); assumption].
      pose proof (ib_range _ _ B i Hj). congruence.
    + apply (ib_retst _ _ B).
    + intros j Hj. updc; [discriminate | apply (ib_running _ _ B); assumption].
    + intros j Hj. updc; [apply (ib_doneerr _ _ B); right; assumption | apply (ib_doneerr _ _ B); assumption].
    + intros j Hj. destruct (ib_started _ _ B j Hj) as (Hr & Hs). split; [assumption|]. updc; [right; left; reflexivity | assumption].
    + intros j Hj. updc; [discriminate|]. destruct (ib_cancel _ _ B j Hj) as (Hr & d & Hd & Hs). split; [assumption|].
      exists d. split; [assumption|]. updc; [rewrite Hst in Hs; destruct Hs as [[_ Hs]|Hs]; congruence | assumption].
    + intros Hx Hc j Hj. updc; [reflexivity | apply (ib_exit _ _ B); assumption].
    + intros j Hj. updc; [discriminate | apply (ib_running_open _ _ B); assumption].
  - (* ext cancel *)
    destruct B; constructor; cbn [st log pend exited cancelled]; try assumption. intros; discriminate.
  - (* exit *)
    destruct B; constructor; cbn [st log pend exited cancelled]; try assumption.
    intros _ Hc. rewrite Hc in Hex. cbn in Hex. apply all_settled_spec. assumption.
Qed.

Lemma inv_both_run c : forall es s s', inv c s /\ invB c s -> run c s es = Some s' -> inv c s' /\ invB c s'.
Proof.
  apply (run_ind_inv c (fun s => inv c s /\ invB c s)).
  intros s e s' (I & B) H. split; [eapply inv_step; eassumption | eapply invB_step; eassumption].
Qed.

Lemma exec_inv c es s : exec c es s -> inv c s /\ invB c s.
Proof. intros H. eapply inv_both_run; [split; [apply inv_init | apply invB_init] | exact H]. Qed.
