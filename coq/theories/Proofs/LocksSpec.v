(** Lock-order discipline implies freedom from dead-lock, for any number of threads (C19). *)
From Coq Require Import List Arith Bool Lia.
Import ListNotations.
From TaskctlV Require Import Model.Locks.

(* a thread respects the order: it only acquires locks greater than every lock it holds, releases only what it holds,
   and holds nothing when it has finished *)
Fixpoint ordered (h : list nat) (p : prog) : Prop :=
  match p with
  | [] => h = []
  | Acq l :: r => (forall x, In x h -> x < l) /\ ordered (l :: h) r
  | Rel l :: r => In l h /\ ordered (remove1 l h) r
  end.

Definition Inv (s : lsys) : Prop := forall t th, nth_error s t = Some th -> ordered (held th) (todo th).

Lemma holds_true s l : holds s l = true <-> exists t th, nth_error s t = Some th /\ In l (held th).
Proof.
  unfold holds. rewrite existsb_exists. split.
  - intros (th & Hin & Hl). apply In_nth_error in Hin. destruct Hin as (t & Ht). exists t, th. split; [exact Ht|].
    apply existsb_exists in Hl. destruct Hl as (x & Hx & He). apply Nat.eqb_eq in He. now subst.
  - intros (t & th & Ht & Hl). exists th. split; [eapply nth_error_In; eauto|]. apply existsb_exists. exists l. split; [exact Hl|apply Nat.eqb_refl].
Qed.

Lemma nth_error_upd {A} (l : list A) : forall n x m, nth_error (upd_nth n x l) m =
  if Nat.eqb m n then (match nth_error l n with Some _ => Some x | None => None end) else nth_error l m.
Proof.
  induction l as [|y l IH]; intros n x m; cbn [upd_nth].
  - destruct (Nat.eqb m n); destruct m, n; reflexivity.
  - destruct n as [|n]; destruct m as [|m]; cbn [nth_error Nat.eqb]; try reflexivity. apply IH.
Qed.

Lemma inv_step s t s' : Inv s -> lstep s t = Some s' -> Inv s'.
Proof.
  intros HI H. unfold lstep in H. destruct (nth_error s t) as [[h [|[l|l] r]]|] eqn:Et; try discriminate.
  - destruct (holds s l); [discriminate|]. injection H as <-. intros u th Hu. rewrite nth_error_upd in Hu.
    destruct (Nat.eqb u t) eqn:E.
    + rewrite Et in Hu. injection Hu as <-. cbn. exact (proj2 (HI t _ Et)).
    + exact (HI u th Hu).
  - injection H as <-. intros u th Hu. rewrite nth_error_upd in Hu. destruct (Nat.eqb u t) eqn:E.
    + rewrite Et in Hu. injection Hu as <-. cbn. exact (proj2 (HI t _ Et)).
    + exact (HI u th Hu).
Qed.

Lemma inv_run ts : forall s s', Inv s -> lrun s ts = Some s' -> Inv s'.
Proof.
  induction ts as [|t ts IH]; intros s s' HI H; cbn in H; [injection H as <-; exact HI|].
  destruct (lstep s t) as [s1|] eqn:E; [|discriminate]. eapply IH; [eapply inv_step; eauto|exact H].
Qed.

(* the request of a blocked thread: the lock it waits for *)
Definition waits (s : lsys) (t l : nat) : Prop := exists h r, nth_error s t = Some (mkTh h (Acq l :: r)) /\ holds s l = true.

(* if every thread is finished or blocked, following "who holds what I wait for" climbs in the lock order for ever *)
Lemma climb s : Inv s -> (forall t, lstep s t = None) -> forall t l, waits s t l -> exists t' l', waits s t' l' /\ l < l'.
Proof.
  intros HI Hst t l (h & r & Ht & Hh). apply holds_true in Hh. destruct Hh as (u & [hu pu] & Hu & Hlu). cbn [held] in Hlu.
  pose proof (HI u _ Hu) as Ho. cbn [held todo] in Ho.
  destruct pu as [|[l'|l'] ru].
  - cbn in Ho. subst hu. destruct Hlu.
  - destruct Ho as (Hlt & _). exists u, l'. split; [|now apply Hlt].
    exists hu, ru. split; [exact Hu|]. specialize (Hst u). unfold lstep in Hst. rewrite Hu in Hst.
    destruct (holds s l'); [reflexivity|discriminate].
  - exfalso. specialize (Hst u). unfold lstep in Hst. rewrite Hu in Hst. discriminate.
Qed.

(* the lock a thread waits for occurs in its program: all lock numbers are below [L] *)
Definition bounded (L : nat) (s : lsys) : Prop := forall t th l, nth_error s t = Some th -> In (Acq l) (todo th) -> l < L.

Theorem ordered_never_stuck L s : Inv s -> bounded L s -> finished s = false -> exists t s', lstep s t = Some s'.
Proof.
  intros HI HB Hf.
  destruct (forallb (fun t => match lstep s t with None => true | Some _ => false end) (seq 0 (length s))) eqn:Hall.
  2:{ apply Bool.not_true_iff_false in Hall. rewrite forallb_forall in Hall.
      assert (exists t, In t (seq 0 (length s)) /\ lstep s t <> None) as (t & _ & Ht).
      { clear -Hall. induction (seq 0 (length s)) as [|x l IH].
        - exfalso. apply Hall. intros ? [].
        - destruct (lstep s x) eqn:E.
          + exists x. split; [now left|congruence].
          + destruct IH as (t & Ht1 & Ht2).
            * intros Hc. apply Hall. intros y [<-|Hy]; [now rewrite E|now apply Hc].
            * exists t. split; [now right|exact Ht2]. }
      destruct (lstep s t) as [s'|] eqn:E; [exists t, s'; exact E|contradiction]. }
  exfalso. rewrite forallb_forall in Hall.
  assert (Hst: forall t, lstep s t = None).
  { intros t. destruct (Nat.lt_ge_cases t (length s)) as [Hlt|Hge].
    - specialize (Hall t (proj2 (in_seq _ _ _) (conj (Nat.le_0_l _) Hlt))). destruct (lstep s t); [discriminate|reflexivity].
    - unfold lstep. now rewrite (proj2 (nth_error_None s t) Hge). }
  (* some thread is unfinished, hence waits *)
  unfold finished in Hf. apply Bool.not_true_iff_false in Hf. rewrite forallb_forall in Hf.
  assert (exists th, In th s /\ todo th <> []) as (th & Hin & Hne).
  { clear -Hf. induction s as [|x s IH]; [exfalso; apply Hf; intros ? []|].
    destruct (todo x) eqn:E.
    - destruct IH as (th & H1 & H2); [intros Hc; apply Hf; intros y [<-|Hy]; [now rewrite E|now apply Hc]|]. exists th. split; [now right|exact H2].
    - exists x. split; [now left|congruence]. }
  apply In_nth_error in Hin. destruct Hin as (t & Ht). destruct th as [h [|[l|l] r]]; [contradiction| |].
  2:{ specialize (Hst t). unfold lstep in Hst. rewrite Ht in Hst. discriminate. }
  assert (Hw: waits s t l).
  { exists h, r. split; [exact Ht|]. specialize (Hst t). unfold lstep in Hst. rewrite Ht in Hst. destruct (holds s l); [reflexivity|discriminate]. }
  (* ... and the chain of waits would leave the bound *)
  assert (Hchain: forall n t l, waits s t l -> L - l <= n -> False).
  { induction n as [|n IHn]; intros t0 l0 Hw0 Hn.
    - destruct Hw0 as (h0 & r0 & Ht0 & _). pose proof (HB t0 _ l0 Ht0 (or_introl eq_refl)). lia.
    - destruct (climb s HI Hst t0 l0 Hw0) as (t1 & l1 & Hw1 & Hlt). apply (IHn t1 l1 Hw1).
      destruct Hw1 as (h1 & r1 & Ht1 & _). pose proof (HB t1 _ l1 Ht1 (or_introl eq_refl)). lia. }
  exact (Hchain (L - l) t l Hw (le_n _)).
Qed.

(* the bound is preserved: programs only shrink *)
Lemma bounded_step L s t s' : bounded L s -> lstep s t = Some s' -> bounded L s'.
Proof.
  intros HB H. unfold lstep in H. destruct (nth_error s t) as [[h [|[l|l] r]]|] eqn:Et; try discriminate.
  - destruct (holds s l); [discriminate|]. injection H as <-. intros u th x Hu Hx. rewrite nth_error_upd in Hu. destruct (Nat.eqb u t).
    + rewrite Et in Hu. injection Hu as <-. cbn in Hx. eapply (HB t _ x Et). now right.
    + eapply HB; eauto.
  - injection H as <-. intros u th x Hu Hx. rewrite nth_error_upd in Hu. destruct (Nat.eqb u t).
    + rewrite Et in Hu. injection Hu as <-. cbn in Hx. eapply (HB t _ x Et). now right.
    + eapply HB; eauto.
Qed.
Lemma bounded_run L ts : forall s s', bounded L s -> lrun s ts = Some s' -> bounded L s'.
Proof.
  induction ts as [|t ts IH]; intros s s' HB H; cbn in H; [injection H as <-; exact HB|].
  destruct (lstep s t) as [s1|] eqn:E; [|discriminate]. eapply IH; [eapply bounded_step; eauto|exact H].
Qed.

(* ---- the cockpit programs respect the order spinnerMu < spinner lock < cockpit mutex ---- *)
Lemma ordered_frames k : ordered [] (frames k).
Proof. induction k as [|k IH]; cbn; [reflexivity|]. repeat split; auto; try (intros x [<-|[]]; unfold spinLock, cockpitMu; lia); try (intros x []); try (now left); try (right; now left). Qed.
Lemma ordered_rounds r : ordered [] (rounds r remove_fixed).
Proof.
  induction r as [|r IH]; cbn; [reflexivity|].
  repeat split; auto; try (intros x []); try (now left); try (right; now left);
    try (intros x [<-|[]]; unfold spinnerMu, spinLock, cockpitMu; lia);
    try (subst; unfold spinnerMu, spinLock, cockpitMu; lia).
Qed.

Theorem cockpit_fixed_inv n r k : Inv (cockpit_sys true n r k) /\ bounded 3 (cockpit_sys true n r k).
Proof.
  unfold cockpit_sys. split.
  - intros t th Ht. destruct t as [|t]; cbn in Ht.
    + injection Ht as <-. apply ordered_frames.
    + apply nth_error_In, repeat_spec in Ht. subst th. apply ordered_rounds.
  - intros t th l Ht Hl. assert (Hall: forall p, (p = frames k \/ p = rounds r remove_fixed) -> In (Acq l) p -> l < 3).
    { intros p [->| ->] Hin.
      - clear -Hin. induction k as [|k IH]; cbn in Hin; [destruct Hin|].
        destruct Hin as [H|[H|[H|[H|H]]]]; try discriminate; try (injection H as <-; unfold spinLock, cockpitMu; lia). now apply IH.
      - clear -Hin. induction r as [|r IH]; cbn in Hin; [destruct Hin|].
        repeat (destruct Hin as [H|Hin]; [try discriminate; try (injection H as <-; unfold spinnerMu, spinLock, cockpitMu; lia)|]). now apply IH. }
    destruct t as [|t]; cbn in Ht.
    + injection Ht as <-. apply (Hall (frames k)); auto.
    + apply nth_error_In, repeat_spec in Ht. subst th. apply (Hall (rounds r remove_fixed)); auto.
Qed.

(* no dead-lock, for any number of decorators, rounds and frames, in every reachable state *)
Theorem cockpit_fixed_never_stuck n r k ts s : lrun (cockpit_sys true n r k) ts = Some s -> finished s = false ->
  exists t s', lstep s t = Some s'.
Proof.
  intros Hrun Hf. destruct (cockpit_fixed_inv n r k) as [HI HB].
  apply (ordered_never_stuck 3); [eapply inv_run; eauto | eapply bounded_run; eauto | exact Hf].
Qed.
