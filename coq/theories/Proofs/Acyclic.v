(** An accepted pipeline meets the hypotheses of the scheduler theorems (C02, C03): from "no dependency cycle" (what the graph
    builder guarantees, C05) to a rank function on the scheduler configuration, by topological sorting with the verified DFS. *)
From Coq Require Import List Arith Bool Lia.
Import ListNotations.
From TaskctlV Require Import Model.Graph Model.Sched Model.Build Proofs.GraphDfs Proofs.SchedLive Proofs.BuildSpec.

(* position of the last occurrence *)
Fixpoint lastpos (x : nat) (b : list nat) : nat :=
  match b with [] => 0 | _ :: r => if mem x r then S (lastpos x r) else 0 end.

Lemma in_split_last (x : nat) (b : list nat) : In x b -> exists l1 l2, b = l1 ++ x :: l2 /\ ~ In x l2.
Proof.
  induction b as [|y b IH]; intros H; [destruct H|].
  destruct (in_dec Nat.eq_dec x b) as [Hi|Hn].
  - destruct (IH Hi) as (l1 & l2 & -> & Hl). exists (y :: l1), l2. split; [reflexivity|exact Hl].
  - destruct H as [->|H]; [|contradiction]. exists [], b. split; [reflexivity|exact Hn].
Qed.

Lemma lastpos_lt d i l1 l2 : ~ In d l2 -> In i l2 -> lastpos d (l1 ++ d :: l2) < lastpos i (l1 ++ d :: l2).
Proof.
  intros Hd Hi. induction l1 as [|y l1 IH]; cbn [app lastpos].
  - assert (E1: mem d l2 = false) by now apply GraphDfs.mem_false.
    assert (E2: mem i l2 = true) by now apply GraphDfs.mem_In.
    rewrite E1, E2. lia.
  - assert (E1: mem d (l1 ++ d :: l2) = true) by (apply GraphDfs.mem_In, in_or_app; right; now left).
    assert (E2: mem i (l1 ++ d :: l2) = true) by (apply GraphDfs.mem_In, in_or_app; right; now right).
    rewrite E1, E2. lia.
Qed.

Section Topo.
  Variable g : graph.
  Let succ := succs g.

  Fixpoint toposort (fuel : nat) (ns : list nat) (black : list nat) : option (list nat) :=
    match ns with
    | [] => Some black
    | n :: r => match dfs succ fuel n [] black with Ok b' => toposort fuel r b' | _ => None end
    end.

  Lemma toposort_spec (U : list nat) fuel : (forall x y, In x U -> In y (succ x) -> In y U) -> acyclic g -> length U < fuel ->
    forall ns black, incl ns U -> topo succ black ->
    exists b, toposort fuel ns black = Some b /\ topo succ b /\ (forall x, In x ns \/ In x black -> In x b).
  Proof.
    intros Hcl Hac Hf. induction ns as [|n r IH]; intros black Hincl Ht; cbn [toposort].
    - exists black. split; [reflexivity|]. split; [exact Ht|]. intros x [[]|H]; exact H.
    - destruct (dfs succ fuel n [] black) as [|b'|] eqn:Hd.
      + exfalso. apply dfs_sound in Hd. destruct Hd as [(u & [] & _)|(x & _ & Hx)]. exact (Hac x Hx).
      + destruct (dfs_complete succ fuel n [] black b' Hd Ht) as (Ht' & Hn & (l & ->)).
        destruct (IH (l ++ black)) as (b & Hb & Htb & Hall); [intros z Hz; apply Hincl; now right|exact Ht'|].
        exists b. split; [exact Hb|]. split; [exact Htb|].
        intros x [[<-|Hx]|Hx]; apply Hall; [now right | now left | right; apply in_or_app; now right].
      + exfalso. revert Hd. apply (dfs_fuel_enough succ U Hcl); [constructor | intros z [] | apply Hincl; now left | cbn [length]; lia].
  Qed.

  (* an acyclic finite graph has a rank: every edge goes up *)
  Theorem acyclic_has_rank (U : list nat) : (forall x y, In x U -> In y (succ x) -> In y U) -> acyclic g ->
    exists rank : nat -> nat, forall x y, In x U -> In y (succ x) -> rank x < rank y.
  Proof.
    intros Hcl Hac.
    destruct (toposort_spec U (S (length U)) Hcl Hac (Nat.lt_succ_diag_r _) U [] (incl_refl _) (topo_nil succ)) as (b & _ & Htb & Hall).
    exists (fun x => lastpos x b). intros x y Hx Hy.
    destruct (in_split_last x b (Hall x (or_introl Hx))) as (l1 & l2 & Hb & Hl).
    rewrite Hb. apply lastpos_lt; [exact Hl|]. exact (Htb l1 x l2 Hb y Hy).
  Qed.
End Topo.

Lemma index_of_nth n names : In n names -> nth (index_of n names) names 0 = n.
Proof.
  induction names as [|x r IH]; intros H; [destruct H|]. cbn [index_of].
  destruct (Nat.eqb x n) eqn:E; [apply Nat.eqb_eq in E; exact E|].
  destruct H as [H|H]; [subst; rewrite Nat.eqb_refl in E; discriminate|]. cbn [nth]. now apply IH.
Qed.

Lemma in_declared_edges stages s d : In s stages -> In d (sd_deps s) -> In (d, stage_name s) (declared_edges (map decl_of stages)).
Proof.
  intros Hs Hd. unfold declared_edges. apply in_flat_map. exists (decl_of s). split; [now apply in_map|].
  unfold stage_edges, decl_of. cbn [fst snd]. apply in_map_iff. exists d. split; [reflexivity|exact Hd].
Qed.

(* every pipeline of an accepted configuration is an acyclic scheduler configuration without dangling dependencies *)
Theorem accepted_pipeline_acyclic tasks pnames stages : pipeline_wf tasks pnames stages -> acyclic_cfg (to_config stages).
Proof.
  intros (_ & _ & Hk & Hnc).
  set (E := declared_edges (map decl_of stages)). set (names := map stage_name stages).
  assert (Hac: acyclic E) by now apply acyclic_not_cyclic.
  assert (Hcl: forall x y, In x names -> In y (succs E x) -> In y names).
  { intros x y _ Hy. apply succs_In in Hy. unfold E, declared_edges in Hy. apply in_flat_map in Hy. destruct Hy as (dc & Hdc & He).
    apply in_map_iff in Hdc. destruct Hdc as (s & <- & Hs). unfold stage_edges, decl_of in He. cbn [fst snd] in He.
    apply in_map_iff in He. destruct He as (d & Heq & _). injection Heq as _ <-. unfold names. now apply in_map. }
  destruct (acyclic_has_rank E names Hcl Hac) as (rank & Hrank).
  exists (fun i => rank (nth i names 0)). intros i j Hi Hj.
  unfold to_config in Hi, Hj. rewrite map_length in Hi.
  unfold deps_of, stage_of in Hj.
  rewrite (nth_indep _ dflt (mkStage (map (fun d => index_of d (map stage_name stages)) (sd_deps (mkSD 0 0 0 []))) false CNone)) in Hj by now rewrite map_length.
  rewrite (map_nth (fun s => mkStage (map (fun d => index_of d (map stage_name stages)) (sd_deps s)) false CNone)) in Hj.
  cbn [deps] in Hj. apply in_map_iff in Hj. destruct Hj as (d & <- & Hd).
  set (s := nth i stages (mkSD 0 0 0 [])) in *.
  assert (Hs: In s stages) by (apply nth_In; exact Hi).
  assert (Hdn: In d names) by (eapply Hk; eauto).
  fold names. rewrite (index_of_nth d names Hdn).
  assert (Hni: nth i names 0 = stage_name s).
  { unfold names. rewrite (nth_indep _ 0 (stage_name (mkSD 0 0 0 []))) by now rewrite map_length. apply map_nth. }
  rewrite Hni. apply Hrank; [exact Hdn|]. apply succs_In. now apply in_declared_edges.
Qed.
