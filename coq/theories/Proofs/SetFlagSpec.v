From Coq Require Import List Arith Bool Lia.
Import ListNotations.
From TaskctlV Require Import Model.SetFlag.

Lemma split_eq_nonempty s : split_eq s <> [].
Proof.
  induction s as [|c s IH]; cbn [split_eq]; [discriminate|].
  destruct (Nat.eqb c eqc); [discriminate|].
  destruct (split_eq s); discriminate.
Qed.

Lemma join_cons p q ps : join_eq (p :: q :: ps) = p ++ eqc :: join_eq (q :: ps).
Proof. reflexivity. Qed.

Lemma join_split s : join_eq (split_eq s) = s.
Proof.
  induction s as [|c s IH]; [reflexivity|].
  cbn [split_eq]. destruct (Nat.eqb c eqc) eqn:E.
  - apply Nat.eqb_eq in E. subst c.
    destruct (split_eq s) as [|p ps] eqn:S; [exfalso; exact (split_eq_nonempty s S)|].
    rewrite join_cons, IH. reflexivity.
  - destruct (split_eq s) as [|p ps] eqn:S; [exfalso; exact (split_eq_nonempty s S)|].
    destruct ps as [|q ps].
    + cbn in IH |- *. now rewrite IH.
    + rewrite join_cons in IH. rewrite join_cons, <- app_comm_cons. f_equal. exact IH.
Qed.

Lemma split_no_eq k : ~ In eqc k -> split_eq k = [k].
Proof.
  induction k as [|c k IH]; intros H; [reflexivity|].
  cbn [split_eq]. destruct (Nat.eqb c eqc) eqn:E.
  - apply Nat.eqb_eq in E. exfalso. apply H. left. exact E.
  - rewrite IH; [reflexivity|]. intros Hin. apply H. right. exact Hin.
Qed.

Lemma split_app k v : ~ In eqc k -> split_eq (k ++ eqc :: v) = k :: split_eq v.
Proof.
  induction k as [|c k IH]; intros H.
  - cbn [app split_eq]. rewrite Nat.eqb_refl. reflexivity.
  - cbn [app split_eq]. destruct (Nat.eqb c eqc) eqn:E.
    + apply Nat.eqb_eq in E. exfalso. apply H. left. exact E.
    + rewrite IH; [reflexivity|]. intros Hin. apply H. right. exact Hin.
Qed.

(* the name is everything before the FIRST '=', the value everything after it, verbatim ('=' included) *)
Theorem set_flag_spec k v : ~ In eqc k -> set_flag (k ++ eqc :: v) = Some (k, v).
Proof.
  intros H. unfold set_flag. rewrite (split_app k v H).
  destruct (split_eq v) as [|p ps] eqn:S; [exfalso; exact (split_eq_nonempty v S)|].
  rewrite <- S, join_split. reflexivity.
Qed.

Theorem set_flag_none s : ~ In eqc s -> set_flag s = None.
Proof. intros H. unfold set_flag. rewrite (split_no_eq s H). reflexivity. Qed.

Lemma first_piece_no_eq s p ps : split_eq s = p :: ps -> ~ In eqc p.
Proof.
  revert p ps. induction s as [|c s IH]; intros p ps; cbn [split_eq].
  - intros E. injection E as <- _. intros [].
  - destruct (Nat.eqb c eqc) eqn:Ec.
    + intros E. injection E as <- _. intros [].
    + destruct (split_eq s) as [|q qs] eqn:S.
      * intros E. injection E as <- _. intros [Hc|[]]. subst c. now rewrite Nat.eqb_refl in Ec.
      * intros E. injection E as <- _. intros [Hc|Hin].
        -- subst c. now rewrite Nat.eqb_refl in Ec.
        -- exact (IH q qs eq_refl Hin).
Qed.

(* complete characterisation *)
Theorem set_flag_iff s k v : set_flag s = Some (k, v) <-> (s = k ++ eqc :: v /\ ~ In eqc k).
Proof.
  split.
  - unfold set_flag. destruct (split_eq s) as [|p ps] eqn:S; [discriminate|].
    destruct ps as [|q qs]; [discriminate|]. intros E. injection E as <- <-.
    split; [|exact (first_piece_no_eq s p (q :: qs) S)].
    rewrite <- (join_split s), S, join_cons. reflexivity.
  - intros [-> H]. exact (set_flag_spec k v H).
Qed.

Theorem set_flag_two_refuted : exists s, set_flag_two s <> set_flag s.
Proof. exists [97; 61; 98; 61; 99]. vm_compute. discriminate. Qed.

(* the last --set of a name wins; flags without '=' and flags for other names change nothing *)
Lemma vlookup_apply_sets flags : forall m name,
  vlookup name (apply_sets flags m) =
  match vlookup name (apply_sets flags []) with Some v => Some v | None => vlookup name m end.
Proof.
  unfold apply_sets.
  induction flags as [|f flags IH]; intros m name; [reflexivity|].
  cbn [fold_left]. destruct (set_flag f) as [[k v]|] eqn:E.
  - rewrite (IH ((k, v) :: m)). rewrite (IH [(k, v)]).
    destruct (vlookup name (fold_left _ flags [])) as [x|]; [reflexivity|].
    cbn [vlookup]. destruct (lbeq k name); reflexivity.
  - apply IH.
Qed.

Theorem last_set_wins flags k v m : ~ In eqc k ->
  vlookup k (apply_sets (flags ++ [k ++ eqc :: v]) m) = Some v.
Proof.
  intros H. unfold apply_sets. rewrite fold_left_app. cbn [fold_left].
  rewrite (set_flag_spec k v H). cbn [vlookup]. unfold lbeq.
  destruct (list_eq_dec Nat.eq_dec k k) as [_|N]; [reflexivity|contradiction].
Qed.
