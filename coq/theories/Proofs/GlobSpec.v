(** The executable matcher decides the relational glob semantics; selection and event laws (C20). *)
From Coq Require Import List Arith Bool Lia.
Import ListNotations.
From TaskctlV Require Import Model.Glob.

Lemma seg_match_star p : forall s, seg_match (PStar :: p) s = seg_match p s || match s with [] => false | _ :: s' => seg_match (PStar :: p) s' end.
Proof. intros s. destruct s; reflexivity. Qed.

Lemma seg_match_sound p : forall s, seg_match p s = true -> SegM p s.
Proof.
  induction p as [|c p IH]; intros s H.
  - destruct s; [constructor|discriminate].
  - destruct c as [c| |].
    + destruct s as [|x s]; [discriminate|]. cbn in H. apply andb_true_iff in H. destruct H as [H1 H2].
      apply Nat.eqb_eq in H1. subst. constructor. now apply IH.
    + induction s as [|x s IHs].
      * rewrite seg_match_star in H. rewrite orb_false_r in H. apply (SM_star p [] []). now apply IH.
      * rewrite seg_match_star in H. apply orb_true_iff in H. destruct H as [H|H].
        -- apply (SM_star p [] (x :: s)). now apply IH.
        -- specialize (IHs H). inversion IHs as [| | |p0 s1 s2 Hm]. subst.
           change (x :: s1 ++ s2) with ((x :: s1) ++ s2). now constructor.
    + destruct s as [|x s]; [discriminate|]. cbn in H. constructor. now apply IH.
Qed.

Lemma seg_match_complete p s : SegM p s -> seg_match p s = true.
Proof.
  induction 1 as [|c p s _ IH|p x s _ IH|p s1 s2 _ IH].
  - reflexivity.
  - cbn [seg_match]. now rewrite Nat.eqb_refl, IH.
  - cbn [seg_match]. exact IH.
  - induction s1 as [|x s1 IHs]; [cbn [app]; rewrite seg_match_star, IH; reflexivity|].
    cbn [app]. rewrite seg_match_star, IHs. apply orb_true_r.
Qed.

Lemma gmatch_double p : p <> [] -> forall x, gmatch (PDouble :: p) x = gmatch p x || match x with [] => false | _ :: x' => gmatch (PDouble :: p) x' end.
Proof. intros Hp x. destruct p as [|q p]; [contradiction|]. destruct x; reflexivity. Qed.
Lemma gmatch_double_last x : gmatch [PDouble] x = match x with [] => false | _ => true end.
Proof. reflexivity. Qed.

Lemma gmatch_sound p : forall x, gmatch p x = true -> Matches p x.
Proof.
  induction p as [|q p IH]; intros x H.
  - destruct x; [constructor|discriminate].
  - destruct q as [q|].
    + destruct x as [|s x]; [discriminate|]. cbn in H. apply andb_true_iff in H. destruct H as [H1 H2].
      constructor; [now apply seg_match_sound|now apply IH].
    + destruct p as [|q' p'].
      * rewrite gmatch_double_last in H. apply M_double_last. destruct x; [discriminate|discriminate].
      * assert (Hne: q' :: p' <> []) by discriminate.
        induction x as [|s x IHx].
        -- rewrite (gmatch_double _ Hne), orb_false_r in H. apply (M_double _ [] [] Hne). now apply IH.
        -- rewrite (gmatch_double _ Hne) in H. apply orb_true_iff in H. destruct H as [H|H].
           ++ apply (M_double _ [] (s :: x) Hne). now apply IH.
           ++ specialize (IHx H). inversion IHx as [| | |p0 x1 x2 Hn Hm]. subst.
              change (s :: x1 ++ x2) with ((s :: x1) ++ x2). now constructor.
Qed.

Lemma gmatch_complete p x : Matches p x -> gmatch p x = true.
Proof.
  induction 1 as [|q p s x Hs _ IH|x Hx|p x1 x2 Hne _ IH].
  - reflexivity.
  - cbn [gmatch]. now rewrite (seg_match_complete _ _ Hs), IH.
  - rewrite gmatch_double_last. destruct x; [contradiction|reflexivity].
  - induction x1 as [|s x1 IHx]; [cbn [app]; rewrite (gmatch_double _ Hne), IH; reflexivity|].
    cbn [app]. rewrite (gmatch_double _ Hne), IHx. apply orb_true_r.
Qed.

Theorem gmatch_correct p x : gmatch p x = true <-> Matches p x.
Proof. split; [apply gmatch_sound|apply gmatch_complete]. Qed.

Theorem selection_exact tree inc exc x :
  In x (select tree inc exc) <-> In x tree /\ (exists p, In p inc /\ Matches p x) /\ (forall q, In q exc -> ~ Matches q x).
Proof.
  unfold select, selected. rewrite filter_In, andb_true_iff, negb_true_iff, existsb_exists. split.
  - intros (Ht & (p & Hp & Hm) & Hn). split; [exact Ht|]. split; [exists p; split; [exact Hp|now apply gmatch_correct]|].
    intros q Hq Hmq. assert (Hc: existsb (fun q => gmatch q x) exc = true) by (apply existsb_exists; exists q; split; [exact Hq|now apply gmatch_correct]).
    congruence.
  - intros (Ht & (p & Hp & Hm) & Hn). split; [exact Ht|]. split; [exists p; split; [exact Hp|now apply gmatch_correct]|].
    destruct (existsb (fun q => gmatch q x) exc) eqn:E; [|reflexivity].
    apply existsb_exists in E. destruct E as (q & Hq & Hmq). exfalso. apply (Hn q Hq). now apply gmatch_correct.
Qed.

(* events *)
Theorem default_events_all k : In k all_kinds -> subscribed [] k = true.
Proof. intros H. unfold subscribed. apply existsb_exists. exists k. split; [exact H|apply Nat.eqb_refl]. Qed.

Theorem serve_law events evs :
  serve false events evs = RInit :: map (fun e => REvent (ev_kind e) (ev_path e)) (filter (fun e => subscribed events (ev_kind e)) evs).
Proof. reflexivity. Qed.

(* iff subscribed, with the event's name and path, and it keeps serving: the law holds for histories of any length, event by event *)
Theorem serve_app events evs1 evs2 :
  serve false events (evs1 ++ evs2) = serve false events evs1 ++ tl (serve false events evs2).
Proof. unfold serve. cbn [tl]. now rewrite filter_app, map_app. Qed.
Theorem serve_one events e : tl (serve false events [e]) = if subscribed events (ev_kind e) then [REvent (ev_kind e) (ev_path e)] else [].
Proof. unfold serve. cbn. destruct (subscribed events (ev_kind e)); reflexivity. Qed.
