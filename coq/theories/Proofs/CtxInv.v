(** Invariants of the context-hook LTS (C14). *)
From Coq Require Import List Arith Bool Lia.
Import ListNotations.
From TaskctlV Require Import Model.Ctx.

Lemma updf_same {A} (f : nat -> A) i x : updf f i x i = x.
Proof. unfold updf. rewrite Nat.eqb_refl. reflexivity. Qed.
Lemma updf_other {A} (f : nat -> A) i x j : j <> i -> updf f i x j = f j.
Proof. unfold updf. intros H. apply Nat.eqb_neq in H. rewrite H. reflexivity. Qed.

Ltac updh :=
  repeat match goal with
  | H : context [updf _ ?i _ ?j] |- _ =>
      destruct (Nat.eq_dec j i) as [->|?]; [rewrite updf_same in H | rewrite updf_other in H by assumption]
  end.
Ltac updg :=
  repeat match goal with
  | |- context [updf _ ?i _ ?j] =>
      destruct (Nat.eq_dec j i) as [->|?]; [rewrite updf_same | rewrite updf_other by assumption]
  end.
Ltac updc :=
  repeat match goal with
  | H : context [updf _ ?i _ ?j] |- _ =>
      destruct (Nat.eq_dec j i) as [->|?]; [rewrite updf_same in H | rewrite updf_other in H by assumption]
  | |- context [updf _ ?i _ ?j] =>
      destruct (Nat.eq_dec j i) as [->|?]; [rewrite updf_same | rewrite updf_other by assumption]
  end.

Definition up_done (u : upstate) : Prop := u = UOk \/ u = UErr.

(* relational reading of cstep *)
Inductive CStep (g : ccfg) (s : cstate) (r : nat) : cstate -> Prop :=
| A0a : r < nruns g -> finished s = false -> pc s r = 0 -> up s (ctx_of g r) = UNot ->
    CStep g s r (mkCS (updf (up s) (ctx_of g r) (UBusy r)) (updf (pc s) r 1) (rerr s) (UpB (ctx_of g r) :: ctrace s) false (downed s))
| A0b : r < nruns g -> finished s = false -> pc s r = 0 -> up_done (up s (ctx_of g r)) ->
    CStep g s r (mkCS (up s) (updf (pc s) r 2) (rerr s) (ctrace s) false (downed s))
| A1 : r < nruns g -> finished s = false -> pc s r = 1 ->
    CStep g s r (mkCS (updf (up s) (ctx_of g r) (if up_ok g (ctx_of g r) then UOk else UErr)) (updf (pc s) r 2) (rerr s) (UpE (ctx_of g r) :: ctrace s) false (downed s))
| A2a : r < nruns g -> finished s = false -> pc s r = 2 -> up s (ctx_of g r) = UErr ->
    CStep g s r (mkCS (up s) (updf (pc s) r 6) (updf (rerr s) r true) (ctrace s) false (downed s))
| A2b : r < nruns g -> finished s = false -> pc s r = 2 -> up s (ctx_of g r) <> UErr ->
    CStep g s r (mkCS (up s) (updf (pc s) r 3) (rerr s) (ctrace s) false (downed s))
| A3a : r < nruns g -> finished s = false -> pc s r = 3 -> cbef_ok g r = true ->
    CStep g s r (mkCS (up s) (updf (pc s) r 4) (rerr s) (CBef r :: ctrace s) false (downed s))
| A3b : r < nruns g -> finished s = false -> pc s r = 3 -> cbef_ok g r = false ->
    CStep g s r (mkCS (up s) (updf (pc s) r 6) (updf (rerr s) r true) (CBef r :: ctrace s) false (downed s))
| A4 : r < nruns g -> finished s = false -> pc s r = 4 ->
    CStep g s r (mkCS (up s) (updf (pc s) r 5) (updf (rerr s) r (negb (body_ok g r))) (Body r :: ctrace s) false (downed s))
| A5 : r < nruns g -> finished s = false -> pc s r = 5 ->
    CStep g s r (mkCS (up s) (updf (pc s) r 6) (rerr s) (CAft r :: ctrace s) false (downed s)).

Lemma cstep_CStep g s r s' : cstep g s r = Some s' -> CStep g s r s'.
Proof.
  unfold cstep. destruct (negb (r <? nruns g)) eqn:Hr; [discriminate|].
  apply negb_false_iff, Nat.ltb_lt in Hr.
  destruct (finished s) eqn:Hf; [discriminate|].
  destruct (pc s r) as [|[|[|[|[|[|n]]]]]] eqn:Hpc.
  - destruct (up s (ctx_of g r)) eqn:Hu; try discriminate; intros H; injection H as <-.
    + apply A0a; assumption.
    + apply A0b; try assumption. left; assumption.
    + apply A0b; try assumption. right; assumption.
  - intros H; injection H as <-. apply A1; assumption.
  - destruct (up s (ctx_of g r)) eqn:Hu; intros H; injection H as <-;
      try (apply A2b; try assumption; congruence). apply A2a; assumption.
  - destruct (cbef_ok g r) eqn:Hc; intros H; injection H as <-; [apply A3a | apply A3b]; assumption.
  - intros H; injection H as <-. apply A4; assumption.
  - intros H; injection H as <-. apply A5; assumption.
  - discriminate.
Qed.

(* ---- invariant, part 1: the Once ---- *)
Record inv_up (g : ccfg) (s : cstate) : Prop := {
  iu_upb  : forall c, In (UpB c) (ctrace s) <-> up s c <> UNot;
  iu_upe  : forall c, In (UpE c) (ctrace s) <-> up_done (up s c);
  iu_pc1  : forall r, pc s r = 1 -> up s (ctx_of g r) = UBusy r;
  iu_busy : forall c o, up s c = UBusy o -> pc s o = 1 /\ ctx_of g o = c;
  iu_past : forall r, 2 <= pc s r -> up_done (up s (ctx_of g r));
  iu_mid  : forall r, 3 <= pc s r -> pc s r <= 5 -> up s (ctx_of g r) = UOk;
  iu_res  : forall c, (up s c = UOk -> up_ok g c = true) /\ (up s c = UErr -> up_ok g c = false);
  iu_arr  : forall r, 1 <= pc s r -> up s (ctx_of g r) <> UNot;
  iu_le   : forall r, pc s r <= 6
}.

Lemma inv_up_init g : inv_up g cinit.
Proof.
  constructor; cbn; intros; try lia; try discriminate.
  - split; [intros [] | intros H; contradiction].
  - split; [intros [] | intros [H|H]; discriminate].
  - split; discriminate.
Qed.

Lemma in_cons_iff {A} (x y : A) l : In x (y :: l) <-> y = x \/ In x l.
Proof. reflexivity. Qed.

(* the ctrace part of a step that does not touch [up]: membership of UpB/UpE is unchanged *)
Lemma in_other_tok (t x : ctok) l : t <> x -> (In x (t :: l) <-> In x l).
Proof. intros H. split; [intros [E|E]; [contradiction | assumption] | intros E; right; assumption]. Qed.

(* steps at pc 3..5: the Once is untouched, r moves on to k and emits a run token *)
Lemma tok_step g s r k re t : inv_up g s -> 3 <= pc s r -> pc s r <= 5 -> 4 <= k -> k <= 6 ->
  (forall c, t <> UpB c) -> (forall c, t <> UpE c) ->
  inv_up g (mkCS (up s) (updf (pc s) r k) re (t :: ctrace s) false (downed s)).
Proof.
  intros I H3 H5 Hk4 Hk6 Hnb Hne.
  assert (Hok : up s (ctx_of g r) = UOk) by (apply (iu_mid _ _ I); assumption).
  constructor; cbn [up pc ctrace].
  - intros c. rewrite (in_other_tok t (UpB c)) by apply Hnb. apply (iu_upb _ _ I).
  - intros c. rewrite (in_other_tok t (UpE c)) by apply Hne. apply (iu_upe _ _ I).
  - intros q Hq. unfold updf in *. destruct (Nat.eqb_spec q r) as [Eq|Hq']; [subst q|]; [lia | apply (iu_pc1 _ _ I); assumption].
  - intros c o Hb. destruct (iu_busy _ _ I c o Hb) as (H1 & H2). unfold updf. destruct (Nat.eqb_spec o r) as [Eo|Ho]; [subst o|]; [lia | split; assumption].
  - intros q Hq. unfold updf in *. destruct (Nat.eqb_spec q r) as [Eq|Hq']; [subst q|]; [left; assumption | apply (iu_past _ _ I); assumption].
  - intros q H1 H2. unfold updf in *. destruct (Nat.eqb_spec q r) as [Eq|Hq']; [subst q|]; [assumption | apply (iu_mid _ _ I); assumption].
  - apply (iu_res _ _ I).
  - intros q Hq. unfold updf in *. destruct (Nat.eqb_spec q r) as [Eq|Hq']; [subst q|]; [congruence | apply (iu_arr _ _ I); assumption].
  - intros q. unfold updf. destruct (Nat.eqb q r); [assumption | apply (iu_le _ _ I)].
Qed.

Lemma inv_up_step g s r s' : inv_up g s -> CStep g s r s' -> inv_up g s'.
Proof.
  intros I H.
  assert (Hpcs : forall k, k <= 6 -> forall q, updf (pc s) r k q <= 6).
  { intros k Hk q. unfold updf. destruct (Nat.eqb q r); [assumption | apply (iu_le _ _ I)]. }
  destruct H as [Hr Hf Hpc Hu | Hr Hf Hpc Hu | Hr Hf Hpc | Hr Hf Hpc Hu | Hr Hf Hpc Hu | Hr Hf Hpc Hc | Hr Hf Hpc Hc | Hr Hf Hpc | Hr Hf Hpc].
  - (* A0a: r becomes the owner of the Once *)
    remember (ctx_of g r) as c0 eqn:Ec0.
    constructor; cbn [up pc ctrace].
    + intros c. rewrite in_cons_iff, (iu_upb _ _ I c). unfold updf. destruct (Nat.eqb_spec c c0) as [Ec|Hc]; [subst c|].
      * split; [intros _; discriminate | intros _; left; reflexivity].
      * split; [intros [H|H]; [congruence | assumption] | intros H; right; assumption].
    + intros c. rewrite in_cons_iff, (iu_upe _ _ I c). unfold updf. destruct (Nat.eqb_spec c c0) as [Ec|Hc]; [subst c|].
      * split; [intros [H|[H|H]]; congruence | intros [H|H]; discriminate].
      * split; [intros [H|H]; [discriminate | assumption] | intros H; right; assumption].
    + intros q Hq. unfold updf in *. destruct (Nat.eqb_spec q r) as [Eq|Hq']; [subst q|].
      * rewrite <- Ec0, Nat.eqb_refl. reflexivity.
      * pose proof (iu_pc1 _ _ I q Hq) as Hb. destruct (Nat.eqb_spec (ctx_of g q) c0) as [E|E]; [rewrite E in Hb; congruence | assumption].
    + intros c o Hb. unfold updf in *. destruct (Nat.eqb_spec c c0) as [Ec|Hc]; [subst c|].
      * injection Hb as <-. rewrite Nat.eqb_refl. split; [reflexivity | congruence].
      * destruct (iu_busy _ _ I c o Hb) as (H1 & H2). destruct (Nat.eqb_spec o r) as [Eo|Ho]; [subst o|]; [congruence | split; assumption].
    + intros q Hq. unfold updf in *. destruct (Nat.eqb_spec q r) as [Eq|Hq']; [subst q|]; [lia|].
      pose proof (iu_past _ _ I q Hq) as Hd. destruct (Nat.eqb_spec (ctx_of g q) c0) as [E|E]; [rewrite E in Hd; destruct Hd; congruence | assumption].
    + intros q H1 H2. unfold updf in *. destruct (Nat.eqb_spec q r) as [Eq|Hq']; [subst q|]; [lia|].
      pose proof (iu_mid _ _ I q H1 H2) as Hd. destruct (Nat.eqb_spec (ctx_of g q) c0) as [E|E]; [rewrite E in Hd; congruence | assumption].
    + intros c. unfold updf. destruct (Nat.eqb_spec c c0) as [Ec|Hc]; [subst c|]; [split; discriminate | apply (iu_res _ _ I)].
    + intros q Hq. unfold updf in *. destruct (Nat.eqb_spec (ctx_of g q) c0) as [E|E]; [discriminate|].
      destruct (Nat.eqb_spec q r) as [Eq|Hq']; [subst q|]; [congruence | apply (iu_arr _ _ I); assumption].
    + apply Hpcs. lia.
  - (* A0b *)
    constructor; cbn [up pc ctrace]; try apply I.
    + intros q Hq. unfold updf in *. destruct (Nat.eqb_spec q r) as [Eq|Hq']; [subst q|]; [lia | apply (iu_pc1 _ _ I); assumption].
    + intros c o Hb. destruct (iu_busy _ _ I c o Hb) as (H1 & H2). unfold updf. destruct (Nat.eqb_spec o r) as [Eo|Ho]; [subst o|]; [congruence | split; assumption].
    + intros q Hq. unfold updf in *. destruct (Nat.eqb_spec q r) as [Eq|Hq']; [subst q|]; [assumption | apply (iu_past _ _ I); assumption].
    + intros q H1 H2. unfold updf in *. destruct (Nat.eqb_spec q r) as [Eq|Hq']; [subst q|]; [lia | apply (iu_mid _ _ I); assumption].
    + intros q Hq. unfold updf in *. destruct (Nat.eqb_spec q r) as [Eq|Hq']; [subst q|]; [destruct Hu; congruence | apply (iu_arr _ _ I); assumption].
    + apply Hpcs. lia.
  - (* A1: the owner finishes up *)
    pose proof (iu_pc1 _ _ I r Hpc) as Hb.
    remember (ctx_of g r) as c0 eqn:Ec0.
    assert (Hnew : up_done (if up_ok g c0 then UOk else UErr)) by (destruct (up_ok g c0); [left | right]; reflexivity).
    constructor; cbn [up pc ctrace].
    + intros c. rewrite in_cons_iff, (iu_upb _ _ I c). unfold updf. destruct (Nat.eqb_spec c c0) as [Ec|Hc]; [subst c|].
      * split; [intros _; destruct Hnew; congruence | intros _; right; congruence].
      * split; [intros [H|H]; [discriminate | assumption] | intros H; right; assumption].
    + intros c. rewrite in_cons_iff, (iu_upe _ _ I c). unfold updf. destruct (Nat.eqb_spec c c0) as [Ec|Hc]; [subst c|].
      * split; [intros _; assumption | intros _; left; reflexivity].
      * split; [intros [H|H]; [congruence | assumption] | intros H; right; assumption].
    + intros q Hq. unfold updf in *. destruct (Nat.eqb_spec q r) as [Eq|Hq']; [subst q|]; [lia|].
      pose proof (iu_pc1 _ _ I q Hq) as Hq2. destruct (Nat.eqb_spec (ctx_of g q) c0) as [E|E]; [rewrite E in Hq2; congruence | assumption].
    + intros c o Hb'. unfold updf in *. destruct (Nat.eqb_spec c c0) as [Ec|Hc]; [subst c|]; [destruct Hnew; congruence|].
      destruct (iu_busy _ _ I c o Hb') as (H1 & H2). destruct (Nat.eqb_spec o r) as [Eo|Ho]; [subst o|]; [congruence | split; assumption].
    + intros q Hq. unfold updf in *. destruct (Nat.eqb_spec (ctx_of g q) c0) as [E|E]; [assumption|].
      destruct (Nat.eqb_spec q r) as [Eq|Hq']; [subst q|]; [congruence | apply (iu_past _ _ I); assumption].
    + intros q H1 H2. unfold updf in *. destruct (Nat.eqb_spec q r) as [Eq|Hq']; [subst q|]; [lia|].
      pose proof (iu_mid _ _ I q H1 H2) as Hd. destruct (Nat.eqb_spec (ctx_of g q) c0) as [E|E]; [rewrite E in Hd; congruence | assumption].
    + intros c. unfold updf. destruct (Nat.eqb_spec c c0) as [Ec|Hc]; [subst c|]; [destruct (up_ok g c0) eqn:E; split; congruence | apply (iu_res _ _ I)].
    + intros q Hq. unfold updf in *. destruct (Nat.eqb_spec (ctx_of g q) c0) as [E|E]; [destruct Hnew; congruence|].
      destruct (Nat.eqb_spec q r) as [Eq|Hq']; [subst q|]; [congruence | apply (iu_arr _ _ I); assumption].
    + apply Hpcs. lia.
  - (* A2a *)
    constructor; cbn [up pc ctrace]; try apply I.
    + intros q Hq. unfold updf in *. destruct (Nat.eqb_spec q r) as [Eq|Hq']; [subst q|]; [lia | apply (iu_pc1 _ _ I); assumption].
    + intros c o Hb. destruct (iu_busy _ _ I c o Hb) as (H1 & H2). unfold updf. destruct (Nat.eqb_spec o r) as [Eo|Ho]; [subst o|]; [congruence | split; assumption].
    + intros q Hq. unfold updf in *. destruct (Nat.eqb_spec q r) as [Eq|Hq']; [subst q|]; [right; assumption | apply (iu_past _ _ I); assumption].
    + intros q H1 H2. unfold updf in *. destruct (Nat.eqb_spec q r) as [Eq|Hq']; [subst q|]; [lia | apply (iu_mid _ _ I); assumption].
    + intros q Hq. unfold updf in *. destruct (Nat.eqb_spec q r) as [Eq|Hq']; [subst q|]; [congruence | apply (iu_arr _ _ I); assumption].
    + apply Hpcs. lia.
  - (* A2b *)
    assert (Hd : up_done (up s (ctx_of g r))) by (apply (iu_past _ _ I); lia).
    constructor; cbn [up pc ctrace]; try apply I.
    + intros q Hq. unfold updf in *. destruct (Nat.eqb_spec q r) as [Eq|Hq']; [subst q|]; [lia | apply (iu_pc1 _ _ I); assumption].
    + intros c o Hb. destruct (iu_busy _ _ I c o Hb) as (H1 & H2). unfold updf. destruct (Nat.eqb_spec o r) as [Eo|Ho]; [subst o|]; [congruence | split; assumption].
    + intros q Hq. unfold updf in *. destruct (Nat.eqb_spec q r) as [Eq|Hq']; [subst q|]; [assumption | apply (iu_past _ _ I); assumption].
    + intros q H1 H2. unfold updf in *. destruct (Nat.eqb_spec q r) as [Eq|Hq']; [subst q|]; [destruct Hd; [assumption | contradiction] | apply (iu_mid _ _ I); assumption].
    + intros q Hq. unfold updf in *. destruct (Nat.eqb_spec q r) as [Eq|Hq']; [subst q|]; [destruct Hd; congruence | apply (iu_arr _ _ I); assumption].
    + apply Hpcs. lia.
  - (* A3a *) apply (tok_step g s r 4 (rerr s) (CBef r)); try assumption; try lia; try discriminate.
  - (* A3b *) apply (tok_step g s r 6 (updf (rerr s) r true) (CBef r)); try assumption; try lia; try discriminate.
  - (* A4 *) apply (tok_step g s r 5 (updf (rerr s) r (negb (body_ok g r))) (Body r)); try assumption; try lia; try discriminate.
  - (* A5 *) apply (tok_step g s r 6 (rerr s) (CAft r)); try assumption; try lia; try discriminate.
Qed.

(* ---- invariant, part 2: the tokens of the runs ---- *)
Definition run_tok (t : ctok) (r : nat) : Prop := t = CBef r \/ t = Body r \/ t = CAft r.

Definition ordered (g : ccfg) (tr : list ctok) : Prop :=
  forall l2 t l1, tr = l2 ++ t :: l1 ->
    (forall r, run_tok t r -> In (UpE (ctx_of g r)) l1)
    /\ (forall r, t = Body r -> In (CBef r) l1) /\ (forall r, t = CAft r -> In (Body r) l1).

Record inv_run (g : ccfg) (s : cstate) : Prop := {
  ir_cbef  : forall r, In (CBef r) (ctrace s) -> 4 <= pc s r;
  ir_body  : forall r, In (Body r) (ctrace s) -> 5 <= pc s r;
  ir_caft  : forall r, In (CAft r) (ctrace s) -> pc s r = 6;
  ir_pc4   : forall r, 4 <= pc s r -> pc s r <= 5 -> In (CBef r) (ctrace s);
  ir_pc5   : forall r, pc s r = 5 -> In (Body r) (ctrace s) /\ rerr s r = negb (body_ok g r);
  ir_ret   : forall r, pc s r = 6 -> In (Body r) (ctrace s) -> In (CAft r) (ctrace s) /\ rerr s r = negb (body_ok g r);
  ir_order : ordered g (ctrace s);
  ir_nodup : NoDup (ctrace s);
  ir_uperr : forall r, up s (ctx_of g r) = UErr -> ~ In (CBef r) (ctrace s) /\ ~ In (Body r) (ctrace s) /\ (pc s r = 6 -> rerr s r = true);
  ir_nodown : forall c, ~ In (Down c) (ctrace s)
}.

Lemma inv_run_init g : inv_run g cinit.
Proof.
  constructor; cbn; try (intros; contradiction); try (intros; lia); try (intros; discriminate).
  all: try (intros l2 t l1 H; destruct l2; discriminate).
  all: try (constructor; fail).
  all: try (intros r _; repeat split; auto; discriminate).
  all: try (intros c H; assumption).
Qed.

Lemma ordered_cons g t tr :
  ordered g tr ->
  (forall r, run_tok t r -> In (UpE (ctx_of g r)) tr) ->
  (forall r, t = Body r -> In (CBef r) tr) -> (forall r, t = CAft r -> In (Body r) tr) ->
  ordered g (t :: tr).
Proof.
  intros Ho H1 H2 H3 l2 t' l1 E. destruct l2 as [|x l2]; cbn in E; injection E as E1 E2.
  - subst. repeat split; assumption.
  - subst x. apply (Ho l2 t' l1). assumption.
Qed.

Lemma ordered_cons_other g t tr : ordered g tr -> (forall r, ~ run_tok t r) -> ordered g (t :: tr).
Proof.
  intros Ho Hn. apply ordered_cons; [assumption | | |].
  - intros r H. exfalso. apply (Hn r). assumption.
  - intros r H. exfalso. apply (Hn r). right. left. assumption.
  - intros r H. exfalso. apply (Hn r). right. right. assumption.
Qed.

Lemma pc5_keep g s r k (re : nat -> bool) (tr' : list ctok) :
  k <> 5 -> (forall q, q <> r -> re q = rerr s q) -> (forall t, In t (ctrace s) -> In t tr') ->
  (forall q, pc s q = 5 -> In (Body q) (ctrace s) /\ rerr s q = negb (body_ok g q)) ->
  forall q, updf (pc s) r k q = 5 -> In (Body q) tr' /\ re q = negb (body_ok g q).
Proof.
  intros Hk Hre Hin H q Hq. unfold updf in Hq. destruct (Nat.eqb_spec q r) as [E|E]; [congruence|].
  destruct (H q Hq) as (X & Y). split; [apply Hin; assumption | rewrite Hre by assumption; assumption].
Qed.

Lemma updf_ne {A} (f : nat -> A) r x q : q <> r -> updf f r x q = f q.
Proof. apply updf_other. Qed.

Lemma inv_run_step g s r s' : inv_up g s -> inv_run g s -> CStep g s r s' -> inv_run g s'.
Proof.
  intros U I H.
  destruct H as [Hr Hf Hpc Hu | Hr Hf Hpc Hu | Hr Hf Hpc | Hr Hf Hpc Hu | Hr Hf Hpc Hu | Hr Hf Hpc Hc | Hr Hf Hpc Hc | Hr Hf Hpc | Hr Hf Hpc].
  - (* A0a: UpB *)
    constructor; cbn [up pc ctrace rerr].
    + intros q [H|H]; [discriminate|]. pose proof (ir_cbef _ _ I q H). unfold updf. destruct (Nat.eqb_spec q r) as [E|E]; [subst q; lia | assumption].
    + intros q [H|H]; [discriminate|]. pose proof (ir_body _ _ I q H). unfold updf. destruct (Nat.eqb_spec q r) as [E|E]; [subst q; lia | assumption].
    + intros q [H|H]; [discriminate|]. pose proof (ir_caft _ _ I q H). unfold updf. destruct (Nat.eqb_spec q r) as [E|E]; [subst q; lia | assumption].
    + intros q H1 H2. unfold updf in *. destruct (Nat.eqb_spec q r) as [E|E]; [lia | right; apply (ir_pc4 _ _ I); assumption].
    + apply (pc5_keep g s r); [lia | intros q Hq; try reflexivity; try (apply updf_ne; assumption) | intros t Ht; right; assumption | apply (ir_pc5 _ _ I)].
    + intros q H1 [H2|H2]; [discriminate|]. unfold updf in *. destruct (Nat.eqb_spec q r) as [E|E]; [lia|].
      destruct (ir_ret _ _ I q H1 H2). split; [right; assumption | assumption].
    + apply ordered_cons_other; [apply (ir_order _ _ I) | intros q [H|[H|H]]; discriminate].
    + constructor; [|apply (ir_nodup _ _ I)]. intros Hin. apply (iu_upb _ _ U) in Hin. contradiction.
    + intros q Hq. unfold updf in Hq. destruct (Nat.eqb_spec (ctx_of g q) (ctx_of g r)) as [E|E]; [discriminate|].
      destruct (ir_uperr _ _ I q Hq) as (A & B & C). split; [intros [H|H]; [discriminate | contradiction]|]. split; [intros [H|H]; [discriminate | contradiction]|].
      unfold updf. destruct (Nat.eqb_spec q r) as [E'|E']; [lia | assumption].
    + intros c [H|H]; [discriminate | apply (ir_nodown _ _ I c H)].
  - (* A0b *)
    constructor; cbn [up pc ctrace rerr]; try apply I.
    + intros q H. pose proof (ir_cbef _ _ I q H). unfold updf. destruct (Nat.eqb_spec q r) as [E|E]; [subst q; lia | assumption].
    + intros q H. pose proof (ir_body _ _ I q H). unfold updf. destruct (Nat.eqb_spec q r) as [E|E]; [subst q; lia | assumption].
    + intros q H. pose proof (ir_caft _ _ I q H). unfold updf. destruct (Nat.eqb_spec q r) as [E|E]; [subst q; lia | assumption].
    + intros q H1 H2. unfold updf in *. destruct (Nat.eqb_spec q r) as [E|E]; [lia | apply (ir_pc4 _ _ I); assumption].
    + apply (pc5_keep g s r); [lia | intros q Hq; try reflexivity; try (apply updf_ne; assumption) | intros t Ht; assumption | apply (ir_pc5 _ _ I)].
    + intros q H1 H2. unfold updf in *. destruct (Nat.eqb_spec q r) as [E|E]; [lia | apply (ir_ret _ _ I); assumption].
    + intros q Hq. destruct (ir_uperr _ _ I q Hq) as (A & B & C). split; [assumption|]. split; [assumption|].
      unfold updf. destruct (Nat.eqb_spec q r) as [E'|E']; [lia | assumption].
  - (* A1: UpE *)
    pose proof (iu_pc1 _ _ U r Hpc) as Hb.
    constructor; cbn [up pc ctrace rerr].
    + intros q [H|H]; [discriminate|]. pose proof (ir_cbef _ _ I q H). unfold updf. destruct (Nat.eqb_spec q r) as [E|E]; [subst q; lia | assumption].
    + intros q [H|H]; [discriminate|]. pose proof (ir_body _ _ I q H). unfold updf. destruct (Nat.eqb_spec q r) as [E|E]; [subst q; lia | assumption].
    + intros q [H|H]; [discriminate|]. pose proof (ir_caft _ _ I q H). unfold updf. destruct (Nat.eqb_spec q r) as [E|E]; [subst q; lia | assumption].
    + intros q H1 H2. unfold updf in *. destruct (Nat.eqb_spec q r) as [E|E]; [lia | right; apply (ir_pc4 _ _ I); assumption].
    + apply (pc5_keep g s r); [lia | intros q Hq; try reflexivity; try (apply updf_ne; assumption) | intros t Ht; right; assumption | apply (ir_pc5 _ _ I)].
    + intros q H1 [H2|H2]; [discriminate|]. unfold updf in *. destruct (Nat.eqb_spec q r) as [E|E]; [lia|].
      destruct (ir_ret _ _ I q H1 H2). split; [right; assumption | assumption].
    + apply ordered_cons_other; [apply (ir_order _ _ I) | intros q [H|[H|H]]; discriminate].
    + constructor; [|apply (ir_nodup _ _ I)]. intros Hin. apply (iu_upe _ _ U) in Hin. destruct Hin; congruence.
    + intros q Hq. unfold updf in Hq. destruct (Nat.eqb_spec (ctx_of g q) (ctx_of g r)) as [E|E].
      * (* q's context is the one whose up just failed: q cannot have got past the Once *)
        assert (Hq2 : pc s q < 2).
        { destruct (le_lt_dec 2 (pc s q)) as [Hge|Hlt]; [|assumption]. pose proof (iu_past _ _ U q Hge) as Hd. rewrite E in Hd. destruct Hd; congruence. }
        split; [intros [H|H]; [discriminate | apply (ir_cbef _ _ I) in H; lia]|].
        split; [intros [H|H]; [discriminate | apply (ir_body _ _ I) in H; lia]|].
        unfold updf. destruct (Nat.eqb_spec q r) as [E'|E']; lia.
      * destruct (ir_uperr _ _ I q Hq) as (A & B & C). split; [intros [H|H]; [discriminate | contradiction]|]. split; [intros [H|H]; [discriminate | contradiction]|].
        unfold updf. destruct (Nat.eqb_spec q r) as [E'|E']; [lia | assumption].
    + intros c [H|H]; [discriminate | apply (ir_nodown _ _ I c H)].
  - (* A2a: startup error: return it *)
    constructor; cbn [up pc ctrace rerr]; try apply I.
    + intros q H. pose proof (ir_cbef _ _ I q H). unfold updf. destruct (Nat.eqb_spec q r) as [E|E]; [subst q; lia | assumption].
    + intros q H. pose proof (ir_body _ _ I q H). unfold updf. destruct (Nat.eqb_spec q r) as [E|E]; [subst q; lia | assumption].
    + intros q H. pose proof (ir_caft _ _ I q H). unfold updf. destruct (Nat.eqb_spec q r) as [E|E]; [subst q; lia | assumption].
    + intros q H1 H2. unfold updf in *. destruct (Nat.eqb_spec q r) as [E|E]; [lia | apply (ir_pc4 _ _ I); assumption].
    + apply (pc5_keep g s r); [lia | intros q Hq; try reflexivity; try (apply updf_ne; assumption) | intros t Ht; assumption | apply (ir_pc5 _ _ I)].
    + intros q H1 H2. unfold updf in *. destruct (Nat.eqb_spec q r) as [E|E].
      * subst q. apply (ir_body _ _ I) in H2. lia.
      * apply (ir_ret _ _ I); assumption.
    + intros q Hq. destruct (ir_uperr _ _ I q Hq) as (A & B & C). split; [assumption|]. split; [assumption|].
      unfold updf. destruct (Nat.eqb_spec q r) as [E'|E']; [intros _; reflexivity | assumption].
  - (* A2b *)
    constructor; cbn [up pc ctrace rerr]; try apply I.
    + intros q H. pose proof (ir_cbef _ _ I q H). unfold updf. destruct (Nat.eqb_spec q r) as [E|E]; [subst q; lia | assumption].
    + intros q H. pose proof (ir_body _ _ I q H). unfold updf. destruct (Nat.eqb_spec q r) as [E|E]; [subst q; lia | assumption].
    + intros q H. pose proof (ir_caft _ _ I q H). unfold updf. destruct (Nat.eqb_spec q r) as [E|E]; [subst q; lia | assumption].
    + intros q H1 H2. unfold updf in *. destruct (Nat.eqb_spec q r) as [E|E]; [lia | apply (ir_pc4 _ _ I); assumption].
    + apply (pc5_keep g s r); [lia | intros q Hq; try reflexivity; try (apply updf_ne; assumption) | intros t Ht; assumption | apply (ir_pc5 _ _ I)].
    + intros q H1 H2. unfold updf in *. destruct (Nat.eqb_spec q r) as [E|E]; [lia | apply (ir_ret _ _ I); assumption].
    + intros q Hq. destruct (ir_uperr _ _ I q Hq) as (A & B & C). split; [assumption|]. split; [assumption|].
      unfold updf. destruct (Nat.eqb_spec q r) as [E'|E']; [lia | assumption].
  - (* A3a: context before, ok *)
    assert (Hok : up s (ctx_of g r) = UOk) by (apply (iu_mid _ _ U); lia).
    constructor; cbn [up pc ctrace rerr].
    + intros q [H|H]; unfold updf; destruct (Nat.eqb_spec q r) as [E|E]; try lia; try congruence.
      apply (ir_cbef _ _ I). assumption.
    + intros q [H|H]; [discriminate|]. pose proof (ir_body _ _ I q H). unfold updf. destruct (Nat.eqb_spec q r) as [E|E]; [subst q; lia | assumption].
    + intros q [H|H]; [discriminate|]. pose proof (ir_caft _ _ I q H). unfold updf. destruct (Nat.eqb_spec q r) as [E|E]; [subst q; lia | assumption].
    + intros q H1 H2. unfold updf in *. destruct (Nat.eqb_spec q r) as [E|E]; [subst q; left; reflexivity | right; apply (ir_pc4 _ _ I); assumption].
    + apply (pc5_keep g s r); [lia | intros q Hq; try reflexivity; try (apply updf_ne; assumption) | intros t Ht; right; assumption | apply (ir_pc5 _ _ I)].
    + intros q H1 [H2|H2]; [discriminate|]. unfold updf in *. destruct (Nat.eqb_spec q r) as [E|E]; [lia|].
      destruct (ir_ret _ _ I q H1 H2). split; [right; assumption | assumption].
    + apply ordered_cons; [apply (ir_order _ _ I) | | intros q H; discriminate | intros q H; discriminate].
      intros q [H|[H|H]]; try discriminate. injection H as <-. apply (iu_upe _ _ U). left. assumption.
    + constructor; [|apply (ir_nodup _ _ I)]. intros Hin. apply (ir_cbef _ _ I) in Hin. lia.
    + intros q Hq. destruct (ir_uperr _ _ I q Hq) as (A & B & C).
      split; [intros [H|H]; [injection H as <-; congruence | contradiction]|]. split; [intros [H|H]; [discriminate | contradiction]|].
      unfold updf. destruct (Nat.eqb_spec q r) as [E'|E']; [lia | assumption].
    + intros c [H|H]; [discriminate | apply (ir_nodown _ _ I c H)].
  - (* A3b: context before fails: the run returns the error *)
    assert (Hok : up s (ctx_of g r) = UOk) by (apply (iu_mid _ _ U); lia).
    constructor; cbn [up pc ctrace rerr].
    + intros q [H|H]; unfold updf; destruct (Nat.eqb_spec q r) as [E|E]; try lia; try congruence.
      apply (ir_cbef _ _ I). assumption.
    + intros q [H|H]; [discriminate|]. pose proof (ir_body _ _ I q H). unfold updf. destruct (Nat.eqb_spec q r) as [E|E]; [subst q; lia | assumption].
    + intros q [H|H]; [discriminate|]. pose proof (ir_caft _ _ I q H). unfold updf. destruct (Nat.eqb_spec q r) as [E|E]; [subst q; lia | assumption].
    + intros q H1 H2. unfold updf in *. destruct (Nat.eqb_spec q r) as [E|E]; [lia | right; apply (ir_pc4 _ _ I); assumption].
    + apply (pc5_keep g s r); [lia | intros q Hq; try reflexivity; try (apply updf_ne; assumption) | intros t Ht; right; assumption | apply (ir_pc5 _ _ I)].
    + intros q H1 [H2|H2]; [discriminate|]. unfold updf in *. destruct (Nat.eqb_spec q r) as [E|E].
      * subst q. apply (ir_body _ _ I) in H2. lia.
      * destruct (ir_ret _ _ I q H1 H2). split; [right; assumption | assumption].
    + apply ordered_cons; [apply (ir_order _ _ I) | | intros q H; discriminate | intros q H; discriminate].
      intros q [H|[H|H]]; try discriminate. injection H as <-. apply (iu_upe _ _ U). left. assumption.
    + constructor; [|apply (ir_nodup _ _ I)]. intros Hin. apply (ir_cbef _ _ I) in Hin. lia.
    + intros q Hq. destruct (ir_uperr _ _ I q Hq) as (A & B & C).
      split; [intros [H|H]; [injection H as <-; congruence | contradiction]|]. split; [intros [H|H]; [discriminate | contradiction]|].
      unfold updf. destruct (Nat.eqb_spec q r) as [E'|E']; [intros _; reflexivity | assumption].
    + intros c [H|H]; [discriminate | apply (ir_nodown _ _ I c H)].
  - (* A4: the task itself *)
    assert (Hok : up s (ctx_of g r) = UOk) by (apply (iu_mid _ _ U); lia).
    constructor; cbn [up pc ctrace rerr].
    + intros q [H|H]; [discriminate|]. pose proof (ir_cbef _ _ I q H). unfold updf. destruct (Nat.eqb_spec q r) as [E|E]; [lia | assumption].
    + intros q [H|H]; unfold updf; destruct (Nat.eqb_spec q r) as [E|E]; try lia; try congruence.
      apply (ir_body _ _ I). assumption.
    + intros q [H|H]; [discriminate|]. pose proof (ir_caft _ _ I q H). unfold updf. destruct (Nat.eqb_spec q r) as [E|E]; [subst q; lia | assumption].
    + intros q H1 H2. unfold updf in *. destruct (Nat.eqb_spec q r) as [E|E]; [subst q; right; apply (ir_pc4 _ _ I); lia | right; apply (ir_pc4 _ _ I); assumption].
    + intros q H1. unfold updf in *. destruct (Nat.eqb_spec q r) as [E|E]; [subst q; split; [left; reflexivity | reflexivity] | destruct (ir_pc5 _ _ I q H1) as (X & Y); split; [right; exact X | exact Y]].
    + intros q H1 [H2|H2]; unfold updf in *; destruct (Nat.eqb_spec q r) as [E|E]; try lia; try congruence.
      destruct (ir_ret _ _ I q H1 H2). split; [right; assumption | assumption].
    + apply ordered_cons; [apply (ir_order _ _ I) | | | intros q H; discriminate].
      * intros q [H|[H|H]]; try discriminate. injection H as <-. apply (iu_upe _ _ U). left. assumption.
      * intros q H. injection H as <-. apply (ir_pc4 _ _ I); lia.
    + constructor; [|apply (ir_nodup _ _ I)]. intros Hin. apply (ir_body _ _ I) in Hin. lia.
    + intros q Hq. destruct (ir_uperr _ _ I q Hq) as (A & B & C).
      split; [intros [H|H]; [discriminate | contradiction]|]. split; [intros [H|H]; [injection H as <-; congruence | contradiction]|].
      unfold updf. destruct (Nat.eqb_spec q r) as [E'|E']; [lia | destruct (Nat.eqb_spec q r); [contradiction | assumption]].
    + intros c [H|H]; [discriminate | apply (ir_nodown _ _ I c H)].
  - (* A5: context after, whatever the task's result *)
    assert (Hok : up s (ctx_of g r) = UOk) by (apply (iu_mid _ _ U); lia).
    constructor; cbn [up pc ctrace rerr].
    + intros q [H|H]; [discriminate|]. pose proof (ir_cbef _ _ I q H). unfold updf. destruct (Nat.eqb_spec q r) as [E|E]; [lia | assumption].
    + intros q [H|H]; [discriminate|]. pose proof (ir_body _ _ I q H). unfold updf. destruct (Nat.eqb_spec q r) as [E|E]; [lia | assumption].
    + intros q [H|H]; unfold updf; destruct (Nat.eqb_spec q r) as [E|E]; try lia; try congruence.
      apply (ir_caft _ _ I). assumption.
    + intros q H1 H2. unfold updf in *. destruct (Nat.eqb_spec q r) as [E|E]; [lia | right; apply (ir_pc4 _ _ I); assumption].
    + apply (pc5_keep g s r); [lia | intros q Hq; try reflexivity; try (apply updf_ne; assumption) | intros t Ht; right; assumption | apply (ir_pc5 _ _ I)].
    + intros q H1 [H2|H2]; [discriminate|]. unfold updf in *. destruct (Nat.eqb_spec q r) as [E|E].
      * subst q. split; [left; reflexivity | apply (ir_pc5 _ _ I); assumption].
      * destruct (ir_ret _ _ I q H1 H2). split; [right; assumption | assumption].
    + apply ordered_cons; [apply (ir_order _ _ I) | | intros q H; discriminate | ].
      * intros q [H|[H|H]]; try discriminate. injection H as <-. apply (iu_upe _ _ U). left. assumption.
      * intros q H. injection H as <-. apply (ir_pc5 _ _ I); assumption.
    + constructor; [|apply (ir_nodup _ _ I)]. intros Hin. apply (ir_caft _ _ I) in Hin. lia.
    + intros q Hq. destruct (ir_uperr _ _ I q Hq) as (A & B & C).
      split; [intros [H|H]; [discriminate | contradiction]|]. split; [intros [H|H]; [discriminate | contradiction]|].
      unfold updf. destruct (Nat.eqb_spec q r) as [E'|E']; [subst q; congruence | assumption].
    + intros c [H|H]; [discriminate | apply (ir_nodown _ _ I c H)].
Qed.
