(** Proofs about Model/Loader.v (C17; totality for C15). *)
From Coq Require Import List Arith Bool Lia.
Import ListNotations.
From TaskctlV Require Import Model.Loader.

Lemma memb_true p l : memb p l = true <-> In p l.
Proof. unfold memb. destruct (in_dec path_eq_dec p l); split; auto; discriminate. Qed.
Lemma memb_false p l : memb p l = false <-> ~ In p l.
Proof. unfold memb. destruct (in_dec path_eq_dec p l); split; auto; try discriminate. intros H; contradiction. Qed.

(* ------------------------------------------------------------------------------------------------------------ *)
(** ** never a panic after the repair (C15) *)
Section Total.
  Variable fs : fsys.
  Lemma loop_no_panic rec : (forall st p, fst (rec st p) <> LPanic) ->
    forall ts acc st, fst (imports_loop false fs rec ts acc st) <> LPanic.
  Proof.
    intros Hrec. induction ts as [|t ts IH]; intros acc st; cbn [imports_loop]; [discriminate|].
    destruct t as [p|]; [|discriminate].
    destruct (memb p (visited st)); [apply IH|].
    destruct (fs p); [| | |cbn; discriminate];
      (destruct (rec st p) as [r st'] eqn:E; pose proof (Hrec st p) as Hn; rewrite E in Hn; cbn in Hn;
       destruct r; cbn; try discriminate; try apply IH; try contradiction).
  Qed.
  Theorem load_no_panic : forall fuel st file, fst (load false fs fuel st file) <> LPanic.
  Proof.
    induction fuel as [|f IH]; intros st file; cbn [load]; [discriminate|].
    destruct (fs file) as [c| | |]; try discriminate.
    destruct (cf_import c); try discriminate; apply loop_no_panic; apply IH.
  Qed.
End Total.

(* ------------------------------------------------------------------------------------------------------------ *)
(** ** termination, each file read once (any [legacy]) *)
Section Once.
  Variable legacy : bool.
  Variable fs : fsys.
  Variable U : list path.                                      (* every path outside U is missing *)
  Hypothesis HU : forall p, ~ In p U -> fs p = NMissing.

  Definition Inv (st : lstate) : Prop := NoDup (reads st) /\ incl (reads st) (visited st).
  Definition unv (st : lstate) : nat := length (filter (fun p => negb (memb p (visited st))) U).
  Definition ext {A} (l' l : list A) : Prop := exists n, l' = n ++ l.

  Lemma ext_refl {A} (l : list A) : ext l l. Proof. now exists []. Qed.
  Lemma ext_trans {A} (a b c : list A) : ext a b -> ext b c -> ext a c.
  Proof. intros [n ->] [m ->]. exists (n ++ m). now rewrite app_assoc. Qed.
  Lemma ext_in {A} (a b : list A) x : ext a b -> In x b -> In x a.
  Proof. intros [n ->] H. apply in_or_app. now right. Qed.

  Ltac fin HI := repeat split; auto using ext_refl; try apply HI; try (intros _; discriminate); try (intros _; destruct legacy; discriminate); try lia.

  Lemma unv_mono st st' : ext (visited st') (visited st) -> unv st' <= unv st.
  Proof.
    intros He. unfold unv. clear HU. induction U as [|u U' IH]; cbn [filter]; [lia|].
    destruct (memb u (visited st)) eqn:E1.
    - apply memb_true in E1. assert (E2: memb u (visited st') = true) by (apply memb_true; eapply ext_in; eauto).
      rewrite E2. cbn [negb]. exact IH.
    - cbn [negb]. destruct (memb u (visited st')); cbn [negb length]; lia.
  Qed.
  Lemma unv_mark st file : In file U -> ~ In file (visited st) ->
    unv (mkLS (file :: visited st) (reads st)) < unv st.
  Proof.
    unfold unv. cbn [visited]. clear HU. induction U as [|u U' IH]; intros Hin Hnv; [destruct Hin|].
    cbn [filter].
    assert (Hle: length (filter (fun p => negb (memb p (file :: visited st))) U') <= length (filter (fun p => negb (memb p (visited st))) U')).
    { clear. induction U' as [|v V IHV]; cbn [filter]; [lia|].
      destruct (memb v (visited st)) eqn:E1.
      - assert (E2: memb v (file :: visited st) = true) by (apply memb_true; right; now apply memb_true). rewrite E2. cbn. exact IHV.
      - cbn [negb]. destruct (memb v (file :: visited st)); cbn [negb length]; lia. }
    destruct (path_eq_dec u file) as [->|Hne].
    - assert (E1: memb file (file :: visited st) = true) by (apply memb_true; now left).
      assert (E2: memb file (visited st) = false) by now apply memb_false.
      rewrite E1, E2. cbn [negb length]. lia.
    - destruct Hin as [Heq|Hin]; [contradiction|]. specialize (IH Hin Hnv).
      destruct (memb u (visited st)) eqn:E1.
      + assert (E2: memb u (file :: visited st) = true) by (apply memb_true; right; now apply memb_true). rewrite E2. cbn [negb]. exact IH.
      + assert (E2: memb u (file :: visited st) = false).
        { apply memb_false. intros [H|H]; [congruence|]. apply memb_false in E1. contradiction. }
        rewrite E2. cbn [negb length]. lia.
  Qed.

  Definition rec_ok (f : nat) (rec : lstate -> path -> lres * lstate) : Prop :=
    forall st p r st', Inv st -> ~ In p (visited st) -> rec st p = (r, st') ->
      Inv st' /\ ext (visited st') (visited st) /\ ext (reads st') (reads st) /\ (unv st < f -> r <> LOut).

  Lemma loop_ok f rec : rec_ok f rec -> forall ts acc st r st', Inv st -> imports_loop legacy fs rec ts acc st = (r, st') ->
    Inv st' /\ ext (visited st') (visited st) /\ ext (reads st') (reads st) /\ (unv st < f -> r <> LOut).
  Proof.
    intros Hrec. induction ts as [|t ts IH]; intros acc st r st' HI H; cbn [imports_loop] in H.
    - injection H as Hr_ Hs_; subst r st'. fin HI.
    - destruct t as [p|].
      2:{ injection H as Hr_ Hs_; subst r st'. fin HI. }
      destruct (memb p (visited st)) eqn:Em; [eapply IH; eauto|].
      apply memb_false in Em.
      assert (Hcall: forall r1 st1, rec st p = (r1, st1) ->
                (match r1 with
                 | LOk d => imports_loop legacy fs rec ts (acc ++ d) st1
                 | LErr => if legacy then imports_loop legacy fs rec ts acc st1 else (LErr, st1)
                 | other => (other, st1) end) = (r, st') ->
                Inv st' /\ ext (visited st') (visited st) /\ ext (reads st') (reads st) /\ (unv st < f -> r <> LOut)).
      { intros r1 st1 E H1. destruct (Hrec st p r1 st1 HI Em E) as (HI1 & Hv1 & Hr1 & Hf1).
        assert (Hcont: forall acc', imports_loop legacy fs rec ts acc' st1 = (r, st') ->
                  Inv st' /\ ext (visited st') (visited st) /\ ext (reads st') (reads st) /\ (unv st < f -> r <> LOut)).
        { intros acc' H2. destruct (IH acc' st1 r st' HI1 H2) as (HI2 & Hv2 & Hr2 & Hf2).
          repeat split; try apply HI2; eauto using ext_trans. intros Hlt. apply Hf2. pose proof (unv_mono st st1 Hv1). lia. }
        destruct r1.
        - injection H1 as Hr_ Hs_; subst r st'. fin HI1.
        - destruct legacy; [now apply (Hcont acc)|]. injection H1 as Hr_ Hs_; subst r st'. fin HI1.
        - injection H1 as Hr_ Hs_; subst r st'. fin HI1.
        - now apply (Hcont (acc ++ defs)). }
      destruct (fs p) eqn:Ep.
      + destruct (rec st p) as [r1 st1] eqn:E. eapply Hcall; eauto.
      + destruct (rec st p) as [r1 st1] eqn:E. eapply Hcall; eauto.
      + destruct (rec st p) as [r1 st1] eqn:E. eapply Hcall; eauto.
      + injection H as Hr_ Hs_; subst r st'. fin HI.
  Qed.

  Lemma load_ok : forall fuel, rec_ok fuel (load legacy fs fuel).
  Proof.
    induction fuel as [|f IH]; intros st file r st' HI Hnv H; cbn [load] in H.
    - injection H as Hr_ Hs_; subst r st'. fin HI.
    - destruct HI as [Hnd Hincl].
      assert (Hnr: ~ In file (reads st)) by (intros Hc; apply Hnv; now apply Hincl).
      assert (He1: ext (file :: visited st) (visited st)) by now exists [file].
      assert (Her: ext (file :: reads st) (reads st)) by now exists [file].
      assert (HI1: Inv (mkLS (file :: visited st) (reads st))).
      { split; cbn; [exact Hnd|]. intros x Hx. right. now apply Hincl. }
      assert (HI2: Inv (mkLS (file :: visited st) (file :: reads st))).
      { split; cbn; [constructor; assumption|]. intros x [<-|Hx]; [now left|right; now apply Hincl]. }
      destruct (fs file) as [c| |names|] eqn:Ef.
      + assert (HinU: In file U).
        { destruct (in_dec path_eq_dec file U) as [Hi|Hn]; [exact Hi|]. rewrite (HU file Hn) in Ef. discriminate. }
        assert (Hloop: forall ts, imports_loop legacy fs (load legacy fs f) ts (cf_defs c) (mkLS (file :: visited st) (file :: reads st)) = (r, st') ->
                  Inv st' /\ ext (visited st') (visited st) /\ ext (reads st') (reads st) /\ (unv st < S f -> r <> LOut)).
        { intros ts H2. destruct (loop_ok f _ IH ts _ _ r st' HI2 H2) as (HI3 & Hv3 & Hr3 & Hf3). cbn [visited reads] in *.
          repeat split; try apply HI3; eauto using ext_trans. intros Hlt. apply Hf3.
          pose proof (unv_mark st file HinU Hnv) as Hm. unfold unv in *. cbn [visited] in *. lia. }
        destruct (cf_import c) eqn:Ei.
        * apply Hloop in H. exact H.
        * apply Hloop in H. exact H.
        * injection H as Hr_ Hs_; subst r st'. cbn [visited reads]. fin HI2.
      + injection H as Hr_ Hs_; subst r st'. cbn [visited reads]. fin HI2.
      + injection H as Hr_ Hs_; subst r st'. cbn [visited reads]. fin HI1.
      + injection H as Hr_ Hs_; subst r st'. cbn [visited reads]. fin HI1.
  Qed.

  Lemma unv_init : unv init_ls <= length U.
  Proof. unfold unv. clear HU. induction U as [|u U' IH]; cbn [filter length]; [lia|]. destruct (negb _); cbn [length]; lia. Qed.

  Theorem load_terminates fuel root : length U < fuel -> fst (load_top legacy fs fuel root) <> LOut.
  Proof.
    intros Hf. unfold load_top. destruct (load legacy fs fuel init_ls root) as [r st'] eqn:E.
    assert (HI0: Inv init_ls) by (split; cbn; [constructor|intros x []]).
    destruct (load_ok fuel init_ls root r st' HI0 (fun H => H) E) as (_ & _ & _ & Hout).
    cbn. apply Hout. pose proof unv_init. lia.
  Qed.

  Theorem each_read_once fuel root : NoDup (reads (snd (load_top legacy fs fuel root))).
  Proof.
    unfold load_top. destruct (load legacy fs fuel init_ls root) as [r st'] eqn:E.
    assert (HI0: Inv init_ls) by (split; cbn; [constructor|intros x []]).
    destruct (load_ok fuel init_ls root r st' HI0 (fun H => H) E) as ((Hnd & _) & _). exact Hnd.
  Qed.
End Once.

(* ------------------------------------------------------------------------------------------------------------ *)
(** ** a successful load read exactly the import closure and merged every file's definitions (repaired code) *)
Section Closure.
  Variable fs : fsys.

  Lemma reach_trans root g h : reach fs root g -> reach fs g h -> reach fs root h.
  Proof. intros Hg Hh. induction Hh as [|x y _ IH Hy]; [exact Hg|]. eapply reach_step; eauto. Qed.

  Definition file_ok (V : list path) (p : path) : Prop :=
    exists c, fs p = NFile c /\ cf_import c <> IBad /\ forall t, In t (targets fs p c) -> exists q, t = TPath q /\ In q V.
  Lemma file_ok_mono V V' p : file_ok V p -> incl V V' -> file_ok V' p.
  Proof. intros (c & Hf & Hi & Ht) Hincl. exists c. repeat split; auto. intros t Hin. destruct (Ht t Hin) as (q & -> & Hq). eauto. Qed.

  Definition post (st : lstate) (file : path) (d : list nat) (st' : lstate) : Prop :=
    exists nr, reads st' = nr ++ reads st /\ visited st' = nr ++ visited st /\
               d = flat_map (defs_of fs) (rev nr) /\
               (forall p, In p nr -> file_ok (visited st') p) /\
               (forall p, In p nr -> reach fs file p) /\ In file nr.
  Definition rec_c (rec : lstate -> path -> lres * lstate) : Prop :=
    forall st p d st', rec st p = (LOk d, st') -> post st p d st'.

  Lemma loop_c rec : rec_c rec -> forall ts acc st d st', imports_loop false fs rec ts acc st = (LOk d, st') ->
    exists nr, reads st' = nr ++ reads st /\ visited st' = nr ++ visited st /\ d = acc ++ flat_map (defs_of fs) (rev nr) /\
      (forall p, In p nr -> file_ok (visited st') p) /\
      (forall p, In p nr -> exists q, In (TPath q) ts /\ reach fs q p) /\
      (forall t, In t ts -> exists q, t = TPath q /\ In q (visited st')).
  Proof.
    intros Hrec. induction ts as [|t ts IH]; intros acc st d st' H; cbn [imports_loop] in H.
    - injection H as Hd Hs. subst d st'. exists []. cbn. rewrite app_nil_r. repeat split; auto; intros ? [].
    - destruct t as [p|]; [|discriminate].
      destruct (memb p (visited st)) eqn:Em.
      + apply memb_true in Em. destruct (IH acc st d st' H) as (nr & Hr & Hv & Hd & Hok & Hre & Hts).
        exists nr. repeat split; auto.
        * intros x Hx. destruct (Hre x Hx) as (q & Hq & Hrq). exists q. split; [now right|exact Hrq].
        * intros t [<-|Ht]; [|now apply Hts]. exists p. split; [reflexivity|]. rewrite Hv. apply in_or_app. now right.
      + assert (Hcall: forall r1 st1, rec st p = (r1, st1) ->
                  (match r1 with LOk d1 => imports_loop false fs rec ts (acc ++ d1) st1 | LErr => (LErr, st1) | other => (other, st1) end) = (LOk d, st') ->
                  exists nr, reads st' = nr ++ reads st /\ visited st' = nr ++ visited st /\ d = acc ++ flat_map (defs_of fs) (rev nr) /\
                    (forall x, In x nr -> file_ok (visited st') x) /\
                    (forall x, In x nr -> exists q, In (TPath q) (TPath p :: ts) /\ reach fs q x) /\
                    (forall t, In t (TPath p :: ts) -> exists q, t = TPath q /\ In q (visited st'))).
        { intros r1 st1 E H1. destruct r1 as [| | |d1]; try discriminate.
          destruct (Hrec st p d1 st1 E) as (nr1 & Hr1 & Hv1 & Hd1 & Hok1 & Hre1 & Hin1).
          destruct (IH (acc ++ d1) st1 d st' H1) as (nr2 & Hr2 & Hv2 & Hd2 & Hok2 & Hre2 & Hts2).
          exists (nr2 ++ nr1). split; [now rewrite Hr2, Hr1, app_assoc|]. split; [now rewrite Hv2, Hv1, app_assoc|].
          split; [|split; [|split]].
          - rewrite Hd2, Hd1, rev_app_distr, flat_map_app, app_assoc. reflexivity.
          - intros x Hx. apply in_app_or in Hx. destruct Hx as [Hx|Hx]; [now apply Hok2|].
            apply (file_ok_mono (visited st1)); [now apply Hok1|]. rewrite Hv2. intros y Hy. apply in_or_app. now right.
          - intros x Hx. apply in_app_or in Hx. destruct Hx as [Hx|Hx].
            + destruct (Hre2 x Hx) as (q & Hq & Hrq). exists q. split; [now right|exact Hrq].
            + exists p. split; [now left|now apply Hre1].
          - intros t [<-|Ht]; [|now apply Hts2]. exists p. split; [reflexivity|].
            rewrite Hv2, Hv1. apply in_or_app. right. apply in_or_app. now left. }
        destruct (fs p) eqn:Ep; try discriminate;
          destruct (rec st p) as [r1 st1] eqn:E; eapply Hcall; eauto.
  Qed.

  Lemma load_c : forall fuel, rec_c (load false fs fuel).
  Proof.
    induction fuel as [|f IH]; intros st file d st' H; cbn [load] in H; [discriminate|].
    destruct (fs file) as [c| | |] eqn:Ef; try discriminate.
    assert (Hloop: cf_import c <> IBad ->
              imports_loop false fs (load false fs f) (targets fs file c) (cf_defs c) (mkLS (file :: visited st) (file :: reads st)) = (LOk d, st') ->
              post st file d st').
    { intros Hnb H2. destruct (loop_c _ IH _ _ _ _ _ H2) as (nr & Hr & Hv & Hd & Hok & Hre & Hts). cbn [visited reads] in *.
      exists (nr ++ [file]). split; [now rewrite Hr, <- app_assoc|]. split; [now rewrite Hv, <- app_assoc|].
      split; [|split; [|split]].
      - rewrite Hd, rev_app_distr. cbn [rev app flat_map]. unfold defs_of at 2. now rewrite Ef.
      - intros p Hp. apply in_app_or in Hp. destruct Hp as [Hp|[<-|[]]]; [now apply Hok|].
        exists c. split; [exact Ef|]. split; [exact Hnb|]. exact Hts.
      - intros p Hp. apply in_app_or in Hp. destruct Hp as [Hp|[<-|[]]]; [|constructor].
        destruct (Hre p Hp) as (q & Hq & Hrq). apply reach_trans with q; [|exact Hrq].
        eapply reach_step; [constructor|]. unfold imports_of. rewrite Ef. apply in_flat_map. exists (TPath q). split; [exact Hq|now left].
      - apply in_or_app. right. now left. }
    destruct (cf_import c) eqn:Ei; [apply Hloop; [discriminate|exact H] | apply Hloop; [discriminate|exact H] | discriminate].
  Qed.

  Theorem load_closure fuel root d st' : load_top false fs fuel root = (LOk d, st') ->
    (forall p, In p (reads st') <-> reach fs root p) /\
    d = flat_map (defs_of fs) (rev (reads st')) /\
    (forall p, reach fs root p -> readable fs p).
  Proof.
    intros H. destruct (load_c fuel _ _ _ _ H) as (nr & Hr & Hv & Hd & Hok & Hre & Hin). cbn in Hr, Hv. rewrite app_nil_r in Hr, Hv.
    assert (Hall: forall p, reach fs root p -> In p nr).
    { intros p Hp. induction Hp as [|g h _ IHg Hh]; [exact Hin|].
      destruct (Hok g IHg) as (c & Hf & _ & Ht). unfold imports_of in Hh. rewrite Hf in Hh.
      apply in_flat_map in Hh. destruct Hh as (t & Ht1 & Ht2). destruct (Ht t Ht1) as (q & -> & Hq).
      destruct Ht2 as [<-|[]]. now rewrite Hv in Hq. }
    rewrite Hr. repeat split; auto.
    intros p Hp. destruct (Hok p (Hall p Hp)) as (c & Hf & Hi & Ht). unfold readable. rewrite Hf. split; [exact Hi|].
    intros Hb. destruct (Ht TBad Hb) as (q & Hq & _). discriminate.
  Qed.

  Theorem broken_import_fails fuel root g : reach fs root g -> ~ readable fs g ->
    forall d, fst (load_top false fs fuel root) <> LOk d.
  Proof.
    intros Hg Hn d Hc. destruct (load_top false fs fuel root) as [r st'] eqn:E. cbn in Hc. subst r.
    destruct (load_closure _ _ _ _ E) as (_ & _ & Hall). exact (Hn (Hall g Hg)).
  Qed.

  (* what a path in the closure is: the importing file's directory joined with the entry, cleaned; or a member of an imported directory *)
  Theorem import_targets_relative g h : In h (imports_of fs g) ->
    exists c rel es, fs g = NFile c /\ cf_import c = IList es /\ In (EPath rel) es /\
      (h = join (dir_of g) rel \/ exists names n, fs (join (dir_of g) rel) = NDir names /\ In n names /\ h = join (dir_of g) rel ++ [n]).
  Proof.
    unfold imports_of. destruct (fs g) as [c| | |] eqn:Ef; try (intros []).
    unfold targets. destruct (cf_import c) as [|es|] eqn:Ei; try (intros []).
    intros H. apply in_flat_map in H. destruct H as (t & Ht & Hh).
    apply in_flat_map in Ht. destruct Ht as (e & He & Ht).
    destruct t as [q|]; [|destruct Hh]. destruct Hh as [<-|[]].
    destruct e as [rel|]; cbn [expand] in Ht; [|destruct Ht as [Ht|[]]; discriminate].
    exists c, rel, es. repeat split; auto.
    destruct (fs (join (dir_of g) rel)) as [c'| |names|] eqn:En.
    - destruct Ht as [Ht|[]]. injection Ht as <-. now left.
    - destruct Ht as [Ht|[]]. injection Ht as <-. now left.
    - right. apply in_map_iff in Ht. destruct Ht as (n & Hq & Hn). injection Hq as <-. exists names, n. auto.
    - destruct Ht as [Ht|[]]. injection Ht as <-. now left.
  Qed.
End Closure.

(* ------------------------------------------------------------------------------------------------------------ *)
(** ** global configuration + project configuration *)
Lemma alookup_app k a b : alookup k (a ++ b) = match alookup k a with Some v => Some v | None => alookup k b end.
Proof. induction a as [|[k' v] a IH]; cbn [app alookup]; [reflexivity|]. destruct (Nat.eqb k k'); auto. Qed.

Lemma alookup_filter_absent k dst src : alookup k dst = None ->
  alookup k (filter (fun kv => match alookup (fst kv) dst with None => true | Some _ => false end) src) = alookup k src.
Proof.
  intros Hd. induction src as [|[k' v] src IH]; [reflexivity|]. cbn [filter fst].
  destruct (Nat.eqb k k') eqn:E.
  - apply Nat.eqb_eq in E. subst k'. rewrite Hd. cbn [alookup]. now rewrite Nat.eqb_refl.
  - destruct (alookup k' dst); cbn [alookup]; rewrite ?E; exact IH.
Qed.

Lemma alookup_fill k dst src : alookup k (fill dst src) = match alookup k dst with Some v => Some v | None => alookup k src end.
Proof.
  unfold fill. rewrite alookup_app. destruct (alookup k dst) eqn:Hd; [reflexivity|]. now apply alookup_filter_absent.
Qed.

Theorem global_and_project glob proj k :
  let r := load_global_then_project glob proj in
  alookup k (s_tasks r) = match alookup k (s_tasks glob) with Some v => Some v | None => alookup k (s_tasks proj) end /\
  alookup k (s_contexts r) = match alookup k (s_contexts glob) with Some v => Some v | None => alookup k (s_contexts proj) end /\
  alookup k (s_vars r) = match alookup k (s_vars proj) with Some v => Some v | None => alookup k (s_vars glob) end.
Proof.
  unfold load_global_then_project, config_merge, empty_sections. cbn [s_tasks s_contexts s_vars]. repeat split.
  - rewrite !alookup_fill. cbn [alookup]. reflexivity.
  - rewrite !alookup_fill. cbn [alookup]. reflexivity.
  - unfold cmerge. rewrite !alookup_app. cbn [alookup]. destruct (alookup k (s_vars proj)); [reflexivity|]. destruct (alookup k (s_vars glob)); reflexivity.
Qed.
