(** A relational reading of [step]: one constructor per way an event changes the state.
    Invariant proofs case on [Step] instead of unfolding the function. *)
From Coq Require Import List Arith Bool Lia.
Import ListNotations.
From TaskctlV Require Import Model.Sched Proofs.SchedInv.

Inductive Step (c : config) (s : state) : event -> state -> Prop :=
| SVisitIdle i : fatal s = false -> exited s = false -> i < length c ->
    (st s i <> Waiting \/ (st s i = Waiting /\ cond_of c i <> CErr /\ cond_of c i <> CFalse /\ check c (st s) (deps_of c i) VReady = VWait)) ->
    Step c s (Visit i) s
| SVisitErr i : fatal s = false -> exited s = false -> i < length c -> st s i = Waiting -> cond_of c i = CErr ->
    Step c s (Visit i) (mkState (upd (st s) i Error) true (gerr s || negb (allow_of c i)) (log s) (pend s) false false)
| SVisitSkip i : fatal s = false -> exited s = false -> i < length c -> st s i = Waiting -> cond_of c i = CFalse ->
    Step c s (Visit i) (mkState (upd (st s) i Skipped) (cancelled s) (gerr s) (log s) (pend s) false false)
| SVisitFatal i : fatal s = false -> exited s = false -> i < length c -> st s i = Waiting ->
    cond_of c i <> CErr -> cond_of c i <> CFalse -> check c (st s) (deps_of c i) VReady = VFatal ->
    Step c s (Visit i) (mkState (st s) (cancelled s) (gerr s) (log s) (pend s) true false)
| SVisitCancel i : fatal s = false -> exited s = false -> i < length c -> st s i = Waiting ->
    cond_of c i <> CErr -> cond_of c i <> CFalse -> check c (st s) (deps_of c i) VReady = VCancel ->
    Step c s (Visit i) (mkState (upd (st s) i Canceled) (cancelled s) (gerr s) (log s) (pend s) false false)
| SVisitStart i : fatal s = false -> exited s = false -> i < length c -> st s i = Waiting ->
    cond_of c i <> CErr -> cond_of c i <> CFalse -> check c (st s) (deps_of c i) VReady = VReady ->
    Step c s (Visit i) (mkState (upd (st s) i Running) (cancelled s) (gerr s) (OStart i :: log s) (pend s) false false)
| SRetOk i : fatal s = false -> i < length c -> st s i = Running ->
    Step c s (Ret i true) (mkState (upd (st s) i Done) (cancelled s) (gerr s) (ORet i true :: log s) (pend s) false (exited s))
| SRetAllowed i : fatal s = false -> i < length c -> st s i = Running -> allow_of c i = true ->
    Step c s (Ret i false) (mkState (upd (st s) i Error) (cancelled s) (gerr s) (ORet i false :: log s) (i :: pend s) false (exited s))
| SRetFail i : fatal s = false -> i < length c -> st s i = Running -> allow_of c i = false ->
    Step c s (Ret i false) (mkState (upd (st s) i Error) (cancelled s) true (ORet i false :: log s) (pend s) false (exited s))
| SFin i : fatal s = false -> In i (pend s) ->
    Step c s (Fin i) (mkState (upd (st s) i Done) (cancelled s) (gerr s) (log s)
                              (filter (fun j => negb (Nat.eqb i j)) (pend s)) false (exited s))
| SExtCancel : fatal s = false ->
    Step c s ExtCancel (mkState (st s) true (gerr s) (log s) (pend s) false (exited s))
| SExit : fatal s = false -> exited s = false -> cancelled s || all_settled c (st s) = true ->
    Step c s Exit (mkState (st s) (cancelled s) (gerr s) (log s) (pend s) false true).

Lemma state_eta s : fatal s = false -> exited s = false ->
  s = mkState (st s) (cancelled s) (gerr s) (log s) (pend s) false false.
Proof. destruct s; cbn; intros -> ->; reflexivity. Qed.

Lemma step_Step c s e s' : step c s e = Some s' -> Step c s e s'.
Proof.
  unfold step. destruct (fatal s) eqn:Hf; [discriminate|].
  destruct e as [i|i ok|i| |].
  - destruct (exited s) eqn:Hx; [discriminate|].
    destruct (negb (i <? length c)) eqn:Hlt; [discriminate|].
    apply negb_false_iff, Nat.ltb_lt in Hlt.
    destruct (st s i) eqn:Hst.
    2-6: intros H; injection H as <-; apply SVisitIdle; try assumption; left; congruence.
    destruct (cond_of c i) eqn:Hc.
    3: intros H; injection H as <-; apply SVisitSkip; assumption.
    3: intros H; injection H as <-; apply SVisitErr; assumption.
    all: destruct (check c (st s) (deps_of c i) VReady) eqn:Hck; intros H; injection H as <-.
    all: try (apply SVisitStart; try assumption; congruence).
    all: try (apply SVisitCancel; try assumption; congruence).
    all: try (apply SVisitFatal; try assumption; congruence).
    all: apply SVisitIdle; try assumption; right; repeat split; try assumption; congruence.
  - destruct (negb (i <? length c)) eqn:Hlt; [discriminate|].
    apply negb_false_iff, Nat.ltb_lt in Hlt.
    destruct (st s i) eqn:Hst; try discriminate.
    destruct ok; [|destruct (allow_of c i) eqn:Ha]; intros H; injection H as <-.
    + apply SRetOk; assumption.
    + apply SRetAllowed; assumption.
    + apply SRetFail; assumption.
  - destruct (existsb (Nat.eqb i) (pend s)) eqn:Hp; [|discriminate].
    intros H; injection H as <-. apply SFin; [assumption|].
    apply existsb_exists in Hp. destruct Hp as (j & Hj & He). apply Nat.eqb_eq in He. subst. assumption.
  - intros H; injection H as <-. apply SExtCancel. assumption.
  - destruct (exited s) eqn:Hx; [discriminate|].
    destruct (cancelled s || all_settled c (st s)) eqn:Hc; [|discriminate].
    intros H; injection H as <-. apply SExit; assumption.
Qed.

Lemma run_ind_inv (c : config) (P : state -> Prop) :
  (forall s e s', P s -> step c s e = Some s' -> P s') ->
  forall es s s', P s -> run c s es = Some s' -> P s'.
Proof.
  intros Hstep. induction es as [|e es IH]; intros s s' Hs H; cbn in H.
  - injection H as <-. assumption.
  - destruct (step c s e) as [s1|] eqn:E; [|discriminate]. eapply IH; [eapply Hstep; eassumption | eassumption].
Qed.

Lemma run_app c es1 : forall es2 s s1 s2, run c s es1 = Some s1 -> run c s1 es2 = Some s2 -> run c s (es1 ++ es2) = Some s2.
Proof.
  induction es1 as [|e es1 IH]; intros es2 s s1 s2 H1 H2; cbn in *.
  - injection H1 as <-. assumption.
  - destruct (step c s e) as [s'|]; [|discriminate]. eapply IH; eassumption.
Qed.

Lemma run_app_inv c es1 : forall es2 s s2, run c s (es1 ++ es2) = Some s2 ->
  exists s1, run c s es1 = Some s1 /\ run c s1 es2 = Some s2.
Proof.
  induction es1 as [|e es1 IH]; intros es2 s s2 H; cbn in *.
  - exists s. split; [reflexivity | assumption].
  - destruct (step c s e) as [s'|]; [|discriminate]. apply IH. assumption.
Qed.
