From Coq Require Import List Arith Bool Lia.
Import ListNotations.
From TaskctlV Require Import Model.SetFlag Proofs.SetFlagSpec Model.EnvFile.

Lemma lines_from_line l : forall cur rest, ~ In lf l ->
  lines_from cur (l ++ lf :: rest) = dropcr (cur ++ l) :: lines_from [] rest.
Proof.
  induction l as [|c l IH]; intros cur rest H.
  - cbn [app lines_from]. rewrite Nat.eqb_refl, app_nil_r. reflexivity.
  - cbn [app lines_from]. destruct (Nat.eqb c lf) eqn:E.
    + apply Nat.eqb_eq in E. exfalso. apply H. left. exact E.
    + rewrite IH; [|intros Hin; apply H; right; exact Hin]. rewrite <- app_assoc. reflexivity.
Qed.

Lemma dropcr_app_cr l : dropcr (l ++ [cr]) = l.
Proof. unfold dropcr. rewrite rev_unit, Nat.eqb_refl. apply rev_involutive. Qed.

Lemma dropcr_id l : ends_cr l = false -> dropcr l = l.
Proof. unfold dropcr, ends_cr. destruct (rev l) as [|c r]; [reflexivity|]. intros ->. reflexivity. Qed.

Lemma ends_cr_kv k v : ends_cr v = false -> ends_cr (k ++ eqc :: v) = false.
Proof.
  unfold ends_cr. rewrite rev_app_distr. cbn [rev]. rewrite <- app_assoc.
  destruct (rev v) as [|c r]; [reflexivity|]. cbn [app]. tauto.
Qed.

Lemma dropcr_incl l x : In x (dropcr l) -> In x l.
Proof.
  unfold dropcr. destruct (rev l) as [|c r] eqn:R; [tauto|].
  destruct (Nat.eqb c cr); [|tauto].
  intros Hin. apply in_rev in Hin. apply in_rev. rewrite R. right. exact Hin.
Qed.

Definition read_from (m : list (list nat * list nat)) (s : list nat) := apply_sets (lines s) m.

Lemma read_from_line m l rest : ~ In lf l ->
  read_from m (l ++ lf :: rest) =
  read_from (match set_flag (dropcr l) with Some kv => kv :: m | None => m end) rest.
Proof.
  intros H. unfold read_from, lines. rewrite (lines_from_line l [] rest H). reflexivity.
Qed.

(* a line without '=' (a blank line, a comment without '=') defines nothing *)
Theorem line_without_equals_defines_nothing m l rest : ~ In lf l -> ~ In eqc l ->
  read_from m (l ++ lf :: rest) = read_from m rest.
Proof.
  intros Hl He. rewrite (read_from_line m l rest Hl).
  rewrite set_flag_none; [reflexivity|]. intros Hin. apply He. exact (dropcr_incl l eqc Hin).
Qed.

(* NAME=value: the name is the text before the first '=', the value the rest of the line verbatim *)
Theorem line_defines m k v rest : ~ In eqc k -> ~ In lf k -> ~ In lf v -> ends_cr v = false ->
  read_from m ((k ++ eqc :: v) ++ lf :: rest) = read_from ((k, v) :: m) rest.
Proof.
  intros Hk Hkl Hvl Hcr. rewrite read_from_line.
  - rewrite (dropcr_id _ (ends_cr_kv k v Hcr)), (set_flag_spec k v Hk). reflexivity.
  - intros Hin. apply in_app_or in Hin. destruct Hin as [Hin|[Hin|Hin]]; [tauto| |tauto].
    unfold eqc, lf in Hin. discriminate.
Qed.

(* ... and a CRLF line ending reads like an LF one *)
Theorem crlf_line_defines m k v rest : ~ In eqc k -> ~ In lf k -> ~ In lf v ->
  read_from m ((k ++ eqc :: v ++ [cr]) ++ lf :: rest) = read_from ((k, v) :: m) rest.
Proof.
  intros Hk Hkl Hvl. rewrite read_from_line.
  - replace (k ++ eqc :: v ++ [cr]) with ((k ++ eqc :: v) ++ [cr]) by (rewrite <- app_assoc; reflexivity).
    rewrite dropcr_app_cr, (set_flag_spec k v Hk). reflexivity.
  - intros Hin. apply in_app_or in Hin. destruct Hin as [Hin|[Hin|Hin]]; [tauto| |].
    + unfold eqc, lf in Hin. discriminate.
    + apply in_app_or in Hin. destruct Hin as [Hin|[Hin|[]]]; [tauto|]. unfold cr, lf in Hin. discriminate.
Qed.

Definition wf_kv (kv : list nat * list nat) : Prop :=
  ~ In eqc (fst kv) /\ ~ In lf (fst kv) /\ ~ In lf (snd kv) /\ ends_cr (snd kv) = false.

Definition render (kvs : list (list nat * list nat)) : list nat :=
  flat_map (fun kv => (fst kv ++ eqc :: snd kv) ++ [lf]) kvs.

Lemma read_render kvs : forall m, Forall wf_kv kvs -> read_from m (render kvs) = rev kvs ++ m.
Proof.
  induction kvs as [|[k v] kvs IH]; intros m H; [reflexivity|].
  inversion H as [|x l [Hk [Hkl [Hvl Hcr]]] Hrest]; subst. cbn [fst snd] in *.
  unfold render. cbn [flat_map fst snd]. rewrite <- app_assoc. cbn [app].
  change (flat_map _ kvs) with (render kvs).
  rewrite (line_defines m k v (render kvs) Hk Hkl Hvl Hcr), (IH _ Hrest).
  cbn [rev]. rewrite <- app_assoc. reflexivity.
Qed.

(* the whole file: exactly the written definitions, and for a name defined twice the later line wins *)
Theorem env_text_verbatim kvs : Forall wf_kv kvs -> read_env_text (render kvs) = rev kvs.
Proof. intros H. unfold read_env_text. change (apply_sets (lines (render kvs)) []) with (read_from [] (render kvs)). rewrite (read_render kvs [] H). apply app_nil_r. Qed.

Theorem env_text_last_wins kvs k v : Forall wf_kv kvs -> wf_kv (k, v) ->
  vlookup k (read_env_text (render (kvs ++ [(k, v)]))) = Some v.
Proof.
  intros H Hkv. rewrite env_text_verbatim.
  - rewrite rev_unit. cbn [vlookup]. unfold lbeq. destruct (list_eq_dec Nat.eq_dec k k) as [_|N]; [reflexivity|contradiction].
  - apply Forall_app. split; [exact H|]. constructor; [exact Hkv|constructor].
Qed.

(* a final line without LF counts *)
Theorem unterminated_last_line k v : ~ In eqc k -> ~ In lf k -> ~ In lf v -> ends_cr v = false ->
  read_env_text (k ++ eqc :: v) = [(k, v)].
Proof.
  intros Hk Hkl Hvl Hcr. unfold read_env_text, lines.
  assert (G : forall l cur, ~ In lf l -> lines_from cur l = match cur ++ l with [] => [] | _ :: _ => [dropcr (cur ++ l)] end).
  { induction l as [|c l IH]; intros cur Hl.
    - cbn [lines_from]. rewrite app_nil_r. reflexivity.
    - cbn [lines_from]. destruct (Nat.eqb c lf) eqn:E.
      + apply Nat.eqb_eq in E. exfalso. apply Hl. left. exact E.
      + rewrite IH; [|intros Hin; apply Hl; right; exact Hin]. rewrite <- app_assoc. reflexivity. }
  rewrite G.
  - cbn [app]. destruct (k ++ eqc :: v) as [|c l] eqn:E; [destruct k; discriminate|]. rewrite <- E.
    unfold apply_sets. cbn [fold_left]. rewrite (dropcr_id _ (ends_cr_kv k v Hcr)), (set_flag_spec k v Hk). reflexivity.
  - intros Hin. apply in_app_or in Hin. destruct Hin as [Hin|[Hin|Hin]]; [tauto| |tauto]. unfold eqc, lf in Hin. discriminate.
Qed.
