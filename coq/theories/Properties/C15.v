(** C15 - Loading configuration never crashes.   (partial, see the end) *)
From Coq Require Import List Arith Bool.
Import ListNotations.
From TaskctlV Require Import Model.Loader Model.BuildNil Proofs.LoaderSpec Proofs.BuildNilSpec.

(* the import traversal: for EVERY file system (any import structure, any mis-shapen import field, missing and unparsable
   files, directories), every start state and every fuel: never a panic *)
Theorem C15_load_total : forall fs fuel st file, fst (load false fs fuel st file) <> LPanic.
Proof. exact load_no_panic. Qed.
Print Assumptions C15_load_total.
(* ... and it ends: with fuel above the number of existing paths the result is an error or a configuration *)
Theorem C15_load_ends : forall fs U, (forall p, ~ In p U -> fs p = NMissing) -> forall fuel root, length U < fuel ->
  fst (load_top false fs fuel root) = LErr \/ exists d, fst (load_top false fs fuel root) = LOk d.
Proof.
  intros fs U HU fuel root Hf.
  pose proof (load_terminates false fs U HU fuel root Hf) as H1. pose proof (load_no_panic fs fuel init_ls root) as H2.
  unfold load_top in *. destruct (fst (load false fs fuel init_ls root)); try contradiction; eauto.
Qed.
Print Assumptions C15_load_ends.

(* the builders: for EVERY definition, with task / stage / context / watcher bodies possibly nil, and every env file
   (missing, blank lines, lines without '=', several '='): never a panic *)
Theorem C15_build_total : forall files d, build_from_definition false files d <> BPanic.
Proof. exact build_total. Qed.
Print Assumptions C15_build_total.
Theorem C15_envfile_total : forall f, read_env_file false f <> BPanic.
Proof. exact read_env_file_total. Qed.
Print Assumptions C15_envfile_total.

(* non-vacuity / the pinned code: each of these inputs crashed the pinned builders *)
Definition nofiles : nat -> envfile := fun _ => None.
Theorem C15_pinned_refuted_nil_task : build_from_definition true nofiles (mkND [] [None] [] []) = BPanic.
Proof. reflexivity. Qed.
Theorem C15_pinned_refuted_nil_stage : build_from_definition true nofiles (mkND [] [Some (mkTD None)] [] [[None]]) = BPanic.
Proof. reflexivity. Qed.
Theorem C15_pinned_refuted_nil_context : build_from_definition true nofiles (mkND [None] [] [] []) = BPanic.
Proof. reflexivity. Qed.
Theorem C15_pinned_refuted_nil_watcher : build_from_definition true nofiles (mkND [] [Some (mkTD None)] [None] []) = BPanic.
Proof. reflexivity. Qed.
Theorem C15_pinned_refuted_envfile_line : read_env_file true (Some [[1; 2]; [3]]) = BPanic.
Proof. reflexivity. Qed.
Theorem C15_pinned_refuted_envfile_missing : build_from_definition true nofiles (mkND [] [Some (mkTD (Some 0))] [] []) = BPanic.
Proof. reflexivity. Qed.
Example C15_repaired_examples : build_from_definition false nofiles (mkND [None] [None] [None] [[None]]) = BErr
  /\ read_env_file false (Some [[1; 2]; [3]; []; [4; 5; 6]]) = BOk.
Proof. split; reflexivity. Qed.

(* PARTIAL.  The theorems cover taskctl's own code between the decoders and the commands: the import traversal and the
   builders, over every value the decoders can hand over.  Panics or hangs INSIDE yaml.v2, encoding/json, go-toml,
   mapstructure, mergo or doublestar can only be met by executing them: the harness feeds grammar-generated and mutated
   documents in the three formats, and arbitrary env files, to `list`, `show`, `graph` and `validate` of the real binary and
   observes exit status 0/1, absence of panic / fatal error / goroutine dumps, and a wall-clock bound. *)
