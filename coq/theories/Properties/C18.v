(** C18 - A configuration that loads has no dangling references. *)
From Coq Require Import List Arith Bool.
Import ListNotations.
From TaskctlV Require Import Model.Graph Model.Sched Model.Build Proofs.GraphDfs Proofs.SchedLive Proofs.SchedFinal Proofs.BuildSpec Proofs.Acyclic.

(* accepted <-> well-formed: every stage refers to an existing task or pipeline, every depends_on names a stage of the
   same pipeline, every watcher refers to an existing task, stage names are unique within a pipeline, dependencies are
   acyclic (C05), and no pipeline includes itself directly or through other pipelines.  For ALL definitions. *)
Theorem C18_accepted_iff_well_formed : forall d, build_def false d = true <-> well_formed d.
Proof. exact build_def_iff. Qed.
Print Assumptions C18_accepted_iff_well_formed.

(* consequently running a pipeline of an accepted configuration never aborts the process: in EVERY execution of the
   scheduler on it the `unknown task` branch (logrus.Fatal) is unreachable *)
Theorem C18_run_never_aborts : forall d, build_def false d = true ->
  forall p, In p (df_pipelines d) -> forall es s, exec (to_config (snd p)) es s -> fatal s = false.
Proof.
  intros d Hd p Hp es s Hex. apply build_def_iff in Hd. destruct Hd as (_ & _ & Hw).
  eapply wf_deps_never_fatal; [|exact Hex]. eapply accepted_pipeline_wf_deps. exact (Hw p Hp).
Qed.
Print Assumptions C18_run_never_aborts.

(* ... nor hangs because of a bad reference: the inclusion relation between pipelines is acyclic, so the nesting of
   Schedule calls is finite, and at every level C03's progress theorems apply (dependencies known and acyclic) *)
Theorem C18_inclusion_acyclic : forall d, build_def false d = true -> ~ cyclic (declared_edges (inclusion_decls d)).
Proof. intros d Hd. apply build_def_iff in Hd. exact (proj1 (proj2 Hd)). Qed.
Print Assumptions C18_inclusion_acyclic.

(* every pipeline of an accepted configuration meets the hypotheses of the scheduler theorems: its dependencies are known and
   ranked (acyclic) - obtained from the graph builder's "no cycle" by topological sorting with the verified DFS *)
Theorem C18_accepted_pipelines_meet_scheduler_hypotheses : forall d, build_def false d = true ->
  forall p, In p (df_pipelines d) -> acyclic_cfg (to_config (snd p)) /\ wf_deps (to_config (snd p)).
Proof.
  intros d Hd p Hp. apply build_def_iff in Hd. destruct Hd as (_ & _ & Hw). split.
  - eapply accepted_pipeline_acyclic. exact (Hw p Hp).
  - eapply accepted_pipeline_wf_deps. exact (Hw p Hp).
Qed.
Print Assumptions C18_accepted_pipelines_meet_scheduler_hypotheses.

(* hence, for every accepted configuration (no further hypothesis on the graph): a run cannot spin - one full polling pass makes
   progress whenever nothing is running and something waits (C03) - and its outcome does not depend on timing (C02) *)
Theorem C18_accepted_pipelines_make_progress : forall d, build_def false d = true -> forall p, In p (df_pipelines d) ->
  let c := to_config (snd p) in
  forall es0 s, exec c es0 s -> (forall i, i < length c -> st s i <> Running) -> (exists i, i < length c /\ st s i = Waiting) ->
  forall es s', run c s es = Some s' -> (forall i, i < length c -> In (Visit i) es) ->
  (forall j, st s' j = Waiting -> st s j = Waiting) /\ (exists i, i < length c /\ st s i = Waiting /\ st s' i <> Waiting).
Proof.
  intros d Hd p Hp c. destruct (C18_accepted_pipelines_meet_scheduler_hypotheses d Hd p Hp) as [Ha Hw].
  intros es0 s. exact (full_pass_makes_progress c es0 s Ha Hw).
Qed.
Print Assumptions C18_accepted_pipelines_make_progress.
Theorem C18_accepted_pipelines_are_timing_independent : forall d, build_def false d = true -> forall p, In p (df_pipelines d) ->
  let c := to_config (snd p) in
  forall out es1 s1 es2 s2,
  (forall i ok, In (Ret i ok) es1 -> ok = out i) -> (forall i ok, In (Ret i ok) es2 -> ok = out i) ->
  exec c es1 s1 -> exited s1 = true -> pend s1 = [] -> cancelled s1 = false ->
  exec c es2 s2 -> exited s2 = true -> pend s2 = [] -> cancelled s2 = false ->
  forall i, i < length c -> st s1 i = st s2 i.
Proof.
  intros d Hd p Hp c out es1 s1 es2 s2. destruct (C18_accepted_pipelines_meet_scheduler_hypotheses d Hd p Hp) as [Ha Hw].
  apply (same_final_statuses c out es1 s1 es2 s2); [now apply acyclic_cfg_equiv | exact Hw |].
  (* stages built by to_config carry no condition *)
  intros i. unfold c, to_config, cond_of, stage_of.
  destruct (Nat.lt_ge_cases i (length (snd p))) as [Hi|Hi].
  - rewrite (nth_indep _ dflt (mkStage (map (fun d0 => index_of d0 (map stage_name (snd p))) (sd_deps (mkSD 0 0 0 []))) false CNone)) by now rewrite map_length.
    rewrite (map_nth (fun s => mkStage (map (fun d0 => index_of d0 (map stage_name (snd p))) (sd_deps s)) false CNone)). discriminate.
  - rewrite nth_overflow by now rewrite map_length. discriminate.
Qed.
Print Assumptions C18_accepted_pipelines_are_timing_independent.

(* non-vacuity: two pipelines, one including the other, a diamond of dependencies, a watcher *)
Definition ex_def : defn := mkDef [10; 11; 12]
  [(20, [mkSD 0 10 0 []; mkSD 31 11 0 [10]; mkSD 32 11 0 [10]; mkSD 0 12 0 [31; 32]; mkSD 0 0 21 [12]]);
   (21, [mkSD 0 10 0 []])]
  [(40, 12)].
Example C18_nonvacuous : build_def false ex_def = true.
Proof. vm_compute. reflexivity. Qed.

(* the pinned builder accepted an unknown depends_on (the process then died in the scheduler) and a self-including pipeline *)
Definition bad_dep : defn := mkDef [10] [(20, [mkSD 0 10 0 [99]])] [].
Definition self_incl : defn := mkDef [10] [(20, [mkSD 0 10 0 []; mkSD 0 0 20 []])] [].
Theorem C18_pinned_refuted_unknown_dep : build_def true bad_dep = true /\ ~ well_formed bad_dep
  /\ exists es s, exec (to_config (snd (20, [mkSD 0 10 0 [99]]))) es s /\ fatal s = true.
Proof.
  split; [vm_compute; reflexivity|]. split.
  - intros H. apply build_def_iff in H. vm_compute in H. discriminate.
  - exists [Visit 0]. eexists. split; vm_compute; reflexivity.
Qed.
Print Assumptions C18_pinned_refuted_unknown_dep.
Theorem C18_pinned_refuted_self_include : build_def true self_incl = true /\ ~ well_formed self_incl.
Proof. split; [vm_compute; reflexivity|]. intros H. apply build_def_iff in H. vm_compute in H. discriminate. Qed.
Print Assumptions C18_pinned_refuted_self_include.
