(** C10 - Template variables and CLI arguments reach commands with a fixed precedence. *)
From Coq Require Import List Arith NArith ZArith Bool.
Import ListNotations.
From TaskctlV Require Import Model.Stage Model.Env Proofs.EnvSpec Model.Cli Proofs.CliSpec Model.TaskRun Proofs.TaskRunSpec Model.SetFlag Proofs.SetFlagSpec.

Theorem C10_precedence : forall V name,
  lookup name (vars_seen V) =
  first_some [ lookup name (v_stage V); lookup name (v_task V); lookup name (v_args V); lookup name (v_set V);
               lookup name (v_cfg V); lookup name (v_global V); lookup name (v_defaults V) ].
Proof. exact vars_precedence. Qed.
Print Assumptions C10_precedence.

(* Root, TempDir (defaults) and Args, ArgsList (set for every run) are always defined *)
Theorem C10_builtins : forall V k, (lookup k (v_defaults V) <> None \/ lookup k (v_args V) <> None) -> lookup k (vars_seen V) <> None.
Proof. exact builtins_defined. Qed.
Print Assumptions C10_builtins.

(* argv (0 stands for "--"): the targets are exactly the words before the first "--", the task arguments exactly the words
   after it, verbatim and in order; no word after "--" is a target *)
Theorem C10_args_split : forall argv,
  (forall w, In w (targets_of argv) -> is_dash w = false) /\
  (argv = targets_of argv ++ (if existsb is_dash argv then 0 :: task_args argv else [])).
Proof. exact argv_split. Qed.
Print Assumptions C10_args_split.

(* a command that refers to an undefined variable cannot be started ([NoStart]): it is the job that ends the task, it leaves
   no token - it never executes - and the task is reported as failed *)
Theorem C10_undefined_variable_fails_before_executing : forall t p j,
  cond_passes t -> first_index before_fails_b (t_before t) = None ->
  first_index (stops (t_allow t)) (jobs t) = Some p -> nth_error (jobs t) p = Some j -> job_res j = NoStart ->
  job_tok j = [] /\ o_err (run_task t) = true /\ o_errored (run_task t) = true
  /\ o_trace (run_task t) = cond_tok t ++ before_toks 0 (t_before t) (length (t_before t)) ++ flat_map job_tok (firstn (S p) (jobs t)).
Proof.
  intros t p j Hc Hb Hp Hj Hn. destruct (stops_at_first_failure t p Hc Hb Hp) as (Htr & He & Hed & _).
  split; [unfold job_tok; rewrite Hn; reflexivity|]. repeat split; assumption.
Qed.
Print Assumptions C10_undefined_variable_fails_before_executing.
(* ... also with allow_failure: a NoStart job always stops (it is not an exit status) *)
Theorem C10_undefined_stops_even_if_allowed : forall allow j, job_res j = NoStart -> stops allow j = true.
Proof. intros allow j H. unfold stops. rewrite H. reflexivity. Qed.
Print Assumptions C10_undefined_stops_even_if_allowed.

(* `--set name=value`: the name is the text before the FIRST '=', the value everything after it, verbatim (further '=' included,
   possibly empty); a flag without '=' sets nothing; the last --set of a name wins.  [set_flag_iff] is the complete description. *)
Theorem C10_set_flag_splits_at_first_equals : forall s k v, set_flag s = Some (k, v) <-> (s = k ++ eqc :: v /\ ~ In eqc k).
Proof. exact set_flag_iff. Qed.
Print Assumptions C10_set_flag_splits_at_first_equals.
Theorem C10_set_flag_without_equals_sets_nothing : forall s, ~ In eqc s -> set_flag s = None.
Proof. exact set_flag_none. Qed.
Print Assumptions C10_set_flag_without_equals_sets_nothing.
Theorem C10_last_set_wins : forall flags k v m, ~ In eqc k -> vlookup k (apply_sets (flags ++ [k ++ eqc :: v]) m) = Some v.
Proof. exact last_set_wins. Qed.
Print Assumptions C10_last_set_wins.
Example C10_set_flag_example : set_flag [118; 61; 97; 61; 98] = Some ([118], [97; 61; 98]) /\ set_flag [118; 61] = Some ([118], []) /\ set_flag [118] = None.
Proof. repeat split; reflexivity. Qed.

(* non-vacuity, and the pinned taskArgs (last "--", nothing if it is the last word) *)
Example C10_split_example : targets_of [5; 6; 0; 7; 0; 8] = [5; 6] /\ task_args [5; 6; 0; 7; 0; 8] = [7; 0; 8].
Proof. split; reflexivity. Qed.
Theorem C10_pinned_refuted_dashdash : exists argv, task_args_legacy argv <> task_args argv.
Proof. exists [5; 0; 7; 0; 8]. vm_compute. discriminate. Qed.
Print Assumptions C10_pinned_refuted_dashdash.
