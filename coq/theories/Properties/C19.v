(** C19 - Output decoration never loses or mixes task output; format is presentation only.   (partial, see the end) *)
From Coq Require Import List Arith NArith Bool.
Import ListNotations.
From TaskctlV Require Import Model.Prefixed Model.Regex Model.Locks Proofs.PrefixedSpec Proofs.LocksSpec.

(* raw output forwards a task's bytes unchanged and in order *)
Theorem C19_raw_identity : forall chunks, concat (raw_writes chunks) = concat chunks /\ raw_writes chunks = chunks.
Proof. exact raw_identity. Qed.
Print Assumptions C19_raw_identity.

(* prefixed output emits whole lines, each carrying exactly one task's name: every Write that reaches the sink is
   <name prefix> ++ strip(line) ++ CR LF for a non-empty line without LF, for ANY stripping function *)
Theorem C19_prefixed_whole_lines : forall strip name chunks,
  Forall (fun w => exists line, line <> [] /\ ~ In LF line /\ w = prefix name ++ strip line ++ [CR; LF]) (prefixed_writes strip name chunks).
Proof. exact prefixed_whole_lines. Qed.
Print Assumptions C19_prefixed_whole_lines.

(* nothing lost, duplicated or reordered: for every stream and EVERY splitting into Write calls that does not cut an
   escape sequence, and every stripping function that is local to lines (as the ANSI expression is) *)
Theorem C19_prefixed_faithful : forall strip, strip [] = [] ->
  (forall a nl b, nl = LF \/ nl = CR -> strip (a ++ nl :: b) = strip a ++ nl :: strip b) ->
  forall chunks, strip_safe strip chunks -> rmnl (concat (payloads strip chunks)) = rmnl (strip (concat chunks)).
Proof. exact prefixed_faithful. Qed.
Print Assumptions C19_prefixed_faithful.

(* any interleaving of concurrent tasks at the (synchronised) sink: selecting the writes of task t gives t's own writes
   in t's own order - nothing is attributed to another task *)
Theorem C19_interleaving : forall (A : Type) (f : nat -> list A) l, interleaving f l ->
  forall t, map snd (filter (fun x => Nat.eqb (fst x) t) l) = f t.
Proof. exact @interleaving_projects. Qed.
Print Assumptions C19_interleaving.

(* no sequence of task outcomes (success, failure, skipped, failing before-hook, condition error) crashes the cockpit layer *)
Theorem C19_cockpit_no_crash : forall ks, cockpit_run true ks <> CPanic.
Proof. exact cockpit_never_panics. Qed.
Print Assumptions C19_cockpit_no_crash.

(* ... nor hang: the repaired cockpit takes its three mutexes in one order (spinnerMu < the spinner's lock < the cockpit
   mutex), so NO reachable state of any number of decorators, each adding and removing tasks any number of times, next to a
   spinner goroutine drawing any number of frames, has every unfinished thread blocked.  General fact first: *)
Theorem C19_lock_order_excludes_deadlock : forall L s, LocksSpec.Inv s -> bounded L s -> finished s = false -> exists t s', lstep s t = Some s'.
Proof. exact ordered_never_stuck. Qed.
Print Assumptions C19_lock_order_excludes_deadlock.
Theorem C19_cockpit_no_deadlock : forall n r k ts s, lrun (cockpit_sys true n r k) ts = Some s -> finished s = false ->
  exists t s', lstep s t = Some s'.
Proof. exact cockpit_fixed_never_stuck. Qed.
Print Assumptions C19_cockpit_no_deadlock.
(* the pinned remove restarted the spinner while holding the cockpit mutex: one decorator and one frame suffice to dead-lock *)
Theorem C19_pinned_refuted_cockpit_deadlock : exists ts s, lrun (cockpit_sys false 1 1 1) ts = Some s /\ stuck s = true.
Proof. exists [1; 1; 1; 0], (match lrun (cockpit_sys false 1 1 1) [1; 1; 1; 0] with Some s => s | None => [] end). split; vm_compute; reflexivity. Qed.
Print Assumptions C19_pinned_refuted_cockpit_deadlock.
Example C19_cockpit_nonvacuous : exists s, lrun (cockpit_sys true 2 1 1) [1; 1; 0; 2; 2; 0; 0; 1; 1; 1] = Some s /\ finished s = false.
Proof. eexists. split; vm_compute; reflexivity. Qed.

(* non-vacuity: a stream cut inside a line and inside a CR LF pair, with a complete escape sequence in one chunk *)
Definition ex_chunks : list (list N) := [[97; 27; 91; 51; 49; 109; 98]; [99; 13]; [10; 100; 10]]%N.
Example C19_nonvacuous_safe : strip_safe strip_ansi ex_chunks.
Proof. vm_compute. repeat split. Qed.
Example C19_nonvacuous_value : payloads strip_ansi ex_chunks = [[97; 98]; [99]; [100]]%N
  /\ rmnl (strip_ansi (concat ex_chunks)) = [97; 98; 99; 100]%N.
Proof. split; vm_compute; reflexivity. Qed.

(* the full statement ("for any chunking") is FALSE of the code as it is: a Write boundary inside an escape sequence
   leaks the tail of the sequence (known finding K1).  "ab ESC[3" | "1mcd LF" *)
Theorem C19_refuted_ansi_straddle : exists chunks,
  rmnl (concat (payloads strip_ansi chunks)) <> rmnl (strip_ansi (concat chunks)).
Proof. exists [[97; 98; 32; 27; 91; 51]; [49; 109; 99; 100; 10]]%N. vm_compute. discriminate. Qed.
Print Assumptions C19_refuted_ansi_straddle.

(* the pinned cockpit decorator crashed on a task that never started its output *)
Theorem C19_pinned_refuted_cockpit_skipped : cockpit_run false [KSkipped] = CPanic.
Proof. vm_compute. reflexivity. Qed.
Print Assumptions C19_pinned_refuted_cockpit_skipped.

(* PARTIAL.  Proved for the model: the four theorems above.  Not exhibited by the model, observed by the harness only:
   that one Write on the real sink is atomic (the property observes at a synchronised sink), that the real ANSI regexp
   is local to lines (it is validated against Go's regexp by differential runs; none of its classes contains CR or LF),
   the internals of the third-party spinner (its goroutine's own protocol beyond `lock; PreUpdate; unlock`), and that a task's recorded result does not depend on the
   format (in the model run_task has no format parameter at all; the harness runs every outcome under the three formats). *)
