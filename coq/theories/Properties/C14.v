(** C14 - Execution-context hooks run the right number of times, in the right order. *)
From Coq Require Import List Arith Bool.
Import ListNotations.
From TaskctlV Require Import Model.Ctx Proofs.CtxInv Proofs.CtxSpec.

(* [creach g es s]: s is reached by letting the runs take steps in the order es - ANY order, any number of runs over any
   number of contexts: "however they overlap in time" is [forall es]. *)

Theorem C14_no_hook_twice : forall g es s, creach g es s -> forall t, count_occ ctok_eq_dec (ctrace s) t <= 1.
Proof. exact every_token_at_most_once. Qed.
Print Assumptions C14_no_hook_twice.

Theorem C14_up_exactly_once : forall g es s, creach g es s -> forall r, 1 <= pc s r ->
  count_occ ctok_eq_dec (ctrace s) (UpB (ctx_of g r)) = 1.
Proof. exact up_exactly_once_if_used. Qed.
Print Assumptions C14_up_exactly_once.

(* up has completed before any hook or command of any task of that context; context-before precedes the task,
   context-after follows it *)
Theorem C14_order : forall g es s, creach g es s -> forall l2 t l1, ctrace s = l2 ++ t :: l1 ->
    (forall r, run_tok t r -> In (UpE (ctx_of g r)) l1)
    /\ (forall r, t = Body r -> In (CBef r) l1) /\ (forall r, t = CAft r -> In (Body r) l1).
Proof. exact hooks_in_order. Qed.
Print Assumptions C14_order.

Theorem C14_up_fails : forall g es s, creach g es s -> forall r, up_ok g (ctx_of g r) = false ->
  ~ In (CBef r) (ctrace s) /\ ~ In (Body r) (ctrace s) /\ ~ In (CAft r) (ctrace s) /\ (pc s r = 6 -> rerr s r = true).
Proof. exact up_fails_nothing_runs. Qed.
Print Assumptions C14_up_fails.

Theorem C14_before_and_after_once_each : forall g es s, creach g es s -> forall r, pc s r = 6 -> In (Body r) (ctrace s) ->
  count_occ ctok_eq_dec (ctrace s) (CAft r) = 1 /\ count_occ ctok_eq_dec (ctrace s) (CBef r) = 1
  /\ rerr s r = negb (body_ok g r).
Proof. exact after_runs_once_also_on_failure. Qed.
Print Assumptions C14_before_and_after_once_each.

Theorem C14_down_once_for_used_contexts : forall g es s, creach g es s ->
  exists downs, ctrace (cfinish g s) = rev (map Down downs) ++ ctrace s /\ NoDup downs
    /\ (forall c, In c downs <-> exists r, r < nruns g /\ pc s r <> 0 /\ ctx_of g r = c)
    /\ (forall c, ~ In (Down c) (ctrace s)).
Proof. exact finish_runs_down_once. Qed.
Print Assumptions C14_down_once_for_used_contexts.

Theorem C14_second_finish_runs_nothing : forall g s, ctrace (cfinish g (cfinish g s)) = ctrace (cfinish g s).
Proof. exact second_finish_runs_nothing. Qed.
Print Assumptions C14_second_finish_runs_nothing.

Theorem C14_nothing_after_finish : forall g s r, cstep g (cfinish g s) r = None.
Proof. exact nothing_runs_after_finish. Qed.
Print Assumptions C14_nothing_after_finish.

(* non-vacuity: three runs, contexts 0,0,1; run 1 arrives while run 0 is still inside up (it is blocked), the task of run 0 fails *)
Definition g3 := mkCC (fun r => if Nat.eqb r 2 then 1 else 0) (fun _ => true) (fun _ => true) (fun r => negb (Nat.eqb r 0)) 3.
Example C14_blocked_during_up : exists s, creach g3 [0] s /\ cstep g3 s 1 = None.
Proof. eexists. split; vm_compute; reflexivity. Qed.
Example C14_nonvacuous : exists s, creach g3 [0; 2; 0; 1; 0; 1; 0; 1; 0; 2; 1; 0; 1; 2; 2; 2; 2] s
  /\ rev (ctrace (cfinish g3 s)) = [UpB 0; UpB 1; UpE 0; CBef 0; CBef 1; Body 0; UpE 1; Body 1; CAft 0; CAft 1; CBef 2; Body 2; CAft 2; Down 0; Down 1]
  /\ rerr s 0 = true /\ rerr s 1 = false.
Proof. eexists. split; [vm_compute; reflexivity|]. repeat split; vm_compute; reflexivity. Qed.
