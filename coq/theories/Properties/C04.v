(** C04 - Stages with no dependency between them run concurrently. *)
From Coq Require Import List Arith Bool.
Import ListNotations.
From TaskctlV Require Import Model.Sched Proofs.SchedInv Proofs.SchedInv2 Proofs.SchedLive.

(* [eligible c s i]: i is Waiting, its condition does not exclude it, all its dependencies are satisfied.
   Any stretch [es] of the run that contains i's visit starts i - whatever else [es] contains (completions of other
   stages or none at all, other visits, cancellation): starting a stage never waits for another stage to finish. *)
Theorem C04_eligible_gets_started : forall c es s s' i,
  inv c s -> invB c s -> run c s es = Some s' -> In (Visit i) es -> eligible c s i -> In (OStart i) (log s').
Proof. exact eligible_gets_started. Qed.
Print Assumptions C04_eligible_gets_started.

(* in particular one polling pass with NO completion in it puts all eligible stages in flight together *)
Theorem C04_in_flight_together : forall c es s s',
  inv c s -> invB c s -> run c s es = Some s' -> (forall e, In e es -> exists j, e = Visit j) ->
  forall i, (In (Visit i) es /\ eligible c s i) \/ st s i = Running -> st s' i = Running.
Proof. exact eligible_in_flight_together. Qed.
Print Assumptions C04_in_flight_together.

(* the invariants hold in every reachable state *)
Theorem C04_reachable_states_satisfy_invariants : forall c es s, exec c es s -> inv c s /\ invB c s.
Proof. exact exec_inv. Qed.
Print Assumptions C04_reachable_states_satisfy_invariants.

(* non-vacuity (the rendezvous pipeline): three independent stages, one pass, all three Running, none returned *)
Definition par3 : config := [mkStage [] false CNone; mkStage [] false CNone; mkStage [] false CNone].
Example C04_nonvacuous : exists s, exec par3 [Visit 1; Visit 0; Visit 2] s /\ map (st s) [0; 1; 2] = [Running; Running; Running].
Proof. eexists. split; vm_compute; reflexivity. Qed.
Example C04_eligible_initially : eligible par3 init 1.
Proof. unfold eligible, runnable. cbn. repeat split; try discriminate; auto. intros d []. Qed.
