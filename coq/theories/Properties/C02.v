(** C02 - A failure cancels exactly its dependants; the outcome does not depend on timing. *)
From Coq Require Import List Arith Bool.
Import ListNotations.
From TaskctlV Require Import Model.Sched Proofs.SchedInv Proofs.SchedLive Proofs.SchedFinal Corr.SchedAccept.

(* The declarative end state [Final c out i x] (Proofs/SchedFinal.v) mentions no schedule:
     FSkip : condition false                                   -> Skipped
     FCanc : runnable, some dependency ends Error or Canceled  -> Canceled
     FRun  : runnable, every dependency ends Done or Skipped   -> Done if the task succeeds or failure is allowed, else Error *)

(* whatever the interleaving, a complete uncancelled run ends with every stage in its Final status *)
Theorem C02_final_at_return : forall c out es s,
  wf_deps c -> no_cond_err c -> (forall i ok, In (Ret i ok) es -> ok = out i) ->
  exec c es s -> exited s = true -> pend s = [] -> cancelled s = false ->
  forall i, i < length c -> Final c out i (st s i).
Proof. exact final_at_return. Qed.
Print Assumptions C02_final_at_return.

Theorem C02_final_functional : forall c out, acyclic c -> forall i a b, Final c out i a -> Final c out i b -> a = b.
Proof. exact Final_functional. Qed.
Print Assumptions C02_final_functional.

(* timing independence *)
Theorem C02_timing_independent : forall c out es1 s1 es2 s2,
  acyclic c -> wf_deps c -> no_cond_err c ->
  (forall i ok, In (Ret i ok) es1 -> ok = out i) -> (forall i ok, In (Ret i ok) es2 -> ok = out i) ->
  exec c es1 s1 -> exited s1 = true -> pend s1 = [] -> cancelled s1 = false ->
  exec c es2 s2 -> exited s2 = true -> pend s2 = [] -> cancelled s2 = false ->
  forall i, i < length c -> st s1 i = st s2 i.
Proof. exact same_final_statuses. Qed.
Print Assumptions C02_timing_independent.

(* the run reports an error exactly when a stage that does not allow failure ended in Error: its task failed, or its condition
   could not be evaluated *)
Theorem C02_error_reported : forall c es s, exec c es s -> pend s = [] ->
  (gerr s = true <-> exists i, i < length c /\ st s i = Error /\ allow_of c i = false).
Proof. exact error_iff_some_stage_failed. Qed.
Print Assumptions C02_error_reported.
(* when every condition can be evaluated no allowed failure stays in Error, so: an error iff some stage ended in Error *)
Theorem C02_error_reported_iff_any_error : forall c es s, no_cond_err c -> exec c es s -> pend s = [] ->
  (gerr s = true <-> exists i, i < length c /\ st s i = Error).
Proof. exact error_iff_some_stage_in_error. Qed.
Print Assumptions C02_error_reported_iff_any_error.
(* the pinned code left g.error unset when a condition could not be evaluated: one stage, condition CErr, not allowed:
   the pinned transition ends in Error with no error to report *)
Theorem C02_pinned_refuted_condition_error :
  let c := [mkStage [] false CErr] in
  let pinned := mkState (upd (st init) 0 Error) true (gerr init) (log init) (pend init) false false in
  st pinned 0 = Error /\ allow_of c 0 = false /\ gerr pinned = false /\
  exists s, step c init (Visit 0) = Some s /\ gerr s = true.
Proof. cbv zeta. repeat split. eexists. split; reflexivity. Qed.
Print Assumptions C02_pinned_refuted_condition_error.

(* exactly the transitive dependants are cancelled (through stages that are not skipped by their own condition) *)
Theorem C02_cancel_exactly_dependants : forall c out, acyclic c -> forall i,
  Final c out i Canceled <-> (runnable_cond c i /\ exists f, Final c out f Error /\ blocking_path c f i).
Proof. exact canceled_iff_blocked. Qed.
Print Assumptions C02_cancel_exactly_dependants.

(* every other stage runs: the stages that ran are exactly those ending Done or Error *)
Theorem C02_others_run : forall c es s, no_cond_err c -> exec c es s -> exited s = true -> cancelled s = false ->
  forall i, i < length c -> (In (OStart i) (log s) <-> (st s i = Done \/ st s i = Error)).
Proof. exact ran_iff_done_or_error. Qed.
Print Assumptions C02_others_run.

(* an allowed failure / a stage skipped by its condition never ends in Error, hence cancels nothing and sets no error *)
Theorem C02_soft_blocks_nothing : forall c out i x, Final c out i x -> (allow_of c i = true \/ cond_of c i = CFalse) -> x <> Error.
Proof. exact soft_outcomes_are_not_errors. Qed.
Print Assumptions C02_soft_blocks_nothing.

(* non-vacuity: 0 fails hard, 1 depends on 0 (cancelled), 2 fails with allow_failure, 3 depends on 2 (runs) *)
Definition cfg4 : config := [mkStage [] false CNone; mkStage [0] false CNone; mkStage [] true CNone; mkStage [2] false CNone].
Definition run4 : list event := [Visit 0; Visit 2; Ret 2 false; Ret 0 false; Visit 1; Fin 2; Visit 3; Ret 3 true; Exit].
Example C02_nonvacuous : exists s, exec cfg4 run4 s /\ map (fun i => status_code (st s i)) [0; 1; 2; 3] = [4; 5; 3; 3] /\ gerr s = true
  /\ exited s = true /\ pend s = [] /\ cancelled s = false.
Proof. eexists. split; [vm_compute; reflexivity|]. repeat split; vm_compute; reflexivity. Qed.
