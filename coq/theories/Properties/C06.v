(** C06 - Commands of a task run one at a time, in order, and stop at the first failure. *)
From Coq Require Import List Arith NArith ZArith Bool.
Import ListNotations.
From TaskctlV Require Import Model.TaskRun Proofs.TaskRunSpec.

(* [jobs t] is the variation-major list of (variation, command, run); [o_trace] is the ordered list of what executed.
   The model has no concurrency inside a task: each token's command starts after the previous one's result is known,
   so the order of [o_trace] IS the execution order (the harness checks the same order in the real trace file). *)

(* a condition that exits non-zero prevents everything and marks the task skipped *)
Theorem C06_condition_false_skips : forall t n, t_cond t = Some (Exit (Npos n)) ->
  run_task t = mkOut [TCond] false false true (-1) [] false.
Proof. exact skipped_by_condition. Qed.
Print Assumptions C06_condition_false_skips.

(* a failing before hook (k-th, the first that fails) prevents all commands and all after hooks *)
Theorem C06_failing_before_prevents_commands : forall t k, cond_passes t -> first_index before_fails_b (t_before t) = Some k ->
  run_task t = mkOut (cond_tok t ++ before_toks 0 (t_before t) (S k)) true false false 0 [] false.
Proof. exact before_fails. Qed.
Print Assumptions C06_failing_before_prevents_commands.

(* the first command that ends the task (a failure with allow_failure off, or any non-exit error) is the last thing that
   runs: exactly the jobs up to and including it, in variation-major order, no after hook.  Any exit status 1..255: n : N *)
Theorem C06_stops_at_first_failure : forall t p, cond_passes t -> first_index before_fails_b (t_before t) = None ->
  first_index (stops (t_allow t)) (jobs t) = Some p ->
  o_trace (run_task t) = cond_tok t ++ before_toks 0 (t_before t) (length (t_before t)) ++ flat_map job_tok (firstn (S p) (jobs t))
  /\ o_err (run_task t) = true /\ o_errored (run_task t) = true /\ o_skipped (run_task t) = false
  /\ o_stored (run_task t) = false
  /\ o_output (run_task t) = flat_map job_out (firstn (S p) (jobs t)).
Proof. exact stops_at_first_failure. Qed.
Print Assumptions C06_stops_at_first_failure.

(* otherwise (all succeed, or failures are allowed) everything runs: before hooks, every command of every variation in
   order, then the after hooks once each *)
Theorem C06_runs_everything : forall t, cond_passes t -> first_index before_fails_b (t_before t) = None ->
  first_index (stops (t_allow t)) (jobs t) = None ->
  run_task t = mkOut (cond_tok t ++ before_toks 0 (t_before t) (length (t_before t)) ++ flat_map job_tok (jobs t) ++ run_after (t_after t))
                     false false false 0 (flat_map job_out (jobs t)) true.
Proof. exact runs_everything. Qed.
Print Assumptions C06_runs_everything.

(* non-vacuity: 2 variations x 2 commands, second command of the first variation exits 7 *)
Definition ok_run := mkRun (Exit 0) [].
Definition t22 (allow : bool) := mkTask None [Exit 0%N] [[ok_run; mkRun (Exit 7) []]; [ok_run; ok_run]] [Exit 0%N] allow.
Example C06_stop : o_trace (run_task (t22 false)) = [TBefore 0; TCmd 0 0; TCmd 0 1].
Proof. vm_compute. reflexivity. Qed.
Example C06_allow : o_trace (run_task (t22 true)) = [TBefore 0; TCmd 0 0; TCmd 0 1; TCmd 1 0; TCmd 1 1; TAfter 0].
Proof. vm_compute. reflexivity. Qed.
Example C06_stop_hyp : first_index (stops false) (jobs (t22 false)) = Some 1.
Proof. vm_compute. reflexivity. Qed.
