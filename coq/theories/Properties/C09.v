(** C09 - Environment and working directory are layered with a fixed precedence. *)
From Coq Require Import List Arith Bool.
Import ListNotations.
From TaskctlV Require Import Model.Stage Model.Env Proofs.EnvSpec Model.SetFlag Model.EnvFile Proofs.EnvFileSpec.

(* for all eight layers with arbitrary names and VALUES: the highest level that defines the name wins *)
Theorem C09_precedence : forall L name,
  proc_lookup L name =
  first_some [ lookup name (e_variation L); lookup name (e_stage L); lookup name (e_task L); lookup name (e_envfile L);
               (if Nat.eqb name (fst (e_tname L)) then Some (snd (e_tname L)) else None);
               lookup name (e_ctx L); lookup name (e_runner L); lookup name (e_parent L) ].
Proof. exact env_precedence. Qed.
Print Assumptions C09_precedence.

Theorem C09_passthrough : forall L name,
  lookup name (e_variation L) = None -> lookup name (e_stage L) = None -> lookup name (e_task L) = None ->
  lookup name (e_envfile L) = None -> name <> fst (e_tname L) -> lookup name (e_ctx L) = None -> lookup name (e_runner L) = None ->
  proc_lookup L name = lookup name (e_parent L).
Proof. exact env_passthrough. Qed.
Print Assumptions C09_passthrough.

Theorem C09_task_name : forall L,
  lookup (fst (e_tname L)) (e_variation L) = None -> lookup (fst (e_tname L)) (e_stage L) = None ->
  lookup (fst (e_tname L)) (e_task L) = None -> lookup (fst (e_tname L)) (e_envfile L) = None ->
  proc_lookup L (fst (e_tname L)) = Some (snd (e_tname L)).
Proof. exact env_task_name. Qed.
Print Assumptions C09_task_name.

(* the condition and the before / after hooks get the same layers without a variation (Run passes them the environment it
   built before CompileTask adds the variation) *)
Theorem C09_hooks_and_condition : forall L name, e_variation L = [] ->
  proc_lookup L name =
  first_some [ lookup name (e_stage L); lookup name (e_task L); lookup name (e_envfile L);
               (if Nat.eqb name (fst (e_tname L)) then Some (snd (e_tname L)) else None);
               lookup name (e_ctx L); lookup name (e_runner L); lookup name (e_parent L) ].
Proof. intros L name H. rewrite env_precedence, H. reflexivity. Qed.
Print Assumptions C09_hooks_and_condition.

(* one function, [job_dir], serves commands, before hooks, after hooks and the condition (CompileCommand) *)
Theorem C09_dir : forall D, job_dir D = first_nonzero [d_stage D; d_task D; d_ctx D; d_start D].
Proof. exact dir_precedence. Qed.
Print Assumptions C09_dir.

(* the env_file level, from the file's text: a file of NAME=value lines (names without '=', no line feed inside, values not
   ending in CR) defines exactly what is written, values verbatim (further '=' included), the later line winning for a
   name defined twice; lines without '=' define nothing; CRLF line ends read like LF; a last line without LF counts *)
Theorem C09_env_file_verbatim : forall kvs, Forall wf_kv kvs -> read_env_text (render kvs) = rev kvs.
Proof. exact env_text_verbatim. Qed.
Print Assumptions C09_env_file_verbatim.
Theorem C09_env_file_last_line_wins : forall kvs k v, Forall wf_kv kvs -> wf_kv (k, v) ->
  vlookup k (read_env_text (render (kvs ++ [(k, v)]))) = Some v.
Proof. exact env_text_last_wins. Qed.
Print Assumptions C09_env_file_last_line_wins.
Theorem C09_env_file_other_lines_define_nothing : forall m l rest, ~ In lf l -> ~ In eqc l ->
  read_from m (l ++ lf :: rest) = read_from m rest.
Proof. exact line_without_equals_defines_nothing. Qed.
Print Assumptions C09_env_file_other_lines_define_nothing.
Theorem C09_env_file_crlf : forall m k v rest, ~ In eqc k -> ~ In lf k -> ~ In lf v ->
  read_from m ((k ++ eqc :: v ++ [cr]) ++ lf :: rest) = read_from ((k, v) :: m) rest.
Proof. exact crlf_line_defines. Qed.
Print Assumptions C09_env_file_crlf.
Theorem C09_env_file_unterminated_last_line : forall k v, ~ In eqc k -> ~ In lf k -> ~ In lf v -> ends_cr v = false ->
  read_env_text (k ++ eqc :: v) = [(k, v)].
Proof. exact unterminated_last_line. Qed.
Print Assumptions C09_env_file_unterminated_last_line.
Example C09_env_file_example :
  read_env_text [65; 61; 49; 61; 50; 10; 10; 35; 120; 10; 66; 61; 13; 10; 65; 61; 51] = [([65], [51]); ([66], []); ([65], [49; 61; 50])].
Proof. reflexivity. Qed.

(* non-vacuity and the pinned defect: parent X=9 (sorts above), task env X=1: the task's value must win *)
Definition Lx := mkEnvL [(7, 9)] [] [] (0, 100) [] [(7, 1)] [] [].
Example C09_nonvacuous : proc_lookup Lx 7 = Some 1.
Proof. reflexivity. Qed.
Theorem C09_pinned_refuted : exists L name, proc_lookup_legacy L name <> first_some
  [ lookup name (e_variation L); lookup name (e_stage L); lookup name (e_task L); lookup name (e_envfile L);
    (if Nat.eqb name (fst (e_tname L)) then Some (snd (e_tname L)) else None);
    lookup name (e_ctx L); lookup name (e_runner L); lookup name (e_parent L) ].
Proof. exists Lx, 7. vm_compute. discriminate. Qed.
Print Assumptions C09_pinned_refuted.
