(** C03 - Every pipeline run terminates and runs each eligible stage exactly once. *)
From Coq Require Import Lia List Arith Bool.
Import ListNotations.
From TaskctlV Require Import Model.Sched Proofs.SchedInv Proofs.SchedInv2 Proofs.SchedLive Proofs.SchedTerm.

Theorem C03_no_stage_runs_twice : forall c es s, exec c es s -> forall i, count_occ Nat.eq_dec (starts (log s)) i <= 1.
Proof. exact never_twice. Qed.
Print Assumptions C03_no_stage_runs_twice.

Theorem C03_on_return_nothing_waiting_or_running : forall c es s,
  exec c es s -> exited s = true -> cancelled s = false ->
  forall i, i < length c -> st s i <> Waiting /\ st s i <> Running.
Proof. exact on_return_settled. Qed.
Print Assumptions C03_on_return_nothing_waiting_or_running.

Theorem C03_eligible_ran_exactly_once : forall c es s,
  exec c es s -> exited s = true -> cancelled s = false ->
  forall i, i < length c -> runnable c i -> (forall d, In d (deps_of c i) -> sat_status c (st s) d) ->
  count_occ Nat.eq_dec (starts (log s)) i = 1.
Proof. exact eligible_ran_once. Qed.
Print Assumptions C03_eligible_ran_exactly_once.

Theorem C03_only_runnable_stages_run : forall c es s, exec c es s -> forall i, In (OStart i) (log s) -> runnable c i.
Proof. exact not_started_unless_eligible. Qed.
Print Assumptions C03_only_runnable_stages_run.

(* Termination, as a progress argument (no coinduction needed): in every reachable state of an acyclic pipeline without
   dangling references, either a task is running (it terminates by hypothesis and its return is enabled:
   C03_running_can_return), or a goroutine is finishing (C03_pending_can_finish), or everything is settled and the loop can
   leave (C03_settled_can_exit), or ONE full polling pass - with anything interleaved - strictly shrinks the set of Waiting
   stages (C03_full_pass_makes_progress).  The set is finite, so every fair run returns. *)
Theorem C03_full_pass_makes_progress : forall c es0 s,
  acyclic_cfg c -> wf_deps c -> exec c es0 s ->
  (forall i, i < length c -> st s i <> Running) -> (exists i, i < length c /\ st s i = Waiting) ->
  forall es s', run c s es = Some s' -> (forall i, i < length c -> In (Visit i) es) ->
  (forall j, st s' j = Waiting -> st s j = Waiting) /\ (exists i, i < length c /\ st s i = Waiting /\ st s' i <> Waiting).
Proof. exact full_pass_makes_progress. Qed.
Print Assumptions C03_full_pass_makes_progress.

Theorem C03_running_can_return : forall c es s i ok, exec c es s -> fatal s = false -> i < length c -> st s i = Running ->
  exists s', step c s (Ret i ok) = Some s'.
Proof. exact running_can_return. Qed.
Print Assumptions C03_running_can_return.

Theorem C03_pending_can_finish : forall c s i, fatal s = false -> In i (pend s) -> exists s', step c s (Fin i) = Some s'.
Proof. exact pending_can_finish. Qed.
Print Assumptions C03_pending_can_finish.

Theorem C03_settled_can_exit : forall c s, fatal s = false -> exited s = false -> all_settled c (st s) = true -> exists s', step c s Exit = Some s'.
Proof. exact settled_can_exit. Qed.
Print Assumptions C03_settled_can_exit.

(* a cancelled run can always leave the loop, whatever is still waiting *)
Theorem C03_cancelled_can_exit : forall c s, fatal s = false -> exited s = false -> cancelled s = true -> exists s', step c s Exit = Some s'.
Proof. exact cancelled_can_exit. Qed.
Print Assumptions C03_cancelled_can_exit.

(* non-vacuity: a chain with a failing head: the tail is cancelled, nothing left waiting, one start *)
Definition chain3 : config := [mkStage [] false CNone; mkStage [0] false CNone; mkStage [1] false CNone].
Example C03_nonvacuous : exists s, exec chain3 [Visit 2; Visit 0; Visit 1; Ret 0 false; Visit 2; Visit 1; Visit 2; Exit] s
  /\ exited s = true /\ cancelled s = false /\ starts (log s) = [0].
Proof. eexists. split; [vm_compute; reflexivity|]. repeat split; vm_compute; reflexivity. Qed.

(* termination as one statement.  A ROUND is a stretch of the run that visits every stage (one full polling pass, any order,
   anything interleaved) and at whose end no task is running - what a fair Go scheduler and terminating commands provide.
   On an acyclic pipeline without dangling dependencies (every accepted one: C18) at most [length c] rounds exhaust the
   Waiting stages, whatever the outcomes, and the loop's exit is then enabled: Schedule returns. *)
Theorem C03_terminates_within_rounds : forall c, acyclic_cfg c -> wf_deps c ->
  forall es0 s s', exec c es0 s -> (forall i, i < length c -> st s i <> Running) ->
  rounds c s (length c) s' -> (forall i, i < length c -> st s' i <> Running) -> fatal s' = false -> exited s' = false ->
  all_settled c (st s') = true /\ exists s'', step c s' Exit = Some s''.
Proof. exact terminates_within_rounds. Qed.
Print Assumptions C03_terminates_within_rounds.
Theorem C03_waiting_shrinks_every_round : forall c, acyclic_cfg c -> wf_deps c ->
  forall n es0 s s', exec c es0 s -> (forall i, i < length c -> st s i <> Running) -> rounds c s n s' -> nwaiting c s <= n -> nwaiting c s' = 0.
Proof. exact rounds_exhaust_waiting. Qed.
Print Assumptions C03_waiting_shrinks_every_round.
(* non-vacuity: a chain 0 <- 1 <- 2: three rounds, each starting the next stage and letting it finish *)
Definition getst (o : option state) : state := match o with Some s => s | None => init end.
Definition rs1 := getst (run chain3 init [Visit 2; Visit 1; Visit 0; Ret 0 true]).
Definition rs2 := getst (run chain3 rs1 [Visit 0; Visit 2; Visit 1; Ret 1 true]).
Definition rs3 := getst (run chain3 rs2 [Visit 0; Visit 1; Visit 2; Ret 2 false]).
Ltac three i Hi := assert (i = 0 \/ i = 1 \/ i = 2) as [->|[->| ->]] by (cbn in Hi; lia).
Example C03_rounds_nonvacuous :
  round chain3 init [Visit 2; Visit 1; Visit 0; Ret 0 true] rs1 /\ round chain3 rs1 [Visit 0; Visit 2; Visit 1; Ret 1 true] rs2 /\
  round chain3 rs2 [Visit 0; Visit 1; Visit 2; Ret 2 false] rs3 /\ all_settled chain3 (st rs3) = true.
Proof.
  unfold round. repeat split; try (vm_compute; reflexivity);
    try (intros i Hi; three i Hi; cbn; auto 6); try (intros i Hi; three i Hi; vm_compute; discriminate); try discriminate.
Qed.
