(** C08 - Per-stage overrides stay with their stage. *)
From Coq Require Import List Arith Bool.
Import ListNotations.
From TaskctlV Require Import Model.Stage Proofs.StageIso.

(* For every task table, every list of uses (direct runs and stages, any number sharing any task, with any overrides)
   and EVERY interleaving [sched] of their micro-steps (sequential and concurrent arrangements alike, any length,
   repeated runs included): the task table is never modified, and each execution is handed exactly the task's own
   settings layered with its own stage's overrides - a function of that use alone. *)
Theorem C08_isolation : forall uses st0 sched,
  let s' := mrun uses st0 sched in
  store s' = st0 /\
  forall u x, In (u, x) (handed s') -> exists us, nth_error uses u = Some us /\ x = expected st0 us.
Proof. exact isolation. Qed.
Print Assumptions C08_isolation.

(* layered over, not replacing, the task's own settings *)
Theorem C08_env_layered : forall t ov k,
  lookup k (s_env (layer t ov)) =
  match o_env ov with Some e => match lookup k e with Some v => Some v | None => lookup k (s_env t) end | None => lookup k (s_env t) end.
Proof. exact layer_env_lookup. Qed.
Print Assumptions C08_env_layered.
Theorem C08_vars_layered : forall t ov k,
  lookup k (s_vars (layer t ov)) =
  match o_vars ov with Some e => match lookup k e with Some v => Some v | None => lookup k (s_vars t) end | None => lookup k (s_vars t) end.
Proof. exact layer_vars_lookup. Qed.
Print Assumptions C08_vars_layered.
(* whatever else the task is made of - its name, commands, hooks, condition, variations, timeout, allow_failure, exportAs, context - is the
   task's own in every use *)
Theorem C08_other_fields_untouched : forall t ov, s_rest (layer t ov) = s_rest t.
Proof. reflexivity. Qed.
Print Assumptions C08_other_fields_untouched.

Theorem C08_dir_layered : forall t ov, s_dir (layer t ov) = if Nat.eqb (o_dir ov) 0 then s_dir t else o_dir ov.
Proof. exact layer_dir. Qed.
Print Assumptions C08_dir_layered.

(* non-vacuity and the pinned defect: task 0 has env {1->10}, vars {5->50}; stage A overrides env 1->11, stage B has none.
   Repaired model: B is handed env 1->10.  Pinned model: B, prepared after A, is handed A's 1->11, and the task's
   variable 5 is gone from what A is handed. *)
Definition t0 : nat -> settings := fun _ => mkSet [(1, 10)] [(5, 50)] 0 7.
Definition usesAB : list use := [Stage 0 (mkOv (Some [(1, 11)]) (Some [(6, 60)]) 0); Stage 0 (mkOv None None 0)].
Definition seqAB : list mstep := [MPrep 0; MHand 0; MPrep 1; MHand 1].
Example C08_nonvacuous : map (fun p => (fst p, lookup 1 (s_env (snd p)))) (handed (mrun usesAB t0 seqAB)) = [(1, Some 10); (0, Some 11)].
Proof. vm_compute. reflexivity. Qed.
Theorem C08_pinned_refuted : exists uses st0 sched u x,
  In (u, x) (handed (mrun_legacy uses st0 sched)) /\ forall us, nth_error uses u = Some us -> x <> expected st0 us.
Proof.
  exists usesAB, t0, seqAB, 1, (mkSet [(1, 11); (1, 10)] [(6, 60); (1, 11); (1, 10)] 0 7).
  split; [vm_compute; left; reflexivity|].
  intros us H. vm_compute in H. injection H as <-. vm_compute. discriminate.
Qed.
Print Assumptions C08_pinned_refuted.
