(** C01 - A stage never starts before all of its dependencies have finished. *)
From Coq Require Import List Arith Bool.
Import ListNotations.
From TaskctlV Require Import Model.Sched Proofs.SchedInv Corr.SchedAccept.

(* [finished_in c d l]: in the observation log l (newest first) dependency d has finished in one of the ways the
   statement lists: skipped by its condition; returned successfully or with a failure that is allowed;
   (its condition could not be evaluated and its failure is allowed - an allowed failure without a run) *)
Theorem C01_deps_finished_before_start :
  forall c es s, exec c es s ->
  forall l2 i l1, log s = l2 ++ OStart i :: l1 ->
  forall d, In d (deps_of c i) -> finished_in c d l1.
Proof. exact SchedInv.C01_deps_finished_before_start. Qed.
Print Assumptions C01_deps_finished_before_start.
(* no hypothesis on the graph (any size; cyclic or dangling graphs included: then nothing starts), on outcomes,
   on the declaration order (stage numbering is arbitrary) or on fairness: [es] ranges over all interleavings
   of visits, completions, external cancels and exits. *)

(* every observed run the harness accepts is such an execution, so the theorem applies to it verbatim *)
Theorem C01_applies_to_accepted_runs : forall c tr fin err, accepts c tr fin err = true ->
  exists es s, exec c es s /\ rev (log s) = proj_obs tr /\ returned_b c s = true /\ gerr s = err /\
               length fin = length c /\ (forall i, i < length c -> status_code (st s i) = nth i fin 0).
Proof. exact accepts_sound. Qed.
Print Assumptions C01_applies_to_accepted_runs.

(* non-vacuity: a diamond 0 <- {1,2} <- 3 in which 1 and 2 are in flight together; four starts in the log *)
Definition diamond : config := [mkStage [] false CNone; mkStage [0] false CNone; mkStage [0] false CNone; mkStage [1; 2] false CNone].
Definition diamond_run : list event :=
  [Visit 3; Visit 0; Ret 0 true; Visit 1; Visit 2; Visit 3; Ret 2 true; Ret 1 true; Visit 3; Ret 3 true; Exit].
Example C01_nonvacuous : exists s, exec diamond diamond_run s /\ length (starts (log s)) = 4 /\ returned_b diamond s = true.
Proof. eexists. split; [vm_compute; reflexivity|]. split; vm_compute; reflexivity. Qed.
