(** C16 - YAML, JSON and TOML express the same configuration identically.   (partial, see the end) *)
From Coq Require Import List ZArith Bool.
Import ListNotations.
From TaskctlV Require Import Model.Decode Proofs.DecodeSpec.
Open Scope Z_scope.

(* for every abstract value whose integers are exactly representable as float64 (|z| <= 2^53) and every target type of the
   schema (string, bool, duration, lists and string-keyed maps of those, string-or-list fields included): the decoded
   definition is the same from the three native representations *)
Theorem C16_format_independent : forall a, portable a = true -> forall t,
  wd t (native Yaml a) = wd t (native Json a) /\ wd t (native Json a) = wd t (native Toml a).
Proof. exact format_independent. Qed.
Print Assumptions C16_format_independent.

Theorem C16_toml_is_yaml : forall a, native Toml a = native Yaml a.
Proof. exact toml_is_yaml. Qed.
Print Assumptions C16_toml_is_yaml.

(* non-vacuity: a task body with a string-or-list command given as a single string, a numeric env value, a boolean given as
   a number and a timeout given as a number *)
Definition ex_task : av := AMap [(1, AStr 10); (2, AMap [(20, AInt 8080); (21, ABool true); (22, ADec 7)]); (3, AInt 1); (4, AInt 2000000000)]%nat.
Example C16_nonvacuous : portable ex_task = true
  /\ wd (TMap (TList TString)) (native Json (AMap [(1, AStr 10)]%nat)) = DMap [(1%nat, DList [DStr (SLit 10)])]
  /\ wd (TMap TString) (native Json (AMap [(20, AInt 8080)]%nat)) = DMap [(20%nat, DStr (SDecimal 8080))].
Proof. repeat split; vm_compute; reflexivity. Qed.

(* the full statement (all integers) is FALSE of the code: beyond 2^53 JSON's float64 loses the integer (known finding K3) *)
Theorem C16_refuted_big_integer : exists a t, portable a = false /\ wd t (native Yaml a) <> wd t (native Json a).
Proof. exists (AInt 9007199254740993), TString. split; [reflexivity|]. vm_compute. discriminate. Qed.
Print Assumptions C16_refuted_big_integer.

(* PARTIAL.  The theorem is about the decode RULES being insensitive to the representation differences between the three
   decoders, for every schema field shape.  Modelled, not verified: the parsers themselves (yaml.v2, encoding/json, go-toml),
   mapstructure, number formatting.  They are tied by the harness: abstract configurations over every documented key, each
   serialised to the three formats; `list`, `show`, `graph` and the run of every task and pipeline must agree pairwise, and
   the printed scalar conversions must equal the model's. *)
