(** C11 - A task's output is captured exactly and handed to the stages that depend on it. *)
From Coq Require Import List Arith NArith Bool.
Import ListNotations.
From TaskctlV Require Import Model.Sched Model.TaskRun Model.Output Proofs.TaskRunSpec Proofs.OutputSpec.

(* captured output = exactly the stdout bytes of the commands, in order, across all commands and variations
   ([jobs t] is the variation-major job list), when the task finishes successfully or with allowed failures;
   and then - only then - it is exported *)
Theorem C11_captured_exactly : forall t, cond_passes t -> first_index before_fails_b (t_before t) = None ->
  first_index (stops (t_allow t)) (jobs t) = None ->
  o_output (run_task t) = flat_map job_out (jobs t) /\ o_stored (run_task t) = true.
Proof. intros t H1 H2 H3. rewrite (runs_everything t H1 H2 H3). split; reflexivity. Qed.
Print Assumptions C11_captured_exactly.

Theorem C11_not_exported_when_stopped : forall t p, cond_passes t -> first_index before_fails_b (t_before t) = None ->
  first_index (stops (t_allow t)) (jobs t) = Some p -> o_stored (run_task t) = false.
Proof. intros t p H1 H2 H3. exact (proj1 (proj2 (proj2 (proj2 (proj2 (stops_at_first_failure t p H1 H2 H3)))))). Qed.
Print Assumptions C11_not_exported_when_stopped.

(* the same loop with stdout and stderr told apart (executor.Execute returns both, Task.Log.Stdout only stdout) *)
Theorem C11_execute_loop : forall js prev,
  exec_chain js prev = (firstn (nexec js) (prev :: map combined_of js), flat_map stdout_of (firstn (nexec js) js), completes js).
Proof. exact exec_chain_spec. Qed.
Print Assumptions C11_execute_loop.

(* within a task each command reads the previous command's output as .Output (the first one reads the empty text) *)
Theorem C11_dot_output_is_previous : forall js prev k, S k < nexec js ->
  nth (S k) (fst (fst (exec_chain js prev))) [] = combined_of (nth k js (mkOJ [] false)).
Proof. exact seen_is_previous_output. Qed.
Print Assumptions C11_dot_output_is_previous.
Theorem C11_dot_output_first : forall js, 0 < nexec js -> nth 0 (fst (fst (exec_chain js []))) [1%N] = [].
Proof. intros js. exact (first_sees_nothing js []). Qed.
Print Assumptions C11_dot_output_first.

(* the exported name: upper-cased, every character outside A-Z a-z 0-9 _ replaced by _, then _OUTPUT; or exportAs *)
Theorem C11_name_characterwise : forall name i, i < length name ->
  nth i (env_name name) 0%N = (let b := nth i name 0%N in
     if is_lower b then b - 32 else if is_upper b || is_digit b || (b =? 95) then b else 95)%N.
Proof. intros name i Hi. rewrite (env_name_nth name i Hi). apply env_byte_spec. Qed.
Print Assumptions C11_name_characterwise.
Theorem C11_name_shape : forall name, length (env_name name) = length name + 7 /\ forallb ident_byte (env_name name) = true
  /\ skipn (length name) (env_name name) = suffix_OUTPUT.
Proof.
  intros name. split; [apply env_name_length|]. split; [apply env_name_ident|].
  unfold env_name. rewrite skipn_app, map_length, Nat.sub_diag.
  rewrite <- (map_length env_byte name) at 1. now rewrite skipn_all.
Qed.
Print Assumptions C11_name_shape.
Theorem C11_export_as_wins : forall ea name, ea <> [] -> export_name ea name = ea.
Proof. intros ea name H. destruct ea; [contradiction|reflexivity]. Qed.
Print Assumptions C11_export_as_wins.

(* every stage that depends on it sees that text: in EVERY execution of the scheduler, at the moment a stage i starts,
   the runner-wide environment (what every later Run merges in first) already holds, under d's exported name, exactly
   the output of each dependency d that completed - a consequence of C01 (ORet d precedes OStart i) and of
   storeTaskOutput happening before Run returns. *)
Theorem C11_dependants_see_it : forall c es s, exec c es s ->
  forall l2 i l1, log s = l2 ++ OStart i :: l1 ->
  forall d, In d (deps_of c i) ->
  cond_of c d <> CFalse -> cond_of c d <> CErr ->
  (forall ok, In (ORet d ok) (log s) -> ok = true) ->
  forall var prod out, prod d = Some out ->
  (forall d', In (ORet d' true) l1 -> var d' = var d -> prod d' = prod d) ->
  blookup (var d) (env_of_log var prod l1) = Some out.
Proof. exact dependants_see_output. Qed.
Print Assumptions C11_dependants_see_it.

(* non-vacuity *)
Example C11_name_example : env_name [100; 111; 45; 105; 116; 46; 49]%N (* "do-it.1" *) = [68; 79; 95; 73; 84; 95; 49; 95; 79; 85; 84; 80; 85; 84]%N.
Proof. vm_compute. reflexivity. Qed.
Example C11_chain_example :
  exec_chain [mkOJ [(true, [1]); (false, [2])] false; mkOJ [(true, [3])] false; mkOJ [] true; mkOJ [(true, [9])] false]%N []
  = ([[]; [1; 2]; [3]], [1; 3], false)%N.
Proof. vm_compute. reflexivity. Qed.
Definition chain2 : config := [mkStage [] false CNone; mkStage [0] false CNone].
Example C11_dependants_nonvacuous : exists s, exec chain2 [Visit 0; Ret 0 true; Visit 1] s /\ log s = [] ++ OStart 1 :: [ORet 0 true; OStart 0]
  /\ blookup [7%N] (env_of_log (fun _ => [7%N]) (fun d => if Nat.eqb d 0 then Some [42%N] else None) [ORet 0 true; OStart 0]) = Some [42%N].
Proof. eexists. split; [vm_compute; reflexivity|]. split; vm_compute; reflexivity. Qed.
