(** C05 - A pipeline is rejected as cyclic exactly when its dependencies form a cycle.
    Only statements, each closed by [exact] of a lemma from Proofs/, with Print Assumptions. *)
From Coq Require Import List Arith.
Import ListNotations.
From TaskctlV Require Import Model.Graph Proofs.GraphDfs.

(* for every list of stage declarations, in every order, with arbitrary depends_on lists
   (self-dependencies, forward references, repeated and dangling names included) *)
Theorem C05_reject_iff_cyclic : forall stages, build stages = BCycle <-> cyclic (declared_edges stages).
Proof. exact build_reject_iff_cyclic. Qed.
Print Assumptions C05_reject_iff_cyclic.

Theorem C05_accept_iff_acyclic : forall stages, (exists g, build stages = BOk g) <-> ~ cyclic (declared_edges stages).
Proof. exact build_accept_iff_acyclic. Qed.
Print Assumptions C05_accept_iff_acyclic.

(* the fuel the model gives the DFS always suffices: no result is an artefact of totalisation *)
Theorem C05_fuel_suffices : forall stages, build stages <> BFuel.
Proof. exact build_never_out_of_fuel. Qed.
Print Assumptions C05_fuel_suffices.

(* an accepted pipeline exposes exactly the declared edges (To = preds, From = succs), in order *)
Theorem C05_exposes_edges : forall stages g, build stages = BOk g ->
  forall n, (forall d, In d (preds g n) <-> In (d, n) (declared_edges stages))
         /\ (forall m, In m (succs g n) <-> In (n, m) (declared_edges stages))
         /\ preds g n = preds (declared_edges stages) n
         /\ succs g n = succs (declared_edges stages) n.
Proof. exact build_exposes_edges. Qed.
Print Assumptions C05_exposes_edges.

Theorem C05_to_is_depends_on : forall stages, NoDup (map fst stages) ->
  forall s, In s stages -> preds (declared_edges stages) (fst s) = snd s.
Proof. exact preds_declared_unique. Qed.
Print Assumptions C05_to_is_depends_on.

(* non-vacuity: a DAG with two re-convergent paths is accepted, a 3-cycle and a self-loop are rejected *)
Definition diamond : list stage_decl := [(3, [1; 2]); (2, [1]); (1, [0]); (0, [])].   (* Z[X,Y] Y[X] X[W] W *)
Example C05_diamond_accepted : build diamond = BOk (declared_edges diamond).
Proof. vm_compute. reflexivity. Qed.
Example C05_cycle3_rejected : build [(0, [2]); (1, [0]); (2, [1])] = BCycle.
Proof. vm_compute. reflexivity. Qed.
Example C05_selfloop_rejected : build [(0, [0])] = BCycle.
Proof. vm_compute. reflexivity. Qed.

(* the pinned cycleDfs (one visited set) violates the statement: it rejects the diamond, a DAG *)
Theorem C05_pinned_refuted : exists stages, ~ cyclic (declared_edges stages) /\ build_legacy stages = BCycle.
Proof.
  exists diamond. split; [|vm_compute; reflexivity].
  apply build_accept_iff_acyclic. eexists. apply C05_diamond_accepted.
Qed.
Print Assumptions C05_pinned_refuted.
