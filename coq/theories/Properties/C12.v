(** C12 - Cancellation is safe and prompt at any moment.   (partial: see the end of this file) *)
From Coq Require Import List Arith Bool.
Import ListNotations.
From TaskctlV Require Import Model.Cancel Proofs.CancelInv.

(* [xreach ncmds es s]: any number of runs (run i has ncmds i commands, hooks included) and any number of Cancel calls,
   interleaved in any order [es] - zero, one or many tasks in flight, Cancel before, during, between, after, twice. *)

(* never dead-locked: a Cancel that waits can return, or a run it is waiting for can take a step *)
Theorem C12_waiting_cancel_is_not_stuck : forall ncmds es s j, xreach ncmds es s -> kp s j = KWait ->
  (exists s', xstep ncmds s (ECan j) = Some s') \/ (exists i s', active (rp s i) = true /\ xstep ncmds s (ERun i) = Some s').
Proof. exact waiting_cancel_is_not_stuck. Qed.
Print Assumptions C12_waiting_cancel_is_not_stuck.

Theorem C12_runs_never_block : forall ncmds s i, (forall e, rp s i <> RDone e) -> exists s', xstep ncmds s (ERun i) = Some s'.
Proof. exact unfinished_run_can_step. Qed.
Print Assumptions C12_runs_never_block.

(* bounded: no execution of the threads rs (runs) and ks (cancels) is longer than the initial measure *)
Theorem C12_executions_are_bounded : forall ncmds rs ks es, NoDup rs -> NoDup ks -> forall s s', xinv ncmds s -> Forall (ev_in rs ks) es ->
  xrun ncmds s es = Some s' -> length es + mu ncmds rs ks s' <= mu ncmds rs ks s.
Proof. exact executions_are_bounded. Qed.
Print Assumptions C12_executions_are_bounded.

Theorem C12_reachable_states_satisfy_invariant : forall ncmds es s, xreach ncmds es s -> xinv ncmds s.
Proof. exact xreach_inv. Qed.
Print Assumptions C12_reachable_states_satisfy_invariant.

(* once a Cancel has flagged the cancellation (a fortiori once it has returned) no further command is started, ever *)
Theorem C12_nothing_starts_after_cancel : forall ncmds es0 s j es s',
  xreach ncmds es0 s -> kp s j <> KNew -> xrun ncmds s es = Some s' -> xtrace s' = xtrace s.
Proof. exact after_cancel_returned_nothing_starts. Qed.
Print Assumptions C12_nothing_starts_after_cancel.

(* a run reports success only if every one of its commands was started and none was interrupted: an interrupted or
   not-yet-started task reports an error *)
Theorem C12_success_means_everything_ran : forall ncmds es s i, xreach ncmds es s -> rp s i = RDone false ->
  forall k, k < ncmds i -> In (XStart i k) (xtrace s).
Proof. exact success_means_everything_ran. Qed.
Print Assumptions C12_success_means_everything_ran.

Theorem C12_run_after_cancel_fails : forall ncmds s i s1 s2, cancelled s = true -> rp s i = RNew ->
  xstep ncmds s (ERun i) = Some s1 -> xstep ncmds s1 (ERun i) = Some s2 -> rp s2 i = RLeaving true.
Proof. exact run_after_cancel_fails. Qed.
Print Assumptions C12_run_after_cancel_fails.

(* non-vacuity: two runs in flight, two Cancels, everything returns; run 1 was interrupted in its first command *)
Example C12_nonvacuous : exists s,
  xreach (fun _ => 2) [ERun 0; ERun 1; ERun 0; ERun 1; ERun 0; ERun 1; ECan 0; ECan 1; EIntr 1; ERun 0; ERun 0; ERun 0; ERun 1; ECan 1; ECan 0] s
  /\ kp s 0 = KDone /\ kp s 1 = KDone /\ rp s 0 = RDone true /\ rp s 1 = RDone true /\ running s = 0.
Proof. eexists. split; [vm_compute; reflexivity|]. repeat split; vm_compute; reflexivity. Qed.

(* the pinned hand-shake (doneCh): Cancel with nothing in flight waits for ever; two runs in flight panic *)
Theorem C12_pinned_refuted_deadlock : exists s, lrun (fun _ => 1) linit [ECan 0] = Some s
  /\ l_kp s 0 = KWait /\ (forall i, l_rp s i = RNew) /\ lstep (fun _ => 1) s (ECan 0) = None.
Proof. eexists. split; [vm_compute; reflexivity|]. repeat split; vm_compute; reflexivity. Qed.
Print Assumptions C12_pinned_refuted_deadlock.
Theorem C12_pinned_refuted_double_close : exists s,
  lrun (fun _ => 1) linit [ERun 0; ERun 1; ECan 0; ERun 0; ERun 0; ERun 1; ERun 1] = Some s /\ l_panic s = true.
Proof. eexists. split; vm_compute; reflexivity. Qed.
Print Assumptions C12_pinned_refuted_double_close.

(* Not exhibited by the model (observed by the harness only): that SIGINT/SIGKILL really terminate the commands, the 2 s
   kill grace of mvdan/sh, "bounded time" in wall-clock terms.  The model's environment rule is: a command in progress when
   the context is cancelled ends (interrupted or completed) - it is the hypothesis under which C12_executions_are_bounded
   speaks about the real runner. *)
