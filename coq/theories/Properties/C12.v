(** C12 - Cancellation is safe and prompt at any moment.   (partial: see the end of this file) *)
From Coq Require Import List Arith Bool.
Import ListNotations.
From TaskctlV Require Import Model.Sched Model.Cancel Model.Pipe Proofs.CancelInv Proofs.PipeSpec.

(* [xreach ncmds es s]: any number of runs (run i has ncmds i commands, hooks included) and any number of Cancel calls,
   interleaved in any order [es] - zero, one or many tasks in flight, Cancel before, during, between, after, twice. *)

(* never dead-locked: a Cancel that waits can return, or a run it is waiting for can take a step *)
Theorem C12_waiting_cancel_is_not_stuck : forall ncmds es s j, xreach ncmds es s -> kp s j = KWait ->
  (exists s', xstep ncmds s (ECan j) = Some s') \/ (exists i s', active (rp s i) = true /\ xstep ncmds s (ERun i) = Some s').
Proof. exact waiting_cancel_is_not_stuck. Qed.
Print Assumptions C12_waiting_cancel_is_not_stuck.

Theorem C12_runs_never_block : forall ncmds s i, (forall e, rp s i <> RDone e) -> exists s', xstep ncmds s (ERun i) = Some s'.
Proof. exact unfinished_run_can_step. Qed.
Print Assumptions C12_runs_never_block.

(* bounded: no execution of the threads rs (runs) and ks (cancels) is longer than the initial measure *)
Theorem C12_executions_are_bounded : forall ncmds rs ks es, NoDup rs -> NoDup ks -> forall s s', xinv ncmds s -> Forall (ev_in rs ks) es ->
  xrun ncmds s es = Some s' -> length es + mu ncmds rs ks s' <= mu ncmds rs ks s.
Proof. exact executions_are_bounded. Qed.
Print Assumptions C12_executions_are_bounded.

Theorem C12_reachable_states_satisfy_invariant : forall ncmds es s, xreach ncmds es s -> xinv ncmds s.
Proof. exact xreach_inv. Qed.
Print Assumptions C12_reachable_states_satisfy_invariant.

(* once a Cancel has flagged the cancellation (a fortiori once it has returned) no further command is started, ever *)
Theorem C12_nothing_starts_after_cancel : forall ncmds es0 s j es s',
  xreach ncmds es0 s -> kp s j <> KNew -> xrun ncmds s es = Some s' -> xtrace s' = xtrace s.
Proof. exact after_cancel_returned_nothing_starts. Qed.
Print Assumptions C12_nothing_starts_after_cancel.

(* a run reports success only if every one of its commands was started and none was interrupted: an interrupted or
   not-yet-started task reports an error *)
Theorem C12_success_means_everything_ran : forall ncmds es s i, xreach ncmds es s -> rp s i = RDone false ->
  forall k, k < ncmds i -> In (XStart i k) (xtrace s).
Proof. exact success_means_everything_ran. Qed.
Print Assumptions C12_success_means_everything_ran.

Theorem C12_run_after_cancel_fails : forall ncmds s i s1 s2, Cancel.cancelled s = true -> rp s i = RNew ->
  xstep ncmds s (ERun i) = Some s1 -> xstep ncmds s1 (ERun i) = Some s2 -> rp s2 i = RLeaving true.
Proof. exact run_after_cancel_fails. Qed.
Print Assumptions C12_run_after_cancel_fails.

(* non-vacuity: two runs in flight, two Cancels, everything returns; run 1 was interrupted in its first command *)
Example C12_nonvacuous : exists s,
  xreach (fun _ => 2) [ERun 0; ERun 1; ERun 0; ERun 1; ERun 0; ERun 1; ECan 0; ECan 1; EIntr 1; ERun 0; ERun 0; ERun 0; ERun 1; ECan 1; ECan 0] s
  /\ kp s 0 = KDone /\ kp s 1 = KDone /\ rp s 0 = RDone true /\ rp s 1 = RDone true /\ running s = 0.
Proof. eexists. split; [vm_compute; reflexivity|]. repeat split; vm_compute; reflexivity. Qed.

(** ** The pipeline run: scheduler and runner together (Model/Pipe.v, a synchronised product of the scheduler's LTS of
    C01-C03 and the runner's LTS above; [preach c n es s]: any interleaving [es] of loop visits, Run steps of the stage
    goroutines, interruptions, status writes, Cancel calls from outside and by the loop after a stage-condition error) *)

(* every composed execution is an execution of each component: all theorems of C01-C03 and the ones above apply to it *)
Theorem C12_pipeline_projects_onto_components : forall c n es s, preach c n es s ->
  exists es1 es2, exec c es1 (sc s) /\ xreach n es2 (xr s).
Proof. exact preach_components. Qed.
Print Assumptions C12_pipeline_projects_onto_components.

Theorem C12_pipeline_flag_and_context_agree : forall c n es s, preach c n es s -> Sched.cancelled (sc s) = Cancel.cancelled (xr s).
Proof. exact pipe_flags_agree. Qed.
Print Assumptions C12_pipeline_flag_and_context_agree.

(* once the run is cancelled - from outside or by a stage-condition error - no command of any stage starts any more,
   whatever the polling loop still visits and whichever stages it still hands to the runner *)
Theorem C12_pipeline_nothing_starts_after_cancel : forall c n es0 s es s', preach c n es0 s -> Sched.cancelled (sc s) = true ->
  prun c n s es = Some s' -> xtrace (xr s') = xtrace (xr s).
Proof. exact pipe_nothing_starts_after_cancel. Qed.
Print Assumptions C12_pipeline_nothing_starts_after_cancel.

Theorem C12_pipeline_stage_started_after_cancel_fails : forall c n es s i s1 s2, preach c n es s -> Sched.cancelled (sc s) = true ->
  rp (xr s) i = RNew -> pstep c n s (PRun i) = Some s1 -> pstep c n s1 (PRun i) = Some s2 -> rp (xr s2) i = RLeaving true.
Proof. exact pipe_run_after_cancel_fails. Qed.
Print Assumptions C12_pipeline_stage_started_after_cancel_fails.

(* a stage is recorded as successful only if every command of its task was started and none was interrupted *)
Theorem C12_pipeline_stage_success_means_everything_ran : forall c n es s i, preach c n es s -> In (ORet i true) (log (sc s)) ->
  forall k, k < n i -> In (XStart i k) (xtrace (xr s)).
Proof. exact pipe_stage_success_means_everything_ran. Qed.
Print Assumptions C12_pipeline_stage_success_means_everything_ran.

(* the polling loop blocked in the Cancel it called itself is never dead-locked, and a cancelled run can leave the loop *)
Theorem C12_pipeline_blocked_loop_is_not_stuck : forall c n es s j, preach c n es s -> blk s = Some j ->
  (exists s', pstep c n s PLoopCan = Some s') \/ (exists i s', active (rp (xr s) i) = true /\ pstep c n s (PRun i) = Some s').
Proof. exact pipe_blocked_loop_is_not_stuck. Qed.
Print Assumptions C12_pipeline_blocked_loop_is_not_stuck.
Theorem C12_pipeline_cancelled_run_can_return : forall c n es s, preach c n es s -> Sched.cancelled (sc s) = true -> blk s = None ->
  fatal (sc s) = false -> exited (sc s) = false -> exists s', pstep c n s PExit = Some s'.
Proof. exact pipe_cancelled_can_exit. Qed.
Print Assumptions C12_pipeline_cancelled_run_can_return.

(* a Run call is in progress only while its stage is Running: with C01 every command of a stage starts after all the
   stage's dependencies have finished *)
Theorem C12_pipeline_commands_only_in_running_stage : forall c n es s i, preach c n es s -> active (rp (xr s) i) = true -> st (sc s) i = Running.
Proof. exact pipe_run_only_in_running_stage. Qed.
Print Assumptions C12_pipeline_commands_only_in_running_stage.

(* non-vacuity: (1) a chain 0 <- 1, stage 0 interrupted in its first command by a Cancel from outside: stage 0 Error,
   stage 1 Canceled, one command started in all; (2) a stage whose condition cannot be evaluated next to a stage in flight:
   the loop blocks in its own Cancel until that stage has been interrupted and has left *)
Definition pchain : config := [mkStage [] false CNone; mkStage [0] false CNone].
Example C12_pipeline_nonvacuous_ext : exists s,
  preach pchain (fun _ => 2) [PVisit 0; PRun 0; PRun 0; PRun 0; PExt 0; PVisit 1; PIntr 0; PRun 0; PExt 0; PRet 0; PVisit 1; PExit] s
  /\ kp (xr s) (ext_id 0) = KDone /\ xtrace (xr s) = [XStart 0 0] /\ st (sc s) 0 = Error /\ st (sc s) 1 = Canceled
  /\ exited (sc s) = true /\ gerr (sc s) = true.
Proof. eexists. split; [vm_compute; reflexivity|]. repeat split; vm_compute; reflexivity. Qed.
Definition pcerr : config := [mkStage [] false CErr; mkStage [] false CNone].
Example C12_pipeline_nonvacuous_conderr : exists s1 s,
  preach pcerr (fun _ => 1) [PVisit 1; PRun 1; PRun 1; PRun 1; PVisit 0] s1 /\ blk s1 = Some (loop_id 0) /\
  pstep pcerr (fun _ => 1) s1 PLoopCan = None /\ pstep pcerr (fun _ => 1) s1 PExit = None /\
  prun pcerr (fun _ => 1) s1 [PIntr 1; PRun 1; PLoopCan; PRet 1; PExit] = Some s /\
  st (sc s) 0 = Error /\ st (sc s) 1 = Error /\ exited (sc s) = true /\ gerr (sc s) = true /\ running (xr s) = 0.
Proof.
  eexists. eexists. split; [vm_compute; reflexivity|].
  repeat match goal with |- _ /\ _ => split end; vm_compute; reflexivity.
Qed.

(* the pinned hand-shake (doneCh): Cancel with nothing in flight waits for ever; two runs in flight panic *)
Theorem C12_pinned_refuted_deadlock : exists s, lrun (fun _ => 1) linit [ECan 0] = Some s
  /\ l_kp s 0 = KWait /\ (forall i, l_rp s i = RNew) /\ lstep (fun _ => 1) s (ECan 0) = None.
Proof. eexists. split; [vm_compute; reflexivity|]. repeat split; vm_compute; reflexivity. Qed.
Print Assumptions C12_pinned_refuted_deadlock.
Theorem C12_pinned_refuted_double_close : exists s,
  lrun (fun _ => 1) linit [ERun 0; ERun 1; ECan 0; ERun 0; ERun 0; ERun 1; ERun 1] = Some s /\ l_panic s = true.
Proof. eexists. split; vm_compute; reflexivity. Qed.
Print Assumptions C12_pinned_refuted_double_close.

(* The synchronisation of Model/Pipe.v (which stage's Run is which run, Scheduler.Cancel = flag + runner Cancel, the loop
   blocked inside its own Cancel) is tied to the code by the pipeline scenarios of the check (pipeline-ext-*, pipeline-conderr-*,
   ...-then-cancel, sched-cancelled-before-run, nested-conderr-cli): their observations are judged by the consequences proved
   above (no start after a completed Cancel, success only with every command started, the run returns).  A stage that is itself
   a pipeline is outside Model/Pipe.v.
   Not exhibited by the model (observed by the harness only): that SIGINT/SIGKILL really terminate the commands, the 2 s
   kill grace of mvdan/sh, "bounded time" in wall-clock terms.  The model's environment rule is: a command in progress when
   the context is cancelled ends (interrupted or completed) - it is the hypothesis under which C12_executions_are_bounded
   speaks about the real runner. *)
