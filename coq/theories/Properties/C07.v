(** C07 - Reported status is faithful: exit codes, errors and the process exit status. *)
From Coq Require Import List Arith NArith ZArith Bool.
Import ListNotations.
From TaskctlV Require Import Model.TaskRun Proofs.TaskRunSpec Model.Cli Proofs.CliSpec.

(* Running a task reports an error exactly when it failed *)
Theorem C07_error_iff_failed : forall t, o_err (run_task t) = true <-> task_failed t.
Proof. exact error_iff_failed. Qed.
Print Assumptions C07_error_iff_failed.

(* the task is marked errored and records the exit status of the command that ended it (n is any N: no truncation) *)
Theorem C07_exit_code_recorded : forall t p j n, cond_passes t -> first_index before_fails_b (t_before t) = None ->
  first_index (stops (t_allow t)) (jobs t) = Some p -> nth_error (jobs t) p = Some j -> job_res j = Exit n ->
  o_exit (run_task t) = Z.of_N n /\ o_errored (run_task t) = true /\ o_err (run_task t) = true.
Proof. exact exit_code_of_failing_command. Qed.
Print Assumptions C07_exit_code_recorded.

(* a task that succeeded, or whose failures were allowed, records 0 and no error *)
Theorem C07_success_records_zero : forall t, cond_passes t -> first_index before_fails_b (t_before t) = None ->
  first_index (stops (t_allow t)) (jobs t) = None ->
  o_exit (run_task t) = 0%Z /\ o_err (run_task t) = false /\ o_errored (run_task t) = false /\ o_skipped (run_task t) = false.
Proof. intros t Hc Hb Hp. rewrite (runs_everything t Hc Hb Hp). repeat split. Qed.
Print Assumptions C07_success_records_zero.

(* a skipped task is marked skipped, records no exit status (-1) and no error *)
Theorem C07_skipped_records_nothing : forall t n, t_cond t = Some (Exit (Npos n)) ->
  o_skipped (run_task t) = true /\ o_exit (run_task t) = (-1)%Z /\ o_err (run_task t) = false /\ o_errored (run_task t) = false.
Proof. intros t n H. rewrite (skipped_by_condition t n H). repeat split. Qed.
Print Assumptions C07_skipped_records_nothing.

(* the process: targets run in command-line order, nothing after the first failure, exit status zero iff all succeeded *)
Theorem C07_cli_runs_prefix : forall (ok : nat -> bool) targets,
  ran (run_targets ok targets) = match first_failed ok targets with Some k => firstn (S k) targets | None => targets end.
Proof. exact run_targets_prefix. Qed.
Print Assumptions C07_cli_runs_prefix.

Theorem C07_cli_exit_zero_iff_all_ok : forall (ok : nat -> bool) targets,
  exit_status (run_targets ok targets) = 0 <-> forallb ok targets = true.
Proof. exact exit_zero_iff_all_ok. Qed.
Print Assumptions C07_cli_exit_zero_iff_all_ok.

(* ... over one task runner, where a target may succeed and yet leave the runner cancelled (a tolerated stage-condition error): the targets
   that ran are a prefix of the command line; exit status zero exactly when every requested target ran and none failed; a refused target
   is the one right after the cancelling one, and the process fails *)
Theorem C07_cli_cancelling_prefix : forall eff targets, exists rest, targets = ran_e (run_targets_e eff targets) ++ rest.
Proof. exact run_targets_e_prefix. Qed.
Print Assumptions C07_cli_cancelling_prefix.
Theorem C07_cli_cancelling_exit_zero_iff : forall eff targets,
  exit_e (run_targets_e eff targets) = 0 <->
  (ran_e (run_targets_e eff targets) = targets /\ forallb (fun t => match eff t with EFail => false | _ => true end) targets = true).
Proof. exact exit_e_zero_iff. Qed.
Print Assumptions C07_cli_cancelling_exit_zero_iff.
Theorem C07_cli_refused_target : forall eff targets u, refused_e (run_targets_e eff targets) = Some u ->
  exit_e (run_targets_e eff targets) = 1 /\
  exists pre t post, targets = pre ++ t :: u :: post /\ eff t = ECancelOk /\ ran_e (run_targets_e eff targets) = pre ++ [t].
Proof. exact refused_e_spec. Qed.
Print Assumptions C07_cli_refused_target.

Example C07_nonvacuous : exit_status (run_targets (fun t => negb (Nat.eqb t 2)) [1; 2; 3]) = 1
  /\ ran (run_targets (fun t => negb (Nat.eqb t 2)) [1; 2; 3]) = [1; 2].
Proof. split; vm_compute; reflexivity. Qed.
