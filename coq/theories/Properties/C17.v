(** C17 - Imports load every reachable file once; cycles terminate; broken imports fail. *)
From Coq Require Import List Arith Bool.
Import ListNotations.
From TaskctlV Require Import Model.Loader Proofs.LoaderSpec.

(* terminates for ANY import structure - files importing each other or themselves included: fuel above the number of
   paths that exist is never exhausted ([U] lists every path that is not missing), before and after the repair *)
Theorem C17_terminates : forall legacy fs U, (forall p, ~ In p U -> fs p = NMissing) ->
  forall fuel root, length U < fuel -> fst (load_top legacy fs fuel root) <> LOut.
Proof. exact load_terminates. Qed.
Print Assumptions C17_terminates.

(* no file is read twice, whatever the import structure *)
Theorem C17_each_read_once : forall legacy fs U, (forall p, ~ In p U -> fs p = NMissing) ->
  forall fuel root, NoDup (reads (snd (load_top legacy fs fuel root))).
Proof. exact each_read_once. Qed.
Print Assumptions C17_each_read_once.

(* a successful load has read exactly the files reachable through imports, merged the definitions of each of them (once:
   [reads] has no duplicates), and every one of them was readable *)
Theorem C17_closure_and_definitions : forall fs fuel root d st', load_top false fs fuel root = (LOk d, st') ->
  (forall p, In p (reads st') <-> reach fs root p) /\
  d = flat_map (defs_of fs) (rev (reads st')) /\
  (forall p, reach fs root p -> readable fs p).
Proof. exact load_closure. Qed.
Print Assumptions C17_closure_and_definitions.

(* relative paths are resolved against the importing file: every edge of the closure is the importing file's directory
   joined with the entry and cleaned (or a *.yaml member of an imported directory) *)
Theorem C17_relative_to_importer : forall fs g h, In h (imports_of fs g) ->
  exists c rel es, fs g = NFile c /\ cf_import c = IList es /\ In (EPath rel) es /\
    (h = join (dir_of g) rel \/ exists names n, fs (join (dir_of g) rel) = NDir names /\ In n names /\ h = join (dir_of g) rel ++ [n]).
Proof. exact import_targets_relative. Qed.
Print Assumptions C17_relative_to_importer.

(* a missing or unparsable (or mis-shapen) file anywhere in the closure: loading does not succeed - and since it neither
   panics (C15_load_total) nor runs out of fuel (C17_terminates), it fails with an error *)
Theorem C17_broken_import_fails : forall fs fuel root g, reach fs root g -> ~ readable fs g ->
  forall d, fst (load_top false fs fuel root) <> LOk d.
Proof. exact broken_import_fails. Qed.
Print Assumptions C17_broken_import_fails.
Theorem C17_broken_import_is_an_error : forall fs U, (forall p, ~ In p U -> fs p = NMissing) ->
  forall fuel root g, length U < fuel -> reach fs root g -> ~ readable fs g -> fst (load_top false fs fuel root) = LErr.
Proof.
  intros fs U HU fuel root g Hf Hg Hn.
  pose proof (load_terminates false fs U HU fuel root Hf) as H1.
  pose proof (load_no_panic fs fuel init_ls root) as H2.
  pose proof (broken_import_fails fs fuel root g Hg Hn) as H3.
  unfold load_top in *. destruct (fst (load false fs fuel init_ls root)) as [| | |d]; try contradiction; try reflexivity.
  exfalso. exact (H3 d eq_refl).
Qed.
Print Assumptions C17_broken_import_is_an_error.

(* tasks, contexts and variables of the global file are available alongside the project's own *)
Theorem C17_global_alongside_project : forall glob proj k,
  let r := load_global_then_project glob proj in
  alookup k (s_tasks r) = match alookup k (s_tasks glob) with Some v => Some v | None => alookup k (s_tasks proj) end /\
  alookup k (s_contexts r) = match alookup k (s_contexts glob) with Some v => Some v | None => alookup k (s_contexts proj) end /\
  alookup k (s_vars r) = match alookup k (s_vars proj) with Some v => Some v | None => alookup k (s_vars glob) end.
Proof. exact global_and_project. Qed.
Print Assumptions C17_global_alongside_project.

(* non-vacuity: three files in nested directories importing each other in a cycle, with a self-import and a repeated import *)
Definition f0 : path := [2; 10].            (* /proj/r.yaml *)
Definition f1 : path := [2; 3; 11].         (* /proj/sub/a.yaml *)
Definition f2 : path := [2; 3; 4; 12].      (* /proj/sub/deep/b.yaml *)
Definition ex_fs : fsys := fun p =>
  if path_eq_dec p f0 then NFile (mkCF (IList [EPath [3; 11]; EPath [1; 3; 4; 0; 11]; EPath [10]]) [100])
  else if path_eq_dec p f1 then NFile (mkCF (IList [EPath [4; 12]]) [101])
  else if path_eq_dec p f2 then NFile (mkCF (IList [EPath [0; 0; 10]; EPath [0; 11]]) [102])
  else NMissing.
Example C17_nonvacuous : exists st', load_top false ex_fs 5 f0 = (LOk [100; 101; 102], st') /\ reads st' = [f2; f1; f0].
Proof. eexists. split; vm_compute; reflexivity. Qed.

(* the pinned loader: an unparsable imported file is only logged; loading "succeeds" with a partial configuration *)
Definition bad_fs : fsys := fun p =>
  if path_eq_dec p f0 then NFile (mkCF (IList [EPath [3; 11]]) [100]) else if path_eq_dec p f1 then NUnparsable else NMissing.
Theorem C17_pinned_refuted_swallowed_error : exists st', load_top true bad_fs 5 f0 = (LOk [100], st') /\ reach bad_fs f0 f1 /\ ~ readable bad_fs f1.
Proof.
  eexists. split; [vm_compute; reflexivity|]. split.
  - eapply reach_step; [constructor|]. vm_compute. now left.
  - vm_compute. auto.
Qed.
Print Assumptions C17_pinned_refuted_swallowed_error.
