(** C13 - A task timeout bounds every one of its commands.   (partial, see the end) *)
From Coq Require Import List Arith NArith ZArith Bool.
Import ListNotations.
From TaskctlV Require Import Model.TaskRun Model.Timeout Proofs.TaskRunSpec Proofs.TimeoutSpec.

(* a command ends as a non-exit-status error exactly when it would run longer than the timeout *)
Theorem C13_expires_iff_longer : forall T c, timed_res (Some T) c = Fatal <-> (T < d_dur c)%N.
Proof. exact timed_fatal_iff. Qed.
Print Assumptions C13_expires_iff_longer.

(* the task is reported as failed - for both values of allow_failure - and none of its remaining commands start *)
Theorem C13_overrun_fails : forall t p j, let tk := to_task t in
  cond_passes tk -> first_index before_fails_b (t_before tk) = None ->
  first_index (stops (t_allow tk)) (firstn p (jobs tk)) = None ->
  nth_error (jobs tk) p = Some j -> job_res j = Fatal ->
  o_err (run_task tk) = true /\ o_errored (run_task tk) = true /\ o_stored (run_task tk) = false /\
  o_trace (run_task tk) = cond_tok tk ++ before_toks 0 (t_before tk) (length (t_before tk)) ++ flat_map job_tok (firstn (S p) (jobs tk)).
Proof. exact overrun_fails. Qed.
Print Assumptions C13_overrun_fails.

(* an overrunning before hook fails the task before any command *)
Theorem C13_overrunning_before_fails : forall t k, let tk := to_task t in
  cond_passes tk -> first_index before_fails_b (t_before tk) = Some k ->
  run_task tk = mkOut (cond_tok tk ++ before_toks 0 (t_before tk) (S k)) true false false 0 [] false.
Proof. intros t k tk. exact (before_fails tk k). Qed.
Print Assumptions C13_overrunning_before_fails.

(* an overrunning after hook is merely cut short *)
Theorem C13_after_cut_short : forall t, let tk := to_task t in
  cond_passes tk -> first_index before_fails_b (t_before tk) = None -> first_index (stops (t_allow tk)) (jobs tk) = None ->
  o_err (run_task tk) = false /\ o_errored (run_task tk) = false /\
  o_trace (run_task tk) = cond_tok tk ++ before_toks 0 (t_before tk) (length (t_before tk)) ++ flat_map job_tok (jobs tk)
                          ++ map TAfter (seq 0 (length (tt_after t))).
Proof. exact after_cut_short. Qed.
Print Assumptions C13_after_cut_short.

(* commands that finish within the timeout are unaffected *)
Theorem C13_within_unaffected : forall t T, tt_timeout t = Some T -> (forall c, In c (all_cmds t) -> (d_dur c <= T)%N) ->
  run_task (to_task t) = run_task (to_task (untimed t)).
Proof. exact within_unaffected. Qed.
Print Assumptions C13_within_unaffected.

(* each command gets the full timeout: the verdict on a job is a function of that job's own duration, not of what ran
   before it (Execute arms a fresh timer per job) *)
Theorem C13_full_timeout_each : forall t,
  t_jobs (to_task t) = map (map (fun c => mkRun (timed_res (tt_timeout t) c) (d_out c))) (tt_jobs t).
Proof. reflexivity. Qed.
Print Assumptions C13_full_timeout_each.

(* non-vacuity: timeout 300 ms, three commands of 200 ms each (600 ms in total: each gets the full timeout), then one of 5 s *)
Definition quick := mkTC 200 0 [].
Definition slow := mkTC 5000 0 [].
Definition tt1 (allow : bool) := mkTT (Some 300%N) None [] [[quick; quick; quick; slow; quick]] [quick] allow.
Example C13_nonvacuous : forall allow, o_trace (run_task (to_task (tt1 allow))) = [TCmd 0 0; TCmd 0 1; TCmd 0 2; TCmd 0 3]
  /\ o_err (run_task (to_task (tt1 allow))) = true.
Proof. intros [|]; split; vm_compute; reflexivity. Qed.
Example C13_nonvacuous_hyp : first_index (stops true) (firstn 3 (jobs (to_task (tt1 true)))) = None
  /\ exists j, nth_error (jobs (to_task (tt1 true))) 3 = Some j /\ job_res j = Fatal.
Proof. split; [vm_compute; reflexivity|]. eexists. split; vm_compute; reflexivity. Qed.

(* PARTIAL.  The model decides WHAT happens when a timeout expires.  That the expiry really terminates the process
   "shortly afterwards" (timer, SIGINT then SIGKILL after mvdan/sh's 2 s grace, pipe draining) is not exhibited by the
   model: the harness measures it with real commands of the quantified shapes (external sleep, shell busy loop, a child
   that ignores SIGINT) against the bound  timeout + 2 s + slack. *)
