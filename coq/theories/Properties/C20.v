(** C20 - Watchers observe exactly the selected paths and fire on the subscribed events.   (partial, see the end) *)
From Coq Require Import List Arith Bool.
Import ListNotations.
From TaskctlV Require Import Model.Glob Proofs.GlobSpec.

(* the matcher decides the glob grammar (literal segments, *, ?, ** as a whole segment: any number of segments, at least one
   when it ends the pattern - doublestar's reading), for every pattern and path *)
Theorem C20_gmatch_correct : forall p x, gmatch p x = true <-> Matches p x.
Proof. exact gmatch_correct. Qed.
Print Assumptions C20_gmatch_correct.

(* a watcher observes exactly the paths that match at least one include pattern and no exclude pattern *)
Theorem C20_selection : forall tree inc exc x,
  In x (select tree inc exc) <-> In x tree /\ (exists p, In p inc /\ Matches p x) /\ (forall q, In q exc -> ~ Matches q x).
Proof. exact selection_exact. Qed.
Print Assumptions C20_selection.

(* all types when none are listed *)
Theorem C20_default_events : forall k, In k all_kinds -> subscribed [] k = true.
Proof. exact default_events_all. Qed.
Print Assumptions C20_default_events.

(* an event runs the task iff its type is subscribed, with EventName and EventPath describing it; and the watcher keeps
   serving: the law is stated for event histories of any length and composes event by event *)
Theorem C20_events : forall events evs,
  serve false events evs = RInit :: map (fun e => REvent (ev_kind e) (ev_path e)) (filter (fun e => subscribed events (ev_kind e)) evs).
Proof. exact serve_law. Qed.
Print Assumptions C20_events.
Theorem C20_keeps_serving : forall events evs1 evs2, serve false events (evs1 ++ evs2) = serve false events evs1 ++ tl (serve false events evs2).
Proof. exact serve_app. Qed.
Print Assumptions C20_keeps_serving.
Theorem C20_one_event : forall events e,
  tl (serve false events [e]) = if subscribed events (ev_kind e) then [REvent (ev_kind e) (ev_path e)] else [].
Proof. exact serve_one. Qed.
Print Assumptions C20_one_event.

(* non-vacuity: src/**/*.go minus **/gen_?.go *)
Definition c (n : nat) := PLit n.
Definition ex_inc : list pattern := [[PSeg [c 1]; PDouble; PSeg [PStar; c 9; c 7]]].          (* a / ** / *.g   (letters as numbers) *)
Definition ex_exc : list pattern := [[PDouble; PSeg [c 5; PQuest; c 9; c 7]]].                (* ** / e?.g *)
Definition ex_tree : list fpath := [[[1]; [3; 9; 7]]; [[1]; [2]; [4; 9; 7]]; [[1]; [2]; [5; 6; 9; 7]]; [[2]; [3; 9; 7]]; [[1]]].
Example C20_nonvacuous : select ex_tree ex_inc ex_exc = [[[1]; [3; 9; 7]]; [[1]; [2]; [4; 9; 7]]].
Proof. vm_compute. reflexivity. Qed.
Example C20_events_nonvacuous : serve false [2; 4] [mkEv 2 7; mkEv 5 7; mkEv 4 8; mkEv 2 7] = [RInit; REvent 2 7; REvent 4 8; REvent 2 7].
Proof. vm_compute. reflexivity. Qed.

(* the pinned handler cancelled the shared runner before running the task: no event ever ran it *)
Theorem C20_pinned_refuted_events : exists events evs, In (mkEv 2 7) evs /\ subscribed events 2 = true /\ serve true events evs = [RInit].
Proof. exists [], [mkEv 2 7]. split; [now left|]. split; reflexivity. Qed.
Print Assumptions C20_pinned_refuted_events.

(* PARTIAL.  Modelled, not verified: doublestar.Glob / PathMatch (tied to [gmatch] / [select] by the registered paths the real
   watcher logs for generated trees and pattern sets) and inotify/fsnotify delivery: WHICH events the kernel delivers for a file
   operation (coalescing, a removal arriving as chmod + remove, a watched directory reporting its children) is read from the
   watcher's own debug log; the theorem then fixes which task runs must follow.  The 1 s polling sleep is outside the model. *)
