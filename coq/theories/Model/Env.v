(** * Model of how a command's environment, template variables and working directory are assembled
    (runner.go Run / compiler.go CompileTask+CompileCommand / executor.go Execute / config/task.go buildTask /
    scheduler.go runStage / cmd/taskctl buildTaskRunner).  Containers are association lists (Model/Stage.v). *)
From Coq Require Import List Arith Bool.
Import ListNotations.
From TaskctlV Require Import Model.Stage.

Definition with_ (m : amap) (k v : nat) : amap := (k, v) :: m.      (* Container.With / Set *)

(* ---- environment (C09) ---- *)
Record env_layers := mkEnvL {
  e_parent : amap;        (* os.Environ() of the taskctl process *)
  e_runner : amap;        (* TaskRunner.env: ARGS and the <NAME>_OUTPUT of finished tasks *)
  e_ctx : amap;           (* execution context env *)
  e_tname : nat * nat;    (* (key TASK_NAME, the task's name) *)
  e_envfile : amap;       (* the task's env_file *)
  e_task : amap;          (* the task's env *)
  e_stage : amap;         (* the stage's env (empty for a direct run) *)
  e_variation : amap }.   (* the current variation *)

(* the job environment, as the code computes it *)
Definition job_env (L : env_layers) : amap :=
  let env0 := merge (e_runner L) (e_ctx L) in                          (* r.env.Merge(execContext.Env)          *)
  let env1 := with_ env0 (fst (e_tname L)) (snd (e_tname L)) in        (* env.With("TASK_NAME", t.Name)         *)
  let tenv := merge (merge (e_envfile L) (e_task L)) (e_stage L) in    (* buildTask: FromMap(envs).Merge(t.Env); runStage: .Merge(stage.Env) *)
  let env2 := merge env1 tenv in                                       (* env.Merge(t.Env)                      *)
  merge env2 (e_variation L).                                          (* CompileTask: env.Merge(FromMap(variant)) *)

(* Execute after the repair: inherited entries whose name the job defines are dropped, the rest passes through *)
Definition proc_lookup (L : env_layers) (name : nat) : option nat :=
  match lookup name (job_env L) with
  | Some v => Some v
  | None => lookup name (e_parent L)
  end.

(* Execute as pinned: parent and job entries both reach expand.ListEnviron, which sorts the "name=value" strings and
   keeps the last of equal names: the GREATEST value wins (values are compared as numbers here) *)
Definition max_opt (a b : option nat) : option nat :=
  match a, b with
  | Some x, Some y => Some (Nat.max x y)
  | Some x, None => Some x
  | None, b => b
  end.
Definition proc_lookup_legacy (L : env_layers) (name : nat) : option nat :=
  max_opt (lookup name (job_env L)) (lookup name (e_parent L)).

Fixpoint first_some (l : list (option nat)) : option nat :=
  match l with [] => None | Some v :: _ => Some v | None :: l' => first_some l' end.

(* ---- working directory (C09): 0 = "" ---- *)
Record dir_layers := mkDirL { d_stage : nat; d_task : nat; d_ctx : nat; d_start : nat }.
(* runStage: t.Dir = stage.Dir if given; CompileCommand: dir if given else context dir; Execute: else the start directory.
   The same CompileCommand serves commands, before, after and the condition. *)
Definition job_dir (D : dir_layers) : nat :=
  let tdir := if Nat.eqb (d_stage D) 0 then d_task D else d_stage D in
  let jdir := if Nat.eqb tdir 0 then d_ctx D else tdir in
  if Nat.eqb jdir 0 then d_start D else jdir.
Fixpoint first_nonzero (l : list nat) : nat := match l with [] => 0 | 0 :: l' => first_nonzero l' | x :: _ => x end.

(* ---- template variables (C10) ---- *)
Record var_layers := mkVarL {
  v_defaults : amap;      (* TempDir, Root *)
  v_global : amap;        (* variables of ~/.taskctl/config.yaml *)
  v_cfg : amap;           (* variables of the project configuration *)
  v_set : amap;           (* --set k=v *)
  v_args : amap;          (* Args, ArgsList *)
  v_task : amap;          (* the task's variables *)
  v_stage : amap }.       (* the stage's variables *)

Definition vars_seen (V : var_layers) : amap :=
  let cfgv := merge (merge (v_defaults V) (v_global V)) (v_cfg V) in   (* Config.merge after the repair *)
  let cli := merge cfgv (v_set V) in                                   (* the --set loop: cfg.Variables.Set *)
  let rv := merge cli (v_args V) in                                    (* buildTaskRunner: With("Args"), Set("ArgsList") *)
  merge (merge rv (v_task V)) (v_stage V).                             (* Run: r.variables.Merge(t.Variables); runStage *)

(* a command as a template: the keys it refers to.  Rendering fails if one is undefined (missingkey=error) *)
Definition renders (refs : list nat) (vars : amap) : bool :=
  forallb (fun k => match lookup k vars with Some _ => true | None => false end) refs.
