(** * Model of pkg/scheduler/graph.go: ExecutionGraph edges and cycle detection.

    The Go graph keeps two maps of slices, [from] and [to], both appended to by [addEdge].
    Extensionally they are the list of inserted edges in insertion order:
      from[x] = [ t | (x,t) <- edges ]      to[x] = [ f | (f,x) <- edges ]
    which is the representation used here.  [dfs] transcribes [cycleDfs] with its
    [visited map[string]bool] split into the keys mapped to true ([path]: on the current
    DFS path) and the keys mapped to false ([black]: finished).  [dfs_legacy] transcribes the
    pinned version (one visited set, never cleared). No proofs in this file. *)
From Coq Require Import List Arith Bool.
Import ListNotations.

Definition edge := (nat * nat)%type.     (* (from, to): stage [to] depends on stage [from] *)
Definition graph := list edge.

Definition succs (g : graph) (t : nat) : list nat :=
  map snd (filter (fun e => Nat.eqb (fst e) t) g).       (* g.from[t] = ExecutionGraph.From *)
Definition preds (g : graph) (t : nat) : list nat :=
  map fst (filter (fun e => Nat.eqb (snd e) t) g).       (* g.to[t]   = ExecutionGraph.To   *)

Definition mem (x : nat) (l : list nat) : bool := existsb (Nat.eqb x) l.

Inductive res := Cycle | Ok (black : list nat) | OutOfFuel.

Section DFS.
Variable succ : nat -> list nat.

(* cycleDfs after the repair: visited[t]=true <-> t on [path]; visited[t]=false <-> t in [black] *)
Fixpoint dfs (fuel : nat) (t : nat) (path black : list nat) {struct fuel} : res :=
  match fuel with
  | 0 => OutOfFuel
  | S f =>
    if mem t path then Cycle
    else if mem t black then Ok black
    else
      (fix go (ns : list nat) (b : list nat) {struct ns} : res :=
         match ns with
         | [] => Ok (t :: b)
         | n :: ns' =>
           match dfs f n (t :: path) b with
           | Ok b' => go ns' b'
           | r => r
           end
         end) (succ t) black
  end.

(* cycleDfs as pinned: a single visited set; meeting any visited node is reported as a cycle *)
Fixpoint dfs_legacy (fuel : nat) (t : nat) (visited : list nat) {struct fuel} : res :=
  match fuel with
  | 0 => OutOfFuel
  | S f =>
    if mem t visited then Cycle
    else
      (fix go (ns : list nat) (v : list nat) {struct ns} : res :=
         match ns with
         | [] => Ok v
         | n :: ns' =>
           match dfs_legacy f n v with
           | Ok v' => go ns' v'
           | r => r
           end
         end) (succ t) (t :: visited)
  end.
End DFS.

Definition fuel_for (g : graph) : nat := S (S (2 * length g)).

Inductive bres := BOk (g : graph) | BCycle | BFuel.

(* addEdge: append to from/to, then cycleDfs(to, fresh map) along [from] *)
Definition add_edge (g : graph) (e : edge) : bres :=
  let g' := g ++ [e] in
  match dfs (succs g') (fuel_for g') (snd e) [] [] with
  | Ok _ => BOk g'
  | Cycle => BCycle
  | OutOfFuel => BFuel
  end.

Definition add_edge_legacy (g : graph) (e : edge) : bres :=
  let g' := g ++ [e] in
  match dfs_legacy (succs g') (fuel_for g') (snd e) [] with
  | Ok _ => BOk g'
  | Cycle => BCycle
  | OutOfFuel => BFuel
  end.

Fixpoint build_edges (add : graph -> edge -> bres) (g : graph) (es : list edge) : bres :=
  match es with
  | [] => BOk g
  | e :: es' => match add g e with BOk g' => build_edges add g' es' | r => r end
  end.

(* a stage declaration: its name and its depends_on list, in declared order *)
Definition stage_decl := (nat * list nat)%type.
Definition stage_edges (s : stage_decl) : list edge := map (fun d => (d, fst s)) (snd s).
Definition declared_edges (stages : list stage_decl) : list edge := flat_map stage_edges stages.

(* NewExecutionGraph(stages...) / the AddStage loop of buildPipeline *)
Definition build (stages : list stage_decl) : bres := build_edges add_edge [] (declared_edges stages).
Definition build_legacy (stages : list stage_decl) : bres := build_edges add_edge_legacy [] (declared_edges stages).
