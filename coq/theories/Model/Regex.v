(** * A small backtracking regular-expression matcher (leftmost-first semantics, greedy star, left-preferring
    alternation: the semantics of Go's regexp package) and the ANSI-escape expression of pkg/output/prefixed.go.
    Used to PREDICT what the prefixed writer emits and to decide whether a chunk boundary cuts an escape sequence;
    validated against Go's regexp by the `output` engine.  The C19 theorems do not depend on this file: they hold
    for every stripping function that is local to lines.  No proofs in this file. *)
From Coq Require Import List Arith NArith Bool.
Import ListNotations.

Inductive re := RChr (p : N -> bool) | REps | RSeq (a b : re) | RAlt (a b : re) | RStar (a : re).

(* [rmatch fuel r s k]: match r at the start of s, then continue with k on the rest; first success wins *)
Fixpoint rmatch (fuel : nat) (r : re) (s : list N) (k : list N -> option (list N)) : option (list N) :=
  match fuel with
  | 0 => None
  | S f =>
    match r with
    | RChr p => match s with c :: s' => if p c then k s' else None | [] => None end
    | REps => k s
    | RSeq a b => rmatch f a s (fun s1 => rmatch f b s1 k)
    | RAlt a b => match rmatch f a s k with Some x => Some x | None => rmatch f b s k end
    | RStar a =>
      match rmatch f a s (fun s1 => rmatch f (RStar a) s1 k) with      (* star bodies used here always consume a byte *)
      | Some x => Some x
      | None => k s
      end
    end
  end.

Definition ropt (a : re) := RAlt a REps.
Fixpoint rseqs (l : list re) : re := match l with [] => REps | [a] => a | a :: l' => RSeq a (rseqs l') end.
Fixpoint rupto (n : nat) (a : re) : re := match n with 0 => REps | S n' => ropt (RSeq a (rupto n' a)) end.   (* a{0,n} *)

Open Scope N_scope.
Definition chr (c : N) := RChr (N.eqb c).
Definition in_rng (lo hi c : N) := (lo <=? c) && (c <=? hi).
Definition is_dig (c : N) := in_rng 48 57 c.
Definition is_alnum (c : N) := in_rng 97 122 c || in_rng 65 90 c || is_dig c.
(* [[\]()#;?] *)
Definition is_intro (c : N) := (c =? 91) || (c =? 93) || (c =? 40) || (c =? 41) || (c =? 35) || (c =? 59) || (c =? 63).
(* [\dA-PRZcf-ntqry=><~] *)
Definition is_final (c : N) := is_dig c || in_rng 65 80 c || (c =? 82) || (c =? 90) || (c =? 99) || in_rng 102 110 c
                               || (c =? 116) || (c =? 113) || (c =? 114) || (c =? 121) || (c =? 61) || (c =? 62) || (c =? 60) || (c =? 126).
Definition dig := RChr is_dig.
Definition alnum := RChr is_alnum.
Definition ansi_re : re :=
  rseqs [ RAlt (chr 27) (RSeq (chr 194) (chr 155));                 (* ESC, or U+009B in UTF-8 *)
          RStar (RChr is_intro);
          RAlt (RSeq (ropt (RSeq (RStar alnum) (RStar (RSeq (chr 59) (RStar alnum))))) (chr 7))
               (RSeq (ropt (rseqs [dig; rupto 3 dig; RStar (RSeq (chr 59) (rupto 4 dig))])) (RChr is_final)) ].
Close Scope N_scope.

(* regexp.ReplaceAllLiteral(p, ""): scan from the left; at each position try a match; matches are never empty *)
Fixpoint strip_from (fuel : nat) (n : nat) (s : list N) : list N :=
  match n with
  | 0 => s
  | S n' =>
    match s with
    | [] => []
    | c :: s' =>
      match rmatch fuel ansi_re s (fun rest => Some rest) with
      | Some rest => strip_from fuel n' rest        (* at least two bytes were consumed *)
      | None => c :: strip_from fuel n' s'
      end
    end
  end.
Definition strip_ansi (s : list N) : list N := strip_from (4 * length s + 200) (length s) s.
