(** * Model of cmd/taskctl: the target loops of rootAction / `run`, taskArgs, and main's exit status. *)
From Coq Require Import List Arith Bool.
Import ListNotations.

(* ---- target loop: `for _, target := range targets { err = runTarget(...); if err != nil { return err } }` ---- *)
Record cli_result := mkCli { ran : list nat; exit_status : nat }.    (* main: logrus.Fatal(err) exits 1 *)

Fixpoint run_targets (ok : nat -> bool) (targets : list nat) : cli_result :=
  match targets with
  | [] => mkCli [] 0
  | t :: ts => if ok t then let r := run_targets ok ts in mkCli (t :: ran r) (exit_status r)
               else mkCli [t] 1
  end.

Fixpoint first_failed (ok : nat -> bool) (targets : list nat) : option nat :=
  match targets with
  | [] => None
  | t :: ts => if ok t then option_map S (first_failed ok ts) else Some 0
  end.

(* ---- argv: words are numbers, 0 stands for the word "--" ---- *)
Definition is_dash (w : nat) : bool := Nat.eqb w 0.

(* the loops of rootAction / run: targets are the words before the first "--" *)
Fixpoint targets_of (argv : list nat) : list nat :=
  match argv with
  | [] => []
  | w :: ws => if is_dash w then [] else w :: targets_of ws
  end.

(* taskArgs after the repair: everything after the FIRST "--" *)
Fixpoint task_args (argv : list nat) : list nat :=
  match argv with
  | [] => []
  | w :: ws => if is_dash w then ws else task_args ws
  end.

(* taskArgs as pinned: everything after the LAST "--", and nothing when that "--" is the last word *)
Fixpoint last_dash (argv : list nat) (k : nat) (acc : option nat) : option nat :=
  match argv with
  | [] => acc
  | w :: ws => last_dash ws (S k) (if is_dash w then Some k else acc)
  end.
Definition task_args_legacy (argv : list nat) : list nat :=
  match last_dash argv 0 None with
  | Some d => if Nat.eqb d (length argv - 1) then [] else skipn (S d) argv
  | None => []
  end.

(* ---- the target loop over ONE task runner: a target may succeed and yet leave the runner cancelled (a pipeline with a stage whose
   condition cannot be evaluated and that allows failure: the scheduler cancels the runner, the pipeline reports no error).  Every later
   target is then refused by the runner (`context canceled`): it runs nothing and fails. ---- *)
Inductive teffect := EOk | EFail | ECancelOk.
Record cli_result_e := mkCliE { ran_e : list nat; refused_e : option nat; exit_e : nat }.

Fixpoint run_targets_e (eff : nat -> teffect) (targets : list nat) : cli_result_e :=
  match targets with
  | [] => mkCliE [] None 0
  | t :: rest =>
    match eff t with
    | EOk => let r := run_targets_e eff rest in mkCliE (t :: ran_e r) (refused_e r) (exit_e r)
    | EFail => mkCliE [t] None 1
    | ECancelOk => match rest with [] => mkCliE [t] None 0 | u :: _ => mkCliE [t] (Some u) 1 end
    end
  end.
