(** * Model of what the three decoders hand to taskctl and of the weak decoding that follows (C16).
    unmarshalData: yaml.v2 (int, float64, bool, string, nested maps, []interface{}), encoding/json (EVERY number is a
    float64), go-toml (int64, float64, ..., arrays of tables).  decode: one mapstructure decoder with WeaklyTypedInput and the
    string-to-duration hook for all formats.  Strings are [nat] identifiers; a float that is not an integer is an abstract
    identifier too (the three decoders parse the same decimal literal to the same float64).  Map keys are strings in every
    format (the emitters quote keys that YAML would read as something else).  No proofs in this file. *)
From Coq Require Import List ZArith Bool.
Import ListNotations.
Open Scope Z_scope.

(* the abstract configuration value that is written to the three files *)
Inductive av := AStr (s : nat) | ABool (b : bool) | AInt (z : Z) | ADec (d : nat) | AList (l : list av) | AMap (m : list (nat * av)).
(* a float64: the one nearest to an integer, or a non-integral one *)
Inductive fl := FInt (z : Z) | FDec (d : nat).
(* what a decoder returns *)
Inductive nv := NStr (s : nat) | NBool (b : bool) | NInt (z : Z) | NFlt (f : fl) | NList (l : list nv) | NMap (m : list (nat * nv)).
Inductive fmt := Yaml | Json | Toml.

(* float64 of an integer: exact up to 2^53, beyond that rounded to 53 significant bits (to nearest, ties to even) *)
Definition two53 : Z := 9007199254740992.
Definition round53 (z : Z) : Z :=
  if Z.abs z <=? two53 then z
  else let k := Z.log2 (Z.abs z) - 52 in
       let q := Z.abs z / 2 ^ k in let r := Z.abs z mod 2 ^ k in let half := 2 ^ (k - 1) in
       let q' := if (half <? r) || ((half =? r) && Z.odd q) then q + 1 else q in
       Z.sgn z * q' * 2 ^ k.

Fixpoint native (f : fmt) (a : av) : nv :=
  match a with
  | AStr s => NStr s
  | ABool b => NBool b
  | AInt z => match f with Json => NFlt (FInt (round53 z)) | _ => NInt z end
  | ADec d => NFlt (FDec d)
  | AList l => NList (map (native f) l)
  | AMap m => NMap ((fix go (m : list (nat * av)) := match m with [] => [] | (k, x) :: m' => (k, native f x) :: go m' end) m)
  end.

(* the target types of the schema *)
Inductive ty := TString | TBool | TDuration | TList (t : ty) | TMap (t : ty).
(* decoded values; strings: a literal, the decimal rendering of an integer, FormatFloat of a non-integral float, "1"/"0" of a bool *)
Inductive sval := SLit (s : nat) | SDecimal (z : Z) | SFloat (d : nat) | SBool (b : bool).
Inductive dv := DStr (s : sval) | DBool (b : bool) | DDur (ns : Z) | DDurStr (s : nat) | DList (l : list dv) | DMap (m : list (nat * dv)) | DErr.

(* mapstructure, WeaklyTypedInput: number / bool -> string; number / string -> bool; a single value -> a one-element slice;
   number -> duration (nanoseconds), string -> duration through the hook *)
Definition wd_scalar (t : ty) (v : nv) : dv :=
  match t, v with
  | TString, NStr s => DStr (SLit s) | TString, NBool b => DStr (SBool b) | TString, NInt z => DStr (SDecimal z)
  | TString, NFlt (FInt z) => DStr (SDecimal z)       (* FormatFloat(f, 'f', -1, 64) of an integral float: its digits *)
  | TString, NFlt (FDec d) => DStr (SFloat d)
  | TBool, NBool b => DBool b | TBool, NInt z => DBool (negb (z =? 0)) | TBool, NFlt (FInt z) => DBool (negb (z =? 0))
  | TBool, NFlt (FDec _) => DBool true
  | TBool, NStr s => DStr (SLit s)                    (* strconv.ParseBool of the literal: the same text in every format *)
  | TDuration, NStr s => DDurStr s | TDuration, NInt z => DDur z | TDuration, NFlt (FInt z) => DDur z
  | TDuration, NFlt (FDec d) => DStr (SFloat d)
  | _, _ => DErr
  end.
Definition is_scalar (v : nv) : bool := match v with NList _ | NMap _ => false | _ => true end.
Fixpoint wd (t : ty) (v : nv) {struct v} : dv :=
  match t with
  | TList t' =>
    match v with
    | NList l => DList (map (wd t') l)
    | NMap _ => DErr
    | _ => DList [wd_scalar t' v]                     (* a single value becomes a one-element slice *)
    end
  | TMap t' =>
    match v with
    | NMap m => DMap ((fix go (m : list (nat * nv)) := match m with [] => [] | (k, x) :: m' => (k, wd t' x) :: go m' end) m)
    | _ => DErr
    end
  | _ => wd_scalar t v
  end.

(* every integer of the value is exactly representable as a float64 *)
Fixpoint portable (a : av) : bool :=
  match a with
  | AInt z => Z.abs z <=? two53
  | AList l => forallb portable l
  | AMap m => (fix go (m : list (nat * av)) := match m with [] => true | (_, x) :: m' => portable x && go m' end) m
  | _ => true
  end.
