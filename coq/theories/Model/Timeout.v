(** * Model of task timeouts (C13): executor.Execute arms a fresh context.WithTimeout(ctx, *job.Timeout) for every job and
    CompileTask / before / after / checkTaskCondition copy the task's timeout onto every job they build.  A command is
    given by how long it would run and how it would end; under a timeout T it ends as [Fatal] (a non-exit-status error:
    "context deadline exceeded") iff it would run longer than T.  No proofs in this file. *)
From Coq Require Import List Arith NArith Bool.
Import ListNotations.
From TaskctlV Require Import Model.TaskRun.

Record tcmd := mkTC { d_dur : N (* milliseconds *); d_exit : N; d_out : list N }.
Definition timed_res (T : option N) (c : tcmd) : res :=
  match T with
  | Some t => if (t <? d_dur c)%N then Fatal else Exit (d_exit c)
  | None => Exit (d_exit c)
  end.
Record ttask := mkTT {
  tt_timeout : option N;
  tt_cond : option tcmd; tt_before : list tcmd; tt_jobs : list (list tcmd); tt_after : list tcmd; tt_allow : bool }.
(* each job gets the task's timeout, and the verdict on a job looks at that job's own duration only *)
Definition to_task (t : ttask) : task :=
  let T := tt_timeout t in
  mkTask (option_map (timed_res T) (tt_cond t)) (map (timed_res T) (tt_before t))
         (map (map (fun c => mkRun (timed_res T c) (d_out c))) (tt_jobs t))
         (map (timed_res T) (tt_after t)) (tt_allow t).
Definition untimed (t : ttask) : ttask := mkTT None (tt_cond t) (tt_before t) (tt_jobs t) (tt_after t) (tt_allow t).
Definition all_cmds (t : ttask) : list tcmd :=
  (match tt_cond t with Some c => [c] | None => [] end) ++ tt_before t ++ concat (tt_jobs t) ++ tt_after t.
