(** * Model of TaskRunner.Run / TaskRunner.Cancel with respect to cancellation (runner.go), for any number of runs and
    any number of Cancel calls interleaved arbitrarily.

    Repaired hand-shake: an in-flight counter guarded by cancelMutex; Cancel sets the flag, cancels the context once and
    waits (sync.Cond) until the counter is zero.  The interpreter checks the context before every command; a command in
    progress when the context is cancelled may be interrupted ([EIntr]) or may just have completed ([ERun]).
    [lstep] is the pinned hand-shake (doneCh closed by every Run that ends while canceling; Cancel receives from it). *)
From Coq Require Import List Arith Bool.
Import ListNotations.

Inductive rpc := RNew | REntered | RIdle (k : nat) | RBusy (k : nat) | RLeaving (err : bool) | RDone (err : bool).
Inductive kpc := KNew | KWait | KDone.
Inductive cev := ERun (i : nat) | EIntr (i : nat) | ECan (j : nat).
Inductive xtok := XStart (i k : nat).      (* command k of run i has been started *)

Record xstate := mkX {
  rp : nat -> rpc;  kp : nat -> kpc;
  cancelled : bool;            (* the runner's context is cancelled (== canceling) *)
  running : nat;               (* runs in flight *)
  xtrace : list xtok }.

Definition updr {A} (f : nat -> A) (i : nat) (x : A) : nat -> A := fun j => if Nat.eqb j i then x else f j.
Definition xinit : xstate := mkX (fun _ => RNew) (fun _ => KNew) false 0 [].

(* ncmds i: number of commands (hooks included) of run i *)
Definition xstep (ncmds : nat -> nat) (s : xstate) (e : cev) : option xstate :=
  match e with
  | ERun i =>
    match rp s i with
    | RNew => Some (mkX (updr (rp s) i REntered) (kp s) (cancelled s) (S (running s)) (xtrace s))
    | REntered => Some (mkX (updr (rp s) i (if cancelled s then RLeaving true else RIdle 0)) (kp s) (cancelled s) (running s) (xtrace s))
    | RIdle k =>
      if Nat.leb (ncmds i) k then Some (mkX (updr (rp s) i (RLeaving false)) (kp s) (cancelled s) (running s) (xtrace s))
      else if cancelled s then Some (mkX (updr (rp s) i (RLeaving true)) (kp s) (cancelled s) (running s) (xtrace s))
      else Some (mkX (updr (rp s) i (RBusy k)) (kp s) (cancelled s) (running s) (XStart i k :: xtrace s))
    | RBusy k => Some (mkX (updr (rp s) i (RIdle (S k))) (kp s) (cancelled s) (running s) (xtrace s))
    | RLeaving err => Some (mkX (updr (rp s) i (RDone err)) (kp s) (cancelled s) (pred (running s)) (xtrace s))
    | RDone _ => None
    end
  | EIntr i =>
    match rp s i with
    | RBusy k => if cancelled s then Some (mkX (updr (rp s) i (RLeaving true)) (kp s) (cancelled s) (running s) (xtrace s)) else None
    | _ => None
    end
  | ECan j =>
    match kp s j with
    | KNew => Some (mkX (rp s) (updr (kp s) j KWait) true (running s) (xtrace s))
    | KWait => if Nat.eqb (running s) 0 then Some (mkX (rp s) (updr (kp s) j KDone) (cancelled s) (running s) (xtrace s)) else None
    | KDone => None
    end
  end.

Fixpoint xrun (ncmds : nat -> nat) (s : xstate) (es : list cev) : option xstate :=
  match es with
  | [] => Some s
  | e :: es' => match xstep ncmds s e with Some s' => xrun ncmds s' es' | None => None end
  end.

(* ---- the pinned hand-shake ---- *)
Inductive chan := COpen | CClosed.
Record lstate := mkL { l_rp : nat -> rpc; l_kp : nat -> kpc; l_canc : bool; l_chan : chan; l_panic : bool }.
Definition linit : lstate := mkL (fun _ => RNew) (fun _ => KNew) false COpen false.
Definition lstep (ncmds : nat -> nat) (s : lstate) (e : cev) : option lstate :=
  if l_panic s then None else
  match e with
  | ERun i =>
    match l_rp s i with
    | RNew => Some (mkL (updr (l_rp s) i REntered) (l_kp s) (l_canc s) (l_chan s) false)
    | REntered => Some (mkL (updr (l_rp s) i (if l_canc s then RLeaving true else RIdle 0)) (l_kp s) (l_canc s) (l_chan s) false)
    | RIdle k =>
      if Nat.leb (ncmds i) k then Some (mkL (updr (l_rp s) i (RLeaving false)) (l_kp s) (l_canc s) (l_chan s) false)
      else if l_canc s then Some (mkL (updr (l_rp s) i (RLeaving true)) (l_kp s) (l_canc s) (l_chan s) false)
      else Some (mkL (updr (l_rp s) i (RBusy k)) (l_kp s) (l_canc s) (l_chan s) false)
    | RBusy k => Some (mkL (updr (l_rp s) i (RIdle (S k))) (l_kp s) (l_canc s) (l_chan s) false)
    | RLeaving err =>
      (* deferred block: if r.canceling { close(r.doneCh) } *)
      if l_canc s then
        match l_chan s with
        | COpen => Some (mkL (updr (l_rp s) i (RDone err)) (l_kp s) (l_canc s) CClosed false)
        | CClosed => Some (mkL (l_rp s) (l_kp s) (l_canc s) CClosed true)          (* panic: close of closed channel *)
        end
      else Some (mkL (updr (l_rp s) i (RDone err)) (l_kp s) (l_canc s) (l_chan s) false)
    | RDone _ => None
    end
  | EIntr i =>
    match l_rp s i with
    | RBusy k => if l_canc s then Some (mkL (updr (l_rp s) i (RLeaving true)) (l_kp s) (l_canc s) (l_chan s) false) else None
    | _ => None
    end
  | ECan j =>
    match l_kp s j with
    | KNew => Some (mkL (l_rp s) (updr (l_kp s) j KWait) true (l_chan s) false)
    | KWait => match l_chan s with CClosed => Some (mkL (l_rp s) (updr (l_kp s) j KDone) (l_canc s) CClosed false) | COpen => None end   (* <-r.doneCh *)
    | KDone => None
    end
  end.
Fixpoint lrun (ncmds : nat -> nat) (s : lstate) (es : list cev) : option lstate :=
  match es with
  | [] => Some s
  | e :: es' => match lstep ncmds s e with Some s' => lrun ncmds s' es' | None => None end
  end.
