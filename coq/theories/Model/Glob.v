(** * Model of the glob grammar of C20 (literal segments, [*], [?], [**] as a whole segment) as doublestar.Glob / PathMatch
    interpret it, of the watcher's path selection (watch.NewWatcher) and of its event loop (Run / handle).
    Characters and event kinds are [nat].  No proofs in this file. *)
From Coq Require Import List Arith Bool.
Import ListNotations.

Inductive pchar := PLit (c : nat) | PStar | PQuest.
Inductive pseg := PSeg (p : list pchar) | PDouble.
Definition pattern := list pseg.
Definition seg := list nat.
Definition fpath := list seg.

(* one segment: [*] any run of characters, [?] exactly one *)
Fixpoint seg_match (p : list pchar) (s : seg) : bool :=
  match p with
  | [] => match s with [] => true | _ => false end
  | PLit c :: p' => match s with x :: s' => Nat.eqb x c && seg_match p' s' | [] => false end
  | PQuest :: p' => match s with _ :: s' => seg_match p' s' | [] => false end
  | PStar :: p' => (fix star (s : seg) : bool := seg_match p' s || match s with [] => false | _ :: s' => star s' end) s
  end.
(* a path: segment by segment; [**] zero or more whole segments - except as the LAST segment of the pattern, where
   doublestar asks for at least one ([a/**] matches everything below [a], not [a] itself) *)
Fixpoint gmatch (p : pattern) (x : fpath) : bool :=
  match p with
  | [] => match x with [] => true | _ => false end
  | PSeg q :: p' => match x with s :: x' => seg_match q s && gmatch p' x' | [] => false end
  | PDouble :: p' =>
    match p' with
    | [] => match x with [] => false | _ => true end
    | _ => (fix dbl (x : fpath) : bool := gmatch p' x || match x with [] => false | _ :: x' => dbl x' end) x
    end
  end.

(* the relational reading *)
Inductive SegM : list pchar -> seg -> Prop :=
| SM_nil : SegM [] []
| SM_lit c p s : SegM p s -> SegM (PLit c :: p) (c :: s)
| SM_quest p x s : SegM p s -> SegM (PQuest :: p) (x :: s)
| SM_star p s1 s2 : SegM p s2 -> SegM (PStar :: p) (s1 ++ s2).
Inductive Matches : pattern -> fpath -> Prop :=
| M_nil : Matches [] []
| M_seg q p s x : SegM q s -> Matches p x -> Matches (PSeg q :: p) (s :: x)
| M_double_last x : x <> [] -> Matches [PDouble] x
| M_double p x1 x2 : p <> [] -> Matches p x2 -> Matches (PDouble :: p) (x1 ++ x2).

(* NewWatcher: every path of the tree matching some include pattern and no exclude pattern *)
Definition selected (inc exc : list pattern) (x : fpath) : bool :=
  existsb (fun p => gmatch p x) inc && negb (existsb (fun q => gmatch q x) exc).
Definition select (tree : list fpath) (inc exc : list pattern) : list fpath := filter (selected inc exc) tree.

(* ---- the event loop ---- *)
Definition all_kinds : list nat := [1; 2; 3; 4; 5].       (* create write remove rename chmod *)
Definition subscribed (events : list nat) (k : nat) : bool :=
  existsb (Nat.eqb k) (match events with [] => all_kinds | _ => events end).
Record fsevent := mkEv { ev_kind : nat; ev_path : nat }.
Inductive trun := RInit | REvent (kind path : nat).       (* a run of the watcher's task: the initial one, or with EventName / EventPath *)
(* Run: the task once, then one handle per delivered event; handle: return unless subscribed, else run a copy of the task with the
   event's name and path.  [poisoned]: the pinned handle cancelled the shared runner first, so every later Run was refused *)
Definition serve (poisoned : bool) (events : list nat) (evs : list fsevent) : list trun :=
  RInit :: (if poisoned then [] else map (fun e => REvent (ev_kind e) (ev_path e)) (filter (fun e => subscribed events (ev_kind e)) evs)).
