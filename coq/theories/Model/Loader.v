(** * Model of internal/config/loader.go: Loader.load / loadDir (the import traversal), for C17 (and the import part of C15).

    Go                                               model
    ---------------------------------------------    -----------------------------------------------------------------
    absolute, cleaned file names                      [path] = list of segments (nat); 0 = "..", 1 = "."
    path.Join(path.Dir(file), v)                      [join (dir_of file) rel]   (path.Join cleans the result)
    cl.imports (marked BEFORE the file is read)       [visited]
    files actually opened and parsed                  [reads]  (newest first)
    the decoded map of one file                       [cfile]: its `import` field and its definitions (a list of atoms;
                                                      mergo.Merge of non-conflicting maps = union, here concatenation)
    config["import"].([]interface{}) / v.(string)     [IBad] / [EBad]: Panic in the pinned code, an error after the repair
    a directory import: filepath.Glob(dir/*.yaml)     [NDir names]: expanded in place to its files, in name order

    [legacy = true] is the pinned behaviour: unchecked assertions panic, and an error of an imported FILE is only logged
    (the shadowed `err`): loading continues with a partial configuration.  URL imports are outside the model.
    No proofs in this file. *)
From Coq Require Import List Arith Bool.
Import ListNotations.

Definition path := list nat.
Definition path_eq_dec : forall a b : path, {a = b} + {a <> b} := list_eq_dec Nat.eq_dec.
Definition memb (p : path) (l : list path) : bool := if in_dec path_eq_dec p l then true else false.

(* path.Clean on an absolute path given as segments, with a stack of the segments kept so far (reversed) *)
Fixpoint clean_aux (stack_rev : list nat) (p : list nat) : path :=
  match p with
  | [] => rev stack_rev
  | s :: p' =>
    if Nat.eqb s 0 then clean_aux (tl stack_rev) p'          (* ".." : at the root it stays at the root *)
    else if Nat.eqb s 1 then clean_aux stack_rev p'           (* "."  *)
    else clean_aux (s :: stack_rev) p'
  end.
Definition join (dir rel : path) : path := clean_aux (rev dir) rel.
Definition dir_of (f : path) : path := removelast f.

Inductive ientry := EPath (rel : path) | EBad.                (* a string / anything else *)
Inductive ifield := INone | IList (l : list ientry) | IBad.   (* absent / a list / anything else *)
Record cfile := mkCF { cf_import : ifield; cf_defs : list nat }.
Inductive node := NFile (c : cfile) | NUnparsable | NDir (names : list nat) | NMissing.
Definition fsys := path -> node.

Inductive lres := LPanic | LErr | LOut | LOk (defs : list nat).
Record lstate := mkLS { visited : list path; reads : list path }.

Inductive target := TPath (p : path) | TBad.
Definition expand (fs : fsys) (dir : path) (e : ientry) : list target :=
  match e with
  | EBad => [TBad]
  | EPath rel => let t := join dir rel in
                 match fs t with NDir names => map (fun n => TPath (t ++ [n])) names | _ => [TPath t] end
  end.
Definition targets (fs : fsys) (file : path) (c : cfile) : list target :=
  match cf_import c with IList es => flat_map (expand fs (dir_of file)) es | _ => [] end.

Section Loop.
  Variable legacy : bool.
  Variable fs : fsys.
  Variable rec : lstate -> path -> lres * lstate.       (* load with one unit of fuel less *)
  Fixpoint imports_loop (ts : list target) (acc : list nat) (st : lstate) : lres * lstate :=
    match ts with
    | [] => (LOk acc, st)
    | TBad :: _ => (if legacy then LPanic else LErr, st)
    | TPath p :: ts' =>
      if memb p (visited st) then imports_loop ts' acc st                      (* if cl.imports[importFile] { continue } *)
      else match fs p with
           | NMissing => (LErr, st)                                            (* os.Stat fails: returned *)
           | _ =>
             let '(r, st') := rec st p in
             match r with
             | LOk d => imports_loop ts' (acc ++ d) st'                        (* mergo.Merge(&config, raw) *)
             | LErr => if legacy then imports_loop ts' acc st' else (LErr, st')
             | other => (other, st')
             end
           end
    end.
End Loop.

Fixpoint load (legacy : bool) (fs : fsys) (fuel : nat) (st : lstate) (file : path) : lres * lstate :=
  match fuel with
  | 0 => (LOut, st)
  | S fuel' =>
    let st1 := mkLS (file :: visited st) (reads st) in                         (* cl.imports[file] = true *)
    match fs file with
    | NMissing => (LErr, st1)                                                  (* ErrConfigNotFound *)
    | NDir _ => (LErr, st1)                                                    (* read error *)
    | NUnparsable => (LErr, mkLS (visited st1) (file :: reads st1))
    | NFile c =>
      let st2 := mkLS (visited st1) (file :: reads st1) in
      match cf_import c with
      | IBad => (if legacy then LPanic else LErr, st2)
      | _ => imports_loop legacy fs (load legacy fs fuel') (targets fs file c) (cf_defs c) st2
      end
    end
  end.

Definition init_ls : lstate := mkLS [] [].
Definition load_top (legacy : bool) (fs : fsys) (fuel : nat) (file : path) := load legacy fs fuel init_ls file.

(* the import relation between files, and the files reachable through it *)
Definition imports_of (fs : fsys) (f : path) : list path :=
  match fs f with
  | NFile c => flat_map (fun t => match t with TPath p => [p] | TBad => [] end) (targets fs f c)
  | _ => []
  end.
Inductive reach (fs : fsys) (root : path) : path -> Prop :=
| reach_root : reach fs root root
| reach_step g h : reach fs root g -> In h (imports_of fs g) -> reach fs root h.

Definition defs_of (fs : fsys) (p : path) : list nat := match fs p with NFile c => cf_defs c | _ => [] end.
Definition readable (fs : fsys) (p : path) : Prop :=
  match fs p with NFile c => cf_import c <> IBad /\ ~ In TBad (targets fs p c) | _ => False end.

(* ---- Load: the global configuration first, then the project file; Config.merge (mergo: fills what is missing) ---- *)
Definition amap := list (nat * nat).
Fixpoint alookup (k : nat) (m : amap) : option nat :=
  match m with [] => None | (k', v) :: m' => if Nat.eqb k k' then Some v else alookup k m' end.
(* mergo.Merge(dst, src) on a map field without override: keys of src that dst lacks are added *)
Definition fill (dst src : amap) : amap := dst ++ filter (fun kv => match alookup (fst kv) dst with None => true | Some _ => false end) src.
(* Container.Merge: src wins *)
Definition cmerge (dst src : amap) : amap := src ++ dst.
Record sections := mkSec { s_tasks : amap; s_contexts : amap; s_vars : amap }.
Definition config_merge (dst src : sections) : sections :=
  mkSec (fill (s_tasks dst) (s_tasks src)) (fill (s_contexts dst) (s_contexts src)) (cmerge (s_vars dst) (s_vars src)).
Definition empty_sections := mkSec [] [] [].
Definition load_global_then_project (glob proj : sections) : sections := config_merge (config_merge empty_sections glob) proj.
