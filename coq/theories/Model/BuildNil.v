(** * Model of the partial operations of internal/config builders and utils.ReadEnvFile (C15).
    mapstructure decodes `tasks: {t: }` (and `pipelines: {p: [null]}`, `contexts: {c: }`, `watchers: {w: }`) to NIL pointers
    inside the definition maps; the builders dereference their definition.  Theorems quantify over EVERY inhabitant of the
    definition types with pointers possibly nil - an over-approximation of whatever the decoder can produce.
    [legacy = true]: the pinned code (nil dereference = Panic; `kv[1]` on a line without '=' = Panic; a missing env_file:
    the error is looked at only after the nil task has been used = Panic).  No proofs in this file. *)
From Coq Require Import List Arith Bool.
Import ListNotations.

Inductive bres := BPanic | BErr | BOk.
Record taskdef := mkTD { td_envfile : option nat (* index of an env_file, None = not set *) }.
Record ndefn := mkND {
  nd_contexts : list (option unit);
  nd_tasks : list (option taskdef);
  nd_watchers : list (option nat);              (* the task index a watcher names *)
  nd_pipelines : list (list (option nat)) }.    (* stages: the task index a stage names *)

(* an env file: missing, or its lines, each already split on '=' (strings.Split always returns >= 1 field) *)
Definition envfile := option (list (list nat)).
Definition read_line (legacy : bool) (fields : list nat) : bres :=
  match fields with
  | _ :: _ :: _ => BOk                                      (* kv[0], kv[1] exist *)
  | _ => if legacy then BPanic else BOk                     (* kv[1] out of range; the repaired code skips the line *)
  end.
Fixpoint read_lines (legacy : bool) (ls : list (list nat)) : bres :=
  match ls with [] => BOk | l :: ls' => match read_line legacy l with BOk => read_lines legacy ls' | r => r end end.
Definition read_env_file (legacy : bool) (f : envfile) : bres :=
  match f with None => BErr | Some ls => read_lines legacy ls end.

Section Build.
  Variable legacy : bool.
  Variable files : nat -> envfile.
  Definition nil_deref : bres := if legacy then BPanic else BErr.
  Definition build_task (t : option taskdef) : bres :=
    match t with
    | None => nil_deref
    | Some d => match td_envfile d with
                | None => BOk
                | Some f => match read_env_file legacy (files f) with
                            | BErr => if legacy then BPanic else BErr      (* cfg.Tasks[k].Name on the nil task before `if err != nil` *)
                            | r => r
                            end
                end
    end.
  Fixpoint all_ok {A} (f : A -> bres) (l : list A) : bres :=
    match l with [] => BOk | x :: l' => match f x with BOk => all_ok f l' | r => r end end.
  Definition build_context (c : option unit) : bres := match c with None => nil_deref | Some _ => BOk end.
  Definition build_watcher (ntasks : nat) (w : option nat) : bres :=
    match w with None => nil_deref | Some t => if Nat.ltb t ntasks then BOk else BErr end.
  Definition build_stage (ntasks : nat) (s : option nat) : bres :=
    match s with None => nil_deref | Some t => if Nat.ltb t ntasks then BOk else BErr end.
  Definition build_from_definition (d : ndefn) : bres :=
    match all_ok build_context (nd_contexts d) with
    | BOk => match all_ok build_task (nd_tasks d) with
             | BOk => match all_ok (build_watcher (length (nd_tasks d))) (nd_watchers d) with
                      | BOk => all_ok (all_ok (build_stage (length (nd_tasks d)))) (nd_pipelines d)
                      | r => r end
             | r => r end
    | r => r
    end.
End Build.
