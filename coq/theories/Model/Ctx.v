(** * Model of execution-context hooks (runner/context.go Up/Down/Before/After, runner.go Run/contextForTask/Finish)
    for any number of task runs overlapping in time.

    sync.Once is modelled faithfully: the first run to arrive executes `up` ([UpBegin] .. [UpEnd]); every other run
    arriving meanwhile is blocked (no step enabled) until it has finished; the startup error is sticky.
    A run is a small program, one event [Go r] per step; "for all overlaps in time" is [forall es : list nat]. *)
From Coq Require Import List Arith Bool.
Import ListNotations.

Inductive ctok :=
| UpB (c : nat) | UpE (c : nat)          (* the context's up commands begin / have completed *)
| CBef (r : nat) | Body (r : nat) | CAft (r : nat)   (* context before / the task itself (condition, hooks, commands) / context after, of run r *)
| Down (c : nat).

Record ccfg := mkCC {
  ctx_of : nat -> nat;        (* the context run r uses *)
  up_ok : nat -> bool;        (* do the up commands of context c succeed? *)
  cbef_ok : nat -> bool;      (* do the context's before commands succeed for run r? *)
  body_ok : nat -> bool;      (* does the task of run r succeed? *)
  nruns : nat }.

Inductive upstate := UNot | UBusy (owner : nat) | UOk | UErr.
(* pc: 0 arrive at Up, 1 owner finishing up, 2 check startup error, 3 context before, 4 task, 5 context after, 6 returned *)
Record cstate := mkCS {
  up : nat -> upstate;
  pc : nat -> nat;
  rerr : nat -> bool;         (* the error Run returned (meaningful once pc = 6) *)
  ctrace : list ctok;         (* newest first *)
  finished : bool;            (* Finish has run *)
  downed : list nat }.

Definition updf {A} (f : nat -> A) (i : nat) (x : A) : nat -> A := fun j => if Nat.eqb j i then x else f j.

Definition cinit : cstate := mkCS (fun _ => UNot) (fun _ => 0) (fun _ => false) [] false [].

(* one step of run r; None = not enabled (blocked on the Once, or already returned) *)
Definition cstep (g : ccfg) (s : cstate) (r : nat) : option cstate :=
  if negb (Nat.ltb r (nruns g)) then None else
  if finished s then None else
  let c := ctx_of g r in
  match pc s r with
  | 0 => match up s c with
         | UNot => Some (mkCS (updf (up s) c (UBusy r)) (updf (pc s) r 1) (rerr s) (UpB c :: ctrace s) false (downed s))
         | UBusy _ => None
         | _ => Some (mkCS (up s) (updf (pc s) r 2) (rerr s) (ctrace s) false (downed s))
         end
  | 1 => Some (mkCS (updf (up s) c (if up_ok g c then UOk else UErr)) (updf (pc s) r 2) (rerr s) (UpE c :: ctrace s) false (downed s))
  | 2 => match up s c with
         | UErr => Some (mkCS (up s) (updf (pc s) r 6) (updf (rerr s) r true) (ctrace s) false (downed s))
         | _ => Some (mkCS (up s) (updf (pc s) r 3) (rerr s) (ctrace s) false (downed s))
         end
  | 3 => if cbef_ok g r
         then Some (mkCS (up s) (updf (pc s) r 4) (rerr s) (CBef r :: ctrace s) false (downed s))
         else Some (mkCS (up s) (updf (pc s) r 6) (updf (rerr s) r true) (CBef r :: ctrace s) false (downed s))
  | 4 => Some (mkCS (up s) (updf (pc s) r 5) (updf (rerr s) r (negb (body_ok g r))) (Body r :: ctrace s) false (downed s))
  | 5 => Some (mkCS (up s) (updf (pc s) r 6) (rerr s) (CAft r :: ctrace s) false (downed s))
  | _ => None
  end.

Fixpoint crun (g : ccfg) (s : cstate) (es : list nat) : option cstate :=
  match es with
  | [] => Some s
  | r :: es' => match cstep g s r with Some s' => crun g s' es' | None => None end
  end.

(* TaskRunner.Finish: Down of every context that was used (cleanupList), once each (onceDown) *)
Fixpoint nodup_nat (l : list nat) : list nat :=
  match l with [] => [] | x :: l' => if existsb (Nat.eqb x) l' then nodup_nat l' else x :: nodup_nat l' end.
Definition used_ctxs (g : ccfg) (s : cstate) : list nat :=
  nodup_nat (map (ctx_of g) (filter (fun r => negb (Nat.eqb (pc s r) 0)) (seq 0 (nruns g)))).
Definition cfinish (g : ccfg) (s : cstate) : cstate :=
  let todo := filter (fun c => negb (existsb (Nat.eqb c) (downed s))) (used_ctxs g s) in
  mkCS (up s) (pc s) (rerr s) (rev (map Down todo) ++ ctrace s) true (todo ++ downed s).
