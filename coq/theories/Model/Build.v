(** * Model of internal/config: buildFromDefinition / buildPipeline / buildWatcher with respect to REFERENCES (C18).
    Names are [nat]; 0 is the empty string.  A definition keeps only what references are made of.
    [legacy = true] is the pinned code: an unknown depends_on and a pipeline including itself are accepted.
    The repaired code (a) after the stage loop of buildPipeline rejects a dependency that names no stage of the pipeline,
    (b) builds an ExecutionGraph over the pipelines themselves (pipeline -> included pipelines) and rejects a cycle.
    No proofs in this file. *)
From Coq Require Import List Arith Bool.
Import ListNotations.
From TaskctlV Require Import Model.Graph Model.Sched.

Record stagedef := mkSD { sd_name : nat; sd_task : nat; sd_pipeline : nat; sd_deps : list nat }.
Record defn := mkDef { df_tasks : list nat; df_pipelines : list (nat * list stagedef); df_watchers : list (nat * nat) (* (name, task) *) }.

(* the stage's name: given, else the pipeline's, else the task's (pipeline.go: the second `if` overrides the first) *)
Definition stage_name (s : stagedef) : nat :=
  if Nat.eqb (sd_name s) 0 then (if Nat.eqb (sd_pipeline s) 0 then sd_task s else sd_pipeline s) else sd_name s.
(* cfg.Tasks[def.Task] when a task is named, otherwise cfg.Pipelines[def.Pipeline] *)
Definition ref_ok (tasks pnames : list nat) (s : stagedef) : bool :=
  if Nat.eqb (sd_task s) 0 then mem (sd_pipeline s) pnames else mem (sd_task s) tasks.

Fixpoint bp_loop (tasks pnames : list nat) (stages : list stagedef) (names : list nat) (g : graph) : option (list nat * graph) :=
  match stages with
  | [] => Some (names, g)
  | s :: rest =>
    if negb (ref_ok tasks pnames s) then None                                   (* no such task / no such pipeline *)
    else let n := stage_name s in
         if Nat.eqb n 0 then None                                              (* stage must have name *)
         else if mem n names then None                                         (* stage with same name already exists *)
         else match build_edges add_edge g (stage_edges (n, sd_deps s)) with   (* g.AddStage: one addEdge per dependency *)
              | BOk g' => bp_loop tasks pnames rest (names ++ [n]) g'
              | _ => None
              end
  end.
Definition deps_known (names : list nat) (stages : list stagedef) : bool :=
  forallb (fun s => forallb (fun d => mem d names) (sd_deps s)) stages.
Definition build_pipeline (legacy : bool) (tasks pnames : list nat) (stages : list stagedef) : bool :=
  match bp_loop tasks pnames stages [] [] with
  | None => false
  | Some (names, _) => legacy || deps_known names stages
  end.

(* the pipelines a pipeline includes: the stages that name no task refer to cfg.Pipelines[def.Pipeline] - also when that name is the
   empty string (a pipeline may be called ""): repair F20 closed the hole `&& stage.Pipeline != ""` of the first inclusion check *)
Definition includes (stages : list stagedef) : list nat :=
  map sd_pipeline (filter (fun s => Nat.eqb (sd_task s) 0) stages).
Definition inclusion_decls (d : defn) : list stage_decl := map (fun p => (fst p, includes (snd p))) (df_pipelines d).

Definition build_def (legacy : bool) (d : defn) : bool :=
  forallb (fun w => mem (snd w) (df_tasks d)) (df_watchers d)                                   (* no such task (watcher) *)
  && (legacy || match build (inclusion_decls d) with BOk _ => true | _ => false end)
  && forallb (fun p => build_pipeline legacy (df_tasks d) (map fst (df_pipelines d)) (snd p)) (df_pipelines d).

(* ---- running a pipeline of an accepted configuration: the scheduler configuration of a stage list ---- *)
Fixpoint index_of (n : nat) (names : list nat) : nat :=
  match names with [] => 0 | x :: r => if Nat.eqb x n then 0 else S (index_of n r) end.     (* = length names when absent *)
Definition to_config (stages : list stagedef) : config :=
  let names := map stage_name stages in
  map (fun s => mkStage (map (fun d => index_of d names) (sd_deps s)) false CNone) stages.
