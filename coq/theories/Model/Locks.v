(** * Threads and mutexes (C19: the cockpit decorator and the spinner goroutine).
    A thread is the sequence of lock operations it still has to perform; [Acq l] blocks while another thread holds l.
    The cockpit (pkg/output/cockpit.go) uses three mutexes, numbered in the order in which the REPAIRED code takes them:
      0 = spinnerMu (serialises Restart), 1 = the spinner's own lock (briandowns/spinner), 2 = baseCockpit.mu.
    - a decorator's remove (repaired): lock mu; drop the task; unlock mu; lock spinnerMu; Stop (spinner lock); Start (spinner lock);
      unlock spinnerMu
    - a decorator's remove (pinned): lock mu; drop the task; Restart (spinner lock twice) - still holding mu - ; unlock mu
    - a decorator's add once the spinner exists: lock mu; append; unlock mu
    - one frame of the spinner goroutine: spinner lock; PreUpdate (lock mu; read the task names; unlock mu); unlock
    (the very first add creates and starts the spinner while holding mu; no other thread can hold or want the spinner's lock
    before that add has published the spinner, so it is not part of the concurrent phase).  No proofs in this file. *)
From Coq Require Import List Arith Bool.
Import ListNotations.

Inductive lop := Acq (l : nat) | Rel (l : nat).
Definition prog := list lop.
Record thread := mkTh { held : list nat; todo : prog }.
Definition lsys := list thread.

Definition holds (s : lsys) (l : nat) : bool := existsb (fun th => existsb (Nat.eqb l) (held th)) s.
Fixpoint remove1 (l : nat) (h : list nat) : list nat :=
  match h with [] => [] | x :: r => if Nat.eqb x l then r else x :: remove1 l r end.
Fixpoint upd_nth {A} (n : nat) (x : A) (l : list A) : list A :=
  match l, n with [], _ => [] | _ :: r, 0 => x :: r | y :: r, S n' => y :: upd_nth n' x r end.

(* thread t performs its next operation; None = finished or blocked *)
Definition lstep (s : lsys) (t : nat) : option lsys :=
  match nth_error s t with
  | Some (mkTh h (Acq l :: r)) => if holds s l then None else Some (upd_nth t (mkTh (l :: h) r) s)
  | Some (mkTh h (Rel l :: r)) => Some (upd_nth t (mkTh (remove1 l h) r) s)
  | _ => None
  end.
Fixpoint lrun (s : lsys) (ts : list nat) : option lsys :=
  match ts with [] => Some s | t :: ts' => match lstep s t with Some s' => lrun s' ts' | None => None end end.

Definition finished (s : lsys) : bool := forallb (fun th => match todo th with [] => true | _ => false end) s.
Definition stuck (s : lsys) : bool := negb (finished s) && forallb (fun t => match lstep s t with None => true | Some _ => false end) (seq 0 (length s)).

(* ---- the cockpit ---- *)
Definition spinnerMu := 0.
Definition spinLock := 1.
Definition cockpitMu := 2.
Definition remove_fixed : prog := [Acq cockpitMu; Rel cockpitMu; Acq spinnerMu; Acq spinLock; Rel spinLock; Acq spinLock; Rel spinLock; Rel spinnerMu].
Definition remove_pinned : prog := [Acq cockpitMu; Acq spinLock; Rel spinLock; Acq spinLock; Rel spinLock; Rel cockpitMu].
Definition add_later : prog := [Acq cockpitMu; Rel cockpitMu].
Definition frame : prog := [Acq spinLock; Acq cockpitMu; Rel cockpitMu; Rel spinLock].
Fixpoint frames (k : nat) : prog := match k with 0 => [] | S k' => frame ++ frames k' end.
(* n decorators, each doing [rounds] rounds of add + remove, next to a spinner goroutine drawing k frames *)
Fixpoint rounds (r : nat) (rem : prog) : prog := match r with 0 => [] | S r' => add_later ++ rem ++ rounds r' rem end.
Definition cockpit_sys (fixed : bool) (n r k : nat) : lsys :=
  mkTh [] (frames k) :: repeat (mkTh [] (rounds r (if fixed then remove_fixed else remove_pinned))) n.
