(** * The scheduler and the task runner TOGETHER: Scheduler.Schedule of one ExecutionGraph whose stage goroutines call
    TaskRunner.Run, with Scheduler.Cancel = "set the flag, then TaskRunner.Cancel()" (scheduler.go, runner.go).

    A synchronised product of the two labelled transition systems that are tied to the code separately
    (Model/Sched.v by trace replay, Model/Cancel.v by the cancellation scenarios); only the synchronisation is new:

    Go                                                          model
    ---------------------------------------------------------   -------------------------------------------------------
    loop body for stage i                                        [PVisit i]  = Sched [Visit i]; when the stage condition
      (condition error: s.Cancel() called BY THE LOOP,                         cannot be evaluated also Cancel [ECan] (flag,
       which then waits inside taskRunner.Cancel())                            context) by the loop thread, which is blocked ...
    taskRunner.Cancel() of the loop returns                      [PLoopCan]  ... until this step (needs 0 runs in flight)
    s.runStage(stage) -> taskRunner.Run(stage.Task)              [PRun i]    = Cancel [ERun i]; its first step needs the stage
                                                                               goroutine to exist (status Running)
    a command interrupted by the cancelled context               [PIntr i]   = Cancel [EIntr i]
    Run returned err, goroutine writes the status                [PRet i]    = Sched [Ret i (err == nil)], after run i is done
    allowed failure: second status write                         [PFin i]    = Sched [Fin i]
    Scheduler.Cancel() from outside (signal handler), call j     [PExt j]    first step Sched [ExtCancel] + Cancel [ECan],
                                                                               second step: taskRunner.Cancel() returns
    loop head: isDone / cancelled flag                           [PExit]     = Sched [Exit]; the loop must not be blocked

    Not modelled: a stage that is itself a pipeline (its runStage is a nested Schedule, not a Run).  No proofs here. *)
From Coq Require Import List Arith Bool.
Import ListNotations.
From TaskctlV Require Import Model.Sched Model.Cancel.

Record pstate := mkP {
  sc : Sched.state;          (* the scheduler's side *)
  xr : Cancel.xstate;        (* the runner's side: run i = the Run call of stage i *)
  blk : option nat;          (* the loop thread is inside taskRunner.Cancel(): id of that call *)
  nloop : nat }.             (* number of Cancel calls made by the loop so far *)

Definition pinit : pstate := mkP Sched.init Cancel.xinit None 0.

Inductive pev := PVisit (i : nat) | PRun (i : nat) | PIntr (i : nat) | PRet (i : nat) | PFin (i : nat)
               | PExt (j : nat) | PLoopCan | PExit.

(* Cancel calls of the loop get the even identifiers, calls from outside the odd ones *)
Definition loop_id (m : nat) : nat := 2 * m.
Definition ext_id (j : nat) : nat := S (2 * j).

(* this visit takes the "condition cannot be evaluated" branch *)
Definition cerr_visit (c : config) (s : Sched.state) (i : nat) : bool :=
  Nat.ltb i (length c) && negb (exited s) &&
  match st s i, cond_of c i with Waiting, CErr => true | _, _ => false end.

Definition is_running (x : status) : bool := match x with Running => true | _ => false end.

Definition pstep (c : config) (n : nat -> nat) (s : pstate) (e : pev) : option pstate :=
  match e with
  | PVisit i =>
    match blk s with
    | Some _ => None
    | None =>
      match Sched.step c (sc s) (Visit i) with
      | None => None
      | Some sc' =>
        if cerr_visit c (sc s) i
        then match xstep n (xr s) (ECan (loop_id (nloop s))) with
             | Some x' => Some (mkP sc' x' (Some (loop_id (nloop s))) (S (nloop s)))
             | None => None
             end
        else Some (mkP sc' (xr s) None (nloop s))
      end
    end
  | PLoopCan =>
    match blk s with
    | Some j => match xstep n (xr s) (ECan j) with Some x' => Some (mkP (sc s) x' None (nloop s)) | None => None end
    | None => None
    end
  | PExt j =>
    match kp (xr s) (ext_id j) with
    | KNew => match Sched.step c (sc s) ExtCancel, xstep n (xr s) (ECan (ext_id j)) with
              | Some sc', Some x' => Some (mkP sc' x' (blk s) (nloop s))
              | _, _ => None
              end
    | KWait => match xstep n (xr s) (ECan (ext_id j)) with Some x' => Some (mkP (sc s) x' (blk s) (nloop s)) | None => None end
    | KDone => None
    end
  | PRun i =>
    match rp (xr s) i with
    | RNew => if Nat.ltb i (length c) && is_running (st (sc s) i) && negb (fatal (sc s))
              then match xstep n (xr s) (ERun i) with Some x' => Some (mkP (sc s) x' (blk s) (nloop s)) | None => None end
              else None
    | _ => match xstep n (xr s) (ERun i) with Some x' => Some (mkP (sc s) x' (blk s) (nloop s)) | None => None end
    end
  | PIntr i => match xstep n (xr s) (EIntr i) with Some x' => Some (mkP (sc s) x' (blk s) (nloop s)) | None => None end
  | PRet i =>
    match rp (xr s) i with
    | RDone err => match Sched.step c (sc s) (Ret i (negb err)) with Some sc' => Some (mkP sc' (xr s) (blk s) (nloop s)) | None => None end
    | _ => None
    end
  | PFin i => match Sched.step c (sc s) (Fin i) with Some sc' => Some (mkP sc' (xr s) (blk s) (nloop s)) | None => None end
  | PExit =>
    match blk s with
    | Some _ => None
    | None => match Sched.step c (sc s) Exit with Some sc' => Some (mkP sc' (xr s) None (nloop s)) | None => None end
    end
  end.

Fixpoint prun (c : config) (n : nat -> nat) (s : pstate) (es : list pev) : option pstate :=
  match es with
  | [] => Some s
  | e :: es' => match pstep c n s e with Some s' => prun c n s' es' | None => None end
  end.

Definition preach c n es s := prun c n pinit es = Some s.

(* the two projections of one step: what the scheduler's LTS and the runner's LTS each see of it *)
Definition proj_s (c : config) (s : pstate) (e : pev) : list Sched.event :=
  match e with
  | PVisit i => [Visit i]
  | PRet i => match rp (xr s) i with RDone err => [Ret i (negb err)] | _ => [] end
  | PFin i => [Fin i]
  | PExt j => match kp (xr s) (ext_id j) with KNew => [ExtCancel] | _ => [] end
  | PExit => [Exit]
  | _ => []
  end.
Definition proj_x (c : config) (s : pstate) (e : pev) : list Cancel.cev :=
  match e with
  | PVisit i => if cerr_visit c (sc s) i then [ECan (loop_id (nloop s))] else []
  | PLoopCan => match blk s with Some j => [ECan j] | None => [] end
  | PExt j => [ECan (ext_id j)]
  | PRun i => [ERun i]
  | PIntr i => [EIntr i]
  | _ => []
  end.
