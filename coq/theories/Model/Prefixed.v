(** * Model of the output decorators (pkg/output/raw.go, prefixed.go) at the level of the Write calls that reach the sink.
    prefixed: Write(p) = loop { advance, line := bufio.ScanLines(p, atEOF = true); bufio.Writer.Write(line); Flush }.
    Because the writer is flushed after every line its buffer is always empty when Write is called: a non-empty line
    reaches lineWriter.Write in one piece (also when longer than the 4096-byte buffer), an empty line writes nothing.
    lineWriter.Write = one Write on the sink of   <cyan name> ": " strip(line) CR LF.
    [strip] is a parameter (the ANSI regexp; Model/Regex.v gives the concrete one).  No proofs in this file. *)
From Coq Require Import List Arith NArith Bool.
Import ListNotations.

Definition LF : N := 10%N.
Definition CR : N := 13%N.

(* bufio.ScanLines(data, true) iterated until it returns advance = 0.  [cur_rev]: bytes of the current line, reversed.
   dropCR removes one trailing CR of a line; at the end of the data the rest (if non-empty) is a line too *)
Definition drop_cr_rev (cur_rev : list N) : list N :=
  match cur_rev with
  | c :: r => if N.eqb c CR then rev r else rev cur_rev
  | [] => []
  end.
Fixpoint pieces_aux (p : list N) (cur_rev : list N) : list (list N) :=
  match p with
  | [] => match cur_rev with [] => [] | _ => [drop_cr_rev cur_rev] end
  | b :: p' => if N.eqb b LF then drop_cr_rev cur_rev :: pieces_aux p' [] else pieces_aux p' (b :: cur_rev)
  end.
Definition pieces (p : list N) : list (list N) := pieces_aux p [].

Definition nonempty (l : list N) : bool := match l with [] => false | _ => true end.

(* aurora.Cyan(name) rendered with %s, then ": " *)
Definition prefix (name : list N) : list N := ([27; 91; 51; 54; 109] ++ name ++ [27; 91; 48; 109] ++ [58; 32])%N.

Section Writer.
  Variable strip : list N -> list N.
  Definition emit_line (name line : list N) : list N := prefix name ++ strip line ++ [CR; LF].
  (* the payloads (what stands between prefix and CR LF) produced by one Write call / by a sequence of Write calls *)
  Definition chunk_payloads (p : list N) : list (list N) := map strip (filter nonempty (pieces p)).
  Definition payloads (chunks : list (list N)) : list (list N) := flat_map chunk_payloads chunks.
  Definition prefixed_writes (name : list N) (chunks : list (list N)) : list (list N) :=
    map (fun pl => prefix name ++ pl ++ [CR; LF]) (payloads chunks).
  (* a Write boundary is harmless for stripping when it does not cut an escape sequence *)
  Fixpoint strip_safe (chunks : list (list N)) : Prop :=
    match chunks with
    | [] => True
    | c :: cs => strip (c ++ concat cs) = strip c ++ strip (concat cs) /\ strip_safe cs
    end.
End Writer.

(* raw: every Write is forwarded as it is; nothing else is written (the footer of an empty bufio flush writes nothing) *)
Definition raw_writes (chunks : list (list N)) : list (list N) := chunks.

(* the normal form of the statement: line terminators removed *)
Definition rmnl (s : list N) : list N := filter (fun b => negb (N.eqb b LF || N.eqb b CR)) s.

(* ---- concurrent writers at a synchronised sink: any interleaving of the tasks' Write sequences ---- *)
Definition updl {A} (f : nat -> list A) (t : nat) (x : list A) : nat -> list A := fun u => if Nat.eqb u t then x else f u.
Inductive interleaving {A} : (nat -> list A) -> list (nat * A) -> Prop :=
| IL_nil f : (forall t, f t = []) -> interleaving f []
| IL_cons f t e r l : f t = e :: r -> interleaving (updl f t r) l -> interleaving f ((t, e) :: l).

(* ---- the decorator calls TaskRunner.Run makes, by task outcome; the cockpit decorator's shared state ---- *)
Inductive okind := KSuccess | KFailure | KSkipped | KBeforeFails | KCondError.
Inductive dcall := DStart | DWrite | DFinish.
(* Run: NewTaskOutput; Finish is deferred (always); Start only once commands are about to run *)
Definition calls_of (k : okind) : list dcall :=
  match k with
  | KSuccess | KFailure => [DStart; DWrite; DFinish]
  | KSkipped | KBeforeFails | KCondError => [DFinish]
  end.
Inductive cstate := CPanic | COk (spinner_started : bool) (tasks : nat).
(* cockpit.go: add starts the spinner on first use; remove touches the spinner.
   [guarded]: remove returns at once when no spinner was ever started (the repaired code); unguarded = pinned code *)
Definition cockpit_step (guarded : bool) (s : cstate) (c : dcall) : cstate :=
  match s with
  | CPanic => CPanic
  | COk sp n =>
    match c with
    | DStart => COk true (S n)
    | DWrite => s
    | DFinish => if sp then COk sp (pred n) else if guarded then s else CPanic       (* b.spinner.FinalMSG on a nil spinner *)
    end
  end.
Definition cockpit_run (guarded : bool) (ks : list okind) : cstate :=
  fold_left (cockpit_step guarded) (flat_map calls_of ks) (COk false 0).
