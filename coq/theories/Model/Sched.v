(** * Model of pkg/scheduler/scheduler.go: Schedule / checkStatus / isDone / the stage goroutine / Cancel
    for one ExecutionGraph, as a labelled transition system.  "For all schedules" is
    [forall es : list event].  No proofs in this file.

    Go                                              model
    ---------------------------------------------   ------------------------------------------------
    one iteration of `for _, stage := range Nodes`   [Visit i]   (map order is random: any order of visits)
    runStage returned in the stage goroutine,        [Ret i ok]  (first status write: Done, or Error)
    allowed failure: second write Error -> Done      [Fin i]
    Scheduler.Cancel from outside                    [ExtCancel]
    loop head: isDone(g) or cancelled flag seen      [Exit]
    wg.Wait() passed, Schedule returns g.error       [returned s], [gerr s]                           *)
From Coq Require Import List Arith Bool.
Import ListNotations.

Inductive status := Waiting | Running | Skipped | Done | Error | Canceled.
(* stage condition: absent / exits 0 / exits non-zero / cannot be run at all *)
Inductive condres := CNone | CTrue | CFalse | CErr.
Record stage := mkStage { deps : list nat; allow : bool; cond : condres }.
Definition config := list stage.      (* stage i = i-th entry; a dependency >= length is a dangling name *)
Inductive obs := OStart (i : nat) | ORet (i : nat) (ok : bool).

Record state := mkState {
  st : nat -> status;        (* Stage.Status, read and written atomically *)
  cancelled : bool;          (* Scheduler.cancelled *)
  gerr : bool;               (* g.error != nil *)
  log : list obs;            (* newest first: Runner.Run entered / returned *)
  pend : list nat;           (* goroutines between UpdateStatus(Error) and UpdateStatus(Done) *)
  fatal : bool;              (* logrus.Fatal reached (unknown dependency name) *)
  exited : bool }.           (* the polling loop has been left *)

Definition upd (f : nat -> status) (i : nat) (x : status) : nat -> status :=
  fun j => if Nat.eqb j i then x else f j.

Definition init : state := mkState (fun _ => Waiting) false false [] [] false false.

Inductive verdict := VReady | VWait | VCancel | VFatal.

Definition dflt := mkStage [] false CNone.
Definition stage_of (c : config) i := nth i c dflt.
Definition allow_of c i := allow (stage_of c i).
Definition cond_of c i := cond (stage_of c i).
Definition deps_of c i := deps (stage_of c i).

(* checkStatus: the loop over p.To(stage.Name) in declared order *)
Fixpoint check (c : config) (f : nat -> status) (ds : list nat) (acc : verdict) : verdict :=
  match ds with
  | [] => acc
  | d :: ds' =>
    if Nat.ltb d (length c) then
      match f d with
      | Done | Skipped => check c f ds' acc
      | Error => if allow_of c d then check c f ds' acc else check c f ds' VCancel
      | Canceled => check c f ds' VCancel
      | _ => check c f ds' (match acc with VCancel => VCancel | _ => VWait end)
      end
    else VFatal
  end.

Inductive event := Visit (i : nat) | Ret (i : nat) (ok : bool) | Fin (i : nat) | ExtCancel | Exit.

Definition settled_b (x : status) := match x with Waiting | Running => false | _ => true end.
Definition all_settled (c : config) (f : nat -> status) := forallb (fun i => settled_b (f i)) (seq 0 (length c)).

Definition step (c : config) (s : state) (e : event) : option state :=
  if fatal s then None else
  match e with
  | Visit i =>
    if exited s then None else
    if negb (Nat.ltb i (length c)) then None else
    match st s i with
    | Waiting =>
      match cond_of c i with
      | CErr => Some (mkState (upd (st s) i Error) true (gerr s || negb (allow_of c i)) (log s) (pend s) false false)
      | CFalse => Some (mkState (upd (st s) i Skipped) (cancelled s) (gerr s) (log s) (pend s) false false)
      | _ =>
        match check c (st s) (deps_of c i) VReady with
        | VFatal => Some (mkState (st s) (cancelled s) (gerr s) (log s) (pend s) true false)
        | VWait => Some s
        | VCancel => Some (mkState (upd (st s) i Canceled) (cancelled s) (gerr s) (log s) (pend s) false false)
        | VReady => Some (mkState (upd (st s) i Running) (cancelled s) (gerr s) (OStart i :: log s) (pend s) false false)
        end
      end
    | _ => Some s
    end
  | Ret i ok =>
    if negb (Nat.ltb i (length c)) then None else
    match st s i with
    | Running =>
      if ok then Some (mkState (upd (st s) i Done) (cancelled s) (gerr s) (ORet i true :: log s) (pend s) false (exited s))
      else if allow_of c i
           then Some (mkState (upd (st s) i Error) (cancelled s) (gerr s) (ORet i false :: log s) (i :: pend s) false (exited s))
           else Some (mkState (upd (st s) i Error) (cancelled s) true (ORet i false :: log s) (pend s) false (exited s))
    | _ => None
    end
  | Fin i =>
    if existsb (Nat.eqb i) (pend s)
    then Some (mkState (upd (st s) i Done) (cancelled s) (gerr s) (log s)
                       (filter (fun j => negb (Nat.eqb i j)) (pend s)) false (exited s))
    else None
  | ExtCancel => Some (mkState (st s) true (gerr s) (log s) (pend s) false (exited s))
  | Exit =>
    if exited s then None else
    if cancelled s || all_settled c (st s)
    then Some (mkState (st s) (cancelled s) (gerr s) (log s) (pend s) false true)
    else None
  end.

Fixpoint run (c : config) (s : state) (es : list event) : option state :=
  match es with
  | [] => Some s
  | e :: es' => match step c s e with Some s' => run c s' es' | None => None end
  end.

Definition exec c es s := run c init es = Some s.

(* Schedule has returned: loop left, wg.Wait() passed *)
Definition no_running (c : config) (s : state) : bool :=
  forallb (fun i => match st s i with Running => false | _ => true end) (seq 0 (length c)).
Definition returned_b (c : config) (s : state) : bool :=
  exited s && no_running c s && match pend s with [] => true | _ => false end.

Definition is_start (o : obs) := match o with OStart _ => true | _ => false end.
Definition starts (l : list obs) : list nat := flat_map (fun o => match o with OStart i => [i] | _ => [] end) l.

(* ---- the declarative end state (C02): what the graph and the outcomes alone determine ---- *)
Definition status_eqb (a b : status) : bool :=
  match a, b with
  | Waiting, Waiting | Running, Running | Skipped, Skipped | Done, Done | Error, Error | Canceled, Canceled => true
  | _, _ => false
  end.

(* final status of stage i given the final statuses [f] of its dependencies; out i = the task succeeds *)
Definition final_of (c : config) (out : nat -> bool) (f : nat -> status) (i : nat) : status :=
  match cond_of c i with
  | CFalse => Skipped
  | CErr => Error
  | _ =>
    if existsb (fun d => match f d with Error | Canceled => true | _ => false end) (deps_of c i) then Canceled
    else if forallb (fun d => match f d with Done | Skipped => true | _ => false end) (deps_of c i)
         then (if out i || allow_of c i then Done else Error)
         else Waiting
  end.

(* n rounds of simultaneous recomputation from "everything Waiting": for an acyclic graph on n stages
   n rounds reach the fixed point (stage of rank r is right after r+1 rounds) *)
Fixpoint final_iter (c : config) (out : nat -> bool) (n : nat) : nat -> status :=
  match n with
  | 0 => fun _ => Waiting
  | S n' => let f := final_iter c out n' in fun i => if Nat.ltb i (length c) then final_of c out f i else Waiting
  end.
Definition final (c : config) (out : nat -> bool) : nat -> status := final_iter c out (length c).
