(** * Model of the `--set name=value` loop of cmd/taskctl/taskctl.go (root Before):

      for _, c := range c.StringSlice("set") {
          arr := strings.Split(c, "=")
          if len(arr) > 1 { cfg.Variables.Set(arr[0], strings.Join(arr[1:], "=")) }
      }

    Flag texts are lists of byte codes. *)
From Coq Require Import List Arith Bool.
Import ListNotations.

Definition eqc : nat := 61.       (* '=' *)

(* strings.Split(s, "="): never the empty list; no piece contains '=' *)
Fixpoint split_eq (s : list nat) : list (list nat) :=
  match s with
  | [] => [[]]
  | c :: s' =>
    if Nat.eqb c eqc then [] :: split_eq s'
    else match split_eq s' with
         | [] => [[c]]
         | p :: ps => (c :: p) :: ps
         end
  end.

(* strings.Join(ps, "=") *)
Fixpoint join_eq (ps : list (list nat)) : list nat :=
  match ps with
  | [] => []
  | p :: ps' => match ps' with [] => p | _ :: _ => p ++ eqc :: join_eq ps' end
  end.

Definition set_flag (s : list nat) : option (list nat * list nat) :=
  match split_eq s with
  | k :: rest => match rest with [] => None | _ :: _ => Some (k, join_eq rest) end
  | [] => None
  end.

(* the pinned slip of seeded change C10-2 (kept as a refutable variant): exactly two pieces *)
Definition set_flag_two (s : list nat) : option (list nat * list nat) :=
  match split_eq s with
  | [k; v] => Some (k, v)
  | _ => None
  end.

Definition lbeq (a b : list nat) : bool := if list_eq_dec Nat.eq_dec a b then true else false.

(* Variables.Set on a map: the last assignment to a name wins *)
Fixpoint vlookup (name : list nat) (m : list (list nat * list nat)) : option (list nat) :=
  match m with
  | [] => None
  | (k, v) :: m' => if lbeq k name then Some v else vlookup name m'
  end.

(* newest first *)
Definition apply_sets (flags : list (list nat)) (m : list (list nat * list nat)) : list (list nat * list nat) :=
  fold_left (fun m f => match set_flag f with Some kv => kv :: m | None => m end) flags m.
