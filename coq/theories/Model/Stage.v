(** * Model of Scheduler.runStage / buildPipeline with respect to per-stage overrides (C08).

    The task table is a store [nat -> settings] (one cell per *task.Task).  A use of a task is a direct run or a
    pipeline stage with overrides.  One use takes two micro-steps, which other uses may interleave with:
      MPrep u : what runStage does before calling the Runner
                (repaired code: copy the task into a private cell and layer the overrides over the copy;
                 pinned code:   merge the overrides INTO the shared cell - [prep_legacy])
      MHand u : Runner.Run receives its task (repaired: the private cell; pinned: the shared cell as it is then)
    Containers are association lists; [merge a b] = entries of b win (variables.Container.Merge). *)
From Coq Require Import List Arith Bool.
Import ListNotations.

Definition amap := list (nat * nat).
Fixpoint lookup (k : nat) (m : amap) : option nat :=
  match m with [] => None | (k', v) :: m' => if Nat.eqb k k' then Some v else lookup k m' end.
Definition merge (a b : amap) : amap := b ++ a.     (* lookup finds b's binding first *)

(* s_rest: everything else a task is made of (name, commands, hooks, condition, variations, timeout, allow_failure, exportAs, context,
   interactive), as one opaque value: a stage's overrides never touch it *)
Record settings := mkSet { s_env : amap; s_vars : amap; s_dir : nat (* 0 = "" *); s_rest : nat }.
(* o_env/o_vars = None: the stage has no container at all (nil) *)
Record overrides := mkOv { o_env : option amap; o_vars : option amap; o_dir : nat }.

Definition layer (t : settings) (ov : overrides) : settings :=
  mkSet (match o_env ov with Some e => merge (s_env t) e | None => s_env t end)
        (match o_vars ov with Some v => merge (s_vars t) v | None => s_vars t end)
        (if Nat.eqb (o_dir ov) 0 then s_dir t else o_dir ov)
        (s_rest t).

(* the pinned runStage: Variables are rebuilt from Env (typo), and Dir was written at load time *)
Definition layer_legacy (t : settings) (ov : overrides) : settings :=
  mkSet (match o_env ov with Some e => merge (s_env t) e | None => s_env t end)
        (match o_vars ov with Some v => merge (match o_env ov with Some e => merge (s_env t) e | None => s_env t end) v | None => s_vars t end)
        (if Nat.eqb (o_dir ov) 0 then s_dir t else o_dir ov)
        (s_rest t).

Inductive use := Direct (t : nat) | Stage (t : nat) (ov : overrides).
Definition task_of (u : use) := match u with Direct t => t | Stage t _ => t end.

Inductive mstep := MPrep (u : nat) | MHand (u : nat).

Record mstate := mkM { store : nat -> settings; priv : nat -> option settings; handed : list (nat * settings) }.

Definition updf {A} (f : nat -> A) (i : nat) (x : A) : nat -> A := fun j => if Nat.eqb j i then x else f j.

Definition mexec (uses : list use) (s : mstate) (m : mstep) : mstate :=
  match m with
  | MPrep u =>
    match nth_error uses u with
    | Some (Stage t ov) => mkM (store s) (updf (priv s) u (Some (layer (store s t) ov))) (handed s)
    | Some (Direct t) => mkM (store s) (updf (priv s) u (Some (store s t))) (handed s)
    | None => s
    end
  | MHand u =>
    match priv s u with
    | Some x => mkM (store s) (priv s) ((u, x) :: handed s)
    | None => s                       (* Hand before Prep is not a schedule of the program: ignored *)
    end
  end.

Definition mexec_legacy (uses : list use) (s : mstate) (m : mstep) : mstate :=
  match m with
  | MPrep u =>
    match nth_error uses u with
    | Some (Stage t ov) => mkM (updf (store s) t (layer_legacy (store s t) ov)) (updf (priv s) u (Some (store s t))) (handed s)
    | Some (Direct t) => mkM (store s) (updf (priv s) u (Some (store s t))) (handed s)
    | None => s
    end
  | MHand u =>
    match priv s u, nth_error uses u with
    | Some _, Some us => mkM (store s) (priv s) ((u, store s (task_of us)) :: handed s)   (* the shared cell, as it is now *)
    | _, _ => s
    end
  end.

Definition minit (st0 : nat -> settings) : mstate := mkM st0 (fun _ => None) [].
Definition mrun (uses : list use) (st0 : nat -> settings) (sched : list mstep) : mstate :=
  fold_left (mexec uses) sched (minit st0).
Definition mrun_legacy (uses : list use) (st0 : nat -> settings) (sched : list mstep) : mstate :=
  fold_left (mexec_legacy uses) sched (minit st0).

(* what use u must be handed: a function of the task's own settings and of u's overrides alone *)
Definition expected (st0 : nat -> settings) (u : use) : settings :=
  match u with Direct t => st0 t | Stage t ov => layer (st0 t) ov end.
