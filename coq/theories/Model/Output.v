(** * Model of how a task's output is captured, named and handed on (C11).
    runner.go: execute (the [prevOutput] loop), storeTaskOutput (name derivation, r.env.Set), Run (r.env merged first);
    executor.go: Execute returns the bytes the job wrote to stdout AND stderr (one buffer, in the order written);
    output.go: TaskOutput.Stdout tees into Task.Log.Stdout.   Bytes are [N].  No proofs in this file. *)
From Coq Require Import List Arith NArith Bool.
Import ListNotations.
From TaskctlV Require Import Model.Sched.

(* ---- what one job writes: chunks in the order written; true = stdout, false = stderr ---- *)
Definition chunk := (bool * list N)%type.
Record ojob := mkOJ { oj_chunks : list chunk; oj_stops : bool (* this job ends the task: failure not allowed, fatal *) }.
Definition stdout_of (j : ojob) : list N := flat_map (fun ch : chunk => if fst ch then snd ch else []) (oj_chunks j).
Definition combined_of (j : ojob) : list N := flat_map (fun ch : chunk => snd ch) (oj_chunks j).

(* TaskRunner.execute: for nextJob := job; ...: Vars.Set("Output", prevOutput); prevOutput, err = Execute(nextJob);
   returns (what each executed job saw as .Output, Task.Log.Stdout, completed) *)
Fixpoint exec_chain (js : list ojob) (prev : list N) : list (list N) * list N * bool :=
  match js with
  | [] => ([], [], true)
  | j :: js' =>
    if oj_stops j then ([prev], stdout_of j, false)
    else let '(seen, log, ok) := exec_chain js' (combined_of j) in (prev :: seen, stdout_of j ++ log, ok)
  end.

(* ---- storeTaskOutput: the name of the exported variable ---- *)
Open Scope N_scope.
Definition is_lower (b : N) := (97 <=? b) && (b <=? 122).
Definition is_upper (b : N) := (65 <=? b) && (b <=? 90).
Definition is_digit (b : N) := (48 <=? b) && (b <=? 57).
Definition ident_byte (b : N) := is_lower b || is_upper b || is_digit b || (b =? 95).
(* strings.ToUpper on ASCII, then every character outside [a-zA-Z0-9_] becomes '_' *)
Definition up_byte (b : N) : N := if is_lower b then b - 32 else b.
Definition env_byte (b : N) : N := let u := up_byte b in if ident_byte u then u else 95.
Definition suffix_OUTPUT : list N := [95; 79; 85; 84; 80; 85; 84].     (* "_OUTPUT" *)
Definition env_name (name : list N) : list N := map env_byte name ++ suffix_OUTPUT.
Definition export_name (export_as name : list N) : list N :=
  match export_as with [] => env_name name | _ => export_as end.
Close Scope N_scope.

(* ---- the runner-wide environment r.env as a function of the scheduler's observation log ----
   stage d's task, when its Run returns without error, has called storeTaskOutput iff [prod d = Some out]
   (None: the task was skipped by its own condition); [var d] is its exported name. *)
Definition benv := list (list N * list N).
Fixpoint blookup (k : list N) (m : benv) : option (list N) :=
  match m with
  | [] => None
  | (k', v) :: m' => if list_eq_dec N.eq_dec k k' then Some v else blookup k m'
  end.
Fixpoint env_of_log (var : nat -> list N) (prod : nat -> option (list N)) (l : list obs) (* newest first *) : benv :=
  match l with
  | [] => []
  | ORet d true :: l' => match prod d with Some out => (var d, out) :: env_of_log var prod l' | None => env_of_log var prod l' end
  | _ :: l' => env_of_log var prod l'
  end.
