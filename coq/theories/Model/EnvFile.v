(** * Model of utils.ReadEnvFile (pkg/utils/util.go) at the level of the file's text:

      envscanner := bufio.NewScanner(f)                       // bufio.ScanLines: lines end at LF, one trailing CR is dropped,
      for envscanner.Scan() {                                 //   a final line without LF counts, an empty rest does not
          kv := strings.SplitN(envscanner.Text(), "=", 2)
          if len(kv) != 2 { continue }
          envs[kv[0]] = kv[1]
      }

    [SetFlag.set_flag] is exactly "split at the first '=' or nothing".  Not modelled: the scanner's 64 KiB limit on one line
    (bufio.ErrTooLong makes ReadEnvFile return an error). *)
From Coq Require Import List Arith Bool.
Import ListNotations.
From TaskctlV Require Import Model.SetFlag.

Definition lf : nat := 10.
Definition cr : nat := 13.

Definition dropcr (l : list nat) : list nat :=
  match rev l with
  | c :: r => if Nat.eqb c cr then rev r else l
  | [] => l
  end.

Definition ends_cr (l : list nat) : bool :=
  match rev l with c :: _ => Nat.eqb c cr | [] => false end.

(* cur: the current line so far *)
Fixpoint lines_from (cur : list nat) (s : list nat) : list (list nat) :=
  match s with
  | [] => match cur with [] => [] | _ :: _ => [dropcr cur] end
  | c :: s' => if Nat.eqb c lf then dropcr cur :: lines_from [] s' else lines_from (cur ++ [c]) s'
  end.

Definition lines (s : list nat) : list (list nat) := lines_from [] s.

(* newest first; [vlookup] reads it as the Go map: the last definition of a name wins *)
Definition read_env_text (s : list nat) : list (list nat * list nat) := apply_sets (lines s) [].
