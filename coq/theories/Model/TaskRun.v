(** * Model of runner.TaskRunner.Run for one task: condition, before hooks, the variation-major job list of
    TaskCompiler.CompileTask, TaskRunner.execute, storeTaskOutput, after hooks and the deferred block.
    A command is abstracted to its result and the bytes it wrote to stdout:
      Exit n  - the interpreter reported exit status n (0 = success)
      Fatal   - the command was started and ended with any other error: timeout, cancellation
      NoStart - the command could not be started at all: template error (undefined variable), shell syntax error
    No proofs in this file. *)
From Coq Require Import List Arith NArith ZArith Bool.
Import ListNotations.

Inductive res := Exit (n : N) | Fatal | NoStart.
Definition res_ok (r : res) : bool := match r with Exit 0%N => true | _ => false end.

Record crun := mkRun { c_res : res; c_out : list N }.     (* result, bytes written to stdout (before ending) *)

Record task := mkTask {
  t_cond : option res;             (* condition command; None = no condition *)
  t_before : list res;
  t_jobs : list (list crun);       (* one list per variation (no variations = one variation), each in command order *)
  t_after : list res;
  t_allow : bool }.

Inductive tok := TCond | TBefore (k : nat) | TCmd (v c : nat) | TAfter (k : nat).

Record outcome := mkOut {
  o_trace : list tok;              (* what was executed, in order *)
  o_err : bool;                    (* Run returned an error *)
  o_errored : bool;                (* Task.Errored *)
  o_skipped : bool;                (* Task.Skipped *)
  o_exit : Z;                      (* Task.ExitCode; -1 = never set *)
  o_output : list N;               (* Task.Log.Stdout *)
  o_stored : bool }.               (* storeTaskOutput reached: output exported to later tasks *)

(* the flat job list, variation-major, with its positions *)
Definition index {A} (l : list A) : list (nat * A) := combine (seq 0 (length l)) l.
Definition jobs (t : task) : list (nat * nat * crun) :=
  flat_map (fun vj => map (fun cj => (fst vj, fst cj, snd cj)) (index (snd vj))) (index (t_jobs t)).

(* before: stop at the first command that does not succeed *)
Fixpoint run_before (k : nat) (bs : list res) : list tok * bool (* all succeeded *) :=
  match bs with
  | [] => ([], true)
  | b :: bs' => if res_ok b then let '(tr, ok) := run_before (S k) bs' in (TBefore k :: tr, ok)
                else (match b with NoStart => [] | _ => [TBefore k] end, false)
  end.

(* TaskRunner.execute.  state: tokens so far (reversed), output so far, ExitCode.
   returns (tokens, output, exit_code, stopped_with_error) *)
Fixpoint run_jobs (allow : bool) (js : list (nat * nat * crun)) (code : Z) : list tok * list N * Z * bool :=
  match js with
  | [] => ([], [], code, false)
  | (v, c, j) :: js' =>
    match c_res j with
    | Exit 0%N => let '(tr, out, code', stop) := run_jobs allow js' code in (TCmd v c :: tr, c_out j ++ out, code', stop)
    | Exit n => if allow then let '(tr, out, code', stop) := run_jobs allow js' (Z.of_N n) in (TCmd v c :: tr, c_out j ++ out, code', stop)
                else ([TCmd v c], c_out j, Z.of_N n, true)
    | Fatal => ([TCmd v c], c_out j, code, true)
    | NoStart => ([], [], code, true)
    end
  end.

(* after: every command runs, failures are only logged *)
Definition run_after (as_ : list res) : list tok := map TAfter (seq 0 (length as_)).

Definition run_task (t : task) : outcome :=
  let cond_tok := match t_cond t with Some NoStart => [] | Some _ => [TCond] | None => [] end in
  match t_cond t with
  | Some (Exit (Npos _)) => mkOut [TCond] false false true (-1) [] false                     (* skipped *)
  | Some Fatal => mkOut [TCond] true false false 0 [] false                                    (* condition could not run: error; deferred block sets 0 *)
  | Some NoStart => mkOut [] true false false 0 [] false
  | _ =>
    let '(btr, bok) := run_before 0 (t_before t) in
    if negb bok then mkOut (cond_tok ++ btr) true false false 0 [] false                        (* a failing before hook *)
    else
      let '(jtr, out, code, stop) := run_jobs (t_allow t) (jobs t) (-1) in
      if stop then mkOut (cond_tok ++ btr ++ jtr) true true false code out false
      else mkOut (cond_tok ++ btr ++ jtr ++ run_after (t_after t)) false false false 0 out true
  end.
