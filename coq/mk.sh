#!/bin/sh
# regenerate the Makefile from the list of .v files and build everything (full .vo build)
cd "$(dirname "$0")"
coq_makefile -f _CoqProject $(find theories -name '*.v' | sort) -o Makefile >/dev/null 2>&1
find theories -name '*.v' | sort | sed 's#^\./##' > /dev/null
exec timeout 3000 make -j16 "$@"
