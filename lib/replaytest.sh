#!/bin/bash
# usage: replaytest.sh <seeded dir name, e.g. C05-1>
# the replay path: the quick check of the seed's property on the changed tree writes a replay file; replaying it on the changed
# tree must report the violation again, replaying it on the unchanged tree must pass.
d="$1"; prop=${d%%-*}
export GOFLAGS=-mod=mod GOPROXY=off GOSUMDB=off GOTOOLCHAIN=local
MW=${MW:-/tmp/mw}; VSNAP=${VSNAP:-/tmp/vsnap}; MWORK=${MWORK:-/tmp/mwork}
cd $MW || exit 2
git checkout -q -f --detach "$(git -C /repo rev-parse HEAD)"; git clean -fdq
git apply /verif/seeded/$d/patch.diff || { echo "$d: patch does not apply"; exit 3; }
rm -rf $MWORK/replays
r1=$(cd $VSNAP && VERIF_REPO=$MW VERIF_WORK=$MWORK timeout 2400 ./check $prop quick 2>&1 | grep -E "^VIOLATION" | head -1)
f=$(echo "$r1" | sed -n 's/.*replay=\([^ ]*\).*/\1/p')
if [ -z "$f" ]; then echo "$d: quick check of $prop silent on the changed tree"; git checkout -q -f -- .; exit 0; fi
r2=$(cd $VSNAP && VERIF_REPO=$MW VERIF_WORK=$MWORK timeout 2400 ./check $prop --replay $MWORK/$f 2>&1 | grep -cE "^VIOLATION")
git checkout -q -f -- .; git clean -fdq
r3=$(cd $VSNAP && VERIF_REPO=$MW VERIF_WORK=${MWORK}r timeout 2400 ./check $prop --replay $MWORK/$f 2>&1 | grep -cE "^VIOLATION")
echo "$d: first=[$(echo $r1 | cut -c1-80)] replay-on-changed-tree violations=$r2 replay-on-clean-tree violations=$r3"
