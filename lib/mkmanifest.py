#!/usr/bin/env python3
"""regenerates /verif/MANIFEST.json from the table below (keeps the file valid and uniform)"""
import json
import os

ROOT = os.path.dirname(os.path.dirname(os.path.abspath(__file__)))

# id -> (technique, level text, level note, design ref, engine)
SCHED_NOTE = "Trusted: Coq kernel; hand-written LTS transcription of Schedule/checkStatus/isDone/stage goroutine (atomic Visit justified by the proved stability of satisfied statuses); Go engine sched (controlled Runner, quiescence oracle is a wait hint only), python driver; sync/atomic sequential consistency. No axioms."
CHECKS = {
 "C01": ("Coq proof: record invariant over a labelled transition system of the scheduler, for all configurations and all event interleavings; observed runs of the real Scheduler under a checker-controlled Runner are accepted by the LTS inside Coq (accepts_sound) and monitored",
         "C01_deps_finished_before_start holds for every configuration (any size, any graph) and every interleaving of visits, completions, cancels and exits (induction over event lists). The LTS is tied to scheduler.go by replaying every observed run (every DAG on <=4 stages, random to 8, all completion orders of stages in flight together up to a cap) through `accepts` in Coq.",
         SCHED_NOTE, "DESIGN.md section 6.0, C01", "sched"),
 "C02": ("Coq proof: statuses are unresolved or equal a declarative Final relation (invariant), Final is functional on acyclic graphs => confluence; error flag invariant; cancellation characterised by blocking paths; correspondence as C01 plus cross-order comparison",
         "C02_timing_independent / C02_final_at_return / C02_cancel_exactly_dependants / C02_error_reported for all acyclic configurations, outcome assignments and interleavings. Tied to the code by the same accepted runs, the fixed-point monitor on observed final statuses and comparison of all explored completion orders of one configuration.",
         SCHED_NOTE, "DESIGN.md section 6 C02", "sched"),
 "C03": ("Coq proof: invariants (no double start, settled on return, eligible ran exactly once) and a progress theorem (one full polling pass strictly shrinks the Waiting set on acyclic well-formed graphs) over the scheduler LTS; correspondence as C01 plus injected Cancel / condition errors",
         "Safety parts hold for all executions; termination is proved as progress + enabledness lemmas (every fair run returns), the wall-clock return is observed by the harness (Schedule must return within a bound in every explored run, cancelled runs included).",
         SCHED_NOTE + " Fairness of the Go scheduler and termination of commands are hypotheses of the progress argument.", "DESIGN.md section 6 C03", "sched"),
 "C04": ("Coq proof: eligibility is stable under every event, so any stretch of the run containing a stage's visit starts it (C04_eligible_gets_started, C04_in_flight_together); observed in-flight sets at every quiescent point are compared with the model's eligible closure in Coq",
         "For all configurations and interleavings: an eligible stage is started by the next pass whatever else happens, and a pass without completions puts all eligible stages in flight together. Tied to the code by checking, at every quiescent point of every explored run, that no eligible stage is unstarted (the controlled Runner releases nobody meanwhile = the rendezvous pipeline).",
         SCHED_NOTE, "DESIGN.md section 6 C04", "sched"),
 "C05": ("Coq proof (DFS soundness/completeness + incremental acyclicity invariant) over a hand-written model of graph.go; differential correspondence vs scheduler.NewExecutionGraph and the config loader, evaluated in Coq by vm_compute",
         "Theorems C05_reject_iff_cyclic / C05_accept_iff_acyclic / C05_exposes_edges hold for every stage list of any size and order (unbounded, by induction); the model is tied to the Go code by running both on every edge set on <=3 stages in every declaration order (exhaustive), every edge set on 4 stages (thorough) and random graphs up to 10 stages.",
         "Trusted: Coq kernel; the hand-written transcription of addEdge/cycleDfs (edge list == from/to maps); the Go engines graph/loadcfg and the python driver. No axioms.",
         "DESIGN.md section 6 C05", "graph"),
 "C06": ("Coq proof: closed forms of the executed-command trace of a model of TaskRunner.Run (refinement of the recursive run to declarative first-failure specifications); differential correspondence against the real TaskRunner running real shell commands",
         "C06_stops_at_first_failure / C06_runs_everything / C06_failing_before_prevents_commands / C06_condition_false_skips for every task (any number of commands, variations, hooks, any exit status). Tied to runner.go/compiler.go by running the statement's grammar exhaustively for small shapes plus random larger tasks through the real runner and comparing traces in Coq.",
         "Trusted: Coq kernel; transcription of Run/before/execute/after/CompileTask with commands abstracted to (result, stdout); the fixed shape of generated shell commands; mvdan/sh and text/template; Go engine taskrun, python driver. No axioms.",
         "DESIGN.md section 6.1, C06", "taskrun"),
 "C07": ("Coq proof: error-iff-failed and exit-code theorems on the TaskRun model, prefix/exit-status laws of the CLI target loop model; differential correspondence: every exit status 0..255 through the real TaskRunner, target sequences through the real binary",
         "C07_error_iff_failed, C07_exit_code_recorded, C07_success_records_zero, C07_skipped_records_nothing for all tasks; C07_cli_runs_prefix / C07_cli_exit_zero_iff_all_ok for all target lists. Tied to the code by all statuses 0..255 at command positions and by 1..3 CLI targets in every order through three invocation forms.",
         "Trusted: as C06, plus Model/Cli.v transcription of the target loops and main's exit path; the python driver running the built binary. No axioms.",
         "DESIGN.md section 6 C07", "taskrun+cli"),
 "C08": ("Coq proof: non-interference invariant over all interleavings of the micro-steps (prepare / hand over) of any list of uses of shared tasks, with an explicit store model of aliasing; differential correspondence with a recording Runner under the real Scheduler.runStage",
         "C08_isolation for every task table, every list of uses and every interleaving; layering laws for env/variables/dir. Tied to scheduler.go by pipelines of 2..6 stages sharing one task in every dependency arrangement (every DAG on <=3, sampled/all on 4) with distinct overrides and random durations, followed by a direct run and a second pipeline.",
         "Trusted: Coq kernel; store/micro-step transcription of runStage (private copy); containers as association lists compared extensionally; Go engine stageov, python driver. No axioms.",
         "DESIGN.md section 6 C08", "stageov"),
}

PENDING = {}

def main():
    props = [json.loads(l) for l in open(os.path.join(ROOT, "properties.jsonl"))]
    checks, na = [], []
    for p in props:
        pid = p["id"]
        if pid in CHECKS:
            tech, text, note, ref, engine = CHECKS[pid]
            checks.append({
                "property_id": pid,
                "quick_cmd": "./check %s quick" % pid,
                "thorough_cmd": "./check %s thorough" % pid,
                "evidence_file": "evidence/%s.json" % pid,
                "replay_cmd_template": "./check %s --replay {path}" % pid,
                "engine": engine,
                "level_claimed": {"category": "proof", "text": text, "design_ref": ref},
                "level_note": note,
                "technique": tech,
            })
        else:
            na.append({"property_id": pid, "reason": PENDING.get(pid, "check not built yet in this development (planned: see DESIGN.md section 6); not claimed until its theorem and correspondence run exist")})
    man = {
        "version": 1,
        "setup_cmd": "./check setup",
        "hooks": {
            "guard": "verif",
            "enable": "go build -tags verif (harness and taskctl binary are rebuilt from /repo's working tree by every check)",
            "baseline_off_cmd": "./check baseline",
            "source_commits": ["verif: add build-tag guarded setter for the scheduler polling pause"],
            "add_only": True,
        },
        "engines": [
            {"name": "harness", "path": "harness/", "serves_properties": sorted(CHECKS), "kind_free_text": "Go module github.com/taskctl/taskctl/verifharness (replace => /repo): engines reading JSON cases and driving the real packages / binary"},
            {"name": "coq", "path": "coq/", "serves_properties": sorted(CHECKS), "kind_free_text": "Coq 8.16.1 development: Model/ (executable models), Proofs/, Properties/Cxx.v (theorems), Corr/ (comparison functions for generated cases.v)"},
        ],
        "checks": checks,
        "not_applicable": na,
        "notes": "Family: machine-checked proof in Rocq/Coq over hand-written executable models, tied to /repo by correspondence runs on every check. See DESIGN.md.",
    }
    with open(os.path.join(ROOT, "MANIFEST.json"), "w") as f:
        json.dump(man, f, indent=1)
        f.write("\n")

if __name__ == "__main__":
    main()
