#!/usr/bin/env python3
"""regenerates /verif/MANIFEST.json from the table below (keeps the file valid and uniform)"""
import json
import os

ROOT = os.path.dirname(os.path.dirname(os.path.abspath(__file__)))

# id -> (technique, level text, level note, design ref, engine)
CHECKS = {
 "C05": ("Coq proof (DFS soundness/completeness + incremental acyclicity invariant) over a hand-written model of graph.go; differential correspondence vs scheduler.NewExecutionGraph and the config loader, evaluated in Coq by vm_compute",
         "Theorems C05_reject_iff_cyclic / C05_accept_iff_acyclic / C05_exposes_edges hold for every stage list of any size and order (unbounded, by induction); the model is tied to the Go code by running both on every edge set on <=3 stages in every declaration order (exhaustive), every edge set on 4 stages (thorough) and random graphs up to 10 stages.",
         "Trusted: Coq kernel; the hand-written transcription of addEdge/cycleDfs (edge list == from/to maps); the Go engines graph/loadcfg and the python driver. No axioms.",
         "DESIGN.md section 6 C05", "graph"),
}

PENDING = {}

def main():
    props = [json.loads(l) for l in open(os.path.join(ROOT, "properties.jsonl"))]
    checks, na = [], []
    for p in props:
        pid = p["id"]
        if pid in CHECKS:
            tech, text, note, ref, engine = CHECKS[pid]
            checks.append({
                "property_id": pid,
                "quick_cmd": "./check %s quick" % pid,
                "thorough_cmd": "./check %s thorough" % pid,
                "evidence_file": "evidence/%s.json" % pid,
                "replay_cmd_template": "./check %s --replay {path}" % pid,
                "engine": engine,
                "level_claimed": {"category": "proof", "text": text, "design_ref": ref},
                "level_note": note,
                "technique": tech,
            })
        else:
            na.append({"property_id": pid, "reason": PENDING.get(pid, "check not built yet in this development (planned: see DESIGN.md section 6); not claimed until its theorem and correspondence run exist")})
    man = {
        "version": 1,
        "setup_cmd": "./check setup",
        "hooks": {
            "guard": "verif",
            "enable": "go build -tags verif (harness and taskctl binary are rebuilt from /repo's working tree by every check)",
            "baseline_off_cmd": "./check baseline",
            "source_commits": ["verif: add build-tag guarded setter for the scheduler polling pause"],
            "add_only": True,
        },
        "engines": [
            {"name": "harness", "path": "harness/", "serves_properties": sorted(CHECKS), "kind_free_text": "Go module github.com/taskctl/taskctl/verifharness (replace => /repo): engines reading JSON cases and driving the real packages / binary"},
            {"name": "coq", "path": "coq/", "serves_properties": sorted(CHECKS), "kind_free_text": "Coq 8.16.1 development: Model/ (executable models), Proofs/, Properties/Cxx.v (theorems), Corr/ (comparison functions for generated cases.v)"},
        ],
        "checks": checks,
        "not_applicable": na,
        "notes": "Family: machine-checked proof in Rocq/Coq over hand-written executable models, tied to /repo by correspondence runs on every check. See DESIGN.md.",
    }
    with open(os.path.join(ROOT, "MANIFEST.json"), "w") as f:
        json.dump(man, f, indent=1)
        f.write("\n")

if __name__ == "__main__":
    main()
