#!/usr/bin/env python3
"""regenerates /verif/MANIFEST.json from the table below (keeps the file valid and uniform)"""
import json
import os

ROOT = os.path.dirname(os.path.dirname(os.path.abspath(__file__)))

# id -> (technique, level text, level note, design ref, engine)
SCHED_NOTE = "Trusted: Coq kernel; hand-written LTS transcription of Schedule/checkStatus/isDone/stage goroutine (atomic Visit justified by the proved stability of satisfied statuses); Go engine sched (controlled Runner, quiescence oracle is a wait hint only), python driver; sync/atomic sequential consistency. No axioms."
CHECKS = {
 "C01": ("Coq proof: record invariant over a labelled transition system of the scheduler, for all configurations and all event interleavings; observed runs of the real Scheduler under a checker-controlled Runner are accepted by the LTS inside Coq (accepts_sound) and monitored",
         "C01_deps_finished_before_start holds for every configuration (any size, any graph) and every interleaving of visits, completions, cancels and exits (induction over event lists). The LTS is tied to scheduler.go by replaying every observed run (every DAG on <=4 stages, random to 8, all completion orders of stages in flight together up to a cap) through `accepts` in Coq; nested and twice-included pipelines through the binary.",
         SCHED_NOTE, "DESIGN.md section 6.0, C01", "sched"),
 "C02": ("Coq proof: statuses are unresolved or equal a declarative Final relation (invariant), Final is functional on acyclic graphs => confluence; error flag invariant; cancellation characterised by blocking paths; correspondence as C01 plus cross-order comparison",
         "C02_timing_independent / C02_final_at_return / C02_cancel_exactly_dependants / C02_error_reported for all acyclic configurations, outcome assignments and interleavings. Tied to the code by the same accepted runs, the fixed-point monitor on observed final statuses and comparison of all explored completion orders of one configuration; random pipelines BUILT FROM CONFIGURATION FILES (task and included-pipeline stages, allow_failure, false conditions) run by the binary and judged against `final` in Coq. C02_error_reported holds without hypothesis on the conditions (repair F18).",
         SCHED_NOTE, "DESIGN.md section 6 C02", "sched"),
 "C03": ("Coq proof: invariants (no double start, settled on return, eligible ran exactly once) and a progress theorem (one full polling pass strictly shrinks the Waiting set on acyclic well-formed graphs) over the scheduler LTS; correspondence as C01 plus injected Cancel / condition errors",
         "Safety parts hold for all executions; termination is proved as C03_terminates_within_rounds (on an acyclic configuration without dangling dependencies at most |c| fair rounds exhaust the Waiting stages and the exit is enabled) plus the enabledness lemmas; the wall-clock return is observed by the harness (Schedule must return within a bound in every explored run, cancelled runs included).",
         SCHED_NOTE + " Fairness of the Go scheduler and termination of commands are hypotheses of the progress argument.", "DESIGN.md section 6 C03", "sched"),
 "C04": ("Coq proof: eligibility is stable under every event, so any stretch of the run containing a stage's visit starts it (C04_eligible_gets_started, C04_in_flight_together); observed in-flight sets at every quiescent point are compared with the model's eligible closure in Coq",
         "For all configurations and interleavings: an eligible stage is started by the next pass whatever else happens, and a pass without completions puts all eligible stages in flight together. Tied to the code by checking, at every quiescent point of every explored run, that no eligible stage is unstarted (the controlled Runner releases nobody meanwhile = the rendezvous pipeline); through the binary with the REAL task runner two independent stages wait for each other's mark (contexts with hooks, interactive tasks, prefixed output, a shared task...).",
         SCHED_NOTE, "DESIGN.md section 6 C04", "sched"),
 "C05": ("Coq proof (DFS soundness/completeness + incremental acyclicity invariant) over a hand-written model of graph.go; differential correspondence vs scheduler.NewExecutionGraph and the config loader, evaluated in Coq by vm_compute",
         "Theorems C05_reject_iff_cyclic / C05_accept_iff_acyclic / C05_exposes_edges hold for every stage list of any size and order (unbounded, by induction); the model is tied to the Go code by running both on every edge set on <=3 stages in every declaration order (exhaustive), every edge set on 4 stages (thorough) and random graphs up to 10 stages.",
         "Trusted: Coq kernel; the hand-written transcription of addEdge/cycleDfs (edge list == from/to maps); the Go engines graph/loadcfg and the python driver. No axioms.",
         "DESIGN.md section 6 C05", "graph"),
 "C06": ("Coq proof: closed forms of the executed-command trace of a model of TaskRunner.Run (refinement of the recursive run to declarative first-failure specifications); differential correspondence against the real TaskRunner running real shell commands",
         "C06_stops_at_first_failure / C06_runs_everything / C06_failing_before_prevents_commands / C06_condition_false_skips for every task (any number of commands, variations, hooks, any exit status). Tied to runner.go/compiler.go by running the statement's grammar exhaustively for small shapes plus random larger tasks through the real runner and comparing traces in Coq; commands, hooks and conditions print on both streams; the same task run twice; tasks WRITTEN IN A CONFIGURATION FILE run by the binary directly, via `run task`, as a stage (with overrides, with the stage allowing failure) and nested.",
         "Trusted: Coq kernel; transcription of Run/before/execute/after/CompileTask with commands abstracted to (result, stdout); the fixed shape of generated shell commands; mvdan/sh and text/template; Go engine taskrun, python driver. No axioms.",
         "DESIGN.md section 6.1, C06", "taskrun"),
 "C07": ("Coq proof: error-iff-failed and exit-code theorems on the TaskRun model, prefix/exit-status laws of the CLI target loop model; differential correspondence: every exit status 0..255 through the real TaskRunner, target sequences through the real binary",
         "C07_error_iff_failed, C07_exit_code_recorded, C07_success_records_zero, C07_skipped_records_nothing for all tasks; C07_cli_runs_prefix / C07_cli_exit_zero_iff_all_ok for all target lists; C07_cli_cancelling_prefix / _exit_zero_iff / C07_cli_refused_target for target lists in which a target may leave the runner cancelled. Tied to the code by all statuses 0..255 at command positions and by 1..3 CLI targets in every order through three invocation forms.",
         "Trusted: as C06, plus Model/Cli.v transcription of the target loops and main's exit path; the python driver running the built binary. No axioms.",
         "DESIGN.md section 6 C07", "taskrun+cli"),
 "C08": ("Coq proof: non-interference invariant over all interleavings of the micro-steps (prepare / hand over) of any list of uses of shared tasks, with an explicit store model of aliasing; differential correspondence with a recording Runner under the real Scheduler.runStage",
         "C08_isolation for every task table, every list of uses and every interleaving (settings = env, variables, dir and - as one opaque value - every other field of the task: C08_other_fields_untouched); layering laws for env/variables/dir. Tied to scheduler.go by pipelines of 2..6 stages sharing one task in every dependency arrangement (every DAG on <=3, sampled/all on 4) with distinct overrides and random durations, followed by a direct run and a second pipeline.",
         "Trusted: Coq kernel; store/micro-step transcription of runStage (private copy); containers as association lists compared extensionally; Go engine stageov, python driver. No axioms.",
         "DESIGN.md section 6 C08", "stageov"),
 "C09": ("Coq proof: precedence law of the job/process environment over seven layers and of the working directory (first defined wins, any names and values) on a model of Run/CompileTask/runStage/Execute; differential correspondence through the real binary with a controlled parent environment",
         "C09_precedence / C09_passthrough / C09_task_name / C09_dir / C09_hooks_and_condition for all layer contents; C09_env_file_verbatim (+ last line wins, other lines define nothing, CRLF, unterminated last line) for the env_file read from its text (Model/EnvFile.v). Tied to the code by all 63 subsets of the six definable levels x two value orders x direct/stage, read by the command, the condition and the hooks; all subsets of the dir levels (absolute and relative) from two start directories; generated env-file texts; through the built binary.",
         "Trusted: Coq kernel; association-list transcription of the environment-building expressions; mvdan/sh ListEnviron (after the repair no name reaches it twice); python driver + binary. No axioms.",
         "DESIGN.md section 6 C09", "cli"),
 "C10": ("Coq proof: precedence law for template variables, argv split law (first `--`), and render-failure-before-execution on the TaskRun model; differential correspondence through the real binary",
         "C10_precedence / C10_builtins / C10_args_split / C10_undefined_variable_fails_before_executing for all layer contents and all argument vectors; C10_set_flag_splits_at_first_equals (complete characterisation of the --set text handling, Model/SetFlag.v), C10_last_set_wins. Tied to the code by all subsets of the five variable levels, argv vectors over the statement's alphabet, an undefined variable at every command position, --set texts of every shape, variables read in condition / hooks / commands, through the built binary.",
         "Trusted: Coq kernel; transcription of Config.merge/--set/buildTaskRunner/Run/runStage variable merging and of taskArgs and the target loops; text/template missingkey=error restricted to {{.name}}; urfave/cli; python driver + binary. No axioms.",
         "DESIGN.md section 6 C10", "cli"),
 "C11": ("Coq proof: captured output = concatenation of the executed jobs' stdout (closed form of the TaskRun model), .Output chaining law of execute's loop, character-wise characterisation of the exported name, and - composed with the scheduler LTS and C01 - in every execution a starting stage finds each completed dependency's output in the runner environment; observed captures, environment dumps and rendered .Output values of the real TaskRunner/Scheduler judged in Coq",
         "C11_captured_exactly / C11_dot_output_is_previous / C11_name_characterwise / C11_name_shape / C11_dependants_see_it for all tasks, names, outputs, graphs and schedules. Tied to the code by every printable ASCII character in names, random names x exportAs x commands x variations x stdout/stderr chunks (LF CR TAB quotes $ % ` { } UTF-8, empty, unterminated, 64 KiB), and random DAG pipelines in shuffled declaration order where every stage dumps its environment.",
         "Trusted: Coq kernel; transcription of execute / storeTaskOutput / Run's env merge; commands abstracted to the chunks they write; generated command shapes, coreutils env/od; Go engine taskrun, python driver. Kernel limits on environment size are outside the model (outputs <= 64 KiB). No axioms.",
         "DESIGN.md section 6 C11", "taskrun"),
 "C12": ("Coq proof (partial): safety and deadlock-freedom invariants and a decreasing measure over an LTS of any number of Run and Cancel threads interleaved arbitrarily (no panic, waiting Cancel never stuck, executions bounded, nothing starts after the flag, success means every command ran), and over the synchronised product of that LTS with the scheduler's LTS of C01-C03 (Model/Pipe.v: a composed execution projects onto an execution of each component; nothing starts after the run is cancelled from outside or by a stage-condition error, a stage started afterwards fails, success of a stage means all its commands ran, the loop blocked in its own Cancel is never stuck, a cancelled run can return); the real TaskRunner/Scheduler in a child process per scripted scenario is monitored in Coq",
         "PARTIAL: the hand-shake logic is proved for all thread counts and interleavings; that signals really end commands, the 2 s kill grace and wall-clock bounds are observed by the harness only (0..4 tasks in flight x 0..3 waiting, Cancel before/during/between/after/twice/again after refused runs/from a stage condition error, also inside nested pipelines through the binary; a command that survives the interruption).",
         "Trusted: Coq kernel; LTS transcription of Run's in-flight accounting and Cancel (mutex+cond as atomic steps); the synchronisation of Model/Pipe.v (stage i's goroutine = run i, Scheduler.Cancel = flag + runner Cancel, a stage that is itself a pipeline left out); environment rule 'a command in progress when the context is cancelled ends'; sync/context primitives; Go engine taskrun (child process), python driver. No axioms.",
         "DESIGN.md section 6 C12", "taskrun-child"),
 "C13": ("Coq proof (partial): decision logic of timeouts on the TaskRun model (a job ends as a non-exit error iff longer than the timeout; an overrun fails the task also with allow_failure and nothing later starts; overrunning after hooks are cut short; within-timeout tasks behave as untimed ones; per-job timer); real timeouts against real overrunning commands measured by the harness and judged in Coq",
         "PARTIAL: C13_overrun_fails / C13_after_cut_short / C13_within_unaffected / C13_full_timeout_each / C13_expires_iff_longer hold for all tasks, timeouts and durations. That expiry terminates the process shortly afterwards is observed only: timeouts 100 ms..1 s x {sleep, busy loop, SIGINT-ignoring child} x every position of 1..3 commands x hooks/condition x allow_failure against timeout + 2 s grace + slack; through the binary the timeout as written in a configuration file (string and number forms; direct, stage, overrides, nested) and that no process of an overrunning command outlives taskctl.",
         "Trusted: Coq kernel; TaskRun transcription; 'a cancelled/expired context makes the command end with a non-exit-status error' (mvdan/sh); real-time measurement with one retry in isolation; Go engine taskrun (child), python driver. No axioms.",
         "DESIGN.md section 6 C13", "taskrun-child"),
 "C14": ("Coq proof: counting and ordering invariants over an LTS of n task runs over k contexts with sync.Once start-up, for all interleavings (up once and first, before/after once each per run, down once per used context after everything, nothing after Finish); observed traces of the real TaskRunner (simultaneous, sequential, through the scheduler) and of the binary judged in Coq",
         "C14_no_hook_twice / C14_up_exactly_once / C14_order / C14_up_fails / C14_before_and_after_once_each / C14_down_once_for_used_contexts / C14_second_finish_runs_nothing for all run/context assignments and schedules. Tied to the code by 1..8 runs over 1..3 contexts, all task shapes, failing up/before/down, through taskrun engine and CLI.",
         "Trusted: Coq kernel; LTS transcription of Run/contextForTask/Finish and ExecutionContext hooks; sync.Once as 'first arriver runs, others wait'; Go engine taskrun, python driver + binary. No axioms.",
         "DESIGN.md section 6 C14", "taskrun+cli"),
 "C15": ("Coq proof (partial): totality - no input reaches Panic - of the import traversal (every file system, every mis-shapen import field) and of the builders over every definition with possibly-nil bodies and every env file, plus termination of the traversal; the real binary explored with grammar-generated and mutated documents in three formats, YAML specials, env-file shapes, under list/show/graph/validate with crash and time-limit detection; structured empty-body cases compared with the model in Coq",
         "PARTIAL: C15_load_total / C15_load_ends / C15_build_total / C15_envfile_total hold for all inputs of taskctl's own code between decoders and commands. Panics or hangs inside yaml.v2, encoding/json, go-toml, mapstructure, mergo, doublestar are reachable only by execution: quick = 300 documents x 3-4 commands, thorough = 1 500.",
         "Trusted: Coq kernel; models of Loader.load and of the builders' partial operations; third-party decoders NOT modelled (explored only); python serialisers/mutators + binary. No axioms.",
         "DESIGN.md section 6 C15", "cli"),
 "C16": ("Coq proof (partial): format independence of weak decoding - for every abstract value whose integers fit float64 exactly and every target type of the schema, the definition decoded from the YAML, JSON and TOML native representations is the same; refutation witness beyond 2^53 (known finding K3); the three files of generated configurations compared pairwise through list/show/graph/run of the real binary, and the observed agreement of scalars at every typed position compared with the model in Coq",
         "PARTIAL: C16_format_independent / C16_toml_is_yaml hold for all portable values and schema types; the parsers, mapstructure and number formatting are modelled and tied by differential runs only (18 scalars x 6 typed positions against the model; 40 (thorough 260) configurations over every documented key x 3 formats x every command).",
         "Trusted: Coq kernel; model of native representations and weak-decode rules; yaml.v2 / encoding/json / go-toml / mapstructure NOT verified; lib/fmtlib.py emitters; python driver + binary. No axioms.",
         "DESIGN.md section 6 C16", "cli"),
 "C17": ("Coq proof: termination of the import traversal for every import structure (fuel above the number of existing paths is never exhausted), each file read once, a successful load reads exactly the reachability closure and merges each file's definitions once (in merge order), relative resolution against the importer, a broken file anywhere in the closure yields an error (no panic, no success), global+project lookup laws; the real binary on generated directory trees compared with the model and with an independent closure monitor in Coq",
         "C17_terminates / C17_each_read_once / C17_closure_and_definitions / C17_relative_to_importer / C17_broken_import_is_an_error / C17_global_alongside_project for all file systems and import graphs. Tied to the code EXHAUSTIVELY on every import graph over <=3 files in nested directories (self-loops, cycles), sampled with reversed lists and redundant relative paths, random graphs to 7 files with directory and repeated imports, one file missing/unparsable at every position, mis-shapen import fields, all 64 global/project splits.",
         "Trusted: Coq kernel; transcription of Loader.load/loadDir (imports set, path.Join/Clean on segment lists); mergo on non-conflicting maps = concatenation; yaml.v2, filepath.Glob order, os.Stat; URL imports not modelled; python driver + binary. No axioms.",
         "DESIGN.md section 6 C17", "cli"),
 "C18": ("Coq proof: accepted <-> well-formed (references to tasks/pipelines, depends_on within the pipeline, watcher tasks, unique stage names, acyclic dependencies via the C05 graph theorem, acyclic inclusion) for all definitions, and - composed with the scheduler LTS - no execution of an accepted pipeline reaches the `unknown task` abort; accept/reject of the real binary on generated configurations with exactly one reference broken at every position compared with the model and with the by-construction oracle; every pipeline of accepted configurations run and drawn under a time limit",
         "C18_accepted_iff_well_formed / C18_run_never_aborts / C18_inclusion_acyclic / C18_accepted_pipelines_meet_scheduler_hypotheses (hence C02 timing independence and C03 progress for every accepted pipeline, no hypothesis left on the graph) for all definitions and all scheduler executions. Tied to the code by ~40 (thorough 150) generated configurations x every single breakage of 8 kinds at every position + the repaired originals.",
         "Trusted: Coq kernel; reduction of buildFromDefinition/buildPipeline/buildWatcher to names and references; Model/Graph.v (C05) for both cycle checks; to_config into Model/Sched.v; python driver + binary. No axioms.",
         "DESIGN.md section 6 C18", "cli"),
 "C19": ("Coq proof (partial): chunking-invariance of the prefixed writer (for every stream and every splitting into Write calls that does not cut an escape sequence, for every line-local stripper), whole-line shape of every sink write, projection theorem for arbitrary interleavings of concurrent writers, raw identity, cockpit call-sequence safety; sink writes of the real decorators (exhaustive small streams x all splits, long random streams, 1..8 concurrent writers) compared with the model and monitored in Coq; bufio.ScanLines and Go's regexp validated against the model's scanner/matcher; every task outcome under the three formats in child processes",
         "PARTIAL: C19_prefixed_faithful / C19_prefixed_whole_lines / C19_interleaving / C19_raw_identity / C19_cockpit_no_crash / C19_cockpit_no_deadlock (lock-order discipline, any number of threads) are proved for all streams, chunkings and interleavings; the full statement is refuted for chunkings that cut an ANSI sequence (C19_refuted_ansi_straddle = known finding K1). Atomicity of a sink Write, spinner timing/lock order and format-independence of results are observed only.",
         "Trusted: Coq kernel; transcription of prefixed.go/raw.go/cockpit.go call structure; Model/Regex.v used for predictions and the K1 class only (validated against Go regexp each run); Go engines output/taskrun-child, python driver. No axioms.",
         "DESIGN.md section 6 C19", "output+taskrun-child"),
 "C20": ("Coq proof (partial): the executable glob matcher decides the relational glob semantics (literal segments, *, ?, ** as doublestar reads it) for all patterns and paths; selection = include-and-not-exclude; default = all event types; the event loop law (initial run, then one run per delivered subscribed event with its name and path, compositional over histories of any length); registered paths and task runs of the real `taskctl watch` with real inotify compared with the model in Coq; doublestar.Glob/PathMatch validated against the matcher",
         "PARTIAL: C20_gmatch_correct / C20_selection / C20_default_events / C20_events / C20_keeps_serving hold for all patterns, trees and event histories. inotify/fsnotify delivery (which events an operation produces) is read from the watcher's debug log, not modelled; doublestar is validated, not verified.",
         "Trusted: Coq kernel; transcription of NewWatcher/Run/handle; doublestar semantics as modelled (validated each run by engine glob); inotify delivery; python driver with real file operations and SIGINT. No axioms.",
         "DESIGN.md section 6 C20", "cli-watch+glob"),
}

PENDING = {}

def main():
    props = [json.loads(l) for l in open(os.path.join(ROOT, "properties.jsonl"))]
    checks, na = [], []
    for p in props:
        pid = p["id"]
        if pid in CHECKS:
            tech, text, note, ref, engine = CHECKS[pid]
            checks.append({
                "property_id": pid,
                "quick_cmd": "./check %s quick" % pid,
                "thorough_cmd": "./check %s thorough" % pid,
                "evidence_file": "evidence/%s.json" % pid,
                "replay_cmd_template": "./check %s --replay {path}" % pid,
                "engine": engine,
                "level_claimed": {"category": "proof", "text": text, "design_ref": ref},
                "level_note": note,
                "technique": tech,
            })
        else:
            na.append({"property_id": pid, "reason": PENDING.get(pid, "check not built yet in this development (planned: see DESIGN.md section 6); not claimed until its theorem and correspondence run exist")})
    man = {
        "version": 1,
        "setup_cmd": "./check setup",
        "hooks": {
            "guard": "verif",
            "enable": "go build -tags verif (harness and taskctl binary are rebuilt from /repo's working tree by every check)",
            "baseline_off_cmd": "./check baseline",
            "source_commits": ["verif: add build-tag guarded setter for the scheduler polling pause"],
            "add_only": True,
        },
        "engines": [
            {"name": "harness", "path": "harness/", "serves_properties": sorted(CHECKS), "kind_free_text": "Go module github.com/taskctl/taskctl/verifharness (replace => /repo): engines reading JSON cases and driving the real packages / binary"},
            {"name": "coq", "path": "coq/", "serves_properties": sorted(CHECKS), "kind_free_text": "Coq 8.16.1 development: Model/ (executable models), Proofs/, Properties/Cxx.v (theorems), Corr/ (comparison functions for generated cases.v)"},
        ],
        "checks": checks,
        "not_applicable": na,
        "notes": "Family: machine-checked proof in Rocq/Coq over hand-written executable models, tied to /repo by correspondence runs on every check. See DESIGN.md.",
    }
    with open(os.path.join(ROOT, "MANIFEST.json"), "w") as f:
        json.dump(man, f, indent=1)
        f.write("\n")

if __name__ == "__main__":
    main()
