"""Serialisers of generic documents (dict / list / str / int / float / bool / None) to YAML, JSON and TOML text, written for
the checks C15 and C16 (python standard library only).  Deliberately plain: block-style YAML with quoted strings, json.dumps,
TOML with dotted table headers and arrays of tables."""
import json
import re


# ---------------------------------------------------------------- YAML
def yaml_scalar(v):
    if v is None:
        return "null"
    if v is True:
        return "true"
    if v is False:
        return "false"
    if isinstance(v, (int, float)):
        return repr(v)
    return json.dumps(v, ensure_ascii=False)          # a double-quoted YAML string (JSON strings are YAML strings)


def yaml_key(k):
    if isinstance(k, str) and re.match(r"^[A-Za-z_][A-Za-z0-9_.-]*$", k) and k.lower() not in ("null", "true", "false", "yes", "no", "on", "off", "y", "n", "~"):
        return k
    return yaml_scalar(k)


def to_yaml(v, ind=0):
    sp = "  " * ind
    if isinstance(v, dict):
        if not v:
            return sp + "{}\n"
        out = []
        for k, x in v.items():
            if isinstance(x, dict) and x:
                out.append("%s%s:\n%s" % (sp, yaml_key(k), to_yaml(x, ind + 1)))
            elif isinstance(x, list) and x:
                out.append("%s%s:\n%s" % (sp, yaml_key(k), to_yaml(x, ind + 1)))
            else:
                out.append("%s%s: %s\n" % (sp, yaml_key(k), to_yaml(x, 0).strip()))
        return "".join(out)
    if isinstance(v, list):
        if not v:
            return sp + "[]\n"
        out = []
        for x in v:
            if isinstance(x, (dict, list)) and x:
                body = to_yaml(x, ind + 1)
                out.append(sp + "- " + body[len(sp) + 2:])
            else:
                out.append("%s- %s\n" % (sp, to_yaml(x, 0).strip()))
        return "".join(out)
    return sp + yaml_scalar(v) + "\n"


# ---------------------------------------------------------------- JSON
def to_json(v):
    return json.dumps(v, indent=1, ensure_ascii=False)


# ---------------------------------------------------------------- TOML
class NotTomlable(Exception):
    pass


def toml_key(k):
    if isinstance(k, str) and re.match(r"^[A-Za-z0-9_-]+$", k):
        return k
    return json.dumps(str(k), ensure_ascii=False)


def toml_value(v):
    if v is None:
        raise NotTomlable("null")
    if v is True:
        return "true"
    if v is False:
        return "false"
    if isinstance(v, int):
        return str(v)
    if isinstance(v, float):
        r = repr(v)
        return r if ("." in r or "e" in r or "inf" in r or "nan" in r) else r + ".0"
    if isinstance(v, str):
        return json.dumps(v, ensure_ascii=False)
    if isinstance(v, list):
        return "[" + ", ".join(toml_value(x) for x in v) + "]"
    if isinstance(v, dict):
        return "{" + ", ".join("%s = %s" % (toml_key(k), toml_value(x)) for k, x in v.items()) + "}"
    raise NotTomlable(type(v))


def to_toml(doc):
    """doc: dict.  Scalars and plain arrays first, then sub-tables [a.b], arrays of tables [[a.b]]"""
    if not isinstance(doc, dict):
        raise NotTomlable("top level must be a table")
    out = []

    def is_aot(x):
        return isinstance(x, list) and x and all(isinstance(e, dict) for e in x)

    def emit(tbl, prefix):
        for k, x in tbl.items():
            if not isinstance(x, dict) and not is_aot(x):
                out.append("%s = %s" % (toml_key(k), toml_value(x)))
        for k, x in tbl.items():
            if isinstance(x, dict):
                out.append("")
                out.append("[%s]" % ".".join(prefix + [toml_key(k)]))
                emit(x, prefix + [toml_key(k)])
            elif is_aot(x):
                for e in x:
                    out.append("")
                    out.append("[[%s]]" % ".".join(prefix + [toml_key(k)]))
                    emit(e, prefix + [toml_key(k)])
    emit(doc, [])
    return "\n".join(out) + "\n"


def serialise(doc, fmt):
    return {"yaml": to_yaml, "json": to_json, "toml": to_toml}[fmt](doc)
