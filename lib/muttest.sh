#!/bin/sh
# usage: muttest.sh <worktree> <patch.diff> <PROP> [PROP...]
# apply a seeded change in a scratch worktree of /repo and run the quick checks of a SNAPSHOT of /verif (at /tmp/vsnap,
# refreshed by lib/mutsnap.sh) against that tree: isolated from /repo and from edits going on in /verif
wt="$1"; patch="$2"; shift; shift
cd "$wt" || exit 2
git checkout -q -f --detach main; git clean -fdq
if ! git apply "$patch" 2>/dev/null; then
  if ! git apply --3way "$patch" >/dev/null 2>&1; then echo "PATCH DOES NOT APPLY: $patch"; git checkout -q -f --detach main; exit 3; fi
  git reset -q
fi
export VERIF_REPO="$wt" VERIF_WORK="/tmp/mutwork/$(basename $wt)"
mkdir -p "$VERIF_WORK"
for p in "$@"; do
  (cd /tmp/vsnap && timeout 1500 ./check "$p" quick 2>&1 | grep -E "VIOLATION|KNOWN|seed=" | cut -c1-250)
done
git checkout -q -f --detach main; git clean -fdq
