#!/bin/sh
# usage: muttest.sh <worktree> <patch.diff> <PROP> [PROP...]
# apply a seeded change in a scratch worktree of /repo and run the quick checks against that tree, isolated from /repo
wt="$1"; patch="$2"; shift; shift
cd "$wt" || exit 2
git checkout -q -- . ; git clean -fdq
git merge -q --ff-only main 2>/dev/null || git checkout -q --detach main
if ! git apply "$patch" 2>/dev/null; then
  if ! git apply --3way "$patch" >/dev/null 2>&1; then echo "PATCH DOES NOT APPLY: $patch"; exit 3; fi
  git reset -q
fi
export VERIF_REPO="$wt" VERIF_WORK="/tmp/mutwork/$(basename $wt)"
mkdir -p "$VERIF_WORK"
for p in "$@"; do
  (cd /verif && timeout 1500 ./check "$p" quick 2>&1 | grep -E "VIOLATION|KNOWN|seed=" | cut -c1-250)
done
git checkout -q -- . ; git clean -fdq
