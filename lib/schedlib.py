"""Shared correspondence run for C01-C04: the real Scheduler under a checker-controlled Runner (engine `sched`),
every observed run judged in Coq by Corr/SchedAccept.v (acceptance by the LTS + the four monitors)."""
import itertools
import json
import vlib

TRUSTED = [
    "model Model/Sched.v: hand transcription of Scheduler.Schedule / checkStatus / isDone / stage goroutine as an LTS; Visit is atomic (justified by stability of satisfied statuses, Proofs/SchedLive.v sat_stable)",
    "Go engine `sched` (harness/sched.go): controlled runner.Runner, quiescence oracle (a wait hint only: what is recorded is judged in Coq), DFS over completion orders",
    "sync/atomic and the Go memory model (sequentially consistent status reads/writes)",
]
ASSUMPTIONS = [
    "a graph object is scheduled once (statuses are never reset by the code)",
    "nested pipelines: each nested instance is an instance of the same LTS (checked per instance by the nested cases), sharing only the cancelled flag",
]


def all_dags(n):
    """every labelled DAG on n nodes as dict node -> sorted deps"""
    pairs = [(a, b) for a in range(n) for b in range(n) if a != b]
    res = []
    for mask in range(1 << len(pairs)):
        edges = [p for k, p in enumerate(pairs) if mask >> k & 1]
        deps = {a: [] for a in range(n)}
        for a, b in edges:
            deps[a].append(b)
        # acyclic? Kahn
        indeg = {a: len(deps[a]) for a in deps}
        rem = set(range(n))
        changed = True
        while changed:
            changed = False
            for a in list(rem):
                if all(d not in rem for d in deps[a]):
                    rem.discard(a)
                    changed = True
        if not rem:
            res.append(deps)
    return res


KINDS = ["ok", "ok", "ok", "fail", "fail", "allowfail", "allowfail", "condfalse", "condtrue_ok", "allow_ok"]


def stage_attrs(kind):
    return {
        "ok": dict(allow=False, cond="none", ok=True),
        "fail": dict(allow=False, cond="none", ok=False),
        "allowfail": dict(allow=True, cond="none", ok=False),
        "allow_ok": dict(allow=True, cond="none", ok=True),
        "condfalse": dict(allow=False, cond="false", ok=True),
        "condtrue_ok": dict(allow=False, cond="true", ok=True),
        "condtrue_fail": dict(allow=False, cond="true", ok=False),
        "conderr": dict(allow=False, cond="err", ok=True),
        "conderr_allow": dict(allow=True, cond="err", ok=True),
    }[kind]


def mk_case(deps, kinds, decl, cancel=-1, shared=None, max_paths=24, kind="dag"):
    n = len(deps)
    stages = []
    for i in range(n):
        st = dict(stage_attrs(kinds[i]))
        st["deps"] = list(deps[i])
        st["task"] = shared[i] if shared else i
        stages.append(st)
    return {"stages": stages, "decl": list(decl), "cancel": cancel, "max_paths": max_paths, "kind": kind, "kinds": list(kinds)}


def random_dag(rng, n):
    perm = list(range(n))
    rng.shuffle(perm)
    dens = rng.choice([0.15, 0.3, 0.5])
    deps = {a: [] for a in range(n)}
    for i in range(n):
        for j in range(i):
            if rng.random() < dens:
                deps[perm[i]].append(perm[j])
    for a in deps:
        rng.shuffle(deps[a])
    return deps


def gen_cases(ctx, prop):
    rng = vlib.rng_for(ctx.seed, "sched")     # the same runs for C01..C04 at a given seed
    cases = []
    thorough = ctx.tier == "thorough"

    def add(c):
        c["id"] = len(cases)
        cases.append(c)

    # corpus: diamond with two stages in flight; allowed failure feeding a dependant; failure cancelling a chain;
    # two deps where the FIRST listed is slow and the second fails with allow_failure (order-sensitive checkStatus)
    add(mk_case({0: [], 1: [0], 2: [0], 3: [1, 2]}, ["ok", "ok", "ok", "ok"], [3, 2, 1, 0], kind="corpus"))
    add(mk_case({0: [], 1: [], 2: [0, 1]}, ["ok", "allowfail", "ok"], [2, 1, 0], kind="corpus"))
    add(mk_case({0: [], 1: [], 2: [1, 0]}, ["ok", "allowfail", "ok"], [0, 1, 2], kind="corpus"))
    add(mk_case({0: [], 1: [0], 2: [1]}, ["fail", "allow_ok", "ok"], [0, 1, 2], kind="corpus"))
    add(mk_case({0: [], 1: [0], 2: [1], 3: []}, ["fail", "allowfail", "ok", "ok"], [0, 1, 2, 3], kind="corpus"))
    add(mk_case({0: [], 1: [], 2: [0], 3: [1]}, ["fail", "allowfail", "ok", "ok"], [0, 1, 2, 3], kind="corpus"))
    add(mk_case({0: [], 1: [], 2: []}, ["ok", "ok", "ok"], [0, 1, 2], shared=[0, 0, 1], kind="corpus"))
    add(mk_case({0: [], 1: [0], 2: []}, ["ok", "ok", "ok"], [0, 1, 2], kind="corpus"))
    add(mk_case({0: [], 1: [0], 2: [1]}, ["condfalse", "ok", "ok"], [2, 1, 0], kind="corpus"))

    # every DAG on <= 4 stages
    for n in (1, 2, 3, 4):
        dags = all_dags(n)
        reps = {1: 6, 2: 8, 3: 4, 4: (4 if thorough else 1)}[n]
        for deps in dags:
            for _ in range(reps):
                kinds = [rng.choice(KINDS) for _ in range(n)]
                decl = list(range(n))
                rng.shuffle(decl)
                d2 = {a: rng.sample(deps[a], len(deps[a])) for a in deps}
                shared = None
                if n >= 2 and rng.random() < 0.15:
                    shared = [rng.randrange(2) for _ in range(n)]
                add(mk_case(d2, kinds, decl, shared=shared, max_paths=24 if n <= 3 else (24 if thorough else 8), kind="dag%d" % n))
    # random DAGs on 5..8 stages
    for _ in range(400 if thorough else 60):
        n = rng.randint(5, 8)
        deps = random_dag(rng, n)
        kinds = [rng.choice(KINDS) for _ in range(n)]
        decl = list(range(n))
        rng.shuffle(decl)
        add(mk_case(deps, kinds, decl, max_paths=6, kind="rand"))
    # wide: more co-eligible stages than any plausible limit on parallelism (cores, a semaphore): all must be in flight together
    wide = max(40, 2 * vlib.NCPU + 1)
    add(mk_case({a: [] for a in range(wide)}, ["ok"] * wide, list(range(wide)), max_paths=1, kind="wide"))
    wdeps = {a: ([] if a < wide // 2 else [a - wide // 2]) for a in range(wide)}
    wdeps[wide] = list(range(wide // 2, wide))
    add(mk_case(wdeps, ["ok"] * (wide + 1), list(range(wide + 1)), max_paths=1, kind="wide"))
    # stress: free-running Runner and a busy-polling loop, so that the loop reads statuses while stage goroutines are between
    # their two status writes (allowed failure: Error, then Done); many allowed-failure stages, each with a dependant
    for _ in range(400 if thorough else 120):
        k = rng.randint(6, 14)
        deps, kinds = {}, []
        for a in range(k):
            deps[2 * a] = []
            deps[2 * a + 1] = [2 * a]
            kinds += [rng.choice(["allowfail", "allowfail", "allowfail", "ok", "fail"]), rng.choice(["ok", "ok", "allowfail"])]
        c = mk_case(deps, kinds, list(range(2 * k)), kind="stress")
        c["free"] = True
        c["single"] = True
        add(c)
    # cancellation: external Cancel at every decision point, condition errors at every position (C03)
    ncancel = 160 if thorough else (60 if prop == "C03" else 24)
    for _ in range(ncancel):
        n = rng.randint(1, 5)
        deps = random_dag(rng, n)
        kinds = [rng.choice(KINDS) for _ in range(n)]
        decl = list(range(n))
        rng.shuffle(decl)
        if rng.random() < 0.5:
            add(mk_case(deps, kinds, decl, cancel=rng.choice([-2, 0, 0, 1, 1, 2, 3]), max_paths=4, kind="extcancel"))
        else:
            kinds[rng.randrange(n)] = rng.choice(["conderr", "conderr", "conderr_allow"])
            add(mk_case(deps, kinds, decl, max_paths=4, kind="conderr"))
    return cases


# ---- Coq emission ----------------------------------------------------------------------------------

def coq_cfg(stages):
    def one(s):
        cond = {"none": "CNone", "true": "CTrue", "false": "CFalse", "err": "CErr"}[s["cond"]]
        return "mkStage %s %s %s" % (vlib.clist(s["deps"]), vlib.cbool(s["allow"]), cond)
    return vlib.clist(stages, one)


def coq_trace(trace):
    out = []
    for ev in trace:
        if ev[0] == "S":
            out.append("TS %d" % ev[1])
        elif ev[0] == "R":
            out.append("TR %d %s" % (ev[1], vlib.cbool(ev[2])))
        elif ev[0] == "X":
            out.append("TX")
        elif ev[0] == "Q":
            out.append("TQ %s" % vlib.clist(ev[1]))
    return "[" + "; ".join(out) + "]"


HEADER = """From Coq Require Import List Arith NArith Bool. Import ListNotations.
From TaskctlV Require Import Model.Sched Corr.SchedAccept.
Definition ids (p : verdicts -> bool) (cases : list (N * verdicts)) : list N := map fst (filter (fun c => negb (p (snd c))) cases).
"""
FOOTER = """
Definition V := Eval vm_compute in cases.
Definition BAD_ACCEPT := Eval vm_compute in ids v_accept V.
Definition BAD_C01 := Eval vm_compute in ids v_c01 V.
Definition BAD_C02 := Eval vm_compute in ids v_c02 V.
Definition BAD_C03 := Eval vm_compute in ids v_c03 V.
Definition BAD_C04 := Eval vm_compute in ids v_c04 V.
Definition BAD_INFL := Eval vm_compute in ids v_infl V.
Print BAD_ACCEPT. Print BAD_C01. Print BAD_C02. Print BAD_C03. Print BAD_C04. Print BAD_INFL.
"""


def nested_cli(ctx, res):
    """C01 through the binary with NESTED pipelines whose stages reuse the names of the enclosing pipeline's stages (the default
    when stages are named after their tasks): in every pipeline instance a stage starts only after its dependencies have ended,
    an including stage counts as ended when every stage of the included pipeline has."""
    import clilib
    rng = vlib.rng_for(ctx.seed, "C01nested")
    jobs = []
    pool = ["build", "test", "deploy", "lint"]
    for k in range(40 if ctx.tier == "thorough" else 10):
        tasks, pipes = {}, {}

        def mk(pipe, name, dur):
            tn = "%s_%s" % (pipe, name)
            # one file per mark, holding a nanosecond clock reading taken AFTER the start / BEFORE the end (concurrent appends to one
            # file can interleave under load): a start measured before a dependency's measured end is a real overlap
            tasks[tn] = {"command": ['date +%%s%%N > "$PROJ/m.start.%s.%s"; sleep %s; date +%%s%%N > "$PROJ/m.end.%s.%s"' % (pipe, name, dur, pipe, name)]}
            return tn
        inner_names = rng.sample(pool, rng.randint(1, 3))
        inner = []
        for i, n in enumerate(inner_names):
            st = {"name": n, "task": mk("in", n, rng.choice(["0.02", "0.05", "0.1"]))}
            deps = [m for m in inner_names[:i] if rng.random() < 0.5]
            if deps:
                st["depends_on"] = deps
            inner.append(st)
        pipes["pin"] = inner
        outer_names = rng.sample(pool, rng.randint(2, 4))
        outer = []
        for i, n in enumerate(outer_names):
            # an outer stage sharing its name with an inner one is slow: it ends after the inner one
            st = {"name": n, "task": mk("out", n, rng.choice(["0.4", "0.6"]) if n in inner_names else rng.choice(["0.05", "0.2"]))}
            deps = [m for m in outer_names[:i] if rng.random() < 0.5]
            if deps:
                st["depends_on"] = deps
            outer.append(st)
        inc = {"name": "included", "pipeline": "pin"}
        d = [m for m in outer_names if rng.random() < 0.3]
        if d:
            inc["depends_on"] = d
        outer.insert(rng.randint(0, len(outer)), inc)
        # somebody waits for a slow outer stage that has an inner namesake
        shared = [n for n in outer_names if n in inner_names]
        last = {"name": "final", "task": mk("out", "final", "0.02"), "depends_on": sorted(set(shared + (["included"] if rng.random() < 0.5 else []))) or [outer_names[0]]}
        outer.append(last)
        pipes["pout"] = outer
        jobs.append({"id": len(jobs), "files": {"cfg.json": clilib.jcfg({"tasks": tasks, "pipelines": pipes})}, "argv": ["-c", "cfg.json", "--raw", "run", "pipeline", "pout"],
                     "keep": ["m.%s.%s.%s" % (k2, p2, st["name"]) for k2 in ("start", "end") for p2, key in (("in", "pin"), ("out", "pout")) for st in pipes[key] if "task" in st],
                     "timeout": 30, "pipes": pipes})
    out = clilib.run_cli(ctx.workdir + "/nested", jobs, timeout=30)
    for j in jobs:
        r = out[j["id"]]
        res.evaluations += 1
        res.count("nested-cli")
        res.nontrivial_keys.add(json.dumps(j["pipes"], sort_keys=True))
        case = {"kind": "nested-cli", "pipelines": j["pipes"]}
        if r["timeout"] or clilib.crashed(r) or r["rc"] != 0:
            res.violations.append({"class": None, "what": "running a pipeline with a nested pipeline failed, hung or crashed", "case": case, "observed": {"rc": r["rc"], "err": (r.get("err") or "")[-600:]}})
            continue
        pos = {}
        for fn, txt in r["files"].items():
            parts = fn.split(".")
            if len(parts) == 4 and txt.strip().isdigit():
                pos[(parts[1], parts[2], parts[3])] = int(txt.strip())
        lines = sorted((v, k) for k, v in pos.items())
        INF = float("inf")
        inner_end = max([pos.get(("end", "in", st["name"]), INF) for st in j["pipes"]["pin"]])          # the included pipeline has ended when all its stages have
        inner_start = min([pos.get(("start", "in", st["name"]), INF) for st in j["pipes"]["pin"]])

        def ended(pipe, name):
            return inner_end if (pipe == "out" and name == "included") else pos.get(("end", pipe, name), INF)

        def started(pipe, name):        # INF = never started: nothing to check
            return inner_start if (pipe == "out" and name == "included") else pos.get(("start", pipe, name), INF)
        bad = None
        for pipe, key in (("in", "pin"), ("out", "pout")):
            for st in j["pipes"][key]:
                for d in st.get("depends_on", []):
                    if not started(pipe, st["name"]) > ended(pipe, d):
                        bad = (pipe, st["name"], d)
        if bad:
            res.violations.append({"class": None, "what": "nested pipelines: stage `%s` of pipeline `%s` started before its dependency `%s` had finished" % (bad[1], bad[0], bad[2]),
                                   "case": case, "observed": ["%d %s" % (v, " ".join(k)) for v, k in lines]})


def nested_overlap_cli(ctx, res):
    """C04 through the binary: a stage that includes a (slow) pipeline does not hold back stages that do not depend on it: they, and the
    stages depending only on them, start while the included pipeline is still running.  Map iteration order is random: repeated."""
    import clilib
    jobs = []
    for rep in range(24 if ctx.tier == "thorough" else 10):
        def mk(pipe, name, dur):
            return {"command": ['date +%%s%%N > "$PROJ/m.start.%s.%s"; sleep %s; date +%%s%%N > "$PROJ/m.end.%s.%s"' % (pipe, name, dur, pipe, name)]}
        tasks = {"in_slow": mk("in", "slow", "0.8"), "out_x": mk("out", "x", "0.02"), "out_y": mk("out", "y", "0.02"), "out_z": mk("out", "z", "0.02")}
        pipes = {"pin": [{"task": "in_slow", "name": "slow"}],
                 "pout": [{"pipeline": "pin", "name": "included"}, {"task": "out_x", "name": "x"}, {"task": "out_y", "name": "y", "depends_on": ["x"]}, {"task": "out_z", "name": "z"}]}
        keep = ["m.%s.%s" % (k, n) for k in ("start", "end") for n in ("in.slow", "out.x", "out.y", "out.z")]
        jobs.append({"id": rep, "files": {"cfg.json": clilib.jcfg({"tasks": tasks, "pipelines": pipes})}, "argv": ["-c", "cfg.json", "--raw", "run", "pipeline", "pout"], "keep": keep, "timeout": 30})
    out = clilib.run_cli(ctx.workdir + "/nestedov", jobs, timeout=30, workers=4)
    for j in jobs:
        r = out[j["id"]]
        res.evaluations += 1
        res.count("nested-overlap-cli")
        res.nontrivial_keys.add("nested-overlap")
        case = {"kind": "nested-overlap-cli", "config": json.loads(j["files"]["cfg.json"])}
        if r["timeout"] or clilib.crashed(r) or r["rc"] != 0:
            res.violations.append({"class": None, "what": "running a pipeline with a nested pipeline failed, hung or crashed", "case": case, "observed": (r.get("err") or "")[-500:]})
            continue
        t = {k: int(v.strip()) for k, v in r["files"].items() if v.strip().isdigit()}
        slow_end = t.get("m.end.in.slow")
        late = [n for n in ("x", "y", "z") if slow_end is None or t.get("m.start.out." + n, 10 ** 30) > slow_end]
        if late:
            res.violations.append({"class": None, "what": "stages independent of an included (slow) pipeline were not started while it was running: %s" % ",".join(late),
                                   "case": case, "observed": {k: v for k, v in sorted(t.items(), key=lambda kv: kv[1])}})
            break


def config_order_cli(ctx, res):
    """C01 through the binary with REAL processes, pipelines built from a configuration file: random DAGs whose stages have names of their own
    or the default name (their task's), share tasks, refer to each other by name - also when a stage's name equals the task of a differently
    named stage; stages that allow the failure of a failing task, and of a task whose command outlives its timeout for a while (ignores the
    interrupt): a stage starts only after the PROCESSES of all its dependencies have ended."""
    import clilib
    rng = vlib.rng_for(ctx.seed, "C01config")
    ms = 'f=$(mktemp "$PROJ/m.start.{{index . ".Stage.Name"}}.XXXXXX"); date +%s%N > "$f"; '
    me = 'g=$(mktemp "$PROJ/m.end.{{index . ".Stage.Name"}}.XXXXXX"); date +%s%N > "$g"'
    tasks = {"build": {"command": [ms + "sleep {{.D}}; " + me]}, "test": {"command": [ms + "sleep {{.D}}; " + me]}, "lint": {"command": [ms + "sleep {{.D}}; " + me]},
             "flaky": {"command": [ms + "sleep {{.D}}; " + me + "; exit 3"]},
             # the command ignores the interrupt sent at the timeout and ends by itself a second later: only then has the stage finished
             "surv": {"timeout": "300ms", "command": [ms + 'g=$(mktemp "$PROJ/m.end.{{index . ".Stage.Name"}}.XXXXXX"); sh -c "trap \'\' INT; sleep 1.3; date +%s%N > $g"']}}
    jobs = []
    for k in range(40 if ctx.tier == "thorough" else 12):
        stages = []
        names = []
        if k % 3 == 0:          # a stage named after its task `build` (slow) next to a stage `build-arm` running the same task (fast): depends_on [build] means the former
            stages += [{"task": "build", "variables": {"D": "0.7"}}, {"task": "build", "name": "build-arm", "variables": {"D": "0.05"}}]
            names += ["build", "build-arm"]
        for i in range(rng.randint(2, 4)):
            tk = rng.choice(["build", "test", "lint", "flaky", "surv"] if k % 3 else ["test", "lint", "flaky", "surv"])
            st = {"task": tk, "variables": {"D": rng.choice(["0.05", "0.2", "0.4"])}}
            if tk in names or rng.random() < 0.4:
                st["name"] = "s%d" % i
            nm = st.get("name", tk)
            if tk in ("flaky", "surv"):
                st["allow_failure"] = True
            deps = [d for d in names if rng.random() < 0.45]
            if deps:
                st["depends_on"] = deps
            names.append(nm)
            stages.append(st)
        decl = list(stages)
        rng.shuffle(decl)
        jobs.append({"id": k, "files": {"cfg.json": clilib.jcfg({"tasks": tasks, "pipelines": {"p": decl}})}, "argv": ["-c", "cfg.json", "--raw", "run", "pipeline", "p"], "keepglob": "m.*",
                     "timeout": 40, "stages": stages})
    out = clilib.run_cli(ctx.workdir + "/cfgorder", jobs, timeout=40, workers=6)
    for j in jobs:
        r = out[j["id"]]
        res.evaluations += 1
        res.count("config-order-cli")
        res.nontrivial_keys.add(json.dumps(j["stages"]))
        case = {"kind": "config-order-cli", "stages": j["stages"], "config": json.loads(j["files"]["cfg.json"])}
        if r["timeout"] or clilib.crashed(r) or r["rc"] != 0:
            res.violations.append({"class": None, "what": "a pipeline built from a configuration file (every failure allowed) failed, hung or crashed", "case": case,
                                   "observed": {"rc": r["rc"], "err": (r.get("err") or "")[-500:]}})
            continue
        ev = {}
        for fn, txt in r["files"].items():
            parts = fn.split(".")
            if len(parts) == 4 and txt.strip().isdigit():
                ev.setdefault((parts[1], parts[2]), []).append(int(txt.strip()))
        problem = None
        for st in j["stages"]:
            nm = st.get("name", st["task"])
            starts = ev.get(("start", nm), [])
            if len(starts) != 1:
                problem = "stage %s ran %d times" % (nm, len(starts))
                break
            for d in st.get("depends_on", []):
                ends = ev.get(("end", d), [])
                if not ends or max(ends) > starts[0]:
                    problem = "stage %s started before the process of its dependency %s had ended" % (nm, d)
                    break
            if problem:
                break
        if problem:
            res.violations.append({"class": None, "what": "a pipeline built from a configuration file: " + problem, "case": case,
                                   "observed": {"%s.%s" % kk: sorted(v) for kk, v in sorted(ev.items())}})


def twice_included_cli(ctx, res):
    """C01 / C03 through the binary: ONE pipeline included by two stages of an outer pipeline, the second inclusion reached while the first
    is still running it; and the same pipeline named twice on the command line.  The run ends; nothing starts while a dependency of
    its own is running; a stage that depends on an including stage starts only after every stage of the included pipeline has ended."""
    import clilib

    def mk(name, dur):
        return {"command": ['f=$(mktemp "$PROJ/m.start.%s.XXXXXX"); date +%%s%%N > "$f"; sleep %s; g=$(mktemp "$PROJ/m.end.%s.XXXXXX"); date +%%s%%N > "$g"' % (name, dur, name)]}
    jobs = []
    for rep in range(6 if ctx.tier == "thorough" else 3):
        for slow, dgap in (("0.6", "0.15"), ("0.4", "0.05")):
            tasks = {"slow": mk("slow", slow), "y": mk("y", "0.05"), "d": mk("d", dgap), "e": mk("e", "0.02"), "f": mk("f", "0.02")}
            pipes = {"pin": [{"task": "slow"}, {"task": "y", "depends_on": ["slow"]}],
                     "pout": [{"pipeline": "pin", "name": "n1"}, {"task": "d"}, {"pipeline": "pin", "name": "n2", "depends_on": ["d"]},
                              {"task": "e", "depends_on": ["n2"]}, {"task": "f", "depends_on": ["n1"]}]}
            jobs.append({"id": len(jobs), "files": {"cfg.json": clilib.jcfg({"tasks": tasks, "pipelines": pipes})}, "argv": ["-c", "cfg.json", "--raw", "run", "pipeline", "pout"],
                         "keepglob": "m.*", "timeout": 25, "form": "included-twice", "pipes": pipes})
    tasks = {"slow": mk("slow", "0.2"), "y": mk("y", "0.02")}
    pipes = {"pin": [{"task": "slow"}, {"task": "y", "depends_on": ["slow"]}]}
    for argv in (["pin", "pin"], ["run", "pin", "pin"]):
        jobs.append({"id": len(jobs), "files": {"cfg.json": clilib.jcfg({"tasks": tasks, "pipelines": pipes})}, "argv": ["-c", "cfg.json", "--raw"] + argv, "keepglob": "m.*", "timeout": 25,
                     "form": "named-twice", "pipes": pipes})
    out = clilib.run_cli(ctx.workdir + "/twice", jobs, timeout=25)
    for j in jobs:
        r = out[j["id"]]
        res.evaluations += 1
        res.count("twice-included-cli")
        res.nontrivial_keys.add("twice-" + j["form"] + str(j["id"] % 2))
        case = {"kind": "twice-included-cli", "form": j["form"], "argv": j["argv"], "pipelines": j["pipes"]}
        if r["timeout"]:
            res.violations.append({"class": None, "what": "a pipeline used twice in one run (%s): the run did not end within 25 s" % j["form"], "case": case, "observed": (r.get("err") or "")[-500:]})
            continue
        if clilib.crashed(r) or r["rc"] != 0:
            res.violations.append({"class": None, "what": "a pipeline used twice in one run (%s): the run failed or crashed" % j["form"], "case": case, "observed": {"rc": r["rc"], "err": (r.get("err") or "")[-500:]}})
            continue
        ev = {}
        for fn, txt in r["files"].items():
            parts = fn.split(".")
            if len(parts) == 4 and txt.strip().isdigit():
                ev.setdefault((parts[1], parts[2]), []).append(int(txt.strip()))
        INF = float("inf")
        problems = []

        def running_at(name, t):          # an execution of `name` in progress at time t (started before, not ended before)
            ends = sorted(ev.get(("end", name), []))
            for st in sorted(ev.get(("start", name), [])):
                en = next((x for x in ends if x >= st), INF)
                if st < t < en:
                    return True
            return False
        for ystart in ev.get(("start", "y"), []):
            if running_at("slow", ystart) or not [x for x in ev.get(("end", "slow"), []) if x <= ystart]:
                problems.append("y started while its dependency slow was running (or before it had ended)")
        if j["form"] == "included-twice":
            inner_end = max(ev.get(("end", "slow"), [INF]) + ev.get(("end", "y"), [INF]))
            for nm in ("e", "f"):
                for st in ev.get(("start", nm), []):
                    if st < inner_end or running_at("slow", st) or running_at("y", st):
                        problems.append("%s (depends on a stage including the pipeline) started before every stage of the included pipeline had ended" % nm)
                if not ev.get(("start", nm)):
                    problems.append("%s never ran although its dependency completed" % nm)
        if problems:
            res.violations.append({"class": None, "what": "a pipeline used twice in one run (%s): %s" % (j["form"], problems[0]), "case": case,
                                   "observed": {"%s.%s" % k: sorted(v) for k, v in sorted(ev.items())}})


CFG_HEADER = """From Coq Require Import List Arith Bool. Import ListNotations.
From TaskctlV Require Import Model.Sched.
Definition ranb (x : status) := match x with Done | Error => true | _ => false end.
(* unobs: stages whose task leaves no mark even when it is attempted (their context cannot be started) *)
Definition cfg_ok (c : config * list bool * list bool * (list bool * bool)) : bool :=
  let '(cf, outs, unobs, (ran, failed)) := c in
  let f := final cf (fun i => nth i outs true) in
  forallb (fun i => nth i unobs false || Bool.eqb (ranb (f i)) (nth i ran false)) (seq 0 (length cf))
  && Bool.eqb failed (existsb (fun i => status_eqb (f i) Error && negb (allow_of cf i)) (seq 0 (length cf))).
"""
CFG_FOOTER = """
Definition BAD := Eval vm_compute in map fst (filter (fun c => negb (cfg_ok (snd c))) cases).
Print BAD.
"""


def config_cli(ctx, res):
    """C02 through the binary, pipelines BUILT FROM A CONFIGURATION FILE: random DAGs whose stages are tasks or included one-stage pipelines,
    with allow_failure and false conditions at stage level, shuffled declaration order: which stages ran and whether the process failed are
    compared with the declarative end state of Model/Sched.v (final)."""
    import clilib
    rng = vlib.rng_for(ctx.seed, "C02config")
    jobs = []
    for k in range(120 if ctx.tier == "thorough" else 36):
        n = rng.randint(2, 6)
        sts = []
        for i in range(n):
            sts.append({"kind": rng.choice(["task", "task", "pipeline"]), "ok": rng.random() < 0.6, "allow": rng.random() < 0.4, "cond": rng.choice(["none", "none", "none", "false"]),
                        "deps": sorted(rng.sample(range(i), rng.randint(0, min(i, 2)))), "broken": False})
        if k % 3 == 1:          # several stages run in a context whose `up` fails: every one of them fails (not only the first to arrive)
            for st in sts:
                if st["kind"] == "task" and rng.random() < 0.6:
                    st["broken"], st["ok"] = True, False
        tasks, pipes, stages = {}, {}, []
        for i, st in enumerate(sts):
            tasks["t%d" % i] = {"command": ['touch "$PROJ/m.%d"; exit %d' % (i, 0 if st["ok"] else 3)]}
            if st["broken"]:
                tasks["t%d" % i]["context"] = "broken"
            d = {"name": "s%d" % i}
            if st["kind"] == "task":
                d["task"] = "t%d" % i
            else:
                inner = {"task": "t%d" % i}
                off = [j2 for j2, o in enumerate(sts) if o["cond"] == "false" and j2 != i]
                if off and rng.random() < 0.6:
                    # the included pipeline's stage is NAMED like a stage of the including pipeline whose condition is false; its own condition is true
                    inner.update(name="s%d" % rng.choice(off), condition="true")
                pipes["q%d" % i] = [inner]
                d["pipeline"] = "q%d" % i
            if st["allow"]:
                d["allow_failure"] = True
            if st["cond"] == "false":
                d["condition"] = "false"
            if st["deps"]:
                d["depends_on"] = ["s%d" % x for x in st["deps"]]
            stages.append(d)
        rng.shuffle(stages)
        pipes["p"] = stages
        jobs.append({"id": k, "files": {"cfg.json": clilib.jcfg({"contexts": {"broken": {"up": ["exit 7"]}}, "tasks": tasks, "pipelines": pipes})}, "argv": ["-c", "cfg.json", "--raw", "run", "pipeline", "p"],
                     "keep": ["m.%d" % i for i in range(n)], "timeout": 25, "sts": sts})
    # one failing pipeline included by two stages: the first tolerates its failure, the second (after it) does not - the second inclusion
    # fails like the first run of that pipeline did, its dependant is cancelled, the run fails
    twice = {"tasks": {"bad": {"command": ['touch "$PROJ/m.bad"; exit 3']}, "after": {"command": ['touch "$PROJ/m.after"']}, "side": {"command": ['touch "$PROJ/m.side"']}},
             "pipelines": {"pin": [{"task": "bad"}],
                           "p": [{"pipeline": "pin", "name": "n1", "allow_failure": True}, {"pipeline": "pin", "name": "n2", "depends_on": ["n1"]},
                                 {"task": "after", "depends_on": ["n2"]}, {"task": "side", "depends_on": ["n1"]}]}}
    tj = {"id": len(jobs), "files": {"cfg.json": clilib.jcfg(twice)}, "argv": ["-c", "cfg.json", "--raw", "run", "pipeline", "p"], "keep": ["m.bad", "m.after", "m.side"], "timeout": 25}
    out = clilib.run_cli(ctx.workdir + "/cfgcli", jobs + [tj], timeout=25)
    r = out[tj["id"]]
    res.evaluations += 1
    res.count("config-cli")
    res.nontrivial_keys.add("failing-pipeline-included-twice")
    if r["timeout"] or clilib.crashed(r) or r["rc"] == 0 or sorted(r["files"]) != ["m.bad", "m.side"]:
        res.violations.append({"class": None, "what": "a failing pipeline included twice (first tolerated, then not): the second inclusion must fail too - its dependant is cancelled and the run fails",
                               "case": {"kind": "config-cli", "config": twice}, "observed": {"rc": r["rc"], "ran": sorted(r["files"]), "err": (r.get("err") or "")[-300:]}})
    items = []
    for j in jobs:
        r = out[j["id"]]
        res.evaluations += 1
        res.count("config-cli")
        res.nontrivial_keys.add(json.dumps(j["sts"]))
        if r["timeout"] or clilib.crashed(r):
            res.violations.append({"class": None, "what": "a pipeline built from a configuration file hung or crashed", "case": {"kind": "config-cli", "config": json.loads(j["files"]["cfg.json"])},
                                   "observed": (r.get("err") or "")[-500:]})
            continue
        ranaway = [i for i, st in enumerate(j["sts"]) if st.get("broken") and ("m.%d" % i) in r["files"]]
        if ranaway:
            res.violations.append({"class": None, "what": "a stage whose context could not be started ran its task all the same", "case": {"kind": "config-cli", "stages": j["sts"], "config": json.loads(j["files"]["cfg.json"])},
                                   "observed": {"ran": sorted(r["files"]), "rc": r["rc"]}})
            continue
        cf = vlib.clist(j["sts"], lambda st: "(mkStage %s %s %s)" % (vlib.clist(st["deps"], str), vlib.cbool(st["allow"]), {"none": "CNone", "false": "CFalse"}[st["cond"]]))
        items.append("(%d, (%s, %s, %s, (%s, %s)))" % (j["id"], cf, vlib.clist([st["ok"] for st in j["sts"]], vlib.cbool), vlib.clist([bool(st.get("broken")) for st in j["sts"]], vlib.cbool),
                                                   vlib.clist([("m.%d" % i) in r["files"] for i in range(len(j["sts"]))], vlib.cbool), vlib.cbool(r["rc"] != 0)))
    bad = set()
    for rc, o, start, cnt in vlib.coq_eval_sharded(ctx.workdir, "cases_cfgcli", CFG_HEADER, items, lambda: CFG_FOOTER, shard=300):
        if rc != 0:
            res.mismatches.append({"what": "cases.v did not evaluate", "detail": o[-1500:]})
            continue
        pr = vlib.coq_printed(o)
        if "BAD" not in pr:
            res.mismatches.append({"what": "cases.v output lacks BAD", "detail": o[-800:]})
        bad.update(vlib.nums(pr.get("BAD", "")))
        res.traces_validated += cnt
    for jid in sorted(bad):
        j = jobs[jid]
        r = out[jid]
        res.violations.append({"class": None, "what": "a pipeline built from a configuration file: the stages that ran / the failure of the run are not what the graph, the outcomes and allow_failure determine",
                               "case": {"kind": "config-cli", "stages": j["sts"], "config": json.loads(j["files"]["cfg.json"])},
                               "observed": {"ran": sorted(r["files"]), "rc": r["rc"], "err": (r.get("err") or "")[-300:]}})


def real_overlap_cli(ctx, res):
    """C04 through the binary with the REAL task runner: two independent stages each leave a mark and wait (up to 4 s) for the other's mark: they
    can only both succeed if they run at the same time.  Varied: a shared named context with / without hooks, interactive tasks, one task
    shared by both stages, variations, conditions, timeouts, the prefixed output format."""
    import clilib
    wait = ('touch "$PROJ/m.%s"; i=0; while [ ! -e "$PROJ/m.%s" ] && [ $i -lt 80 ]; do sleep 0.05; i=$((i+1)); done; [ -e "$PROJ/m.%s" ]')
    shapes = {
        "plain": ({}, {}, []),
        "shared-context-hooks": ({"context": "cx"}, {"cx": {"before": ["true"], "after": ["true"], "env": {"C": "1"}}}, []),
        "shared-context-updown": ({"context": "cx"}, {"cx": {"up": ["true"], "down": ["true"]}}, []),
        "interactive": ({"interactive": True}, {}, []),
        "prefixed": ({}, {}, ["--output", "prefixed"]),
        "condition-and-hooks": ({"condition": "true", "before": ["true"], "after": ["true"]}, {}, []),
        "timeout-and-variations": ({"timeout": "20s", "variations": [{"V": "1"}]}, {}, []),
        "allow-failure-env": ({"allow_failure": True, "env": {"E": "1"}, "variables": {"v": "1"}}, {}, []),
        # each task first prints the beginning of a line and leaves it unfinished while it waits
        "partial-line": ({"_pre": "printf 'waiting... '; "}, {}, []),
        "partial-line-prefixed": ({"_pre": "printf 'waiting... '; "}, {}, ["--output", "prefixed"]),
    }
    jobs = []
    for name, (extra, ctxs, flags) in shapes.items():
        extra = dict(extra)
        pre = extra.pop("_pre", "")
        ta = dict({"command": [pre + wait % ("a", "b", "b") + "; r=$?; echo; exit $r"]}, **extra)
        tb = dict({"command": [pre + wait % ("b", "a", "a") + "; r=$?; echo; exit $r"]}, **extra)
        doc = {"tasks": {"ta": ta, "tb": tb, "tc": {"command": ['touch "$PROJ/m.c"']}},
               "pipelines": {"p": [{"task": "ta", "name": "a"}, {"task": "tb", "name": "b"}, {"task": "tc", "name": "c", "depends_on": ["a", "b"]}]}}
        if ctxs:
            doc["contexts"] = ctxs
        jobs.append({"id": len(jobs), "files": {"cfg.json": clilib.jcfg(doc)}, "argv": ["-c", "cfg.json"] + (flags or ["--raw"]) + ["run", "pipeline", "p"], "keep": ["m.a", "m.b", "m.c"], "timeout": 40, "shape": name})
    # one task shared by the two stages (told apart by a stage-level variable)
    shared = {"command": ['me={{.Me}}; other={{.Other}}; touch "$PROJ/m.$me"; i=0; while [ ! -e "$PROJ/m.$other" ] && [ $i -lt 80 ]; do sleep 0.05; i=$((i+1)); done; [ -e "$PROJ/m.$other" ]']}
    doc = {"tasks": {"t": shared, "tc": {"command": ['touch "$PROJ/m.c"']}},
           "pipelines": {"p": [{"task": "t", "name": "a", "variables": {"Me": "a", "Other": "b"}}, {"task": "t", "name": "b", "variables": {"Me": "b", "Other": "a"}},
                               {"task": "tc", "name": "c", "depends_on": ["a", "b"]}]}}
    jobs.append({"id": len(jobs), "files": {"cfg.json": clilib.jcfg(doc)}, "argv": ["-c", "cfg.json", "--raw", "run", "pipeline", "p"], "keep": ["m.a", "m.b", "m.c"], "timeout": 40, "shape": "shared-task"})
    # a task whose CONDITION is slow (it waits for a mark of task c), a task that finishes meanwhile, and c, which gets to its own condition only
    # later (its context has to be started first): c must not be held up by a's condition
    cwait = 'i=0; while [ ! -e "$PROJ/m.c" ] && [ $i -lt 80 ]; do sleep 0.05; i=$((i+1)); done; [ -e "$PROJ/m.c" ]'
    doc = {"contexts": {"slowstart": {"up": ["sleep 0.6"]}},
           "tasks": {"ta": {"condition": cwait, "command": ['touch "$PROJ/m.a"']}, "tb": {"command": ["sleep 0.2; echo b-is-done"]},
                     "tc": {"context": "slowstart", "condition": "true", "command": ['touch "$PROJ/m.c"']}, "td": {"command": ['[ -e "$PROJ/m.a" ] && touch "$PROJ/m.d"']}},
           "pipelines": {"p": [{"task": "ta", "name": "a"}, {"task": "tb", "name": "b"}, {"task": "tc", "name": "c"}, {"task": "td", "name": "d", "depends_on": ["a", "b", "c"]}]}}
    jobs.append({"id": len(jobs), "files": {"cfg.json": clilib.jcfg(doc)}, "argv": ["-c", "cfg.json", "--raw", "run", "pipeline", "p"], "keep": ["m.a", "m.b", "m.c", "m.d"], "timeout": 40,
                 "shape": "slow-condition", "final": "m.d"})
    # the START of an execution context (its `up`, its `before` hook) of one stage waits for a mark that the other, independent stage leaves:
    # bringing one task's context up must not hold up the other task
    for hook in ("up", "before"):
        hwait = 'i=0; while [ ! -e "$PROJ/m.b" ] && [ $i -lt 80 ]; do sleep 0.05; i=$((i+1)); done; [ -e "$PROJ/m.b" ]'
        doc = {"contexts": {"cxa": {hook: [hwait]}},
               "tasks": {"ta": {"context": "cxa", "command": ['touch "$PROJ/m.a"']}, "tb": {"command": [wait % ("b", "a", "a")]}, "tc": {"command": ['touch "$PROJ/m.c"']},
                         "tz": {"command": ["true"]}},
               # b becomes eligible one polling pass after a (behind the instant stage z): a is already inside its context's start by then
               "pipelines": {"p": [{"task": "ta", "name": "a"}, {"task": "tz", "name": "z"}, {"task": "tb", "name": "b", "depends_on": ["z"]},
                                   {"task": "tc", "name": "c", "depends_on": ["a", "b"]}]}}
        jobs.append({"id": len(jobs), "files": {"cfg.json": clilib.jcfg(doc)}, "argv": ["-c", "cfg.json", "--raw", "run", "pipeline", "p"], "keep": ["m.a", "m.b", "m.c"], "timeout": 40,
                     "shape": "context-%s-waits-for-the-other-stage" % hook})
    out = clilib.run_cli(ctx.workdir + "/realov", jobs, timeout=40, workers=4)
    for j in jobs:
        r = out[j["id"]]
        res.evaluations += 1
        res.count("real-overlap-cli")
        res.nontrivial_keys.add("real-overlap-" + j["shape"])
        case = {"kind": "real-overlap-cli", "shape": j["shape"], "argv": j["argv"], "config": json.loads(j["files"]["cfg.json"])}
        if r["timeout"] or clilib.crashed(r):
            res.violations.append({"class": None, "what": "two independent stages (%s): the run hung or crashed" % j["shape"], "case": case, "observed": (r.get("err") or "")[-500:]})
        elif r["rc"] != 0 or j.get("final", "m.c") not in r["files"]:
            res.violations.append({"class": None, "what": "two independent stages (%s) were not run at the same time: each waits for the other's mark and one of them gave up" % j["shape"],
                                   "case": case, "observed": {"rc": r["rc"], "marks": sorted(r["files"]), "wall_ms": r.get("wall_ms"), "err": (r.get("err") or "")[-400:]}})


def nested_conderr_cli(ctx, res):
    """C03 through the binary: a stage condition that cannot be evaluated (the scheduler cancels the run) inside a NESTED pipeline, in the
    enclosing pipeline while a nested one is running, with tasks in flight: the run returns in bounded time."""
    import clilib
    rng = vlib.rng_for(ctx.seed, "C03nested")
    bad = "/nonexistent/verif-no-such-command"
    tasks = {"ok": {"command": ["true"]}, "slow": {"command": ["sleep 0.4"]}, "slower": {"command": ["sleep 1"]}}
    shapes = []
    for where in ("inner", "outer", "inner-first", "both"):
        for inflight in ("none", "slow", "slower"):
            inner = [{"task": "ok", "name": "x"}, {"task": "ok", "name": "y", "depends_on": ["x"]}]
            outer = [{"pipeline": "pin", "name": "inc"}, {"task": "ok", "name": "after", "depends_on": ["inc"]}]
            if inflight != "none":
                outer.insert(0, {"task": inflight, "name": "busy"})
                inner.append({"task": inflight, "name": "ibusy"})
            if where in ("inner", "both"):
                inner[1]["condition"] = bad
            if where == "inner-first":
                inner[0]["condition"] = bad
            if where in ("outer", "both"):
                outer.append({"task": "ok", "name": "guarded", "condition": bad})
            shapes.append((where, inflight, {"tasks": tasks, "pipelines": {"pin": inner, "pout": outer}}))
    jobs = [{"id": k, "files": {"cfg.json": clilib.jcfg(doc)}, "argv": ["-c", "cfg.json", "--raw", "run", "pipeline", "pout"], "timeout": 20, "where": w, "inflight": f}
            for k, (w, f, doc) in enumerate(shapes)]
    out = clilib.run_cli(ctx.workdir + "/nestedcond", jobs, timeout=20)
    for j in jobs:
        r = out[j["id"]]
        res.evaluations += 1
        res.count("nested-conderr-cli")
        res.nontrivial_keys.add("nc-%s-%s" % (j["where"], j["inflight"]))
        case = {"kind": "nested-conderr-cli", "where": j["where"], "in_flight": j["inflight"], "config": json.loads(j["files"]["cfg.json"])}
        if r["timeout"]:
            res.violations.append({"class": None, "what": "a stage condition that cannot be evaluated (nested pipelines): the run did not return within 20 s", "case": case, "observed": (r.get("err") or "")[-500:]})
        elif clilib.crashed(r):
            res.violations.append({"class": None, "what": "a stage condition that cannot be evaluated (nested pipelines): the process crashed", "case": case, "observed": (r.get("err") or "")[-800:]})


def run(ctx, prop):
    res = vlib.Result()
    extra_kinds = {"nested-cli": nested_cli, "nested-conderr-cli": nested_conderr_cli, "nested-overlap-cli": nested_overlap_cli, "real-overlap-cli": real_overlap_cli, "twice-included-cli": twice_included_cli, "config-cli": config_cli, "config-order-cli": config_order_cli}
    if ctx.replay_cases and any(c.get("kind") in extra_kinds for c in ctx.replay_cases):
        # a replay of a case of one of the through-the-binary sections runs that section again
        for kind in sorted({c.get("kind") for c in ctx.replay_cases if c.get("kind") in extra_kinds}):
            extra_kinds[kind](ctx, res)
        ctx.replay_cases = [c for c in ctx.replay_cases if c.get("kind") not in extra_kinds]
        if not ctx.replay_cases:
            res.rule = "replay of the through-the-binary section(s) of this check"
            res.samples = [{"replayed_sections": sorted(extra_kinds)}]
            return res
    cases = ctx.replay_cases if ctx.replay_cases else gen_cases(ctx, prop)
    for k, c in enumerate(cases):
        c["id"] = k
    res.rule = ("corpus; every labelled DAG on <=4 stages (1/3/25/543) with random outcome / allow_failure / condition "
                "assignments, random declaration and depends_on orders, some stages sharing one task; random DAGs on 5..8 stages; "
                "external Cancel at decision points and condition errors at random positions.  For each configuration the engine "
                "explores the completion orders of the stages in flight together (DFS, capped per case).  One evaluation = one complete "
                "Schedule run of the real scheduler; distinct = distinct (configuration, completion order); non-trivial = at least two "
                "stages were inside Runner.Run at the same time at some point of the run.")
    obs, logs = vlib.run_engine(ctx.workdir, "sched", cases, shards=vlib.NCPU, timeout=1500)
    runs = []     # (case, run)
    for c in cases:
        o = obs.get(c["id"])
        if o is None or "harness_error" in o:
            res.mismatches.append({"case": c, "what": "engine produced no observation", "observed": o, "log": logs[:2]})
            continue
        for r in o["runs"]:
            runs.append((c, r))
    items = []
    for k, (c, r) in enumerate(runs):
        res.evaluations += 1
        res.count(c.get("kind", "replay"))
        if r.get("build_err"):
            res.mismatches.append({"case": c, "what": "graph construction failed: " + r["build_err"]})
            items.append(None)
            continue
        # a stage handed to the Runner more than once is decided here (C03: exactly once); such a trace is no execution of the LTS
        # at all and replaying it through `accepts` would only cost time
        starts = {}
        for ev in r["trace"]:
            if ev[0] == "S":
                starts[ev[1]] = starts.get(ev[1], 0) + 1
        if any(n > 1 for n in starts.values()):
            twice = sorted(i for i, n in starts.items() if n > 1)
            if prop == "C03":
                res.violations.append({"class": None, "what": "a stage was run more than once", "detail": "stages %s" % twice, "case": {kk: v for kk, v in c.items() if kk != "id"}, "observed": r})
            else:
                res.mismatches.append({"what": "a stage was run more than once: not an execution of the scheduler LTS", "case": {kk: v for kk, v in c.items() if kk != "id"}, "observed": r})
            items.append(None)
            continue
        outs = vlib.clist([vlib.cbool(s["ok"]) for s in c["stages"]])
        items.append("(%d%%N, judge %s %s %s %s %s)" % (k, coq_cfg(c["stages"]), outs, coq_trace(r["trace"]),
                                                         vlib.clist(r["fin"]), vlib.cbool(r["err"])))
        if any(ev[0] == "Q" and len(ev[1]) >= 2 for ev in r["trace"]):
            res.nontrivial_keys.add(json.dumps([c["stages"], r["choices"], c.get("cancel")], sort_keys=True))
    bad = {}
    its = [x for x in items if x is not None]
    for rc, out, start, cnt in vlib.coq_eval_sharded(ctx.workdir, "cases_sched", HEADER, its, lambda: FOOTER, shard=400):
        if rc != 0:
            res.mismatches.append({"what": "cases.v did not evaluate", "detail": out[-1500:]})
            continue
        pr = vlib.coq_printed(out)
        for key in ("BAD_ACCEPT", "BAD_C01", "BAD_C02", "BAD_C03", "BAD_C04", "BAD_INFL"):
            if key not in pr:
                res.mismatches.append({"what": "cases.v output lacks " + key, "detail": out[-800:]})
            bad.setdefault(key, set()).update(vlib.nums(pr.get(key, "")))
        res.traces_validated += cnt

    def replay_case(c, r):
        cc = {k: v for k, v in c.items() if k not in ("id",)}
        cc["single"] = True
        cc["choices"] = r["choices"]
        return cc

    mon_key = "BAD_" + prop
    what = {
        "C01": "a stage started before one of its dependencies had finished",
        "C02": "final statuses / error flag are not the ones the graph and the outcomes determine",
        "C03": "a stage ran twice, or an eligible stage did not run exactly once, or stages were left waiting/running",
        "C04": "an eligible stage had not been started at a quiescent point (it waited for another stage to finish)",
    }[prop]
    flagged = set()
    for k in sorted(bad.get(mon_key, ())):
        c, r = runs[k]
        flagged.add(k)
        res.violations.append({"class": None, "what": what, "case": replay_case(c, r), "observed": r})
    for k, (c, r) in enumerate(runs):
        if prop == "C03" and not r.get("returned", True) and k not in flagged:
            flagged.add(k)
            res.violations.append({"class": None, "what": "Schedule did not return", "case": replay_case(c, r), "observed": r})
    if prop == "C02":
        # the runs of one configuration under different completion orders must end alike
        by_case = {}
        for k, (c, r) in enumerate(runs):
            if c.get("cancel", -1) == -1 and not any(s["cond"] == "err" for s in c["stages"]):
                by_case.setdefault(c["id"], []).append((k, r))
        for cid, rs in by_case.items():
            ends = {json.dumps([r["fin"], r["err"]]) for _, r in rs}
            if len(ends) > 1:
                k, r = rs[0]
                if k not in flagged:
                    res.violations.append({"class": None, "what": "the outcome of one configuration depends on the completion order",
                                           "case": {kk: v for kk, v in runs[k][0].items() if kk != "id"}, "observed": sorted(ends)})
    for k in sorted(bad.get("BAD_ACCEPT", set()) | bad.get("BAD_INFL", set())):
        if k in flagged:
            continue
        c, r = runs[k]
        res.mismatches.append({"case": replay_case(c, r), "observed": r,
                               "what": "observed run is not an execution of the scheduler LTS (accepts=false)" if k in bad.get("BAD_ACCEPT", set())
                               else "in-flight set at a quiescent point differs from the model's running set"})
    for k, (c, r) in enumerate(runs):
        if r.get("qtimeout") and k not in flagged and prop in ("C03", "C04"):
            res.mismatches.append({"case": replay_case(c, r), "observed": r, "what": "quiescence was not reached within 3 s"})
    res.extra["runs_with_two_or_more_in_flight"] = len(res.nontrivial_keys)
    res.extra["configurations"] = len(cases)
    res.samples = [{"stages": c["stages"], "decl": c["decl"], "choices": r["choices"], "trace": r["trace"], "fin": r["fin"], "err": r["err"]}
                   for c, r in runs[:1] + runs[len(runs) // 2: len(runs) // 2 + 1]]
    if prop == "C01" and not ctx.replay_cases:
        nested_cli(ctx, res)
        twice_included_cli(ctx, res)
        config_order_cli(ctx, res)
    if prop == "C02" and not ctx.replay_cases:
        config_cli(ctx, res)
    if prop == "C03" and not ctx.replay_cases:
        nested_conderr_cli(ctx, res)
        twice_included_cli(ctx, res)
        config_cli(ctx, res)          # every eligible stage of a pipeline built from a configuration file runs (and only those)
    if prop == "C04" and not ctx.replay_cases:
        nested_overlap_cli(ctx, res)
        real_overlap_cli(ctx, res)
    return res
