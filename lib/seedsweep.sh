#!/bin/bash
# usage: seedsweep.sh [seeded dir names...]   (default: all)
# detection only: applies each stored seeded change in the scratch worktree $MW and runs the quick check of the property it breaks
export GOFLAGS=-mod=mod GOPROXY=off GOSUMDB=off GOTOOLCHAIN=local
MW=${MW:-/tmp/mw}; VSNAP=${VSNAP:-/tmp/vsnap}; MWORK=${MWORK:-/tmp/mwork}
ds="$@"; [ -z "$ds" ] && ds=$(ls /verif/seeded)
for d in $ds; do
  # the check recorded as detecting it (a change may be caught by the check of a neighbouring property)
  prop=$(python3 -c "import json,re;m=json.load(open('/verif/seeded/$d/meta.json'));x=re.search(r'C\d\d',m.get('detected_by',''));print(x.group(0) if x else m.get('breaks','${d%%-*}')[:3])")
  cd $MW || exit 2
  git checkout -q -f --detach "$(git -C /repo rev-parse HEAD)"; git clean -fdq
  git apply /verif/seeded/$d/patch.diff || { echo "$d: patch does not apply"; continue; }
  out=$(cd $VSNAP && VERIF_REPO=$MW VERIF_WORK=$MWORK timeout 2400 ./check $prop quick 2>&1)
  v=$(echo "$out" | grep -cE "^VIOLATION"); s=$(echo "$out" | tail -1 | cut -c1-150)
  echo "$d $prop violations=$v :: $s"
  git checkout -q -f -- .; git clean -fdq
done
