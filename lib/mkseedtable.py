#!/usr/bin/env python3
"""Regenerates the table of DESIGN.md section 11 from seeded/*/meta.json (between the markers <!-- seedtable:begin --> and <!-- seedtable:end -->)."""
import glob
import json
import os
import re

ROOT = os.path.dirname(os.path.dirname(os.path.abspath(__file__)))
rows = []
n = missed = 0
for d in sorted(glob.glob(os.path.join(ROOT, "seeded", "C*-*")), key=lambda x: (os.path.basename(x).split("-")[0], int(os.path.basename(x).split("-")[1]))):
    m = json.load(open(os.path.join(d, "meta.json")))
    sid = os.path.basename(d)
    summ = " ".join(m.get("summary", "").split())
    summ = (summ[:230] + "...") if len(summ) > 230 else summ
    det = re.sub(r"^\./check ", "", m.get("detected_by", "")).split(" (VERIF_REPO")[0]
    hist = m.get("history", "")
    n += 1
    if hist.upper().startswith("MISSED"):
        missed += 1
    rows.append("| %s | %s | %s | %s |" % (sid, summ.replace("|", "\\|"), det, hist.replace("|", "\\|")))
table = "| id | change | detected by (quick) | history |\n|---|---|---|---|\n" + "\n".join(rows) + "\n"
p = os.path.join(ROOT, "DESIGN.md")
s = open(p).read()
b, e = "<!-- seedtable:begin -->", "<!-- seedtable:end -->"
head = "**All %d are detected.** Of these, %d were *missed* by the version of the check that first met them; every miss led to a strengthening of a generator or monitor (last column), after which the change is detected and the unchanged tree still passes.\n\n" % (n, missed)
if b in s:
    s = s[:s.index(b) + len(b)] + "\n" + head + table + s[s.index(e):]
    open(p, "w").write(s)
print(n, missed)
