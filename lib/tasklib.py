"""Abstract tasks <-> real shell commands for the `taskrun` engine <-> Coq terms of Model/TaskRun.v (C06, C07, C11, C13)."""
import base64
import vlib

# abstract result: ("exit", n) | ("nostart",) | ("fatal",)      abstract run: (result, output-bytes)


def sh_printf(bs):
    if not bs:
        return ""
    return "printf '%s'; " % "".join("\\%03o" % b for b in bs)


def hook_cmd(tok, r):
    if r[0] == "nostart":
        return 'echo %s >> "$TRACE"; echo {{.UndefinedVariable}}' % tok
    # hooks and conditions SAY something on both streams: what a command prints must not change how its exit status is read
    # (also through an EXTERNAL program and in colour: the output decorators see it as a raw Write of bytes with escape sequences)
    # (the `exit` is not the last statement of the command: it ends the command all the same)
    return ('echo %s >> "$TRACE"; echo "%s speaking"; /usr/bin/printf \'\\033[32m%s in colour\\033[0m\\n\'; echo "%s complaining" >&2; if true; then exit %d; fi; echo "%s not reached"'
            % (tok, tok, tok, tok, r[1], tok))


def job_cmd(c, per_var):
    """command c; per_var: list over variations of (result, out)"""
    if any(r[0] == "nostart" for r, _ in per_var):
        return 'echo "c${V:-0}.%d" >> "$TRACE"; echo {{.UndefinedVariable}}' % c
    arms = []
    for v, (r, out) in enumerate(per_var):
        arms.append("%d) %s%sexit %d;;" % (v, sh_printf(out), "/usr/bin/printf '\\033[31mred\\033[0m\\n'; " if (c + v) % 3 == 0 and not out else "", r[1]))
    return 'echo "c${V:-0}.%d" >> "$TRACE"; case "${V:-0}" in %s esac; echo "not reached"' % (c, " ".join(arms))


def to_trtask(a, name="t"):
    nv = len(a["jobs"])
    nc = len(a["jobs"][0]) if nv else 0
    t = {"name": name, "allow": a["allow"],
         "commands": [job_cmd(c, [a["jobs"][v][c] for v in range(nv)]) for c in range(nc)],
         "before": [hook_cmd("b%d" % k, r) for k, r in enumerate(a["before"])],
         "after": [hook_cmd("a%d" % k, r) for k, r in enumerate(a["after"])],
         "condition": hook_cmd("cond", a["cond"]) if a["cond"] else ""}
    if a.get("novar"):
        t["variations"] = None
    else:
        t["variations"] = [{"V": str(v)} for v in range(nv)]
        if a.get("emptyvar"):          # a declared EMPTY variation: one more pass over the commands, with no additional variable (V unset reads as 0)
            t["variations"][0] = {}
    return t


def coq_res(r):
    return {"exit": lambda: "(Exit %d%%N)" % r[1], "nostart": lambda: "NoStart", "fatal": lambda: "Fatal"}[r[0]]()


def coq_task(a):
    jobs = vlib.clist(a["jobs"], lambda js: vlib.clist(js, lambda j: "(mkRun %s %s)" % (coq_res(j[0]), vlib.cbytes(j[1]))))
    return "(mkTask %s %s %s %s %s)" % (vlib.copt(a["cond"], coq_res), vlib.clist(a["before"], coq_res), jobs,
                                        vlib.clist(a["after"], coq_res), vlib.cbool(a["allow"]))


def parse_tok(l):
    if l == "cond":
        return "TCond"
    if l[0] == "b" and l[1:].isdigit():
        return "(TBefore %d)" % int(l[1:])
    if l[0] == "a" and l[1:].isdigit():
        return "(TAfter %d)" % int(l[1:])
    if l[0] == "c":
        v, c = l[1:].split(".")
        return "(TCmd %d %d)" % (int(v), int(c))
    raise ValueError("unknown trace token %r" % l)


def coq_observed(result, trace):
    out = base64.b64decode(result.get("output_b64") or "")
    code = result["exit_code"]
    return "(mkObs %s %s %s %s (%d)%%Z %s)" % (vlib.clist(trace, parse_tok), vlib.cbool(result["err"]), vlib.cbool(result["errored"]),
                                              vlib.cbool(result["skipped"]), code, vlib.cbytes(list(out)))


def rand_abstract(rng, ncmds, nvars, novar=False, codes=(1, 2, 126, 127, 128, 200, 255), p_fail=0.3, outs=False, nostart=0.03):
    def res(p):
        if rng.random() < p:
            return ("exit", rng.choice(codes) if rng.random() < 0.8 else rng.randint(1, 255))
        return ("exit", 0)

    def out():
        if not outs:
            return []
        k = rng.choice([0, 1, 3, 8])
        return [rng.choice([10, 13, 32, 65, 97, 0xC3, 0xA9, 0x7E]) for _ in range(k)]
    nv = 1 if novar else nvars
    jobs = [[(res(p_fail), out()) for _ in range(ncmds)] for _ in range(nv)]
    if rng.random() < nostart and ncmds:
        c = rng.randrange(ncmds)
        for v in range(nv):
            jobs[v][c] = (("nostart",), [])
    cond = None
    r = rng.random()
    if r < 0.15:
        cond = ("exit", 0)
    elif r < 0.27:
        cond = ("exit", rng.choice(codes))
    elif r < 0.29:
        cond = ("nostart",)
    before = [res(0.25) for _ in range(rng.choice([0, 0, 1, 2]))]
    after = [res(0.3) for _ in range(rng.choice([0, 0, 1, 2]))]
    return {"cond": cond, "before": before, "jobs": jobs, "after": after, "allow": rng.random() < 0.5, "novar": novar, "emptyvar": (not novar) and rng.random() < 0.3}


def to_config_task(a):
    """the abstract task as a `tasks:` entry of a configuration file (trace file: $PROJ/out)"""
    t = to_trtask(a)
    # (written in a file, a command is often a small script whose first line is a comment)
    fix = lambda x: "# what this does\n" + x.replace('"$TRACE"', '"$PROJ/out"')
    d = {"command": [fix(c) for c in t["commands"]], "allow_failure": bool(a["allow"])}
    if t["before"]:
        d["before"] = [fix(c) for c in t["before"]]
    if t["after"]:
        d["after"] = [fix(c) for c in t["after"]]
    if t["condition"]:
        d["condition"] = fix(t["condition"])
    if t.get("variations"):
        d["variations"] = t["variations"]
    return d
