"""C03 - see coq/theories/Properties/C03.v; correspondence run shared by C01-C04 in lib/schedlib.py"""
import schedlib

TRUSTED = schedlib.TRUSTED
ASSUMPTIONS = schedlib.ASSUMPTIONS


def run(ctx):
    return schedlib.run(ctx, "C03")
