"""C10 - Template variables and CLI arguments reach commands with a fixed precedence.
Theorems: Properties/C10.v (Model/Env.v vars_seen, Model/Cli.v targets_of/task_args, Model/TaskRun.v NoStart).
Correspondence: the taskctl binary on generated projects."""
import itertools
import re
import json
import os
import vlib
import clilib
import tasklib

TRUSTED = [
    "model Model/SetFlag.v: strings.Split / strings.Join / Variables.Set of the --set loop; urfave/cli's StringSliceFlag hands each --set text over unchanged (observed, not modelled)",
    "model Model/Env.v vars_seen: Config.merge, the --set loop, buildTaskRunner, Run (r.variables.Merge(t.Variables)), runStage; Model/Cli.v: taskArgs and the target loops",
    "text/template with missingkey=error restricted to {{.name}} references; urfave/cli argument handling (a word after the first target is an argument, not a flag)",
    "python driver running the built binary (lib/clilib.py)",
]
ASSUMPTIONS = ["argument words are shell-safe and contain no white space (the quantifier's alphabet)"]

VLEVELS = ["global", "cfg", "set", "task", "stage"]


def var_jobs():
    jobs = []
    for sub in [s for k in range(1, 6) for s in itertools.combinations(VLEVELS, k)]:
        for mode, setval, emptylv in [(m, sv, el) for m in (["stage"] if "stage" in sub else ["direct", "stage"])
                                      for sv in (("set-val", "set=val=x", "") if "set" in sub else ("set-val",))
                                      for el in [None] + ([lv for lv in ("task", "stage") if lv in sub] if sv == "set-val" else [])]:
            vals = {lv: "%s-val" % lv for lv in sub}
            if "set" in vals:
                vals["set"] = setval          # a value may itself contain '=' or be empty
            if emptylv:
                vals[emptylv] = ""            # an EMPTY value at the task's or the stage's level is a value: it wins over the levels below
            # the same resolution everywhere a template is rendered: condition, before hook, command, after hook
            task = {"command": ['echo "v={{.v}}" >> "$PROJ/out"'], "before": ['echo "bv={{.v}}" >> "$PROJ/out"'], "after": ['echo "av={{.v}}" >> "$PROJ/out"'],
                    "condition": 'echo "cv={{.v}}" >> "$PROJ/out"'}
            if "task" in vals:
                task["variables"] = {"v": vals["task"]}
            stage = {"task": "t"}
            if "stage" in vals:
                stage["variables"] = {"v": vals["stage"]}
            doc = {"tasks": {"t": task}, "pipelines": {"p": [stage]}}
            if "cfg" in vals:
                doc["variables"] = {"v": vals["cfg"]}
            home = {}
            if "global" in vals:
                home[".taskctl/config.yaml"] = "variables:\n  v: %s\n" % vals["global"]
            argv = ["-c", "cfg.json", "--raw"] + (["--set", "v=" + vals["set"]] if "set" in vals else []) + ["t" if mode == "direct" else "p"]
            jobs.append({"id": len(jobs), "files": {"cfg.json": clilib.jcfg(doc)}, "home": home, "argv": argv, "keep": ["out"],
                         "kind": "vars", "vals": vals, "mode": mode})
    return jobs


def shared_jobs(first):
    """two stages of one pipeline share a task and only the FIRST defines the name at stage level; then the task is run directly:
    the second stage and the direct run see the next level, not the first stage's value"""
    jobs = []
    for sub in [s for k in range(1, 4) for s in itertools.combinations(["cfg", "set", "task"], k)]:
        for order in ("chain", "parallel"):
            vals = {lv: "%s-val" % lv for lv in sub}
            task = {"command": ['echo "v={{.v}} st={{index . \".Stage.Name\" | default \"direct\"}}" >> "$PROJ/out"']}
            if "task" in vals:
                task["variables"] = {"v": vals["task"]}
            s2 = {"task": "t", "name": "s2"}
            if order == "chain":
                s2["depends_on"] = ["s1"]
            doc = {"tasks": {"t": task}, "pipelines": {"p": [{"task": "t", "name": "s1", "variables": {"v": "stage-val"}}, s2]}}
            if "cfg" in vals:
                doc["variables"] = {"v": vals["cfg"]}
            argv = ["-c", "cfg.json", "--raw"] + (["--set", "v=" + vals["set"]] if "set" in vals else []) + ["p", "t"]
            jobs.append({"id": first + len(jobs), "files": {"cfg.json": clilib.jcfg(doc)}, "argv": argv, "keep": ["out"], "kind": "shared", "vals": vals, "mode": order})
    return jobs


def builtin_jobs(first):
    doc = {"tasks": {"t": {"command": ['echo "R={{.Root}}" >> "$PROJ/out"; echo "T={{.TempDir}}" >> "$PROJ/out"; echo "A={{.Args}}" >> "$PROJ/out"; echo "L={{.ArgsList}}" >> "$PROJ/out"']}},
           "pipelines": {"p": [{"task": "t"}]}}
    return [{"id": first + k, "files": {"cfg.json": clilib.jcfg(doc)}, "argv": ["-c", "cfg.json", "--raw", tgt], "keep": ["out"], "kind": "builtins", "mode": tgt}
            for k, tgt in enumerate(["t", "p"])]


WORDS = ["a", "t2", "k=v", "-x", "--raw", "--"]


def argv_jobs(ctx, first):
    rng = vlib.rng_for(ctx.seed, "C10argv")
    vecs = [()] + [v for k in range(1, 6) for v in itertools.product(WORDS, repeat=k)]
    small = [v for v in vecs if len(v) <= 2]
    rest = [v for v in vecs if len(v) > 2]
    pick = small + rng.sample(rest, 3500 if ctx.tier == "thorough" else 450)
    # corpus: a second "--", a trailing "--"
    pick = [("x", "--", "y"), ("x", "--"), ("--",), ("--", "a")] + pick

    def cmd(n):
        return 'echo "%s ARGS=[$ARGS] A=[{{.Args}}] L={{.ArgsList}} N={{len .ArgsList}}" >> "$PROJ/out"' % n
    doc = {"tasks": {"t1": {"command": [cmd("t1")]}, "t2": {"command": [cmd("t2")]}}}
    jobs = []
    for v in pick:
        targets = rng.choice([["t1"], ["t1"], ["t2", "t1"], ["t1", "t2"]])
        form = rng.choice(["root", "run"])
        argv = ["-c", "cfg.json", "--raw"] + (["run"] if form == "run" else []) + targets + ["--"] + list(v)
        # (taskctl's own environment has an ARGS of its own - a nested invocation: the tasks must see THIS invocation's arguments)
        jobs.append({"id": first + len(jobs), "files": {"cfg.json": clilib.jcfg(doc)}, "argv": argv, "keep": ["out"], "kind": "argv", "env": {"ARGS": "inherited from an outer taskctl"},
                     "targets": targets, "words": list(v), "mode": form})
    return jobs


def undef_jobs(first):
    jobs = []
    for ncmds in (1, 2, 3):
        for p in range(ncmds):
            for allow in (False, True):
                cmds = ['echo "c0.%d%s" >> "$PROJ/out"' % (i, " {{.NoSuchVariable}}" if i == p else "") for i in range(ncmds)]
                doc = {"tasks": {"t": {"command": cmds, "allow_failure": allow, "after": ['echo a0 >> "$PROJ/out"']}}}
                a = {"cond": None, "before": [], "after": [("exit", 0)], "allow": allow, "novar": True,
                     "jobs": [[((("nostart",) if i == p else ("exit", 0)), []) for i in range(ncmds)]]}
                jobs.append({"id": first + len(jobs), "files": {"cfg.json": clilib.jcfg(doc)}, "argv": ["-c", "cfg.json", "--raw", "t"], "keep": ["out"],
                             "kind": "undef", "a": a, "mode": "p%d/%d" % (p, ncmds)})
    # the undefined variable is reached THROUGH a task variable whose value refers to it: the task fails before any of its commands executes
    for ncmds in (1, 3):
        for p in range(ncmds):
            for allow in (False, True):
                cmds = ['echo "c0.%d%s" >> "$PROJ/out"' % (i, " {{.Via}}" if i == p else "") for i in range(ncmds)]
                doc = {"tasks": {"t": {"command": cmds, "allow_failure": allow, "variables": {"Via": "hello {{.NoSuchVariable}}"}, "after": ['echo a0 >> "$PROJ/out"']}}}
                a = {"cond": None, "before": [], "after": [("exit", 0)], "allow": allow, "novar": True,
                     "jobs": [[((("nostart",) if i == 0 else ("exit", 0)), []) for i in range(ncmds)]]}
                jobs.append({"id": first + len(jobs), "files": {"cfg.json": clilib.jcfg(doc)}, "argv": ["-c", "cfg.json", "--raw", "t"], "keep": ["out"],
                             "kind": "undef", "a": a, "mode": "via-variable p%d/%d" % (p, ncmds)})
    return jobs


SF_NAMES = ["a", "b", "ab"]
SF_ALPHA = "ab=, x:"


def setflag_jobs(ctx, first):
    """--set texts of every shape: the name is what precedes the first '=', the value the rest (further '=' included, maybe empty);
    a text without '=' sets nothing; later flags override earlier ones.  The configuration gives every observed name the value cfg."""
    rng = vlib.rng_for(ctx.seed, "C10setflag")
    doc = {"variables": {n: "cfg" for n in SF_NAMES},
           "tasks": {"t": {"command": ['echo "SF|%s|" >> "$PROJ/out"' % "|".join("{{.%s}}" % n for n in SF_NAMES)]}}}
    corpus = [["a=1=2"], ["a="], ["a"], ["=a"], ["a==b"], ["a=x", "a=b=,"], ["a=x", "a"], ["ab=a=b", "b=ab=", "a=,= "], [""], ["="], ["a=b", "b=a", "ab=a=b=ab"]]
    sets = list(corpus)
    for _ in range(160 if ctx.tier == "thorough" else 50):
        fl = []
        for _ in range(rng.choice([1, 1, 2, 3])):
            r = rng.random()
            val = "".join(rng.choice(SF_ALPHA) for _ in range(rng.randrange(0, 6)))
            if r < 0.7:
                fl.append(rng.choice(SF_NAMES + ["c", ""]) + "=" + val)
            elif r < 0.85:
                fl.append(rng.choice(SF_NAMES) + val.replace("=", ""))
            else:
                fl.append(val)
        sets.append(fl)
    jobs = []
    for fl in sets:
        argv = ["-c", "cfg.json", "--raw"] + [w for f in fl for w in ("--set", f)] + ["t"]
        jobs.append({"id": first + len(jobs), "files": {"cfg.json": clilib.jcfg(doc)}, "argv": argv, "keep": ["out"], "kind": "setflag", "flags": fl, "mode": "direct"})
    return jobs


HEADER = """From Coq Require Import List Arith NArith ZArith Bool. Import ListNotations.
From TaskctlV Require Import Model.Stage Model.Env Corr.EnvCorr Model.Cli Corr.CliCorr Model.TaskRun Corr.TaskRunCorr Model.SetFlag Corr.SetFlagCorr.
"""
FOOTER = """
Definition BAD := Eval vm_compute in map fst (filter (fun c => negb (snd c)) cases).
Print BAD.
"""


class Intern:
    def __init__(self, base=1):
        self.d = {}
        self.base = base

    def __call__(self, s):
        if s not in self.d:
            self.d[s] = len(self.d) + self.base
        return self.d[s]


def run(ctx):
    res = vlib.Result()
    res.rule = ("variables: every non-empty subset of {global config, project config, --set, task, stage} defining one name, direct and as stage, read in the condition, a before hook, a command and an after hook; "
                "built-ins printed; argv: target(s), `--`, then every vector of <=2 words and a sample (all in thorough: 9331) of vectors of <=5 words over "
                "{a, a target name, k=v, -x, --raw, --}, through `taskctl` and `taskctl run`; an undefined variable at every command position of "
                "<=3-command tasks with/without allow_failure; --set texts (1..3 flags over {a b = , space x :}: values containing '=', empty values, texts without '=', empty names, repeated names).  distinct = distinct case; non-trivial = >=2 levels / >=1 argument word / any undefined case.")
    if ctx.replay_cases:
        jobs = ctx.replay_cases
    else:
        jobs = var_jobs()
        jobs += shared_jobs(len(jobs))
        jobs += builtin_jobs(len(jobs))
        jobs += argv_jobs(ctx, len(jobs))
        jobs += undef_jobs(len(jobs))
        jobs += setflag_jobs(ctx, len(jobs))
    out = clilib.run_cli(ctx.workdir, jobs)
    items, index = [], {}
    for j in jobs:
        r = out[j["id"]]
        res.evaluations += 1
        res.count(j["kind"])
        if r["timeout"] or clilib.crashed(r):
            res.violations.append({"class": None, "what": "taskctl hung or crashed", "case": j, "observed": r})
            continue
        lines = [l for l in (r["files"].get("out") or "").split("\n") if l]
        k = len(items)
        index[k] = j
        if j["kind"] == "vars":
            I = Intern(10)
            v = j["vals"]

            def am(lv):
                return "[(1, %d)]" % I(v[lv]) if lv in v else "[]"
            V = "(mkVarL [(2, 1); (3, 1)] %s %s %s [(4, 1); (5, 1)] %s %s)" % (am("global"), am("cfg"), am("set"), am("task"), am("stage"))
            d = dict(l.split("=", 1) for l in lines if "=" in l)
            items.append("(%d%%N, %s)" % (k, " && ".join("vars_ok %s 1 %s" % (V, "None" if d.get(key) is None else "(Some %d)" % I(d[key])) for key in ("cv", "bv", "v", "av"))))
            if len(v) >= 2:
                res.nontrivial_keys.add(json.dumps([v, j["mode"]], sort_keys=True))
        elif j["kind"] == "shared":
            I = Intern(10)
            v = j["vals"]

            def am2(lv, vv=None):
                vv = vv or v
                return "[(1, %d)]" % I(vv[lv]) if lv in vv else "[]"
            seen = {}
            # by pattern, not by line: parallel stages appending at the same moment can glue their lines together
            for val, st in re.findall(r"v=([A-Za-z-]*) st=(s1|s2|<no value>|direct)", r["files"].get("out") or ""):
                seen["direct" if st in ("<no value>", "") else st] = val
            parts = []
            for st in ("s1", "s2", "direct"):
                V = "(mkVarL [(2, 1); (3, 1)] [] %s %s [(4, 1); (5, 1)] %s %s)" % (am2("cfg"), am2("set"), am2("task"), "[(1, %d)]" % I("stage-val") if st == "s1" else "[]")
                parts.append("vars_ok %s 1 %s" % (V, "None" if st not in seen else "(Some %d)" % I(seen[st])))
            items.append("(%d%%N, %s)" % (k, " && ".join(parts)))
            res.nontrivial_keys.add(json.dumps([v, j["mode"], "shared"], sort_keys=True))
        elif j["kind"] == "setflag":
            def bl(t):
                return vlib.clist(list(t.encode()), str)
            m = re.match(r"^SF\|(.*)\|$", lines[0]) if len(lines) == 1 else None
            vals = m.group(1).split("|") if m else []
            if r["rc"] != 0 or len(vals) != len(SF_NAMES):
                obs = "[(%s, %s)]" % (bl("a"), bl("<the task did not run>"))
            else:
                obs = vlib.clist(list(zip(SF_NAMES, vals)), lambda nv: "(%s, %s)" % (bl(nv[0]), bl(nv[1])))
            items.append("(%d%%N, setflag_ok %s %s %s)" % (k, vlib.clist(j["flags"], bl), bl("cfg"), obs))
            if any("=" in f.split("=", 1)[1] for f in j["flags"] if "=" in f) or len(j["flags"]) > 1:
                res.nontrivial_keys.add(json.dumps(j["flags"]))
        elif j["kind"] == "builtins":
            d = dict(l.split("=", 1) for l in lines)
            ok = r["rc"] == 0 and set(d) == {"R", "T", "A", "L"} and d["R"].endswith("/proj") and d["T"] != "" and d["A"] == "" and d["L"] == "[]"
            items.append("(%d%%N, %s)" % (k, vlib.cbool(ok)))
        elif j["kind"] == "argv":
            I = Intern(1)
            for t in ("t1", "t2"):
                I(t)
            argv = [I(t) for t in j["targets"]] + [0] + [0 if w == "--" else I(w) for w in j["words"]]
            ran = [I(l.split(" ", 1)[0]) for l in lines]
            want = " ".join(j["words"])
            seen_ok = all(l.split(" ", 1)[1] == "ARGS=[%s] A=[%s] L=[%s] N=%d" % (want, want, want, len(j["words"])) for l in lines)
            # the argument words as observed: if every task printed exactly the expected rendering, they are the words
            argsobs = [0 if w == "--" else I(w) for w in j["words"]] if seen_ok and lines else [99999]
            items.append("(%d%%N, argv_ok %s %s %s && %s)" % (k, vlib.clist(argv), vlib.clist(ran), vlib.clist(argsobs), vlib.cbool(r["rc"] == 0)))
            if j["words"]:
                res.nontrivial_keys.add(json.dumps([j["targets"], j["words"], j["mode"]]))
        else:
            try:
                tr = vlib.clist(lines, tasklib.parse_tok)
            except ValueError:
                tr = "[TCond; TCond; TCond]"
            items.append("(%d%%N, trace_ok %s (mkObs %s true true false 0%%Z []) && %s)" % (k, tasklib.coq_task(j["a"]), tr, vlib.cbool(r["rc"] != 0)))
            res.nontrivial_keys.add(json.dumps(j["a"]))
    bad = set()
    for rc, o, start, cnt in vlib.coq_eval_sharded(ctx.workdir, "cases_c10", HEADER, items, lambda: FOOTER, shard=600):
        if rc != 0:
            res.mismatches.append({"what": "cases.v did not evaluate", "detail": o[-1500:]})
            continue
        pr = vlib.coq_printed(o)
        if "BAD" not in pr:
            res.mismatches.append({"what": "cases.v output lacks BAD", "detail": o[-800:]})
        bad.update(vlib.nums(pr.get("BAD", "")))
        res.traces_validated += cnt
    whats = {"shared": "stages sharing a task: a stage-level variable of one stage was seen by another stage or by a direct run of the task (or the defining stage did not see it)",
             "vars": "a template variable did not resolve to the value of the highest level defining it (stage > task > --set > project config > global config)",
             "setflag": "--set name=value: a command did not see, for each name, the text after the first '=' of the last --set naming it (or the configuration's value when no flag names it)",
             "builtins": "a built-in variable (Root, TempDir, Args, ArgsList) was undefined or wrong",
             "argv": "the words after the first `--` did not reach the tasks verbatim as $ARGS/.Args/.ArgsList, or a word after `--` was treated as a target",
             "undef": "a command referring to an undefined variable: the commands that ran / the task result are not 'everything before it, then failure'"}
    for k in sorted(bad):
        j = index[k]
        res.violations.append({"class": None, "what": whats[j["kind"]], "case": j, "observed": out[j["id"]]})
    res.samples = [jobs[3], [j for j in jobs if j["kind"] == "argv"][7]]
    return res
