"""C05 - A pipeline is rejected as cyclic exactly when its dependencies form a cycle.

Theorems: coq/theories/Properties/C05.v (model Model/Graph.v = transcription of graph.go).
Correspondence: engine `graph` (scheduler.NewExecutionGraph/AddStage/To/From) and engine `loadcfg`
(the same graphs as YAML through config.Loader -> buildPipeline), compared in Coq with [build]."""
import itertools
import re
import vlib

TRUSTED = [
    "model of pkg/scheduler/graph.go: edge list in insertion order == the from/to maps of slices (extensional)",
    "Go engine `graph` (harness/graph.go) and `loadcfg` (harness/loadcfg.go): projection = accept / cycle error / other error, To and From of every name",
]
ASSUMPTIONS = ["stage names are distinct within one pipeline (duplicates are rejected earlier by buildPipeline: C18)"]


def all_edge_sets(n):
    pairs = [(a, b) for a in range(n) for b in range(n)]     # (stage, dep): stage a depends on b ; a==b self-loop
    for mask in range(1 << len(pairs)):
        yield [p for k, p in enumerate(pairs) if mask >> k & 1]


def stages_from(n, edges, order, rng=None):
    deps = {a: [] for a in range(n)}
    for a, b in edges:
        deps[a].append(b)
    if rng is not None:
        for a in deps:
            rng.shuffle(deps[a])
    return [[a, deps[a]] for a in order]


def dag_biased(rng, n, extra_back):
    perm = list(range(n))
    rng.shuffle(perm)
    dens = rng.choice([0.2, 0.4, 0.6, 0.9])
    edges = []
    for i in range(n):
        for j in range(i):
            if rng.random() < dens:
                edges.append((perm[i], perm[j]))          # perm[i] depends on earlier perm[j]
    for _ in range(extra_back):
        a, b = rng.randrange(n), rng.randrange(n)
        if (a, b) not in edges:
            edges.append((a, b))
    return edges


def gen_cases(ctx):
    rng = vlib.rng_for(ctx.seed, "C05")
    cases = []

    def add(stages, kind):
        cases.append({"id": len(cases), "stages": stages, "kind": kind})

    # corpus: the re-convergent diamond of the pinned defect, in the declaration order that triggered it
    add([[3, [1, 2]], [2, [1]], [1, [0]], [0, []]], "corpus")
    add([[0, []], [1, [0]], [2, [1]], [3, [1, 2]]], "corpus")
    add([[0, [0]]], "corpus")
    add([[0, [2]], [1, [0]], [2, [1]]], "corpus")
    add([[0, [1, 1]], [1, []]], "corpus")            # repeated name in depends_on
    add([[0, [7]], [1, [0]]], "corpus")              # dangling name: an edge all the same
    # exhaustive: every edge set on <= 3 stages, every declaration order
    for n in (1, 2, 3):
        for edges in all_edge_sets(n):
            for order in itertools.permutations(range(n)):
                add(stages_from(n, edges, order), "exh%d" % n)
    if ctx.tier == "thorough":
        # every edge set on 4 stages, one random declaration order and random depends_on orders each
        for edges in all_edge_sets(4):
            order = list(range(4))
            rng.shuffle(order)
            add(stages_from(4, edges, order, rng), "exh4")
        n_dag4, n_rand = 6000, 6000
    else:
        n_dag4, n_rand = 2500, 700
    for _ in range(n_dag4):
        edges = dag_biased(rng, 4, rng.choice([0, 0, 0, 1]))
        order = list(range(4))
        rng.shuffle(order)
        add(stages_from(4, edges, order, rng), "dag4")
    for _ in range(n_rand):
        n = rng.randint(5, 10)
        edges = dag_biased(rng, n, rng.choice([0, 0, 0, 1, 2]))
        order = list(range(n))
        rng.shuffle(order)
        st = stages_from(n, edges, order, rng)
        if rng.random() < 0.1:                         # a dangling or repeated dependency
            k = rng.randrange(len(st))
            st[k][1].append(rng.choice([n + 1, st[k][1][0] if st[k][1] else n + 2]))
        add(st, "rand")
    return cases


def name(i):
    # stage names are free text: every other one has a comma, a colon and blanks in it
    return "s%d" % i if i % 2 == 0 else "s%d, the: odd one" % i


def unname(s):
    return int(re.match(r"s(\d+)", s).group(1))


def coq_case(c, o):
    stages = vlib.clist(c["stages"], lambda s: "(%d, %s)" % (s[0], vlib.clist(s[1])))
    err = {"none": 0, "cycle": 1}.get(o.get("err"), 2)
    tf = []
    if err == 0:
        for n in sorted(o.get("to", {})):
            tf.append("(%d, (%s, %s))" % (unname(n), vlib.clist([unname(x) for x in o["to"][n] or []]),
                                            vlib.clist([unname(x) for x in (o.get("from", {}).get(n) or [])])))
    return "(%d%%N, (%s, mkGO %d %s))" % (c["id"], stages, err, "[" + "; ".join(tf) + "]")


HEADER = """From Coq Require Import List Arith NArith Bool. Import ListNotations.
From TaskctlV Require Import Model.Graph Corr.GraphCorr.
"""

FOOTER = """
Definition BAD_ERR := Eval vm_compute in bad_ids (fun c => err_ok (fst c) (snd c)) cases.
Definition BAD_EDGES := Eval vm_compute in bad_ids (fun c => edges_ok (fst c) (snd c)) cases.
Definition LEGACY := Eval vm_compute in sel_ids (fun c => legacy_differs (fst c)) cases.
Definition CYCLIC := Eval vm_compute in sel_ids (fun c => is_cyclic (fst c)) cases.
Print BAD_ERR. Print BAD_EDGES. Print LEGACY. Print CYCLIC.
"""


def run(ctx):
    res = vlib.Result()
    cases = ctx.replay_cases if ctx.replay_cases else gen_cases(ctx)
    for k, c in enumerate(cases):
        c["id"] = k
    res.rule = ("corpus; every edge set (self-loops included) on <=3 stages in every declaration order; "
                + ("every edge set on 4 stages; " if ctx.tier == "thorough" else "")
                + "DAG-biased graphs on 4 stages (re-convergent paths, 0-1 back edge); random graphs on 5..10 stages, random "
                  "declaration and depends_on orders, some dangling/repeated names.  Each graph goes through scheduler.NewExecutionGraph "
                  "and (sample) through the YAML loader.  distinct = distinct (declaration list); non-trivial = at least 2 edges.")
    res.exhaustive = not ctx.replay_cases
    jcases = [{"id": c["id"], "stages": [{"name": name(s[0]), "deps": [name(d) for d in s[1]]} for s in c["stages"]]} for c in cases]
    obs, logs = vlib.run_engine(ctx.workdir, "graph", jcases)
    obs2 = {}
    sample2 = [c for c in jcases if len(c["stages"]) <= 4 and c["id"] % 3 == 0 or cases[c["id"]].get("kind") in ("corpus", "rand")]
    sample2 = [c for c in sample2 if all(d in {s["name"] for s in c["stages"]} for s in c["stages"] for d in s["deps"])]
    lc = [{"id": c["id"], "mode": "pipeline", "stages": c["stages"], "dir": ctx.workdir} for c in sample2]
    obs2, logs2 = vlib.run_engine(ctx.workdir, "loadcfg", lc)
    logs += logs2
    items, ids = [], []
    for c in cases:
        o = obs.get(c["id"])
        res.evaluations += 1
        res.count(c.get("kind", "replay"))
        if o is None or "harness_error" in o:
            res.mismatches.append({"case": c, "what": "engine produced no observation", "observed": o, "log": logs[:2]})
            continue
        items.append(coq_case(c, o))
        if sum(len(s[1]) for s in c["stages"]) >= 2:
            res.nontrivial_keys.add(json_key(c["stages"]))
    items2 = []
    for c in sample2:
        o = obs2.get(c["id"])
        res.evaluations += 1
        res.count("via-loader")
        if o is None or "harness_error" in o:
            res.mismatches.append({"case": cases[c["id"]], "what": "loadcfg engine produced no observation", "observed": o, "log": logs[:2]})
            continue
        items2.append(coq_case(cases[c["id"]], o))
    bad = {}
    for label, its in (("graph", items), ("loader", items2)):
        for rc, out, start, cnt in vlib.coq_eval_sharded(ctx.workdir, "cases_" + label, HEADER, its, lambda: FOOTER):
            if rc != 0:
                res.mismatches.append({"what": "cases.v did not evaluate", "detail": out[-1500:]})
                continue
            pr = vlib.coq_printed(out)
            for key in ("BAD_ERR", "BAD_EDGES", "LEGACY", "CYCLIC"):
                if key not in pr:
                    res.mismatches.append({"what": "cases.v output lacks " + key, "detail": out[-800:]})
                bad.setdefault((label, key), []).extend(vlib.nums(pr.get(key, "")))
            res.traces_validated += cnt
    for label, o_ in (("graph", obs), ("loader", obs2)):
        for key, what in (("BAD_ERR", "accept/reject differs from relational cyclicity"),
                          ("BAD_EDGES", "To/From of an accepted pipeline differ from the declared edges")):
            for cid in bad.get((label, key), []):
                c = cases[cid]
                res.violations.append({"class": None, "what": "%s (via %s)" % (what, label), "case": c, "observed": o_.get(cid),
                                       "predicted": "cyclic" if cid in bad.get((label, "CYCLIC"), []) else "acyclic: accepted, To = depends_on"})
    res.extra["cases_where_pinned_cycleDfs_would_differ"] = len(bad.get(("graph", "LEGACY"), []))
    res.extra["cyclic_cases"] = len(bad.get(("graph", "CYCLIC"), []))
    res.samples = [cases[0], cases[min(len(cases) - 1, 40)], cases[-1]]
    return res


def json_key(x):
    import json
    return json.dumps(x, sort_keys=True)
