"""C16 - YAML, JSON and TOML express the same configuration identically  (partial).
Theorems: Properties/C16.v (Model/Decode.v).  Correspondence: abstract configurations over every documented key, each serialised
to the three formats by lib/fmtlib.py; `list`, `show <task>`, `graph <pipeline>` and the run of every task and pipeline of the
three files must agree pairwise; scalars of every kind at every typed position: the observed agreement is compared with the
model's in Coq."""
import json
import re
import vlib
import clilib
import fmtlib

TRUSTED = [
    "model Model/Decode.v: native representations (YAML int/float64, JSON float64 only, TOML int64/float64) and mapstructure's weak decoding for the schema's target types",
    "NOT verified, tied by differential runs only: yaml.v2, encoding/json, go-toml, mapstructure, number formatting; the three emitters of lib/fmtlib.py (round-trip checked against python's tomllib/json for TOML/JSON)",
    "python driver running the built binary",
]
ASSUMPTIONS = ["map keys are strings in all three files (the YAML emitter quotes keys YAML would read as numbers, booleans or null)",
               "TOML has no null and needs homogeneous arrays: abstract configurations stay inside what all three formats can write"]

K3 = "K3-integer-beyond-2-53-in-json"
BIG = 2 ** 53


def gen_conf(rng, i):
    def sol(xs):          # string-or-list field in both forms
        return xs if rng.random() < 0.6 or len(xs) != 1 else xs[0]

    def smap(prefix):
        vals = ["v", "a b", "", "x=y", 7, 0, -3, 8080, True, False, 1.5, 0.25, "007", "1e3", "true", BIG, -BIG]
        return {"%s%d" % (prefix, k): rng.choice(vals) for k in range(rng.randint(1, 4))}
    ntasks = rng.randint(1, 4)
    tasks = {}
    for k in range(ntasks):
        t = {"command": sol(['echo "c.%d: $(env | grep -E \'^(E|CE|SE|VAR)[0-9]\' | sort | tr \'\\n\' \' \') |{{.v0}}|" >> "$PROJ/out"' % k]),
             "variables": dict(smap("v"), v0="base%d" % k)}
        for key, g in (("env", lambda: smap("E")), ("before", lambda: sol(["true"])), ("after", lambda: sol(["true", "echo after"][:rng.randint(1, 2)])),
                       ("allow_failure", lambda: rng.choice([True, False, 1, 0, "true", "false"])), ("timeout", lambda: rng.choice(["30s", "1m", 30000000000, 45000000000])),
                       ("dir", lambda: "/tmp"), ("description", lambda: "task %d" % k), ("condition", lambda: rng.choice(["true", "exit 1"])),
                       ("exportAs", lambda: "OUT%d" % k), ("interactive", lambda: False), ("name", lambda: "named%d" % k),
                       ("variations", lambda: [{"VAR1": rng.choice(["a", "b"])}, {"VAR1": "c", "VAR2": "d"}][:rng.randint(1, 2)])):
            if rng.random() < 0.45:
                t[key] = g()
        tasks["t%d" % k] = t
    conf = {"tasks": tasks}
    if rng.random() < 0.6:
        conf["contexts"] = {"cx": {key: g() for key, g in (("env", lambda: smap("CE")), ("up", lambda: sol(["true"])), ("down", lambda: sol(["true"])),
                                                            ("before", lambda: sol(["true"])), ("after", lambda: sol(["true"])), ("dir", lambda: "/tmp"),
                                                            ("variables", lambda: smap("cv"))) if rng.random() < 0.5}}
        if conf["contexts"]["cx"]:
            tasks["t0"]["context"] = "cx"
        else:
            del conf["contexts"]
    names = sorted(tasks)
    stages = []
    for k in range(rng.randint(1, 4)):
        st = {"task": rng.choice(names), "name": "s%d" % k}
        if k:
            st["depends_on"] = sol(["s%d" % j for j in range(k) if rng.random() < 0.6] or ["s0"])
        for key, g in (("env", lambda: smap("SE")), ("variables", lambda: smap("sv")), ("allow_failure", lambda: rng.choice([True, 1, "true", False])),
                       ("condition", lambda: "true"), ("dir", lambda: "/tmp")):
            if rng.random() < 0.3:
                st[key] = g()
        stages.append(st)
    conf["pipelines"] = {"p0": stages}
    if rng.random() < 0.3:
        conf["pipelines"]["p1"] = [{"pipeline": "p0"}, {"task": names[0], "depends_on": sol(["p0"])}]
    if rng.random() < 0.4:
        conf["watchers"] = {"w0": {"watch": sol(["*.txt"]), "exclude": sol(["b.txt"]), "events": sol(["write"]), "task": names[0], "variables": smap("wv")}}
    if rng.random() < 0.5:
        conf["variables"] = smap("g")
    if rng.random() < 0.2:
        conf["debug"] = False
    if rng.random() < 0.35:
        # names made of digits (a YAML reader sees integer keys), in tasks, env and variables
        ren = {n: str(10 + k) for k, n in enumerate(sorted(tasks))}
        conf["tasks"] = {ren[n]: t for n, t in tasks.items()}
        for stages in conf["pipelines"].values():
            for st in stages:
                if st.get("task") in ren:
                    st["task"] = ren[st["task"]]
        for w in conf.get("watchers", {}).values():
            w["task"] = ren.get(w["task"], w["task"])
        for t in conf["tasks"].values():
            t.setdefault("env", {})["E7"] = "seven"
            t["variables"]["42"] = "answer"
        conf["_rawkeys"] = True
    if rng.random() < 0.35:
        conf["_inc"] = {"tasks": {"inc9": {"command": ['echo "inc9" >> "$PROJ/out"'], "env": {"E1": 5}}}, "variables": {"fromimport": "yes"}}
        if rng.random() < 0.6:
            # the imported file is a YAML file whatever the format of the importing one, with names YAML reads as integers
            conf["_inc"]["tasks"]["77"] = {"command": ['echo "seventy-seven" >> "$PROJ/out"'], "variables": {"5": "five"}, "env": {"404": "nf"}}
            conf["_inc_yaml"] = True
    return conf


def has_big(v):
    if isinstance(v, bool):
        return False
    if isinstance(v, int):
        return abs(v) > BIG
    if isinstance(v, dict):
        return any(has_big(x) for x in v.values())
    if isinstance(v, list):
        return any(has_big(x) for x in v)
    return False


SCALARS = [("AStr 1", "plain"), ("AStr 2", ""), ("AStr 3", "true"), ("AStr 4", "12"), ("AStr 5", "30s"), ("ABool true", True), ("ABool false", False),
           ("AInt 0", 0), ("AInt 1", 1), ("AInt (-5)", -5), ("AInt 8080", 8080), ("AInt 2000000000", 2000000000), ("AInt 9007199254740992", BIG), ("AInt 9007199254740993", BIG + 1),
           ("AInt (-9007199254740993)", -BIG - 1), ("AInt 12345678901234567890", 12345678901234567890 if False else 1234567890123456789), ("ADec 1", 1.5), ("ADec 2", 0.25)]
SCALARS[15] = ("AInt 1234567890123456789", 1234567890123456789)
POSITIONS = [("TString", "env"), ("TString", "variables"), ("TString", "cfgvariables"), ("TBool", "allow_failure"), ("TDuration", "timeout"), ("(TList TString)", "command"), ("(TList TString)", "depends_on")]


def scalar_conf(val, pos):
    t = {"command": ['printf "E=[%s] V=[{{.VX}}] G=[{{.GX}}]" "$EX"'], "env": {"EX": "dflt"}, "variables": {"VX": "dflt"}}
    top = {"GX": "dflt"}          # variables at the top level of the file
    st2 = {"task": "t", "name": "s1", "depends_on": ["s0"]}
    if pos == "env":
        t["env"]["EX"] = val
    elif pos == "variables":
        t["variables"]["VX"] = val
    elif pos == "cfgvariables":
        top["GX"] = val
    elif pos in ("allow_failure", "timeout"):
        t[pos] = val
    elif pos == "command":
        t["command"] = val
    elif pos == "depends_on":
        st2["depends_on"] = val
    return {"variables": top, "tasks": {"t": t}, "pipelines": {"p": [{"task": "t", "name": "s0"}, st2]}}


EDGE_RE = re.compile(r"(n\d+)->(n\d+)")
NODE_RE = re.compile(r'(n\d+)\[label="([^"]*)"\]')


def norm_graph(txt):
    labels = dict(NODE_RE.findall(txt))
    return sorted((labels.get(a, a), labels.get(b, b)) for a, b in EDGE_RE.findall(txt)), sorted(labels.values())


def observe(workdir, tag, confs, norun=()):
    """confs: list of (key, conf).  For each and for each format: list, show every task, graph every pipeline, run every task and pipeline.
    returns {key: {fmt: projected observation}}"""
    jobs, meta = [], []
    for key, conf in confs:
        for fmt in ("yaml", "json", "toml"):
            extra = {}
            doc = {k: v for k, v in conf.items() if not k.startswith("_")}
            incfmt = "yaml" if conf.get("_inc_yaml") else fmt
            if "_inc" in conf:                       # an imported file next to the configuration (of the same format, or always YAML)
                doc["import"] = ["inc." + incfmt]
            try:
                text = fmtlib.serialise(doc, fmt)
                if "_inc" in conf:
                    extra["inc." + incfmt] = fmtlib.serialise(conf["_inc"], incfmt)
                    if conf.get("_inc_yaml"):
                        extra["inc.yaml"] = re.sub(r'^(\s*)"(\d+)":', r"\1\2:", extra["inc.yaml"], flags=re.M)
            except fmtlib.NotTomlable:
                text = None
            if text is not None and fmt == "yaml" and conf.get("_rawkeys"):
                # names made of digits written the way people write them in YAML: unquoted (YAML reads an integer key)
                text = re.sub(r'^(\s*)"(\d+)":', r"\1\2:", text, flags=re.M)
                extra = {k: re.sub(r'^(\s*)"(\d+)":', r"\1\2:", v, flags=re.M) for k, v in extra.items()}
            fn = "cfg." + fmt
            alltasks = sorted(set(conf.get("tasks", {})) | set(conf.get("_inc", {}).get("tasks", {})))
            cmds = [["list"]] + [["show", t] for t in alltasks] + [["graph", p] for p in sorted(conf.get("pipelines", {}))] + \
                   [["--raw", "run", "task", t] for t in alltasks] + [["--raw", "run", "pipeline", p] for p in sorted(conf.get("pipelines", {}))]
            for cmd in cmds:
                if text is None or (key in norun and cmd[0] == "--raw"):
                    continue
                jobs.append({"id": len(jobs), "files": dict({fn: text, "a.txt": "x", "b.txt": "y"}, **extra), "argv": ["-c", fn] + cmd, "timeout": 20, "keep": ["out"]})
                meta.append((key, fmt, " ".join(cmd)))
    out = clilib.run_cli(workdir + "/" + tag, jobs, timeout=20)
    res = {}
    for j, (key, fmt, cmd) in zip(jobs, meta):
        r = out[j["id"]]
        txt = r.get("out") or ""
        if cmd.startswith("graph"):
            proj = norm_graph(txt)
        elif cmd.startswith("--raw run pipeline"):
            # stages run concurrently: what each command recorded (one atomic line each), as a multiset
            # (by pattern: concurrent appends can glue lines together)
            proj = sorted(re.findall(r"c\.\d+: .*?\|[^|\n]*\||inc9", r["files"].get("out") or "", re.S))
        elif cmd.startswith("--raw run task"):
            proj = (r["files"].get("out") or "", re.sub(r"in \d+(\.\d+)?(ns|µs|ms|s)|Duration[^\n]*|\d+(\.\d+)?(ns|µs|ms|s)\b", "<t>", txt))
        else:
            proj = txt                      # list / show: compared as printed (the Timeout line included)
        if r["rc"] not in (0, None) and not cmd.startswith("--raw"):
            proj = "<rejected>"             # the wording of an error message is not compared, only that all three files are rejected
        err = (r.get("err") or "")
        errclass = "crash" if clilib.crashed(r) else ("timeout" if r["timeout"] else "")
        res.setdefault(key, {}).setdefault(fmt, {})[cmd] = (r["rc"], proj, errclass)
    return res


HEADER = """From Coq Require Import List ZArith Bool. Import ListNotations.
From TaskctlV Require Import Model.Decode Corr.DecodeCorr.
Open Scope Z_scope.
"""
FOOTER = """
Definition BAD := Eval vm_compute in bad_ids agree_ok cases.
Print BAD.
"""


def url_section(ctx, res):
    """the same configuration fetched from a URL: the format is told by the Content-Type (application/json, with or without parameters) or by the
    path's extension, and is YAML otherwise"""
    import http.server
    import threading
    doc = {"variables": {"GV": "a/b"},
           "tasks": {"t1": {"command": ['echo "one/two {{.GV}}" >> "$PROJ/out"'], "env": {"P": "x/y"}, "timeout": "30s"},
                     "t2": {"command": ['echo "P=$P" >> "$PROJ/out"', 'echo done >> "$PROJ/out"'], "env": {"P": "q/r"}, "allow_failure": True}},
           "pipelines": {"p": [{"task": "t1"}, {"task": "t2", "depends_on": ["t1"]}]}}
    js = fmtlib.serialise(doc, "json").replace("/", "\\/")          # `\/` is a legal JSON escape (and not a YAML one)
    served = {"/api/config": ("application/json; charset=utf-8", js), "/api/plain": ("application/json", js), "/x/cfg.json": ("text/plain", js),
              "/x/cfg.yaml": ("text/plain; charset=utf-8", fmtlib.serialise(doc, "yaml")), "/x/noext": ("", fmtlib.serialise(doc, "yaml")),
              "/x/cfg.toml": ("application/octet-stream", fmtlib.serialise(doc, "toml"))}

    class H(http.server.BaseHTTPRequestHandler):
        def do_GET(self):
            ct, body = served.get(self.path, (None, None))
            if body is None:
                self.send_response(404)
                self.end_headers()
                return
            self.send_response(200)
            if ct:
                self.send_header("Content-Type", ct)
            self.end_headers()
            self.wfile.write(body.encode())

        def log_message(self, *a):
            pass
    try:
        srv = http.server.ThreadingHTTPServer(("127.0.0.1", 0), H)
    except OSError as e:
        res.extra["url_section"] = "skipped: no loopback server (%s)" % e
        return
    th = threading.Thread(target=srv.serve_forever, daemon=True)
    th.start()
    base = "http://127.0.0.1:%d" % srv.server_address[1]
    cmds = [["list"], ["--raw", "run", "task", "t1"], ["--raw", "run", "task", "t2"], ["--raw", "run", "pipeline", "p"], ["show", "t1"]]
    jobs = [{"id": i * len(cmds) + k, "files": {}, "argv": ["-c", base + path] + cmd, "keep": ["out"], "timeout": 20, "path": path, "cmd": " ".join(cmd)}
            for i, path in enumerate(sorted(served)) for k, cmd in enumerate(cmds)]
    out = clilib.run_cli(ctx.workdir + "/url", jobs, timeout=20)
    srv.shutdown()
    proj = {}
    for j in jobs:
        r = out[j["id"]]
        txt = r.get("out") or ""
        if j["cmd"].startswith("--raw"):
            txt = ""                                   # (the summary carries durations; what the commands wrote is in the file)
        proj.setdefault(j["path"], {})[j["cmd"]] = (r["rc"], txt, r["files"].get("out"), bool(r["timeout"] or clilib.crashed(r)))
    ref = proj["/x/cfg.yaml"]
    for path in sorted(served):
        res.evaluations += 1
        res.count("url")
        res.nontrivial_keys.add("url" + path)
        case = {"kind": "url", "path": path, "content_type": served[path][0], "body": served[path][1]}
        if any(v[3] for v in proj[path].values()):
            res.violations.append({"class": None, "what": "loading a configuration from a URL crashed or hung", "case": case, "observed": str(proj[path])[:1200]})
        elif proj[path] != ref or ref["list"][0] != 0:
            cmd = next((c for c in ref if proj[path][c] != ref[c]), "list")
            res.violations.append({"class": None, "what": "the same configuration fetched from a URL as %s (Content-Type %r) behaves differently from the YAML one (`taskctl %s`)" % (
                                   path, served[path][0], cmd), "case": case, "observed": {"this": proj[path][cmd], "yaml": ref[cmd]}})


def merge_key_section(ctx, res):
    """a YAML file written with an anchor and a merge key, one of the inherited keys overridden - and the same configuration written out in
    JSON and TOML: list / show / run agree"""
    yaml_text = ('tasks:\n  t2: &base\n    dir: "/"\n    env: {A: "1", B: "2"}\n    command: [\'echo "t2 $A" >> "$PROJ/out"\', \'/bin/pwd >> "$PROJ/out"\']\n'
                 '  t1:\n    <<: *base\n    dir: "/tmp"\n    command: [\'echo "t1 $A $B" >> "$PROJ/out"\', \'/bin/pwd >> "$PROJ/out"\']\n')
    flat = {"tasks": {"t1": {"dir": "/tmp", "env": {"A": "1", "B": "2"}, "command": ['echo "t1 $A $B" >> "$PROJ/out"', '/bin/pwd >> "$PROJ/out"']},
                      "t2": {"dir": "/", "env": {"A": "1", "B": "2"}, "command": ['echo "t2 $A" >> "$PROJ/out"', '/bin/pwd >> "$PROJ/out"']}}}
    texts = {"yaml": yaml_text, "json": fmtlib.serialise(flat, "json"), "toml": fmtlib.serialise(flat, "toml")}
    cmds = [["list"], ["--raw", "run", "task", "t1"], ["--raw", "run", "task", "t2"]]
    jobs = [{"id": i * len(cmds) + k, "files": {"cfg." + fmt: texts[fmt]}, "argv": ["-c", "cfg." + fmt] + cmd, "keep": ["out"], "timeout": 20, "fmt": fmt, "cmd": " ".join(cmd)}
            for i, fmt in enumerate(("yaml", "json", "toml")) for k, cmd in enumerate(cmds)]
    out = clilib.run_cli(ctx.workdir + "/mergekey", jobs, timeout=20)
    proj = {}
    for j in jobs:
        r = out[j["id"]]
        proj.setdefault(j["fmt"], {})[j["cmd"]] = (r["rc"], "" if j["cmd"].startswith("--raw") else (r.get("out") or ""), r["files"].get("out"), bool(r["timeout"] or clilib.crashed(r)))
    res.evaluations += 3
    res.count("yaml-merge-key")
    res.nontrivial_keys.add("yaml-merge-key")
    case = {"kind": "mergekey", "texts": texts}
    if any(v[3] for d in proj.values() for v in d.values()):
        res.violations.append({"class": None, "what": "loading or running crashed / hung in some format (YAML written with a merge key)", "case": case, "observed": str(proj)[:1200]})
    elif not (proj["yaml"] == proj["json"] == proj["toml"]) or proj["yaml"]["list"][0] != 0:
        cmd = next((c for c in proj["yaml"] if not (proj["yaml"][c] == proj["json"][c] == proj["toml"][c])), "list")
        res.violations.append({"class": None, "what": "a YAML file using an anchor and a merge key (an inherited key overridden) and the same configuration written out in JSON / TOML behave differently (`taskctl %s`)" % cmd,
                               "case": case, "observed": {f: proj[f][cmd] for f in proj}})


def run(ctx):
    res = vlib.Result()
    res.rule = ("scalars (strings incl. empty / numeric-looking, booleans, integers incl. 2^53 and beyond, decimals) at every typed position (env, task variables, top-level variables: string; "
                "allow_failure: bool; timeout: duration; command, depends_on: string-or-list): observed agreement yaml=json / json=toml compared with the model's; "
                "generated configurations over every documented key (string-or-list fields in both forms, durations as string and number, booleans as bool / number / "
                "string, nested maps, contexts, watchers, nested pipelines): list / show / graph / run of every task and pipeline compared pairwise between the "
                "three files; the same configuration fetched from a local URL under several Content-Types and path extensions.  distinct = distinct abstract configuration; non-trivial = all of them (three files each).")
    thorough = ctx.tier == "thorough"
    rng = vlib.rng_for(ctx.seed, "C16")
    # ---- scalars at typed positions, against the model ----
    sc = []
    for (coqa, val) in SCALARS:
        for (coqt, pos) in POSITIONS:
            if isinstance(val, float) and pos in ("timeout",):
                continue
            sc.append({"key": "s%d" % len(sc), "coq": "(%s, %s)" % (coqa, coqt), "val": val, "pos": pos, "conf": scalar_conf(val, pos)})
    if ctx.replay_cases:
        keys = {c.get("key") for c in ctx.replay_cases}
        sc = [c for c in sc if c["key"] in keys]
    # a numeric timeout of a few nanoseconds makes the RUN a race against the clock in every format: those are only listed and shown
    norun = {c["key"] for c in sc if c["pos"] == "timeout" and not isinstance(c["val"], str) and abs(c["val"]) < 10 ** 9}
    obs = observe(ctx.workdir, "sc", [(c["key"], c["conf"]) for c in sc], norun=norun)
    items = []
    for k, c in enumerate(sc):
        o = obs.get(c["key"], {})
        res.evaluations += 1
        res.count("scalar-" + c["pos"])
        res.nontrivial_keys.add(c["key"])
        if any(v[2] for f in o.values() for v in f.values()):
            res.violations.append({"class": None, "what": "loading or running crashed / hung in some format", "case": {"key": c["key"], "val": c["val"], "pos": c["pos"]}, "observed": str(o)[:1500]})
            continue
        yj = o.get("yaml") == o.get("json")
        jt = o.get("json") == o.get("toml")
        c["_agree"] = (yj, jt)
        items.append("(%d%%nat, (%s, (%s, %s)))" % (k, c["coq"], vlib.cbool(yj), vlib.cbool(jt)))
        if not (yj and jt):
            diff = next(((cmd, o["yaml"].get(cmd), o["json"].get(cmd), o.get("toml", {}).get(cmd)) for cmd in o.get("yaml", {}) if not (o["yaml"].get(cmd) == o["json"].get(cmd) == o.get("toml", {}).get(cmd))), None)
            res.violations.append({"class": K3 if (isinstance(c["val"], int) and not isinstance(c["val"], bool) and abs(c["val"]) > BIG) else None,
                                   "what": "the same value at `%s` gives different results from the YAML, JSON and TOML files" % c["pos"],
                                   "case": {"key": c["key"], "val": c["val"], "pos": c["pos"]}, "observed": str(diff)[:1200]})
    bad = set()
    for rc, o, start, cnt in vlib.coq_eval_sharded(ctx.workdir, "cases_c16", HEADER, items, lambda: FOOTER, shard=200):
        if rc != 0:
            res.mismatches.append({"what": "cases.v did not evaluate", "detail": o[-1500:]})
            continue
        pr = vlib.coq_printed(o)
        if "BAD" not in pr:
            res.mismatches.append({"what": "cases.v output lacks BAD", "detail": o[-800:]})
        bad.update(vlib.nums(pr.get("BAD", "")))
        res.traces_validated += cnt
    for k in sorted(bad):
        c = sc[k]
        res.mismatches.append({"what": "observed agreement between formats differs from the model (weak decoding of this value at this position)",
                               "case": {"key": c["key"], "val": c["val"], "pos": c["pos"]}, "observed": {"yaml=json": c["_agree"][0], "json=toml": c["_agree"][1]}})
    # ---- whole configurations, pairwise ----
    if not ctx.replay_cases or any(c.get("kind") == "conf" for c in ctx.replay_cases):
        confs = [c["conf"] for c in ctx.replay_cases if c.get("kind") == "conf"] if ctx.replay_cases else [gen_conf(rng, i) for i in range(260 if thorough else 40)]
        wobs = observe(ctx.workdir, "cf", [("c%d" % i, cf) for i, cf in enumerate(confs)])
        for i, cf in enumerate(confs):
            o = wobs.get("c%d" % i, {})
            res.evaluations += 3
            res.count("configuration")
            res.nontrivial_keys.add(json.dumps(cf, sort_keys=True))
            case = {"kind": "conf", "conf": cf}
            if o.get("yaml", {}).get("list", (1,))[0] == 0:
                res.extra["configurations_accepted"] = res.extra.get("configurations_accepted", 0) + 1
            if any(v[2] for f in o.values() for v in f.values()):
                res.violations.append({"class": None, "what": "loading or running crashed / hung in some format", "case": case, "observed": str({f: {c: v for c, v in d.items() if v[2]} for f, d in o.items()})[:1500]})
                continue
            for a, b in (("yaml", "json"), ("json", "toml")):
                if a in o and b in o and o[a] != o[b]:
                    cmd = next(c for c in o[a] if o[a].get(c) != o[b].get(c))
                    res.violations.append({"class": K3 if has_big(cf) and False else None, "what": "`taskctl %s` differs between the %s and the %s file of the same configuration" % (cmd.split(" ")[0] if not cmd.startswith("--raw") else "run", a, b),
                                           "case": case, "observed": {"command": cmd, a: o[a].get(cmd), b: o[b].get(cmd)}})
                    break
    if not ctx.replay_cases or any(c.get("kind") == "url" for c in ctx.replay_cases):
        url_section(ctx, res)
    if not ctx.replay_cases or any(c.get("kind") == "mergekey" for c in ctx.replay_cases):
        merge_key_section(ctx, res)
    res.samples = [{"val": sc[0]["val"], "pos": sc[0]["pos"]}] + ([{"conf": confs[0]}] if not ctx.replay_cases else [])
    return res
