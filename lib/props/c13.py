"""C13 - A task timeout bounds every one of its commands  (partial).
Theorems: Properties/C13.v (Model/Timeout.v over Model/TaskRun.v).  Correspondence: engine `taskrun` with REAL timeouts of
100 ms..1 s against commands that finish early or overrun by a wide margin (external sleep, shell busy loop, a child that
ignores SIGINT) at every command position, in before/after hooks and in the condition, with and without allow_failure."""
import json
import vlib
import tasklib
import clilib

TRUSTED = [
    "model Model/Timeout.v: a job under timeout T ends as a non-exit-status error iff it would run longer than T; every job (commands, before, after, condition) carries the task's timeout; a fresh timer per job",
    "NOT exhibited by the model, observed only: that expiry terminates the process shortly afterwards (timer, SIGINT, SIGKILL after mvdan/sh's 2 s grace, pipe draining); bound used: sum of the early commands + timeout + 2 s + 2.5 s slack",
    "Go engine taskrun, python driver; a case that misses its bound is re-run once alone before it counts (machine load)",
]
ASSUMPTIONS = ["early commands take at most a fifth of the timeout, overrunning ones at least 20 s (the quantifier's 'wide margin')"]

SHAPES = {
    "sleep": "sleep 30",
    "busy": "while :; do :; done",
    "noint": "sh -c \"trap '' INT; n=0; while [ \\$n -lt 25000000 ]; do n=\\$((n+1)); done\"",
    # (binary only) ignores SIGINT and would leave a mark 4 s after its start: it must have been killed (2 s after the timeout) before that,
    # also when taskctl itself has ended in the meantime
    "orphan": "sh -c \"trap '' INT; sleep 4 >/dev/null 2>&1; echo orphan >> $PROJ/orphan\"",
}
GRACE_MS = 2000
SLACK_MS = 2500


def cmd_text(tok, c):
    """c = {"dur": "early"|shape, "exit": n}"""
    if c["dur"] == "early":
        return 'echo %s >> "$TRACE"; sleep 0.02; exit %d' % (tok, c["exit"])
    return 'echo %s >> "$TRACE"; %s; exit %d' % (tok, SHAPES[c["dur"]], c["exit"])


def gen_cases(ctx):
    rng = vlib.rng_for(ctx.seed, "C13")
    thorough = ctx.tier == "thorough"
    cases = []
    early = {"dur": "early", "exit": 0}

    def add(kind, **kw):
        d = {"id": len(cases), "kind": kind, "timeout_ms": 300, "cond": None, "before": [], "jobs": [[early]], "after": [], "allow": False}
        d.update(kw)
        cases.append(d)

    shapes = [x for x in SHAPES if x != "orphan"]
    # an overrunning command at every position of 1..3 commands, every shape, allow_failure on/off, timeouts 100 ms..1 s
    for ncmds in (1, 2, 3):
        for pos in range(ncmds):
            for shape in shapes:
                for allow in (False, True):
                    for T in ([100, 250, 500, 1000] if thorough else [rng.choice([100, 250, 500, 1000])]):
                        jobs = [[({"dur": shape, "exit": 0} if c == pos else dict(early)) for c in range(ncmds)]]
                        add("cmd-overrun", timeout_ms=T, jobs=jobs, allow=allow, after=[dict(early)])
    # with variations: overrun in the second variation only
    for shape in shapes:
        add("variation-overrun", timeout_ms=250, jobs=[[dict(early), dict(early)], [dict(early), {"dur": shape, "exit": 0}], [dict(early), dict(early)]], allow=rng.random() < 0.5)
    # hooks and condition
    for shape in shapes:
        for allow in (False, True):
            add("before-overrun", timeout_ms=rng.choice([100, 300]), before=[dict(early), {"dur": shape, "exit": 0}, dict(early)], jobs=[[dict(early)]], after=[dict(early)], allow=allow)
            add("after-overrun", timeout_ms=rng.choice([100, 300]), jobs=[[dict(early), dict(early)]], after=[{"dur": shape, "exit": 0}, dict(early)], allow=allow)
        add("cond-overrun", timeout_ms=200, cond={"dur": shape, "exit": 0}, jobs=[[dict(early)]])
    # nothing overruns: several early commands whose TOTAL exceeds the timeout (each command gets the full timeout),
    # failures with/without allow_failure are reported as without a timeout
    for T in (100, 150):
        add("within-sum-exceeds", timeout_ms=T, jobs=[[dict(early) for _ in range(8)]], before=[dict(early)], after=[dict(early)])
    for _ in range(40 if thorough else 12):
        n = rng.randint(1, 4)
        jobs = [[{"dur": "early", "exit": rng.choice([0, 0, 0, 1, 7])} for _ in range(n)] for _ in range(rng.choice([1, 1, 2]))]
        add("within-random", timeout_ms=rng.choice([100, 250, 1000]), jobs=jobs, allow=rng.random() < 0.5,
            cond=rng.choice([None, None, {"dur": "early", "exit": 0}, {"dur": "early", "exit": 1}]),
            before=[dict(early)] * rng.choice([0, 1]), after=[{"dur": "early", "exit": rng.choice([0, 3])}] * rng.choice([0, 1, 2]))
    # the first write to the runner's output FAILS (a terminal that went away for a moment), the task goes on printing, then a command overruns:
    # the run still ends within the bound (what the task reports after a failed write is not judged)
    for shape in ("sleep", "busy"):
        add("sink-fails", timeout_ms=300, jobs=[[dict(early), {"dur": shape, "exit": 0}]], sink_fails=True)
    # an early failure before the overrunning command: with allow_failure the overrun is still reached and fails the task
    for shape in shapes:
        for allow in (False, True):
            add("fail-then-overrun", timeout_ms=250, jobs=[[{"dur": "early", "exit": 5}, {"dur": shape, "exit": 0}, dict(early)]], allow=allow)
    return cases


def to_engine(ctx, c):
    nv = len(c["jobs"])
    nc = len(c["jobs"][0])
    cmds = []
    for k in range(nc):
        arms = " ".join("%d) %s;;" % (v, cmd_text("c%d.%d" % (v, k), c["jobs"][v][k]).replace('echo c%d.%d >> "$TRACE"; ' % (v, k), "")) for v in range(nv))
        cmds.append('echo "c${V:-0}.%d" >> "$TRACE"; case "${V:-0}" in %s esac' % (k, arms))
    t = {"name": "t", "commands": cmds, "timeout_ms": c["timeout_ms"], "allow": c["allow"],
         "before": [cmd_text("b%d" % k, b) for k, b in enumerate(c["before"])],
         "after": [cmd_text("a%d" % k, a) for k, a in enumerate(c["after"])],
         "condition": cmd_text("cond", c["cond"]) if c["cond"] else "",
         "variations": [{"V": str(v)} for v in range(nv)] if nv > 1 else None}
    if c.get("sink_fails"):
        t["commands"] = ['echo "first line"; echo "second line"; ' + x for x in t["commands"]]
    return {"id": c["id"], "dir": ctx.workdir, "tasks": [t], "plan": [{"op": "run", "tasks": [0]}], "format": "raw", "sink_fails": bool(c.get("sink_fails"))}


def cli_cases(ctx):
    """the timeout as WRITTEN IN A CONFIGURATION FILE (string forms and nanoseconds), for a task run directly, as a stage, as a stage with
    per-stage overrides, inside a nested pipeline, and as the second of two targets"""
    rng = vlib.rng_for(ctx.seed, "C13cli")
    early = {"dur": "early", "exit": 0}
    cases = []
    forms = [("300ms", 300), ("0.3s", 300), (300000000, 300), ("1s", 1000), ("0h0m0.5s", 500)]
    modes = ["direct", "stage", "stage-overrides", "nested", "second-target", "run-task", "interactive"]
    for mode in modes:
        for shape in (("sleep", "busy") if ctx.tier == "thorough" else (rng.choice(["sleep", "busy"]),)):
            form, ms = rng.choice(forms)
            allow = rng.random() < 0.5
            pos = rng.randrange(2)
            jobs = [[({"dur": shape, "exit": 0} if k == pos else dict(early)) for k in range(2)]]
            cases.append({"kind": "cli-overrun", "mode": mode, "form": form, "timeout_ms": ms, "cond": None, "before": [dict(early)], "jobs": jobs, "after": [dict(early)], "allow": allow})
        form, ms = rng.choice(forms)
        cases.append({"kind": "cli-within", "mode": mode, "form": form, "timeout_ms": ms, "cond": None, "before": [], "jobs": [[dict(early) for _ in range(4)]], "after": [dict(early)],
                      "allow": False})
    for form, ms in forms:
        cases.append({"kind": "cli-forms", "mode": "direct", "form": form, "timeout_ms": ms, "cond": None, "before": [], "jobs": [[dict(early), {"dur": "sleep", "exit": 0}]], "after": [],
                      "allow": False})
    for mode in ("direct", "run-task", "stage"):
        cases.append({"kind": "cli-orphan", "mode": mode, "form": "300ms", "timeout_ms": 300, "cond": None, "before": [], "jobs": [[dict(early), {"dur": "orphan", "exit": 0}]], "after": [],
                      "allow": False})
    for mode in ("direct", "stage"):
        cases.append({"kind": "cli-hook-overrun", "mode": mode, "form": "250ms", "timeout_ms": 250, "cond": None, "before": [{"dur": "sleep", "exit": 0}], "jobs": [[dict(early)]], "after": [dict(early)],
                      "allow": False})
        cases.append({"kind": "cli-hook-overrun", "mode": mode, "form": "250ms", "timeout_ms": 250, "cond": None, "before": [], "jobs": [[dict(early)]], "after": [{"dur": "sleep", "exit": 0}, dict(early)],
                      "allow": False})
    return cases


def cli_job(c, jid):
    nc = len(c["jobs"][0])
    fix = lambda s: s.replace('"$TRACE"', '"$PROJ/out"')
    t = {"command": [fix(cmd_text("c0.%d" % k, c["jobs"][0][k])) for k in range(nc)], "timeout": c["form"], "allow_failure": c["allow"],
         "before": [fix(cmd_text("b%d" % k, b)) for k, b in enumerate(c["before"])], "after": [fix(cmd_text("a%d" % k, a)) for k, a in enumerate(c["after"])]}
    doc = {"tasks": {"t": t, "first": {"command": ["true"]}},
           "pipelines": {"p": [{"task": "t"}], "po": [{"task": "t", "env": {"SOME": "x"}, "variables": {"v": "1"}}], "outer": [{"pipeline": "p", "name": "inner"}]}}
    argv = {"direct": ["t"], "stage": ["p"], "stage-overrides": ["po"], "nested": ["outer"], "second-target": ["first", "t"], "run-task": ["run", "task", "t"], "interactive": ["t"]}[c["mode"]]
    if c["mode"] == "interactive":          # the task talks to the terminal; nobody types: the timeout still ends it
        doc["tasks"]["t"]["interactive"] = True
    j = {"id": jid, "files": {"cfg.json": clilib.jcfg(doc)}, "argv": ["-c", "cfg.json", "--raw"] + argv, "keep": ["out"], "timeout": 40}
    if c["mode"] == "interactive":
        j["stdin_open"] = True
    if c["kind"] == "cli-orphan":
        j["keep"] = ["out", "orphan"]
        j["linger"] = 6
    return j


def judge_cli(ctx, cases, res):
    jobs = [cli_job(c, k) for k, c in enumerate(cases)]
    out = clilib.run_cli(ctx.workdir, jobs, timeout=40, workers=8)
    items, info = [], {}
    for k, c in enumerate(cases):
        r = out[k]
        info[k] = {"rc": r.get("rc"), "wall_ms": r.get("wall_ms"), "bound_ms": bound_ms(c) + 1500, "trace": (r["files"].get("out") or "").split(), "stderr": (r.get("err") or "")[-400:]}
        if r["timeout"] or clilib.crashed(r):
            info[k]["hung"] = True
            continue
        if r["files"].get("orphan"):
            info[k]["orphan"] = True
        try:
            tr = vlib.clist(info[k]["trace"], tasklib.parse_tok)
        except ValueError as e:
            info[k]["unparsable"] = str(e)
            continue
        items.append("(%d%%N, (%s, (%s, %s, %s)))" % (k, coq_tt(c), tr, vlib.cbool(r["rc"] != 0), vlib.cbool(r["wall_ms"] <= bound_ms(c) + 1500)))
    bad = {"BAD_TRACE": set(), "BAD_STATUS": set(), "BAD_TIME": set()}
    for rc, o, start, cnt in vlib.coq_eval_sharded(ctx.workdir, "cases_c13cli", HEADER, items, lambda: FOOTER_CLI, shard=500):
        if rc != 0:
            res.mismatches.append({"what": "cases.v did not evaluate", "detail": o[-1500:]})
            continue
        pr = vlib.coq_printed(o)
        for key in bad:
            if key not in pr:
                res.mismatches.append({"what": "cases.v output lacks " + key, "detail": o[-800:]})
            bad[key].update(vlib.nums(pr.get(key, "")))
        res.traces_validated += cnt
    return bad, info


FOOTER_CLI = """
Definition BAD_TRACE := Eval vm_compute in bad_ids (fun c => c13_cli_trace_ok (fst c) (fst (fst (snd c)))) cases.
Definition BAD_STATUS := Eval vm_compute in bad_ids (fun c => c13_cli_status_ok (fst c) (snd (fst (snd c)))) cases.
Definition BAD_TIME := Eval vm_compute in bad_ids (fun c => snd (snd c)) cases.
Print BAD_TRACE. Print BAD_STATUS. Print BAD_TIME.
"""


def n_overruns_reached(c):
    """how many overrunning commands can be reached in one run (after hooks all run; otherwise the first one ends the task)"""
    n = 0
    if c["cond"] and c["cond"]["dur"] != "early":
        return 1
    if any(b["dur"] != "early" for b in c["before"]):
        return 1
    if any(j["dur"] != "early" for v in c["jobs"] for j in v):
        return 1
    return sum(1 for a in c["after"] if a["dur"] != "early")


def bound_ms(c):
    ncmd = (1 if c["cond"] else 0) + len(c["before"]) + sum(len(v) for v in c["jobs"]) + len(c["after"])
    k = n_overruns_reached(c)
    return ncmd * 150 + k * (c["timeout_ms"] + GRACE_MS) + SLACK_MS


def coq_tc(c):
    return "(mkTC %d %d [])" % (20 if c["dur"] == "early" else 30000, c["exit"])


def coq_tt(c):
    return "(mkTT (Some %d%%N) %s %s %s %s %s)" % (c["timeout_ms"], vlib.copt(c["cond"], coq_tc), vlib.clist(c["before"], coq_tc),
                                                  vlib.clist(c["jobs"], lambda v: vlib.clist(v, coq_tc)), vlib.clist(c["after"], coq_tc), vlib.cbool(c["allow"]))


HEADER = """From Coq Require Import List Arith NArith ZArith Bool. Import ListNotations.
From TaskctlV Require Import Model.TaskRun Model.Timeout Corr.TaskRunCorr Corr.TimeoutCorr.
"""
FOOTER = """
Definition BAD_TRACE := Eval vm_compute in bad_ids (fun c => c13_trace_ok (fst c) (snd c)) cases.
Definition BAD_STATUS := Eval vm_compute in bad_ids (fun c => c13_status_ok (fst c) (snd c)) cases.
Definition BAD_TIME := Eval vm_compute in bad_ids (fun c => c13_timely (fst c) (snd c)) cases.
Print BAD_TRACE. Print BAD_STATUS. Print BAD_TIME.
"""


def judge(ctx, cases, res, tag, workers):
    ecases = [to_engine(ctx, c) for c in cases]
    obs = vlib.run_children(ctx.workdir, "taskrun", ecases, timeout=60, workers=workers, tag=tag)
    items, info = [], {}
    for c in cases:
        o = obs[c["id"]]
        if "child_crash" in o or o.get("panic"):
            info[c["id"]] = {"crash": (o.get("child_crash") or o.get("panic"))[-800:]}
            continue
        if o.get("child_timeout") or o.get("hung") or not o.get("results"):
            info[c["id"]] = {"hung": True}
            continue
        r = o["results"][0]
        wall = r["end_ms"] - r["start_ms"]
        info[c["id"]] = {"wall_ms": wall, "bound_ms": bound_ms(c), "err": r["err"], "errored": r["errored"], "trace": o.get("trace")}
        if c.get("sink_fails"):
            if wall > bound_ms(c):
                info[c["id"]]["hung"] = True
            continue
        try:
            ob = tasklib.coq_observed(r, o.get("trace") or [])
        except ValueError as e:
            info[c["id"]]["unparsable"] = str(e)
            continue
        items.append("(%d%%N, (%s, mkTO %s %s))" % (c["id"], coq_tt(c), ob, vlib.cbool(wall <= bound_ms(c))))
    bad = {"BAD_TRACE": set(), "BAD_STATUS": set(), "BAD_TIME": set()}
    for rc, out, start, cnt in vlib.coq_eval_sharded(ctx.workdir, "cases_c13" + tag, HEADER, items, lambda: FOOTER, shard=500):
        if rc != 0:
            res.mismatches.append({"what": "cases.v did not evaluate", "detail": out[-1500:]})
            continue
        pr = vlib.coq_printed(out)
        for key in bad:
            if key not in pr:
                res.mismatches.append({"what": "cases.v output lacks " + key, "detail": out[-800:]})
            bad[key].update(vlib.nums(pr.get(key, "")))
        res.traces_validated += cnt
    return bad, info


def run(ctx):
    res = vlib.Result()
    res.rule = ("timeouts 100/250/500/1000 ms; an overrunning command (external `sleep 30`, shell busy loop, `sh -c` child ignoring SIGINT) at every "
                "position of 1..3 commands x allow_failure, in the 2nd of 3 variations, in before / after hooks and in the condition, after an "
                "earlier failing command; tasks where nothing overruns but the total exceeds the timeout.  One child process per case, real time.  "
                "Through the binary: the timeout written in the configuration file as 300ms / 0.3s / nanoseconds / 1s / 0h0m0.5s, task run directly, as a stage, "
                "as a stage with overrides, in a nested pipeline, as second target, via `run task`.  "
                "distinct = distinct task; non-trivial = at least one command overruns or the sum of durations exceeds the timeout.")
    allc = ctx.replay_cases if ctx.replay_cases else gen_cases(ctx) + cli_cases(ctx)
    cases = [c for c in allc if not c["kind"].startswith("cli-")]
    clic = [c for c in allc if c["kind"].startswith("cli-")]
    for k, c in enumerate(cases):
        c["id"] = k
    # --- through the binary: the timeout as written in a configuration file
    if clic:
        cbad, cinfo = judge_cli(ctx, clic, res)
        sus = sorted(set().union(*cbad.values()) | {k for k, i in cinfo.items() if "hung" in i})
        if sus and len(sus) <= 6:
            again = [clic[k] for k in sus]
            cbad2, cinfo2 = judge_cli(ctx, again, res)
            back = {i: k for i, k in enumerate(sus)}
            for key in cbad:
                cbad[key] = (cbad[key] - set(sus)) | {back[i] for i in cbad2[key]}
            for i, k in back.items():
                cinfo[k] = cinfo2[i]
        cwhat = {"BAD_TIME": "taskctl did not end within timeout + kill grace + slack although the configuration file gives the task a timeout",
                 "BAD_TRACE": "with the timeout written in the configuration file, the commands that were started differ from: everything up to the overrunning command, nothing after it (after hooks: all)",
                 "BAD_STATUS": "with the timeout written in the configuration file, taskctl's exit status does not say what the timeout rules say (failure iff a command overran)"}
        for k, c in enumerate(clic):
            res.evaluations += 1
            res.count(c["kind"] + ":" + c["mode"])
            res.nontrivial_keys.add(json.dumps(c, sort_keys=True))
            i = cinfo.get(k, {})
            if "hung" in i:
                res.violations.append({"class": None, "what": "taskctl crashed or did not end although the configuration file gives the task a timeout", "case": c, "observed": i})
            elif "orphan" in i:
                res.violations.append({"class": None, "what": "a command still running when the timeout expired was never terminated: it went on after taskctl had ended", "case": c, "observed": i})
            elif "unparsable" in i:
                res.mismatches.append({"what": "unparsable trace", "case": c, "observed": i})
        for key in ("BAD_TIME", "BAD_TRACE", "BAD_STATUS"):
            for k in sorted(cbad[key]):
                res.violations.append({"class": None, "what": cwhat[key], "case": clic[k], "observed": cinfo.get(k)})
    if not cases:
        res.samples = clic[:2]
        return res
    bad, info = judge(ctx, cases, res, "", workers=8)
    suspects = sorted(set().union(*bad.values()) | {cid for cid, i in info.items() if "crash" in i or "hung" in i or "unparsable" in i})
    if suspects:
        # once more, one at a time: a loaded machine must not be mistaken for a violation
        # (at most 8 of them: more than that is not a scheduling hiccup)
        retried = suspects[:8]
        again = [cases[cid] for cid in retried]
        bad2, info2 = judge(ctx, again, res, "_retry", workers=2)
        for key in bad:
            bad[key] = (bad[key] - set(retried)) | (bad[key] & bad2[key])
        for cid in retried:
            if cid in info2:
                info[cid] = info2[cid]
    for c in cases:
        res.evaluations += 1
        res.count(c["kind"])
        if n_overruns_reached(c) or c["kind"] == "within-sum-exceeds":
            res.nontrivial_keys.add(json.dumps({k: v for k, v in c.items() if k != "id"}, sort_keys=True))
        i = info.get(c["id"], {})
        if "crash" in i or "hung" in i:
            res.violations.append({"class": None, "what": "the run crashed or never returned", "case": c, "observed": i})
        elif "unparsable" in i:
            res.mismatches.append({"what": "unparsable trace", "case": c, "observed": i})
    whats = {"BAD_TIME": "a command still running when the timeout expired was not terminated within timeout + kill grace + slack",
             "BAD_TRACE": "the commands that were started differ from: everything up to the overrunning command, nothing after it (after hooks: all)",
             "BAD_STATUS": "the task was not reported as the timeout rules say (failed when a command overran, also with allow_failure; unaffected otherwise)"}
    for key in ("BAD_TIME", "BAD_TRACE", "BAD_STATUS"):
        for cid in sorted(bad[key]):
            res.violations.append({"class": None, "what": whats[key], "case": cases[cid], "observed": info.get(cid)})
    res.extra["max_wall_over_bound"] = max([i.get("wall_ms", 0) - i.get("bound_ms", 0) for i in info.values()] or [0])
    res.samples = [cases[0], cases[-1]]
    return res
