"""C12 - Cancellation is safe and prompt at any moment  (partial).
Theorems: Properties/C12.v (Model/Cancel.v).  Correspondence: the real TaskRunner / Scheduler in a child process per scenario
(engine `taskrun` via `harness child`), real external commands (sleep), Cancel injected at scripted moments."""
import json
import re
import vlib

TRUSTED = [
    "model Model/Cancel.v: Run/Cancel hand-shake (in-flight counter + condition variable), context checked before every command; environment rule: a command in progress when the context is cancelled ends",
    "NOT exhibited by the model, observed only: signals really terminate commands, mvdan/sh's 2 s kill grace, wall-clock bounds",
    "Go engine taskrun in a child process, python driver; sync.Mutex / sync.Cond / context as sequentially consistent primitives",
]
ASSUMPTIONS = ["commands are external processes that die on SIGINT/SIGKILL (sleep); bound for Cancel to return: 6 s (2 s kill grace + slack)"]

BOUND_MS = 6000


def cmd(r, k, dur):
    body = "sleep %s" % dur
    if str(dur).startswith("noint"):          # a child that ignores SIGINT: ends only by SIGKILL after the interpreter's 2 s grace
        body = "sh -c \"trap '' INT; n=0; while [ \\$n -lt 25000000 ]; do n=\\$((n+1)); done\""       # (no grandchild: one that kept the output pipe open would delay the return, which is outside the statement)
    if str(dur).startswith("survive"):        # a child that ignores SIGINT and ends BY ITSELF with status 0 shortly after the Cancel: the command completes;
        # it is the command's last statement, so nothing of this command is left to be interrupted - the NEXT command must not start, the task must report an error
        return 'echo "start.%d.%d $(date +%%s%%N)" >> "$TRACE"; sh -c "trap \'\' INT; sleep 0.7"' % (r, k)
    return 'echo "start.%d.%d $(date +%%s%%N)" >> "$TRACE"; %s; echo "end.%d.%d $(date +%%s%%N)" >> "$TRACE"' % (r, k, body, r, k)


def task(r, durs, before=None, timeout_ms=0, allow=False, condition=None):
    t = {"name": "t%d" % r, "commands": [cmd(r, k + (1 if before else 0), d) for k, d in enumerate(durs)],
         "before": [cmd(r, 0, before)] if before else [], "ncmds": len(durs) + (1 if before else 0)}
    if condition:          # the task's own condition is a command like the others: Cancel ends it, and a task interrupted there reports an error (it is not "skipped")
        t["condition"] = condition
    if timeout_ms:
        t["timeout_ms"] = timeout_ms
    if allow:
        t["allow"] = True          # allow_failure forgives exit statuses, not an interruption
    return t


def gen_cases(ctx):
    rng = vlib.rng_for(ctx.seed, "C12")
    cases = []

    def add(kind, tasks, plan):
        cases.append({"id": len(cases), "kind": kind, "dir": ctx.workdir, "tasks": tasks, "plan": plan, "format": "raw"})

    # before the run / after the last task finished / twice in a row / with nothing in flight
    add("cancel-before-run", [task(0, ["0.1"])], [{"op": "cancel_sync"}, {"op": "run", "tasks": [0]}])
    add("cancel-after-last-task", [task(0, ["0.05"])], [{"op": "run", "tasks": [0]}, {"op": "cancel_sync"}])
    add("cancel-twice-idle", [task(0, ["0.05"])], [{"op": "cancel_sync"}, {"op": "cancel_sync"}, {"op": "run", "tasks": [0]}])
    add("cancel-then-two-runs", [task(0, ["0.05"]), task(1, ["0.05"])], [{"op": "cancel_sync"}, {"op": "run", "tasks": [0, 1]}])
    # Cancel again after runs that the cancelled runner refused (each refused run must leave nothing behind for the next Cancel to wait for)
    add("cancel-run-cancel", [task(0, ["0.05"])], [{"op": "cancel_sync"}, {"op": "run", "tasks": [0]}, {"op": "cancel_sync"}])
    add("cancel-runs-cancel-cancel", [task(r, ["0.05"]) for r in range(3)],
        [{"op": "cancel_sync"}, {"op": "par", "tasks": [0, 1, 2]}, {"op": "cancel_sync"}, {"op": "run", "tasks": [1]}, {"op": "cancel_sync"}])
    add("run-cancel-run-cancel", [task(0, ["0.05"]), task(1, ["0.05"])],
        [{"op": "run", "tasks": [0]}, {"op": "cancel_sync"}, {"op": "run", "tasks": [1]}, {"op": "cancel_sync"}])
    # k tasks in flight, Cancel during the commands; once, and twice in a row
    for k in range(0, 5):
        for twice in (False, True):
            tasks = [task(r, ["30", "30"]) for r in range(k)]
            plan = [{"op": "cancel", "after_ms": 400}] + ([{"op": "cancel", "after_ms": 420}] if twice else []) + [{"op": "par", "tasks": list(range(k))}]
            add("in-flight-%d%s" % (k, "-twice" if twice else ""), tasks, plan)
    # two (three) Cancel calls ALL waiting at the moment the last run ends: the commands ignore SIGINT, so the runs end ~2 s after the first Cancel
    for k in (1, 2):
        for nc in (2, 3):
            add("cancels-all-waiting-%d-%d" % (k, nc), [task(r, ["noint30", "30"]) for r in range(k)],
                [{"op": "cancel", "after_ms": 300 + 60 * j} for j in range(nc)] + [{"op": "par", "tasks": list(range(k))}])
    # Cancel takes effect BETWEEN two commands: the command in progress survives the interruption and completes, the next one must not start
    for k in (1, 2):
        for allow in (False, True):
            add("survivor-then-next-%d%s" % (k, "-allow" if allow else ""), [task(r, ["survive", "30", "0.1"], allow=allow) for r in range(k)],
                [{"op": "cancel", "after_ms": 300}, {"op": "par", "tasks": list(range(k))}])
    # tasks with allow_failure in flight: an interrupted task still reports an error and starts nothing more
    for k in (1, 2):
        add("in-flight-allow-failure-%d" % k, [task(r, ["30", "30", "0.1"], allow=True) for r in range(k)],
            [{"op": "cancel", "after_ms": 400}, {"op": "par", "tasks": list(range(k))}])
    add("pipeline-allow-failure", [task(0, ["30", "0.1"], allow=True), task(1, ["0.05"])],
        [{"op": "cancel", "after_ms": 400}, {"op": "pipeline", "stages": [{"task": 0, "deps": []}, {"task": 1, "deps": [0]}]}])
    # tasks that declare a timeout (far away): Cancel must interrupt them all the same
    for k in (1, 3):
        add("in-flight-with-timeout-%d" % k, [task(r, ["30", "30"], timeout_ms=25000) for r in range(k)],
            [{"op": "cancel", "after_ms": 400}, {"op": "par", "tasks": list(range(k))}])
    add("before-hook-with-timeout", [task(0, ["0.1"], before="30", timeout_ms=25000)], [{"op": "cancel", "after_ms": 300}, {"op": "run", "tasks": [0]}])
    # during the task's CONDITION: a plain command, and one whose work happens inside a command substitution
    for k in (1, 2):
        add("during-condition-%d" % k, [task(r, ["0.1", "0.1"], condition="sleep 30") for r in range(k)], [{"op": "cancel", "after_ms": 300}, {"op": "par", "tasks": list(range(k))}])
    add("during-condition-substitution", [task(0, ["0.1"], condition='[ "$(sleep 30; echo go)" = go ]')], [{"op": "cancel", "after_ms": 300}, {"op": "run", "tasks": [0]}])
    add("during-condition-pipeline", [task(0, ["0.1"], condition='[ "$(sleep 30; echo go)" = go ]'), task(1, ["0.05"])],
        [{"op": "cancel", "after_ms": 300}, {"op": "pipeline", "stages": [{"task": 0, "deps": []}, {"task": 1, "deps": [0]}]}])
    # during a before hook
    add("during-before-hook", [task(0, ["0.1", "0.1"], before="30")], [{"op": "cancel", "after_ms": 300}, {"op": "run", "tasks": [0]}])
    # between commands: short commands, Cancel at varying offsets
    for off in ([60, 130, 200, 270, 340, 480] if ctx.tier == "thorough" else [60, 200, 340]):
        add("between-commands", [task(0, ["0.12", "0.12", "0.12", "0.12"]), task(1, ["0.1", "0.1", "0.1"])],
            [{"op": "cancel", "after_ms": off}, {"op": "par", "tasks": [0, 1]}])
    # pipelines: k stages in flight, w stages waiting; Cancel from outside and from a stage-condition error
    for k in range(0, 5):
        for w in ([0, 1, 3] if ctx.tier != "thorough" else [0, 1, 2, 3]):
            if k == 0 and w > 0:
                continue
            tasks = [task(r, ["30"]) for r in range(k)] + [task(k + r, ["0.05"]) for r in range(w)]
            stages = [{"task": r, "deps": []} for r in range(k)] + [{"task": k + r, "deps": [rng.randrange(k)]} for r in range(w)]
            add("pipeline-ext-%d-%d" % (k, w), tasks, [{"op": "cancel", "after_ms": 500}, {"op": "pipeline", "stages": stages}])
            st2 = [dict(s) for s in stages] + [{"task": 0 if k else 0, "deps": [], "cond": "/nonexistent/verif-no-such-command"}]
            tasks2 = tasks if tasks else [task(0, ["0.05"])]
            add("pipeline-conderr-%d-%d" % (k, w), tasks2, [{"op": "pipeline", "stages": st2}])
            # ... and a Cancel from outside once the pipeline run has returned (the user's ^C arriving late)
            if w in (0, 3):
                add("pipeline-conderr-then-cancel-%d-%d" % (k, w), tasks2, [{"op": "pipeline", "stages": st2}, {"op": "cancel_sync"}])
                add("pipeline-ext-then-cancel-%d-%d" % (k, w), tasks, [{"op": "cancel", "after_ms": 500}, {"op": "pipeline", "stages": stages}, {"op": "cancel_sync"}])
    # Scheduler.Cancel has COMPLETED before the pipeline run is started: nothing is started any more - no task, and no stage-condition program either
    # (the program leaves a mark when it is run); stages that allow failure included
    for allow in (False, True):
        add("sched-cancelled-before-run%s" % ("-allow" if allow else ""), [task(0, ["0.05"]), task(1, ["0.05"]), task(2, ["0.05"])],
            [{"op": "pipeline", "after_ms": -1, "stages": [{"task": 0, "deps": [], "allow": allow, "cond": "@CONDPROG@"}, {"task": 1, "deps": [0], "allow": allow},
                                                          {"task": 2, "deps": [], "allow": allow}]}])
    return cases


TOK = re.compile(r"(start|end)\.(\d+)\.(\d+) (\d+)")

HEADER = """From Coq Require Import List Arith NArith Bool. Import ListNotations.
From TaskctlV Require Import Corr.CancelCorr.
"""
FOOTER = """
Definition BAD := Eval vm_compute in map fst (filter (fun c => negb (c12_mon (snd c))) cases).
Print BAD.
"""


def run(ctx):
    res = vlib.Result()
    res.rule = ("scenarios of the statement: Cancel before the run, after the last task finished, twice with nothing in flight, during a before hook, "
                "between commands (several offsets), with 0..4 tasks in flight (once and twice in a row), pipelines with 0..4 stages in flight and "
                "0..3 waiting cancelled from outside and by a stage-condition error; a command that survives the interruption and completes (Cancel takes effect between two commands); "
                "Cancel again after refused runs; a stage-condition error inside / next to a nested pipeline through the binary; one child process per scenario, real `sleep` commands.  "
                "distinct = distinct scenario; non-trivial = at least one task in flight or one waiting stage or a Cancel with nothing in flight.")
    # cancellation from a stage-condition error inside / next to a NESTED pipeline, through the binary: the pipeline run returns
    import schedlib
    if ctx.replay_cases and any(c.get("kind") == "nested-conderr-cli" for c in ctx.replay_cases):
        schedlib.nested_conderr_cli(ctx, res)
        ctx.replay_cases = [c for c in ctx.replay_cases if c.get("kind") != "nested-conderr-cli"]
        if not ctx.replay_cases:
            res.samples = [{"replayed_sections": ["nested-conderr-cli"]}]
            return res
    elif not ctx.replay_cases:
        schedlib.nested_conderr_cli(ctx, res)
    cases = ctx.replay_cases if ctx.replay_cases else gen_cases(ctx)
    import os
    for k, c in enumerate(cases):
        c["id"] = k
        c["dir"] = ctx.workdir
        for p_ in c["plan"]:
            for st in p_.get("stages", []):
                if st.get("cond", "").startswith("@CONDPROG@") or st.get("cond", "").endswith(".condprog.sh"):
                    prog = os.path.join(ctx.workdir, "c12_%d.condprog.sh" % k)
                    os.makedirs(ctx.workdir, exist_ok=True)
                    with open(prog, "w") as fh:
                        fh.write('#!/bin/sh\necho "start.9.0 $(date +%%s%%N)" >> "%s.marks"\nexit 0\n' % prog)
                    os.chmod(prog, 0o755)
                    if os.path.exists(prog + ".marks"):
                        os.remove(prog + ".marks")
                    st["cond"] = prog
    obs = vlib.run_children(ctx.workdir, "taskrun", cases, timeout=35)
    items = []
    for c in cases:
        o = obs[c["id"]]
        res.evaluations += 1
        res.count(c["kind"].split("-")[0])
        res.nontrivial_keys.add(c["kind"] + json.dumps(c["plan"]))
        crashed = "child_crash" in o or bool(o.get("panic"))
        hung = bool(o.get("child_timeout")) or bool(o.get("hung"))
        ncalls = o.get("cancel_calls", 0)
        cms = o.get("cancel_ms") or []
        has_conderr = any(st.get("cond") for p in c["plan"] for st in p.get("stages", []))
        cancels_ok = (len(cms) == ncalls) and all(ms <= BOUND_MS for ms in cms)
        pipes = [p for p in c["plan"] if p["op"] == "pipeline"]
        if pipes and not crashed and not hung:
            cancels_ok = cancels_ok and len(o.get("pipe_err") or []) == len(pipes)      # the pipeline run returned
        marks = []
        for p_ in c["plan"]:
            for st in p_.get("stages", []):
                if st.get("cond", "").endswith(".condprog.sh") and os.path.exists(st["cond"] + ".marks"):
                    marks += open(st["cond"] + ".marks").read().split("\n")
        toks = TOK.findall("\n".join((o.get("trace") or []) + marks))
        first_cancel = min(o.get("cancel_done_ns") or [0]) if o.get("cancel_done_ns") else None
        late = sum(1 for kind, r, k, ts in toks if kind == "start" and first_cancel is not None and int(ts) > first_cancel)
        runs = []
        byrun = {}
        for r in o.get("results") or []:
            byrun.setdefault(r["task"], []).append(r)
        for ti, t in enumerate(c["tasks"]):
            for r in byrun.get(ti, []):
                started = len({k for kind, rr, k, ts in toks if kind == "start" and int(rr) == ti})
                ended = len({k for kind, rr, k, ts in toks if kind == "end" and int(rr) == ti})
                err = bool(r["err"]) or bool(r.get("errored"))
                ran_as_stage = r.get("step") is not None and c["plan"][r["step"]]["op"] == "pipeline"
                if ran_as_stage and started == 0 and not err:
                    continue        # a stage that was never started (waiting / cancelled) has no run to report on
                runs.append("(mkCR %d %d %d %s)" % (t["ncmds"], started, ended, vlib.cbool(err)))
        items.append("(%d%%N, mkC12 %s %s %s %d %s)" % (c["id"], vlib.cbool(crashed), vlib.cbool(hung), vlib.cbool(cancels_ok), late, "[" + "; ".join(runs) + "]"))
        c["_summary"] = {"crashed": crashed, "hung": hung, "cancel_ms": cms, "cancel_calls": ncalls, "late_starts": late, "runs": runs}
    bad = set()
    for rc, out, start, cnt in vlib.coq_eval_sharded(ctx.workdir, "cases_c12", HEADER, items, lambda: FOOTER, shard=500):
        if rc != 0:
            res.mismatches.append({"what": "cases.v did not evaluate", "detail": out[-1500:]})
            continue
        pr = vlib.coq_printed(out)
        if "BAD" not in pr:
            res.mismatches.append({"what": "cases.v output lacks BAD", "detail": out[-800:]})
        bad.update(vlib.nums(pr.get("BAD", "")))
        res.traces_validated += cnt
    for cid in sorted(bad):
        c = cases[cid]
        sm = c.pop("_summary", {})
        what = ("the process crashed during cancellation" if sm.get("crashed") else
                "cancellation dead-locked / did not finish within the bound" if sm.get("hung") or len(sm.get("cancel_ms", [])) != sm.get("cancel_calls") else
                "Cancel took longer than the bound" if any(ms > BOUND_MS for ms in sm.get("cancel_ms", [])) else
                "a command was started after Cancel had returned" if sm.get("late_starts") else
                "an interrupted or not-started task reported success / the pipeline run did not return")
        res.violations.append({"class": None, "what": what, "case": c, "observed": obs[cid], "detail": sm})
    for c in cases:
        c.pop("_summary", None)
    res.samples = [cases[0], cases[8]]
    return res
