"""C18 - A configuration that loads has no dangling references.
Theorems: Properties/C18.v (Model/Build.v, Model/Graph.v, Model/Sched.v).  Correspondence: the taskctl binary on generated
configurations in which exactly one reference of each kind is broken, at every position, and on the same configurations
with the reference repaired; every pipeline of every accepted configuration is then run under a time limit."""
import json
import re
import vlib
import clilib

TRUSTED = [
    "model Model/Build.v: buildFromDefinition / buildPipeline / buildWatcher reduced to names and references; the graph builder is Model/Graph.v (C05); to_config maps an accepted stage list to the scheduler LTS of Model/Sched.v",
    "yaml/mapstructure decoding of the generated (well-shaped) documents; python driver running the built binary",
]
ASSUMPTIONS = ["names are non-empty; task commands succeed, so a pipeline of an accepted configuration must exit 0"]


def gen_valid(rng):
    ntasks = rng.randint(2, 5)
    tasks = ["t%d" % i for i in range(ntasks)]
    npipes = rng.randint(1, 4)
    pipes = {}
    for p in range(npipes):
        nst = rng.randint(1, 5)
        stages = []
        names = []
        for k in range(nst):
            st = {}
            if p > 0 and rng.random() < 0.3:
                st["pipeline"] = "p%d" % rng.randrange(p)         # inclusion only of earlier pipelines: acyclic
            else:
                st["task"] = rng.choice(tasks)
            ref = st.get("pipeline") or st.get("task")
            if ref in names or rng.random() < 0.3:
                st["name"] = "s%d_%d" % (p, k)
            nm = st.get("name") or ref
            deps = [n for n in names if rng.random() < 0.4]
            if deps:
                st["depends_on"] = deps
            names.append(nm)
            stages.append(st)
        # declaration order is independent of dependency order: forward references are legal
        if rng.random() < 0.5:
            rng.shuffle(stages)
        pipes["p%d" % p] = stages
        if rng.random() < 0.25:
            # a stage naming BOTH a task and a pipeline runs the task (the pipeline key only names it): even its own pipeline is fine there
            stages.append({"task": rng.choice(tasks), "pipeline": "p%d" % rng.randrange(p + 1), "name": "both%d" % p})
    watchers = {}
    for w in range(rng.choice([0, 0, 1, 2])):
        watchers["w%d" % w] = {"watch": ["*.txt"], "task": rng.choice(tasks)}
    return {"tasks": tasks, "pipelines": pipes, "watchers": watchers}


def stage_name(st):
    return st.get("name") or st.get("pipeline") or st.get("task")


def breakages(cfg):
    """every single-reference breakage, at every position: yields (kind, mutated cfg)"""
    def clone():
        return json.loads(json.dumps(cfg))
    for p, stages in cfg["pipelines"].items():
        for k, st in enumerate(stages):
            if "task" in st:
                c = clone()
                c["pipelines"][p][k]["task"] = "nosuchtask"
                c["pipelines"][p][k].setdefault("name", stage_name(st))
                yield "stage->task", c
            if "pipeline" in st and "task" not in st:      # (with a task given the pipeline key is not a reference)
                c = clone()
                c["pipelines"][p][k]["pipeline"] = "nosuchpipeline"
                c["pipelines"][p][k].setdefault("name", stage_name(st))
                yield "stage->pipeline", c
            # an unknown name at EVERY position of the depends_on list
            nd = len(st.get("depends_on", []))
            for pos in range(nd + 1):
                c = clone()
                c["pipelines"][p][k].setdefault("depends_on", []).insert(pos, "nosuchstage")
                yield "depends_on->stage", c
            # ... and a BLANK name (a stray `-` in a YAML list) first or last: it names no stage either
            for pos in sorted({0, nd}):
                c = clone()
                c["pipelines"][p][k].setdefault("depends_on", []).insert(pos, "")
                yield "depends_on->blank", c
            # the effective name of another stage reached through the DEFAULT (task / pipeline name) of an unnamed stage
            other = stages[(k + 1) % len(stages)]
            if len(stages) > 1:
                ref = other.get("pipeline") or other.get("task")
                c = clone()
                c["pipelines"][p][k]["name"] = ref            # k is named like the default name of ...
                c["pipelines"][p][k]["depends_on"] = []
                c["pipelines"][p].append({("pipeline" if "pipeline" in other else "task"): ref})   # ... an unnamed stage added at the end
                for st2 in c["pipelines"][p]:
                    if st2.get("depends_on"):
                        st2["depends_on"] = [d for d in st2["depends_on"] if d != stage_name(st)]
                yield "duplicate-name", c
            c = clone()
            ref = st.get("pipeline") or st.get("task")
            c["pipelines"][p].append({("pipeline" if "pipeline" in st else "task"): ref})
            c["pipelines"][p].append({("pipeline" if "pipeline" in st else "task"): ref})          # two unnamed stages of the same task
            yield "duplicate-name", c
            if k > 0:
                c = clone()
                c["pipelines"][p][k]["name"] = stage_name(stages[0])
                c["pipelines"][p][k]["depends_on"] = [d for d in st.get("depends_on", []) if d != stage_name(stages[0])]
                yield "duplicate-name", c
    for w in cfg["watchers"]:
        c = clone()
        c["watchers"][w]["task"] = "nosuchtask"
        yield "watcher->task", c
    pn = sorted(cfg["pipelines"])
    # inclusion cycles closed by an include that is NOT the pipeline's first one (a harmless include of an acyclic pipeline comes first)
    for L in (1, 2, 3):
        if len(pn) >= L:
            c = clone()
            c["pipelines"]["zcommon"] = [{"task": cfg["tasks"][0]}]
            ring = pn[:L]
            for i, p in enumerate(ring):
                c["pipelines"][p].append({"pipeline": "zcommon", "name": "cm%d" % i})
                c["pipelines"][p].append({"pipeline": ring[(i + 1) % L], "name": "inc%d" % i})
            yield "inclusion-cycle-%d" % L, c
    # inclusion cycles of length 1, 2, 3 appended as extra stages
    for L in (1, 2, 3):
        if len(pn) >= L:
            c = clone()
            ring = pn[:L]
            for i, p in enumerate(ring):
                c["pipelines"][p].append({"pipeline": ring[(i + 1) % L], "name": "inc%d" % i})
            yield "inclusion-cycle-%d" % L, c


def to_doc(cfg):
    # every task leaves a mark: running a pipeline runs the tasks of the pipelines it includes too
    # (every other task is SHOWN under a name of its own: references go by the key it is defined under)
    return {"tasks": {t: dict({"command": ['touch "$PROJ/ran.%s"' % t]}, **({"name": "shown-as-" + t} if k % 2 else {})) for k, t in enumerate(cfg["tasks"])},
            "pipelines": cfg["pipelines"], "watchers": cfg["watchers"]}


def tasks_of(cfg, p, seen=()):
    """the tasks a run of pipeline p executes: its task stages and, through its including stages, those of the included pipelines"""
    out = set()
    for st in cfg["pipelines"].get(p, []):
        if st.get("task"):
            out.add(st["task"])
        elif st.get("pipeline", "") in cfg["pipelines"] and st.get("pipeline", "") not in seen:
            out |= tasks_of(cfg, st.get("pipeline", ""), seen + (p,))
    return out


class Names:
    def __init__(self):
        self.m = {"": 0}

    def n(self, s):
        if s not in self.m:
            self.m[s] = len(self.m) + 9
        return self.m[s]


def coq_def(cfg):
    N = Names()
    ps = []
    for p, stages in cfg["pipelines"].items():
        sts = ["(mkSD %d %d %d %s)" % (N.n(st.get("name", "")), N.n(st.get("task", "")), N.n(st.get("pipeline", "")),
                                       vlib.clist([N.n(d) for d in st.get("depends_on", [])], str)) for st in stages]
        ps.append("(%d, %s)" % (N.n(p), vlib.clist(sts)))
    ws = ["(%d, %d)" % (N.n(w), N.n(d["task"])) for w, d in cfg["watchers"].items()]
    return "(mkDef %s %s %s)" % (vlib.clist([N.n(t) for t in cfg["tasks"]], str), vlib.clist(ps), vlib.clist(ws))


def gen_cases(ctx):
    rng = vlib.rng_for(ctx.seed, "C18")
    cases = []
    nvalid = 150 if ctx.tier == "thorough" else 40
    for _ in range(nvalid):
        cfg = gen_valid(rng)
        cases.append({"id": len(cases), "kind": "valid", "cfg": cfg, "expect": True})
        for kind, c in breakages(cfg):
            cases.append({"id": len(cases), "kind": kind, "cfg": c, "expect": False})
    # hand-written corner cases
    cases.append({"id": len(cases), "kind": "inclusion-cycle-1", "expect": False,
                  "cfg": {"tasks": ["t0"], "pipelines": {"p0": [{"pipeline": "p0"}]}, "watchers": {}}})
    cases.append({"id": len(cases), "kind": "valid", "expect": True,
                  "cfg": {"tasks": ["t0"], "pipelines": {"p0": [{"task": "t0"}, {"task": "t0", "name": "again", "depends_on": ["t0"]}], "p1": [{"pipeline": "p0"}, {"pipeline": "p0", "name": "twice"}]}, "watchers": {}}})
    cases.append({"id": len(cases), "kind": "depends_on->stage", "expect": False,
                  "cfg": {"tasks": ["t0", "t1"], "pipelines": {"p0": [{"task": "t0", "depends_on": ["t1"]}], "p1": [{"task": "t1"}]}, "watchers": {}}})   # a stage of ANOTHER pipeline
    # a pipeline whose name is the empty string is a pipeline like any other: a stage naming neither a task nor a pipeline refers to it
    cases.append({"id": len(cases), "kind": "inclusion-cycle-1", "expect": False,
                  "cfg": {"tasks": ["t0"], "pipelines": {"": [{"name": "x"}]}, "watchers": {}}})
    cases.append({"id": len(cases), "kind": "inclusion-cycle-2", "expect": False,
                  "cfg": {"tasks": ["t0"], "pipelines": {"": [{"name": "x", "pipeline": "p1"}], "p1": [{"name": "y"}]}, "watchers": {}}})
    cases.append({"id": len(cases), "kind": "valid", "expect": True,
                  "cfg": {"tasks": ["t0"], "pipelines": {"": [{"task": "t0"}], "p1": [{"name": "y"}, {"task": "t0", "depends_on": ["y"]}]}, "watchers": {}}})
    return cases


HEADER = """From Coq Require Import List Arith Bool. Import ListNotations.
From TaskctlV Require Import Model.Build Corr.BuildCorr.
"""
FOOTER = """
Definition BAD := Eval vm_compute in bad_ids build_ok cases.
Print BAD.
"""


def run(ctx):
    res = vlib.Result()
    res.rule = ("generated valid configurations (2..5 tasks, 1..4 pipelines of 1..5 stages, inclusion of earlier pipelines, explicit and default stage names, "
                "watchers); for each: every single breakage at every position - stage->task, stage->pipeline, depends_on->stage, duplicate stage name, "
                "watcher->task, inclusion cycle of length 1, 2, 3 - and the unbroken original; every pipeline of every accepted configuration is run "
                "(10 s limit).  distinct = distinct configuration; non-trivial = a configuration with a broken reference, or a valid one with >= 2 stages.")
    cases = ctx.replay_cases if ctx.replay_cases else gen_cases(ctx)
    for k, c in enumerate(cases):
        c["id"] = k
    jobs = [{"id": c["id"], "files": {"cfg.yaml": json.dumps(to_doc(c["cfg"])), "a.txt": "x"}, "argv": ["-c", "cfg.yaml", "list"], "timeout": 15} for c in cases]
    out = clilib.run_cli(ctx.workdir, jobs, timeout=15)
    items = []
    accepted = []
    for c in cases:
        r = out[c["id"]]
        res.evaluations += 1
        res.count(c["kind"])
        if c["kind"] != "valid" or sum(len(s) for s in c["cfg"]["pipelines"].values()) >= 2:
            res.nontrivial_keys.add(json.dumps(c["cfg"], sort_keys=True))
        if r["timeout"] or clilib.crashed(r):
            res.violations.append({"class": None, "what": "loading the configuration crashed or did not end", "case": c, "observed": (r.get("err") or "")[-800:]})
            continue
        acc = r["rc"] == 0
        c["_acc"] = acc
        if acc:
            accepted.append(c)
        items.append("(%d, (%s, %s))" % (c["id"], coq_def(c["cfg"]), vlib.cbool(acc)))
        # oracle by construction: exactly one reference was broken -> must be rejected; nothing broken -> must be accepted
        if acc != c["expect"]:
            res.violations.append({"class": None,
                                   "what": ("a configuration with a dangling reference (%s) was accepted" % c["kind"]) if acc else "a well-formed configuration was rejected",
                                   "case": c, "observed": {"rc": r["rc"], "err": (r.get("err") or "")[-400:]}})
    bad = set()
    for rc, o, start, cnt in vlib.coq_eval_sharded(ctx.workdir, "cases_c18", HEADER, items, lambda: FOOTER, shard=300):
        if rc != 0:
            res.mismatches.append({"what": "cases.v did not evaluate", "detail": o[-1500:]})
            continue
        pr = vlib.coq_printed(o)
        if "BAD" not in pr:
            res.mismatches.append({"what": "cases.v output lacks BAD", "detail": o[-800:]})
        bad.update(vlib.nums(pr.get("BAD", "")))
        res.traces_validated += cnt
    flagged = {v["case"]["id"] for v in res.violations if isinstance(v.get("case"), dict) and "id" in v["case"]}
    for cid in sorted(bad - flagged):
        res.mismatches.append({"what": "accept/reject differs from the model of the builder", "case": {k: v for k, v in cases[cid].items() if k != "_acc"}, "observed": cases[cid].get("_acc")})
    # ---- run every pipeline of every accepted configuration ----
    rjobs = []
    for c in accepted:
        for p in c["cfg"]["pipelines"]:
            rjobs.append({"id": len(rjobs), "files": {"cfg.yaml": json.dumps(to_doc(c["cfg"])), "a.txt": "x"}, "argv": ["-c", "cfg.yaml", "--raw", "run", "pipeline", p],
                          "timeout": 10, "case": c["id"], "pipeline": p, "keepglob": "ran.*"})
            rjobs.append({"id": len(rjobs), "files": {"cfg.yaml": json.dumps(to_doc(c["cfg"])), "a.txt": "x"}, "argv": ["-c", "cfg.yaml", "graph", p],
                          "timeout": 10, "case": c["id"], "pipeline": p})
    rout = clilib.run_cli(ctx.workdir + "/run", rjobs, timeout=10)
    for j in rjobs:
        r = rout[j["id"]]
        res.evaluations += 1
        res.count("run" if "run" in j["argv"] else "graph")
        c = {k: v for k, v in cases[j["case"]].items() if k != "_acc"}
        if r["timeout"]:
            res.violations.append({"class": None, "what": "`%s` of an accepted configuration did not end (hang)" % " ".join(j["argv"][2:]), "case": c, "observed": {"pipeline": j["pipeline"]}})
        elif clilib.crashed(r) or r["rc"] != 0:
            res.violations.append({"class": None, "what": "`%s` of an accepted configuration aborted" % " ".join(j["argv"][2:]), "case": c,
                                   "observed": {"pipeline": j["pipeline"], "rc": r["rc"], "err": (r.get("err") or "")[-500:]}})
        elif "run" in j["argv"] and {fn[4:] for fn in r["files"]} != tasks_of(cases[j["case"]]["cfg"], j["pipeline"]):
            res.violations.append({"class": None, "what": "`run pipeline %s` of an accepted configuration did not run exactly the tasks of its stages and of the pipelines it includes" % j["pipeline"], "case": c,
                                   "observed": {"ran": sorted(fn[4:] for fn in r["files"]), "expected": sorted(tasks_of(cases[j["case"]]["cfg"], j["pipeline"]))}})
        elif "graph" in j["argv"]:
            # the drawing shows every declared dependency of the pipeline's own stages (also those of a stage that includes a pipeline)
            txt = r.get("out") or ""
            labels = dict(re.findall(r'(n\d+)\[label="([^"]*)"\]', txt))
            drawn = {(labels.get(a, a), labels.get(b, b)) for a, b in re.findall(r"(n\d+)->(n\d+)", txt)}
            declared = {(d, stage_name(st)) for st in cases[j["case"]]["cfg"]["pipelines"][j["pipeline"]] for d in st.get("depends_on", [])}
            if not declared <= drawn:
                res.violations.append({"class": None, "what": "`graph %s` does not show every declared dependency" % j["pipeline"], "case": c,
                                       "observed": {"missing": sorted(declared - drawn), "drawn": sorted(drawn)}})
    for c in cases:
        c.pop("_acc", None)
    res.samples = [cases[0], cases[min(5, len(cases) - 1)]]
    return res
