"""C07 - Reported status is faithful: exit codes, errors and the process exit status.
Theorems: Properties/C07.v.  Correspondence: engine `taskrun` (every status 0..255 at every position, direct and as stage)
and the taskctl binary with 1..3 targets in every order."""
import itertools
import json
import vlib
import tasklib
import clilib
from props import c06

TRUSTED = c06.TRUSTED + ["model Model/Cli.v: the target loops of rootAction / run / run task; main exits 1 through logrus.Fatal",
                         "python driver running the built binary (lib/clilib.py)"]
ASSUMPTIONS = ["exit statuses 0..255 (exit 256 etc. wrap in the shell and are outside the statement)"]


def gen_task_cases(ctx):
    rng = vlib.rng_for(ctx.seed, "C07")
    cases = []
    # every status 0..255 at every position of 1..3-command tasks, with and without allow_failure
    for n in range(0, 256):
        for ncmds in (1, 2, 3):
            poss = range(ncmds) if (ctx.tier == "thorough" or n in (0, 1, 2, 126, 127, 128, 129, 130, 143, 200, 254, 255)) else [n % ncmds]
            for pos in poss:
                for allow in (False, True):
                    jobs = [[(("exit", n) if c == pos else ("exit", 0), []) for c in range(ncmds)]]
                    cases.append({"id": len(cases), "kind": "status", "a": {"cond": None, "before": [], "jobs": jobs, "after": [], "allow": allow, "novar": True}})
    for _ in range(600 if ctx.tier == "thorough" else 150):
        cases.append({"id": len(cases), "kind": "rand", "a": tasklib.rand_abstract(rng, rng.randint(1, 4), rng.randint(1, 3), novar=rng.random() < 0.3)})
    return cases


NAMES = {1: "ok1", 2: "ok2", 3: "bad", 4: "pok", 5: "pbad", 6: "allowbad", 7: "ppar", 8: "ptol", 9: "flaky", 10: "pgate", 11: "pgatetol"}
# what a target leaves in the trace file; ptol is a pipeline whose only stage runs `flaky` with allow_failure (the pipeline succeeds; the
# task itself stays a failing task: target 9); pgate is a pipeline one of whose stages has a condition that cannot be evaluated: it
# fails, leaves no token, and is recognised by the scheduler's error message
# pgatetol: the same with allow_failure on that stage: the pipeline is not failed (the existing TestConditionErroredStage wants that), but the
# scheduler has cancelled the runner, so every LATER target is refused (`context canceled`): it did not succeed, the process must fail.
# Such a refused target is judged as pseudo-target 12.
TOKEN = {1: "ok1", 2: "ok2", 3: "bad", 4: "pok", 5: "pbad", 6: "allowbad", 7: "ppar", 8: "flaky", 9: "flaky", 10: None, 11: None, 12: None}
BAD = [3, 5, 7, 9, 10, 12]
NOCMD = "/nonexistent/verif-no-such-command"


def cli_cases(ctx):
    """targets: 1 ok1, 2 ok2, 3 bad (exit 3), 4 pok (pipeline ok), 5 pbad (pipeline with a failing stage), 6 allowbad (fails, allowed)"""
    names = dict(NAMES)
    doc = {"tasks": {
        "ok1": {"command": ['echo ok1 >> "$PROJ/trace"']}, "ok2": {"command": ['echo ok2 >> "$PROJ/trace"']},
        "bad": {"command": ['echo bad >> "$PROJ/trace"; exit 3']},
        "allowbad": {"command": ['echo allowbad >> "$PROJ/trace"; exit 4'], "allow_failure": True},
        "s1": {"command": ["true"]}, "sbad": {"command": ["exit 9"]},
        "pokm": {"command": ['echo pok >> "$PROJ/trace"']}, "pbadm": {"command": ['echo pbad >> "$PROJ/trace"']},
        "flaky": {"command": ['echo flaky >> "$PROJ/trace"; exit 3', 'echo flaky-went-on >> "$PROJ/trace"']},
        "pparm": {"command": ['echo ppar >> "$PROJ/trace"']}, "qfail": {"command": ["exit 3"]}, "slowok": {"command": ["sleep 0.4"]}, "slowok2": {"command": ["sleep 0.2"]}},
        "pipelines": {"pok": [{"task": "pokm"}, {"task": "s1", "depends_on": ["pokm"]}],
                      "pbad": [{"task": "pbadm"}, {"task": "sbad", "depends_on": ["pbadm"]}, {"task": "s1", "depends_on": ["sbad"]}],
                      # a failure followed by parallel stages that succeed LATER: the pipeline still failed
                      "ptol": [{"task": "flaky", "allow_failure": True}, {"task": "s1", "depends_on": ["flaky"]}],
                      "pgate": [{"task": "s1", "condition": NOCMD}],
                      "pgatetol": [{"task": "s1", "condition": NOCMD, "allow_failure": True}],
                      "ppar": [{"task": "pparm"}, {"task": "qfail", "depends_on": ["pparm"]}, {"task": "slowok", "depends_on": ["pparm"]}, {"task": "slowok2", "depends_on": ["pparm"]}]}}
    jobs = []
    seqs = []
    for k in (1, 2, 3):
        seqs += list(itertools.product([1, 2, 3, 4, 5, 6, 7, 8, 9, 10, 11], repeat=k))
    # a pipeline target is named at most once per command line: the statuses of a graph are never reset, so a second
    # run of the same graph object does nothing (recorded in DESIGN.md section 7 as outside the properties)
    seqs = [s for s in seqs if all(s.count(p) <= 1 for p in (4, 5, 7, 8, 10, 11)) and not (10 in s and 11 in s)]     # (10 and 11 are told apart by position only)
    rng = vlib.rng_for(ctx.seed, "C07cli")
    if ctx.tier != "thorough":
        seqs = [s for s in seqs if len(s) <= 2] + [(8, 9, 1), (8, 9, 2), (1, 8, 9), (10, 1, 2), (1, 10, 2), (8, 10, 1), (11, 1, 2), (1, 11, 2), (11, 6, 1)] + rng.sample([s for s in seqs if len(s) == 3], 80)
    for s in seqs:
        forms = ["root", "run"] + (["runtask"] if all(t in (1, 2, 3, 6, 9) for t in s) else [])
        for form in (forms if ctx.tier == "thorough" or len(s) <= 2 else [rng.choice(forms)]):
            argv = ["-c", "cfg.json", "--raw"] + {"root": [], "run": ["run"], "runtask": ["run", "task"]}[form] + [names[t] for t in s]
            jobs.append({"id": len(jobs), "files": {"cfg.json": clilib.jcfg(doc)}, "argv": argv, "keep": ["trace"], "targets": list(s), "form": form})
    return jobs


HEADER_CLI = """From Coq Require Import List Arith NArith Bool. Import ListNotations.
From TaskctlV Require Import Model.Cli Corr.CliCorr.
"""
FOOTER_CLI = """
Definition BAD := Eval vm_compute in map fst (filter (fun c => negb (snd c)) cases).
Print BAD.
"""


def run(ctx):
    res = vlib.Result()
    res.rule = ("tasks: every exit status 0..255 at command positions of 1..3-command tasks, with/without allow_failure (all positions for "
                "the boundary statuses, every position in thorough), random tasks; the same judged for Errored/Skipped/ExitCode/error.  "
                "process: every sequence of 1..2 targets (sample of 3; all in thorough) over {ok, ok, failing task, ok pipeline, failing "
                "pipeline, allowed-failure task, a pipeline whose stage allows the failure of a task, that task itself, a pipeline with a stage condition that cannot be evaluated} through `taskctl T..`, `taskctl run T..`, `taskctl run task T..`: which targets ran, exit "
                "status.  distinct = distinct case; non-trivial = a non-zero status or >= 2 targets.")
    if ctx.replay_cases:
        tcases = [c for c in ctx.replay_cases if "a" in c]
        jobs = [c for c in ctx.replay_cases if "argv" in c]
    else:
        tcases = gen_task_cases(ctx)
        jobs = cli_cases(ctx)
    for k, c in enumerate(tcases):
        c["id"] = k
    bad, obs = c06.evaluate(ctx, tcases, res, tag="c07")
    for c in tcases:
        if any(r[0] != "exit" or r[1] != 0 for v in c["a"]["jobs"] for r, _ in v):
            res.nontrivial_keys.add(json.dumps(c["a"], sort_keys=True))
    for cid in sorted(bad.get("BAD_STATUS", ())):
        res.violations.append({"class": None, "what": "Errored / Skipped / ExitCode / returned error do not reflect what the commands did",
                               "case": tcases[cid], "observed": obs.get(cid)})
    for cid in sorted(bad.get("BAD_TRACE", set()) - bad.get("BAD_STATUS", set())):
        res.mismatches.append({"what": "executed commands differ from the model (C06's subject)", "case": tcases[cid], "observed": obs.get(cid)})
    # the process
    for k, j in enumerate(jobs):
        j["id"] = k
    out = clilib.run_cli(ctx.workdir, jobs)
    items = []
    for j in jobs:
        r = out[j["id"]]
        res.evaluations += 1
        res.count("cli-" + j["form"])
        if r["timeout"] or clilib.crashed(r):
            res.violations.append({"class": None, "what": "taskctl hung or crashed while running targets", "case": j, "observed": r})
            continue
        toks = (r["files"].get("trace") or "").split()
        gate_ran = NOCMD in (r.get("err") or "")
        refused = "context canceled" in (r.get("err") or "")
        ran, ti = [], 0
        for t in j["targets"]:          # the targets that ran, read off the trace (tokens in command-line order) and the scheduler's message
            if TOKEN[t] is None:
                if not gate_ran:
                    break
                ran.append(t)
                if t == 11:          # (what follows a cancelling target leaves no token: it is refused)
                    break
            elif ti < len(toks) and toks[ti] == TOKEN[t]:
                ran.append(t)
                ti += 1
            else:
                break
        ran += [99] * (len(toks) - ti)          # anything else in the trace: a target that must not have run, or a command after a failing one
        if gate_ran and 10 not in ran and 11 not in ran:
            ran.append(98)
        items.append("(%d%%N, targets_e_ok %s [11] %s %s %s %d)" % (j["id"], vlib.clist([b for b in BAD if b != 12]), vlib.clist(j["targets"]), vlib.clist(ran), vlib.cbool(refused), r["rc"]))
        if len(j["targets"]) >= 2:
            res.nontrivial_keys.add(json.dumps([j["targets"], j["form"]]))
    badcli = set()
    for rc, o, start, cnt in vlib.coq_eval_sharded(ctx.workdir, "cases_c07cli", HEADER_CLI, items, lambda: FOOTER_CLI, shard=600):
        if rc != 0:
            res.mismatches.append({"what": "cases.v did not evaluate", "detail": o[-1500:]})
            continue
        pr = vlib.coq_printed(o)
        if "BAD" not in pr:
            res.mismatches.append({"what": "cases.v output lacks BAD", "detail": o[-800:]})
        badcli.update(vlib.nums(pr.get("BAD", "")))
        res.traces_validated += cnt
    for jid in sorted(badcli):
        res.violations.append({"class": None, "what": "process exit status / set of targets run is not: command-line order, stop after the first failed target, exit 0 iff all succeeded",
                               "case": jobs[jid], "observed": out[jid]})
    res.samples = [tcases[5], jobs[len(jobs) // 2]]
    return res
