"""C20 - Watchers observe exactly the selected paths and fire on the subscribed events  (partial).
Theorems: Properties/C20.v (Model/Glob.v).  Correspondence: `taskctl -d watch` on generated directory trees: the paths the real
watcher registers (its debug log) against [select]; scripted file operations with real inotify delivery: the task runs (lines the
task appends to a file, with $EventName / $EventPath) against [serve] applied to the events the watcher itself logged."""
import json
import os
import re
import shutil
import signal
import subprocess
import time
from concurrent.futures import ThreadPoolExecutor
import vlib
import clilib

TRUSTED = [
    "model Model/Glob.v: doublestar.Glob / PathMatch on the grammar (literal segments, *, ?, ** as a whole segment) as [gmatch]; NewWatcher as [select]; Run/handle as [serve]",
    "NOT exhibited by the model: inotify/fsnotify delivery (which events an operation produces, coalescing, directories reporting their children) - read from the watcher's own debug log; the 1 s polling sleep",
    "python driver: real file operations, SIGINT to end the watcher, parsing of logrus debug lines",
]
ASSUMPTIONS = ["file names without dots at the start, patterns relative to the project directory", "operations are spaced by 2.2 s (the loop handles one event per second)"]

KINDS = {"CREATE": 1, "WRITE": 2, "REMOVE": 3, "RENAME": 4, "CHMOD": 5}
KNAMES = {"create": 1, "write": 2, "remove": 3, "rename": 4, "chmod": 5}
DIRS = ["a", "b", "src", "a/b", "src/lib", "a/b/c"]
FILES = ["x.go", "y.go", "m.txt", "ab.txt", "q", "xy.go", "z.md"]
SEGS = ["a", "b", "src", "lib", "c", "*", "*", "*.go", "?.go", "*.txt", "x*", "??.go", "m.*", "q", "x.go", "**", "**", "*b*"]


def gen_tree(rng):
    dirs = sorted(set(rng.sample(DIRS, rng.randint(1, 4))))
    alld = set()
    for d in dirs:
        parts = d.split("/")
        for i in range(1, len(parts) + 1):
            alld.add("/".join(parts[:i]))
    files = set()
    for _ in range(rng.randint(3, 12)):
        d = rng.choice([""] + sorted(alld))
        files.add((d + "/" if d else "") + rng.choice(FILES))
    files = sorted(f for f in files if f not in alld)
    return sorted(alld), files


def gen_pattern(rng):
    n = rng.choice([1, 1, 2, 2, 3])
    segs = [rng.choice(SEGS) for _ in range(n)]
    # no `**` right after a `**`: on such patterns doublestar's own Glob and PathMatch disagree with each other (`**/**/b`: PathMatch
    # accepts `b`, Glob does not list it), so there is no single reading to hold the watcher to; they are outside the generated grammar
    segs = [sg for k, sg in enumerate(segs) if not (sg == "**" and k and segs[k - 1] == "**")]
    return "/".join(segs)


def coq_seg(s):
    return "[" + "; ".join(str(ord(ch)) for ch in s) + "]"


def coq_path(p):
    return "[" + "; ".join(coq_seg(s) for s in p.split("/")) + "]"


def coq_pattern(p):
    out = []
    for s in p.split("/"):
        if s == "**":
            out.append("PDouble")
        else:
            out.append("PSeg [" + "; ".join("PStar" if ch == "*" else "PQuest" if ch == "?" else "PLit %d" % ord(ch) for ch in s) + "]")
    return "[" + "; ".join(out) + "]"


def gen_cases(ctx):
    rng = vlib.rng_for(ctx.seed, "C20")
    thorough = ctx.tier == "thorough"
    cases = []
    for _ in range(400 if thorough else 60):
        dirs, files = gen_tree(rng)
        inc = [gen_pattern(rng) for _ in range(rng.randint(1, 3))]
        exc = [gen_pattern(rng) for _ in range(rng.choice([0, 0, 1, 2]))]
        cases.append({"id": len(cases), "kind": "selection", "dirs": dirs, "files": files, "inc": inc, "exc": exc, "events": [], "ops": []})
    # hand-written selections
    for inc, exc in ((["**/*.go"], ["**/y.go"]), (["*"], []), (["src/**"], ["src/lib/*"]), (["**"], ["a/**"]), (["a/*/c/?.go", "*.txt"], ["m.txt"])):
        cases.append({"id": len(cases), "kind": "selection", "dirs": ["a", "a/b", "a/b/c", "src", "src/lib"],
                      "files": ["a/b/c/x.go", "a/x.go", "a/y.go", "m.txt", "ab.txt", "src/lib/y.go", "src/x.go", "x.go"], "inc": inc, "exc": exc, "events": [], "ops": []})
    # exclude patterns with ? only, [no *], literal excludes, excludes inside directories
    for inc, exc in ((["*.go"], ["?.go"]), (["a/*.go", "*.go"], ["a/?.go"]), (["*.txt", "*.go"], ["m.tx?", "x.go"]), (["**/*.go"], ["a/b/c/?.go", "src/lib/y.go"]), (["*"], ["?"]), (["src/*"], ["src/li?"])):
        cases.append({"id": len(cases), "kind": "selection", "dirs": ["a", "a/b", "a/b/c", "src", "src/lib"],
                      "files": ["a/b/c/x.go", "a/x.go", "a/y.go", "m.txt", "ab.txt", "src/lib/y.go", "src/x.go", "x.go", "xy.go", "q"], "inc": inc, "exc": exc, "events": [], "ops": []})
    # a watched DIRECTORY: files created in it later are not selected paths of their own (their events come through the directory, once)
    for ev in ([], ["create", "write"]):
        cases.append({"id": len(cases), "kind": "history", "dirwatch": True, "dirs": ["sub"], "files": ["sub/old.txt", "other.md"], "inc": ["sub"], "exc": [], "events": ev,
                      "ops": [["create", "sub/new.txt"], ["write", "sub/new.txt"], ["write", "sub/new.txt"], ["write", "sub/old.txt"], ["write", "other.md"]]})
    # the task runs in a context with a SLOW before hook: the run for an event is still going on when the next event arrives -
    # each run reports its own event's name and path
    hfiles = ["w1.txt", "w2.txt", "sub/w3.txt", "ex.txt", "other.md", "sub/other.md"]
    cases.append({"id": len(cases), "kind": "history", "slowctx": True, "dirs": ["sub"], "files": hfiles, "inc": ["*.txt", "sub/*.txt"], "exc": ["ex.txt"], "events": ["write", "chmod"],
                  "ops": [["write", "w1.txt"], ["chmod", "w2.txt"], ["write", "sub/w3.txt"]]})
    # the FIRST run (at start, before any event) is slow: an operation on a selected file during it is observed all the same
    cases.append({"id": len(cases), "kind": "history", "slowinit": True, "dirs": ["sub"], "files": hfiles, "inc": ["*.txt", "sub/*.txt"], "exc": ["ex.txt"], "events": [],
                  "ops": [["write", "w1.txt"], ["write", "w2.txt"]]})
    # event histories
    evsubsets = [[]] + [[k] for k in KNAMES] + [["write", "chmod"], ["remove", "rename"], ["create", "write", "remove", "rename", "chmod"], ["write", "remove"]]
    for i in range(150 if thorough else 14):
        files = ["w1.txt", "w2.txt", "sub/w3.txt", "ex.txt", "other.md", "sub/other.md"]
        inc = ["*.txt", "sub/*.txt"]
        exc = ["ex.txt"]
        events = evsubsets[i % len(evsubsets)] if i < 2 * len(evsubsets) else rng.sample(list(KNAMES), rng.randint(1, 4))
        ops = []
        alive = set(files)
        if i in (1, 2):
            # the same operation on the same file several times in a row: later events must still be served
            cases.append({"id": len(cases), "kind": "history", "dirs": ["sub"], "files": files, "inc": inc, "exc": exc, "events": events if i == 2 else [],
                          "ops": [["write", "w1.txt"], ["write", "w1.txt"], ["chmod", "w2.txt"], ["chmod", "w2.txt"], ["write", "w1.txt"]]})
            continue
        for _ in range(rng.randint(2, 6) if i else 6):
            cand = sorted(alive)
            if not cand:
                break
            f = rng.choice(cand if rng.random() < 0.3 else [x for x in cand if x.endswith(".txt") and x != "ex.txt"] or cand)
            op = rng.choice(["write", "write", "chmod", "remove", "rename"])
            ops.append([op, f])
            if op in ("remove", "rename"):
                alive.discard(f)
        cases.append({"id": len(cases), "kind": "history", "dirs": ["sub"], "files": files, "inc": inc, "exc": exc, "events": events, "ops": ops})
    return cases


WAIT_RE = re.compile(r'is waiting for events in ([^"\\\n]+)')
EVENT_RE = re.compile(r'event \\"([A-Z|]+)\\" in file \\"([^"\\]+)\\"')


def run_one(workdir, c):
    d = os.path.join(workdir, "w", str(c["id"]))
    shutil.rmtree(d, ignore_errors=True)
    proj = os.path.join(d, "proj")
    os.makedirs(proj)
    for x in c["dirs"]:
        os.makedirs(os.path.join(proj, x), exist_ok=True)
    for f in c["files"]:
        os.makedirs(os.path.dirname(os.path.join(proj, f)), exist_ok=True)
        with open(os.path.join(proj, f), "w") as fh:
            fh.write("x\n")
    w = {"watch": c["inc"], "exclude": c["exc"], "task": "t"}
    if c["events"]:
        w["events"] = c["events"]
    doc = {"tasks": {"t": {"command": ['echo "${EventName:-INIT} ${EventPath:-}" >> "$RUNS"']}}, "watchers": {"w": w}}
    if c.get("slowctx"):
        doc["contexts"] = {"slow": {"before": ["sleep 2.6"]}}
        doc["tasks"]["t"]["context"] = "slow"
    if c.get("slowinit"):
        doc["tasks"]["t"]["command"] = ['echo "${EventName:-INIT} ${EventPath:-}" >> "$RUNS"; if [ -z "${EventName:-}" ]; then sleep 3; fi']
    with open(os.path.join(d, "cfg.json"), "w") as fh:
        json.dump(doc, fh)
    runs = os.path.join(d, "runs")
    env = {"PATH": os.environ.get("PATH", "/usr/bin:/bin"), "HOME": d, "TERM": "dumb", "RUNS": runs}
    errf = open(os.path.join(d, "stderr"), "wb")
    p = subprocess.Popen([os.path.join(vlib.BIN, "taskctl"), "-d", "-c", os.path.join(d, "cfg.json"), "watch", "w"], cwd=proj, env=env,
                         stdin=subprocess.DEVNULL, stdout=subprocess.DEVNULL, stderr=errf)
    res = {"exited_early": False}
    t0 = time.time()
    while time.time() - t0 < 6 and not os.path.exists(runs) and p.poll() is None:
        time.sleep(0.1)
    time.sleep(1.2)
    for op, f in c["ops"]:
        if p.poll() is not None:
            break
        fp = os.path.join(proj, f)
        try:
            if op == "write":
                with open(fp, "a") as fh:
                    fh.write("more\n")
            elif op == "chmod":
                os.chmod(fp, 0o600 if os.stat(fp).st_mode & 0o077 else 0o644)
            elif op == "create":
                open(fp, "x").close()
            elif op == "remove":
                os.remove(fp)
            elif op == "rename":
                os.rename(fp, fp + ".moved")
        except OSError:
            pass
        time.sleep(2.2)
    if c["ops"]:
        time.sleep(5.5 if c.get("slowctx") else 2.5)
    if p.poll() is not None:
        res["exited_early"] = True
    else:
        p.send_signal(signal.SIGINT)
        try:
            p.wait(timeout=8)
        except subprocess.TimeoutExpired:
            p.kill()
            p.wait()
            res["did_not_stop"] = True
    errf.close()
    err = open(os.path.join(d, "stderr"), "rb").read().decode("utf-8", "replace")
    res["registered"] = WAIT_RE.findall(err)
    res["events"] = EVENT_RE.findall(err)
    res["runs"] = open(runs).read().split("\n") if os.path.exists(runs) else []
    res["crashed"] = ("panic:" in err) or ("fatal error:" in err)
    res["stderr_tail"] = err[-1500:]
    shutil.rmtree(d, ignore_errors=True)
    return c["id"], res


def run_multi(ctx, res):
    """several watchers on ONE command line: each observes its own selection and runs its own task with its own event"""
    names = ["wa", "wb", "wc"]
    d = os.path.join(ctx.workdir, "w", "multi")
    shutil.rmtree(d, ignore_errors=True)
    proj = os.path.join(d, "proj")
    doc = {"tasks": {}, "watchers": {}}
    for n in names:
        os.makedirs(os.path.join(proj, n))
        with open(os.path.join(proj, n, "file.txt"), "w") as fh:
            fh.write("x\n")
        doc["tasks"]["t" + n] = {"command": ['echo "%s ${EventName:-INIT} ${EventPath:-}" >> "$RUNS.%s"' % (n, n)]}
        doc["watchers"][n] = {"watch": [n + "/*.txt"], "events": ["write"], "task": "t" + n}
    with open(os.path.join(d, "cfg.json"), "w") as fh:
        json.dump(doc, fh)
    runs = os.path.join(d, "runs")
    env = {"PATH": os.environ.get("PATH", "/usr/bin:/bin"), "HOME": d, "TERM": "dumb", "RUNS": runs}
    errf = open(os.path.join(d, "stderr"), "wb")
    p = subprocess.Popen([os.path.join(vlib.BIN, "taskctl"), "-d", "-c", os.path.join(d, "cfg.json"), "watch"] + names, cwd=proj, env=env,
                         stdin=subprocess.DEVNULL, stdout=subprocess.DEVNULL, stderr=errf)
    t0 = time.time()
    while time.time() - t0 < 6 and not all(os.path.exists(runs + "." + n) for n in names) and p.poll() is None:
        time.sleep(0.1)
    time.sleep(1.5)
    for n in names:
        with open(os.path.join(proj, n, "file.txt"), "a") as fh:
            fh.write("more\n")
        time.sleep(2.2)
    time.sleep(2.0)
    early = p.poll() is not None
    stuck = False
    if not early:
        p.send_signal(signal.SIGINT)
        try:
            p.wait(timeout=8)
        except subprocess.TimeoutExpired:
            p.kill()
            p.wait()
            stuck = True
    errf.close()
    err = open(os.path.join(d, "stderr"), "rb").read().decode("utf-8", "replace")
    got = {n: [l for l in (open(runs + "." + n).read().split("\n") if os.path.exists(runs + "." + n) else []) if l.strip()] for n in names}
    shutil.rmtree(d, ignore_errors=True)
    res.evaluations += 1
    res.count("multi-watch")
    res.nontrivial_keys.add("multi-watch")
    case = {"kind": "multi", "watchers": names, "config": doc, "ops": [["write", n + "/file.txt"] for n in names]}
    if "panic:" in err or "fatal error:" in err or stuck:
        res.violations.append({"class": None, "what": "several watchers on one command line: the process crashed or could not be stopped", "case": case, "observed": err[-1200:]})
        return
    want = {n: ["%s INIT" % n, "%s write %s/file.txt" % (n, n)] for n in names}
    norm = {n: [" ".join(l.split()) for l in got[n]] for n in names}
    if norm != want:
        res.violations.append({"class": None, "what": "several watchers on one command line: each must run its own task once at start and once for the write to its own file, with that event's name and path",
                               "case": case, "observed": {"runs": got, "exited_early": early, "stderr_tail": err[-600:]}})


HEADER = """From Coq Require Import List Arith Bool. Import ListNotations.
From TaskctlV Require Import Model.Glob Corr.GlobCorr.
"""
FOOT_S = """
Definition BAD_SEL := Eval vm_compute in bad_ids select_ok cases.
Print BAD_SEL.
"""
FOOT_E = """
Definition BAD_EV := Eval vm_compute in bad_ids events_ok cases.
Print BAD_EV.
"""


FOOT_G = """
Definition BAD_GLOB := Eval vm_compute in bad_ids glob_ok cases.
Print BAD_GLOB.
"""


def run(ctx):
    res = vlib.Result()
    res.rule = ("selection: random trees (<=3 levels, <=12 files) x 1..3 include and 0..2 exclude patterns over the grammar (literal segments, *, ?, ** as a "
                "whole segment); the registered paths are read from the watcher's debug log.  histories: a fixed tree with watched, excluded and unrelated "
                "files, every single event type / several subsets / all (none listed), 2..6 operations (write, chmod, remove, rename) on real files with "
                "real inotify; three watchers started by one `taskctl watch wa wb wc`.  distinct = distinct case; non-trivial = selection with a wildcard, or a history with >= 2 operations.")
    if ctx.replay_cases and any(c.get("kind") == "multi" for c in ctx.replay_cases):
        run_multi(ctx, res)
        ctx.replay_cases = [c for c in ctx.replay_cases if c.get("kind") != "multi"]
        if not ctx.replay_cases:
            res.samples = [{"replayed": "multi-watch"}]
            return res
    elif not ctx.replay_cases:
        run_multi(ctx, res)
    cases = ctx.replay_cases if ctx.replay_cases else gen_cases(ctx)
    for k, c in enumerate(cases):
        c["id"] = k
    with ThreadPoolExecutor(max_workers=max(4, vlib.NCPU)) as ex:
        out = dict(ex.map(lambda c: run_one(ctx.workdir, c), cases))
    sel_items, ev_items = [], []
    for c in cases:
        r = out[c["id"]]
        res.evaluations += 1
        res.count(c["kind"])
        res.nontrivial_keys.add(json.dumps([c["dirs"], c["files"], c["inc"], c["exc"], c["events"], c["ops"]]))
        c["_obs"] = {k: r[k] for k in ("registered", "events", "runs")}
        if r["crashed"] or r.get("did_not_stop"):
            res.violations.append({"class": None, "what": "the watcher crashed or could not be stopped", "case": {k: v for k, v in c.items() if k != "_obs"}, "observed": r["stderr_tail"]})
            continue
        tree = c["dirs"] + c["files"]
        if c["kind"] == "selection" or True:
            if r["exited_early"] and not r["registered"] and "no matches" not in r["stderr_tail"]:
                pass
            sel_items.append("(%d, ((%s, %s, %s), %s))" % (c["id"], vlib.clist(tree, coq_path), vlib.clist(c["inc"], coq_pattern), vlib.clist(c["exc"], coq_pattern),
                                                          vlib.clist(sorted(set(x.strip().rstrip("/") for x in r["registered"])), coq_path)))
        if c["kind"] == "history":
            ids = {}

            def pid(s):
                return ids.setdefault(s, len(ids) + 1)
            evs = ["(mkEv %d %d)" % (KINDS.get(k, 0), pid(p)) for k, p in r["events"]]
            runs = []
            for l in r["runs"]:
                if not l.strip():
                    continue
                nm, _, pth = l.partition(" ")
                runs.append("RInit" if nm == "INIT" else "(REvent %d %d)" % (KNAMES.get(nm, 99), pid(pth.strip())))
            ev_items.append("(%d, ((%s, %s), %s))" % (c["id"], vlib.clist([KNAMES[e] for e in c["events"]], str), vlib.clist(evs), vlib.clist(runs)))
            # delivery sanity (lenient): an operation on a file that is itself selected and still there produces its primary event;
            # a file that is neither selected nor inside a selected directory produces none
            if c.get("dirwatch"):
                # every operation on a child of the watched directory is delivered exactly once, nothing for files elsewhere
                want = {}
                for op, f in c["ops"]:
                    if f.startswith("sub/"):
                        want[(op.upper(), f)] = want.get((op.upper(), f), 0) + 1
                got = {}
                for k, p in r["events"]:
                    got[(k, p)] = got.get((k, p), 0) + 1
                if got != want:
                    res.violations.append({"class": None, "what": "watched directory: events are not exactly one per operation on its children (a path that was never selected is observed, or an event is lost)",
                                           "case": {k: v for k, v in c.items() if k != "_obs"}, "observed": c["_obs"]})
                continue
            selected = {"w1.txt", "w2.txt", "sub/w3.txt"}
            alive = set(c["files"])
            seen_paths = {p for _, p in r["events"]}
            done = {}
            for op, f in c["ops"]:
                if f in alive and f in selected:
                    prim = {"write": "WRITE", "chmod": "CHMOD", "remove": "REMOVE", "rename": "RENAME"}[op]
                    done[(prim, f)] = done.get((prim, f), 0) + 1
                    # operations are 2.2 s apart and the loop takes one event per second: every one of them is delivered on its own
                    if sum(1 for k, p in r["events"] if k == prim and p == f) < done[(prim, f)]:
                        res.violations.append({"class": None, "what": "an operation (%s) on an observed path produced no %s event: the path is not observed" % (op, prim),
                                               "case": {k: v for k, v in c.items() if k != "_obs"}, "observed": c["_obs"]})
                        break
                if op in ("remove", "rename"):
                    alive.discard(f)
            for p in seen_paths:
                if p.replace(".moved", "") not in selected and p not in selected:
                    res.violations.append({"class": None, "what": "an event was delivered for a path that is not selected (%s)" % p,
                                           "case": {k: v for k, v in c.items() if k != "_obs"}, "observed": c["_obs"]})
                    break
    # doublestar itself against the matcher of the model, pattern by pattern (engine `glob`: Glob and PathMatch on the same trees)
    gcases = [{"id": c["id"], "dir": ctx.workdir, "dirs": c["dirs"], "files": c["files"], "patterns": c["inc"] + c["exc"]} for c in cases if c["kind"] == "selection"]
    gobs, glogs = vlib.run_engine(ctx.workdir, "glob", gcases, timeout=300)
    glob_items, gindex = [], {}
    for g in gcases:
        o = gobs.get(g["id"])
        if not o or "glob" not in o:
            res.mismatches.append({"what": "glob engine produced no observation", "case": g, "log": glogs[:1]})
            continue
        tree = g["dirs"] + g["files"]
        for k, pat in enumerate(g["patterns"]):
            res.evaluations += 1
            res.count("doublestar-validation")
            mk, gk = o["match"][k] or [], o["glob"][k] or []
            gindex[len(glob_items)] = (g, pat, mk, gk)
            glob_items.append("(%d, ((%s, %s), (%s, %s)))" % (len(glob_items), vlib.clist(tree, coq_path), coq_pattern(pat),
                                                             vlib.clist(mk, coq_path), vlib.clist(gk, coq_path)))
    bad = {"BAD_SEL": set(), "BAD_EV": set(), "BAD_GLOB": set()}
    for items, foot, key in ((sel_items, FOOT_S, "BAD_SEL"), (ev_items, FOOT_E, "BAD_EV"), (glob_items, FOOT_G, "BAD_GLOB")):
        for rc, o, start, cnt in vlib.coq_eval_sharded(ctx.workdir, "cases_c20" + key, HEADER, items, lambda f=foot: f, shard=100):
            if rc != 0:
                res.mismatches.append({"what": "cases.v did not evaluate", "detail": o[-1500:]})
                continue
            pr = vlib.coq_printed(o)
            if key not in pr:
                res.mismatches.append({"what": "cases.v output lacks " + key, "detail": o[-800:]})
            bad[key].update(vlib.nums(pr.get(key, "")))
            res.traces_validated += cnt
    for cid in sorted(bad["BAD_SEL"]):
        c = cases[cid]
        res.violations.append({"class": None, "what": "the watcher did not register exactly the paths matching an include pattern and no exclude pattern",
                               "case": {k: v for k, v in c.items() if k != "_obs"}, "observed": c.get("_obs")})
    for cid in sorted(bad["BAD_EV"]):
        c = cases[cid]
        res.violations.append({"class": None, "what": "the task runs are not: once at start, then once per delivered event of a subscribed type, with that event's name and path",
                               "case": {k: v for k, v in c.items() if k != "_obs"}, "observed": c.get("_obs")})
    for k in sorted(bad["BAD_GLOB"]):
        g, pat, m, gl = gindex[k]
        res.mismatches.append({"what": "doublestar.PathMatch / Glob differ from the model's matcher", "case": {"tree": g["dirs"] + g["files"], "pattern": pat},
                               "observed": {"PathMatch": m, "Glob": gl}})
    for c in cases:
        c.pop("_obs", None)
    res.samples = [cases[0], cases[-1]]
    return res
