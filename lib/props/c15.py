"""C15 - Loading configuration never crashes  (partial).
Theorems: Properties/C15.v (Model/Loader.v, Model/BuildNil.v).  Correspondence / exploration: the taskctl binary on documents
produced by a grammar of the configuration schema and then mutated, in YAML, JSON and TOML, with env files and imports;
`list`, `show`, `graph`, `validate` on each; structured cases with empty bodies and env files compared with the model in Coq."""
import copy
import json
import vlib
import clilib
import fmtlib

TRUSTED = [
    "models Model/Loader.v (import traversal) and Model/BuildNil.v (builders over definitions with possibly-nil bodies, ReadEnvFile)",
    "NOT exhibited by the models, reachable only by execution: panics or hangs inside yaml.v2, encoding/json, go-toml, mapstructure, mergo, doublestar - the harness runs them on generated and mutated documents",
    "python driver (lib/fmtlib.py serialisers, mutators) running the built binary under a time limit",
]
ASSUMPTIONS = ["bounded time = 10 s per command on this machine"]

EVENTS = ["create", "write", "remove", "rename", "chmod"]


def gen_doc(rng):
    def strs(n=3):
        return [rng.choice(["echo a", "true", "echo {{.x}}", "exit 1", "sleep 0", "printf '%s' \"$A\""]) for _ in range(rng.randint(1, n))]

    def smap():
        return {rng.choice(["A", "B", "x", "long_key", "K1"]): rng.choice(["1", "v", "", "a b", "{{.Root}}"]) for _ in range(rng.randint(0, 3))}
    tasks = {}
    for i in range(rng.randint(1, 4)):
        t = {"command": strs() if rng.random() < 0.7 else strs(1)[0]}
        for k, gen in (("before", lambda: strs(2)), ("after", lambda: strs(2)), ("context", lambda: "c0"), ("dir", lambda: rng.choice([".", "/tmp", "{{.Root}}"])),
                       ("timeout", lambda: rng.choice(["1s", "500ms", 3, "2m"])), ("allow_failure", lambda: rng.random() < 0.5), ("interactive", lambda: False),
                       ("exportAs", lambda: "EXP"), ("env", smap), ("variables", smap), ("condition", lambda: "true"), ("description", lambda: "d"),
                       ("name", lambda: "nm%d" % i), ("variations", lambda: [smap() for _ in range(rng.randint(1, 2))]), ("env_file", lambda: "e.env")):
            if rng.random() < 0.3:
                t[k] = gen()
        tasks["t%d" % i] = t
    doc = {"tasks": tasks}
    if rng.random() < 0.7:
        doc["contexts"] = {"c0": {k: g() for k, g in (("dir", lambda: "."), ("up", strs), ("down", strs), ("before", strs), ("after", strs), ("env", smap), ("variables", smap),
                                                       ("executable", lambda: {"bin": "/bin/sh", "args": ["-c"]}), ("quote", lambda: "'")) if rng.random() < 0.4}}
    else:
        for t in tasks.values():
            t.pop("context", None)
    if rng.random() < 0.8:
        names = list(tasks)
        stages = []
        for k in range(rng.randint(1, 4)):
            st = {"task": rng.choice(names), "name": "s%d" % k}
            if k and rng.random() < 0.6:
                st["depends_on"] = ["s%d" % rng.randrange(k)] if rng.random() < 0.7 else "s%d" % rng.randrange(k)
            for key, g in (("allow_failure", lambda: True), ("condition", lambda: "true"), ("dir", lambda: "."), ("env", smap), ("variables", smap)):
                if rng.random() < 0.25:
                    st[key] = g()
            stages.append(st)
        doc["pipelines"] = {"p0": stages}
        if rng.random() < 0.3:
            doc["pipelines"]["p1"] = [{"pipeline": "p0"}, {"task": names[0], "depends_on": ["p0"]}]
    if rng.random() < 0.5:
        doc["watchers"] = {"w0": {"watch": ["*.txt", "**/*.go"], "exclude": ["b.txt"], "events": rng.sample(EVENTS, rng.randint(0, 3)), "task": "t0", "variables": smap()}}
    if rng.random() < 0.4:
        doc["variables"] = smap()
    if rng.random() < 0.3:
        doc["import"] = [rng.choice(["inc.yaml", "sub", "missing.yaml", "inc.yaml", ".", "sub/a.yaml"])]
    if rng.random() < 0.2:
        doc["debug"] = rng.random() < 0.5
    if rng.random() < 0.2:
        doc["output"] = rng.choice(["raw", "prefixed", "cockpit", "bogus"])
    return doc


def paths(v, pre=()):
    yield pre
    if isinstance(v, dict):
        for k, x in v.items():
            yield from paths(x, pre + (k,))
    elif isinstance(v, list):
        for i, x in enumerate(v):
            yield from paths(x, pre + (i,))


def setp(doc, path, val, delete=False):
    cur = doc
    for k in path[:-1]:
        cur = cur[k]
    if delete:
        if isinstance(cur, dict):
            cur.pop(path[-1], None)
        else:
            del cur[path[-1]]
    else:
        cur[path[-1]] = val


WRONG = [None, 7, -1, 1.5, True, "str", "", [], {}, [1, 2], ["a", None], {"k": "v"}, [{"a": 1}], {"x": [1]}, [[1]], {"1": {"2": {"3": {}}}}, 9007199254740993]


def mutate(rng, doc):
    d = copy.deepcopy(doc)
    for _ in range(rng.choice([1, 1, 1, 2, 3])):
        ps = [p for p in paths(d) if p]
        if not ps:
            break
        p = rng.choice(ps)
        r = rng.random()
        try:
            if r < 0.55:
                setp(d, p, copy.deepcopy(rng.choice(WRONG)))
            elif r < 0.7:
                setp(d, p, None, delete=True)
            elif r < 0.85:
                cur = d
                for k in p[:-1]:
                    cur = cur[k]
                if isinstance(cur, dict):
                    cur[rng.choice(["unknown_key", "Tasks", "TASKS", "depends-on", "", "a.b"])] = copy.deepcopy(rng.choice(WRONG))
            else:
                deep = cur = {}
                for _ in range(60):
                    cur["n"] = {}
                    cur = cur["n"]
                setp(d, p, deep)
        except (KeyError, IndexError, TypeError):
            pass
    return d


YAML_SPECIALS = [
    "base: &b\n  command: [\"true\"]\ntasks:\n  t0:\n    <<: *b\n  t1: *b\npipelines:\n  p0:\n    - task: t0\n",
    "tasks:\n  t0: &a\n    command: [\"true\"]\n    env: &e {A: \"1\"}\n  t1:\n    <<: *a\n    env:\n      <<: *e\n      B: \"2\"\n",
    "tasks: &t\n  t0: {command: [\"true\"]}\ncontexts: *t\n",
    "tasks:\n  t0:\n    command: *undefined_anchor\n",
    "a: &a [x,x,x,x,x,x,x,x,x]\nb: &b [*a,*a,*a,*a,*a,*a,*a,*a,*a]\nc: &c [*b,*b,*b,*b,*b,*b,*b,*b,*b]\nd: &d [*c,*c,*c,*c,*c,*c,*c,*c,*c]\ntasks: {t0: {command: *d}}\n",
    "tasks:\n  ? [complex, key]\n  : {command: [\"true\"]}\n",
    "tasks:\n  1: {command: [\"true\"]}\n  true: {command: [\"true\"]}\n  null: {command: [\"true\"]}\n",
    "tasks: {t0: {command: [\"true\"], command: [\"false\"]}}\n",
    "--- \ntasks: {t0: {command: [\"true\"]}}\n--- \ntasks: 5\n",
    "tasks:\n\tt0: {}\n", "", "\n", "null\n", "[]\n", "7\n", "\"string\"\n", "tasks:\n", "tasks: ~\npipelines: ~\ncontexts: ~\nwatchers: ~\n",
    "tasks:\n  t0:\npipelines:\n  p0:\n    -\ncontexts:\n  c0:\nwatchers:\n  w0:\n",
    "pipelines: {p0: [{task: t0, pipeline: p0}]}\ntasks: {t0: {command: [\"true\"]}}\n",
    "pipelines: {p0: [{task: t0, pipeline: p1, name: a}], p1: [{task: t0, pipeline: p0, name: b}]}\ntasks: {t0: {command: [\"true\"]}}\n",
    "import: inc.yaml\n", "import: [1, 2]\n", "import:\n  - [a]\n", "import: {a: b}\n",
    "tasks: {t0: {command: [\"true\"], timeout: \"abc\"}}\n", "tasks: {t0: {command: [\"true\"], timeout: -5}}\n", "tasks: {t0: {command: [\"true\"], timeout: 1e400}}\n",
    "watchers: {w0: {watch: [\"[\"], task: t0}}\ntasks: {t0: {command: [\"true\"]}}\n", "watchers: {w0: {watch: [\"**/**/**\"], events: [bogus], task: t0}}\ntasks: {t0: {command: [\"true\"]}}\n",
    "pipelines: {p0: [{task: t0, dir: \"/x\"}, {pipeline: p0, dir: \"/y\"}]}\ntasks: {t0: {command: [\"true\"]}}\n",
    "pipelines: {p0: [{pipeline: p1, dir: \"/y\"}], p1: [{task: t0}]}\ntasks: {t0: {command: [\"true\"]}}\n",
]
ENV_FILES = [b"", b"\n", b"A=1\n", b"A=1\n\nB=2\n", b"NOEQUALS\n", b"=x\n", b"A=b=c\n", b"# comment\nA=1\n", b"A\n=\n==\n", b"\xff\xfe=\x00\n", b"A=1", b" \t \n", b"A=" + b"x" * 70000 + b"\n"]


def gen_cases(ctx):
    rng = vlib.rng_for(ctx.seed, "C15")
    thorough = ctx.tier == "thorough"
    cases = []

    def add(kind, fmt, text, extra=None, show="t0", graph="p0"):
        cases.append({"id": len(cases), "kind": kind, "fmt": fmt, "text_b64": __import__("base64").b64encode(text if isinstance(text, bytes) else text.encode("utf-8", "surrogateescape")).decode(),
                      "extra": extra or {}, "show": show, "graph": graph})
    n = 1500 if thorough else 260
    for i in range(n):
        doc = gen_doc(rng)
        fmt = rng.choice(["yaml", "yaml", "json", "toml"])
        mutated = rng.random() < 0.8
        d = mutate(rng, doc) if mutated else doc
        try:
            text = fmtlib.serialise(d, fmt)
        except (fmtlib.NotTomlable, TypeError, AttributeError):
            fmt = "json"
            text = fmtlib.serialise(d, fmt)
        r = rng.random()
        tb = text.encode("utf-8")
        if r < 0.08 and len(tb) > 4:
            tb = tb[:rng.randrange(1, len(tb))]                    # truncation
        elif r < 0.14 and len(tb) > 4:
            k = rng.randrange(len(tb))
            tb = tb[:k] + rng.choice([b"\xff", b"\xc3", b"\x00", b"\xed\xa0\x80", b"\t", b"{{", b"&x *x"]) + tb[k:]     # invalid UTF-8 / stray bytes
        elif r < 0.18:
            lines = tb.split(b"\n")
            k = rng.randrange(len(lines))
            lines.insert(k, lines[k])                                  # duplicated line (duplicate key)
            tb = b"\n".join(lines)
        # imported files import each other, themselves and their own directory: the traversal must still end
        # (the imported YAML file also has keys YAML reads as booleans and integers)
        extra = {"inc.yaml": "import: [\"inc.yaml\", \"sub/a.yaml\", \".\"]\ntasks: {inc: {command: [\"true\"], env: {yes: 1, 5: x}}, on: {command: [\"true\"]}, 2024: {command: [\"true\"]}}\n",
                 "sub/a.yaml": "import: [\"../inc.yaml\", \"a.yaml\"]\ntasks: {suba: {command: [\"true\"]}}\n",
                 "sub/b.yaml": "tasks: {subb: {command: [\"true\"]}}\n",
                 "e.env": rng.choice(ENV_FILES).decode("latin1"), "a.txt": "x", "b.txt": "y"}
        add("mutated" if mutated else "grammar", fmt, tb, extra)
    for y in YAML_SPECIALS:
        add("yaml-special", "yaml", y, {"inc.yaml": "import: [cfg.yaml]\ntasks: {inc: {command: [\"true\"]}}\n", "a.txt": "x"})
    for e in ENV_FILES:
        add("env-file", "yaml", "tasks: {t0: {command: [\"true\"], env_file: e.env}}\n", {"e.env": e.decode("latin1")})
    add("env-file-missing", "yaml", "tasks: {t0: {command: [\"true\"], env_file: nosuch.env}}\n")
    add("env-file-dir", "yaml", "tasks: {t0: {command: [\"true\"], env_file: sub}}\n", {"sub/x": "1"})
    # a pipeline with very many dependency PATHS (24 layers of 3 stages, each depending on the whole layer before), written last layer first:
    # loading it takes no longer than loading any other file
    layers = 24
    sts = []
    for l in reversed(range(layers)):
        for k in range(3):
            d = {"task": "t0", "name": "l%dk%d" % (l, k)}
            if l:
                d["depends_on"] = ["l%dk%d" % (l - 1, j) for j in range(3)]
            sts.append(d)
    add("many-paths", "yaml", json.dumps({"tasks": {"t0": {"command": ["true"]}}, "pipelines": {"p0": sts}}))
    # entries that the directory listing shows but that cannot be read: a dangling symbolic link in an imported directory, as an imported
    # file, as the env_file
    link = {"symlink": "removed/gone.yaml"}
    add("dangling-link", "yaml", "import: [conf.d]\ntasks: {t0: {command: [\"true\"]}}\n", {"conf.d/ok.yaml": "tasks: {b: {command: [\"true\"]}}\n", "conf.d/extra.yaml": link})
    add("dangling-link", "yaml", "import: [extra.yaml]\ntasks: {t0: {command: [\"true\"]}}\n", {"extra.yaml": link})
    add("dangling-link", "yaml", "tasks: {t0: {command: [\"true\"], env_file: e.env}}\n", {"e.env": link})
    return cases


def nil_cases(ctx):
    """structured: a small valid configuration with one body left empty, at every position; compared with Model/BuildNil.v"""
    cases = []
    base = {"contexts": ["c0", "c1"], "tasks": ["t0", "t1", "t2"], "watchers": [("w0", 0), ("w1", 2)], "pipelines": [[0, 1], [2]]}

    def render(nil):
        lines = ["contexts:"] + ["  %s: %s" % (c, "" if ("c", i) == nil else "{env: {A: \"1\"}}") for i, c in enumerate(base["contexts"])]
        lines += ["tasks:"]
        for i, t in enumerate(base["tasks"]):
            if ("t", i) == nil:
                lines.append("  %s:" % t)
            elif ("e", i) == nil[:2]:
                lines.append("  %s: {command: [\"true\"], env_file: \"%s\"}" % (t, nil[2]))
            else:
                lines.append("  %s: {command: [\"true\"]}" % t)
        lines += ["watchers:"] + ["  %s: %s" % (w, "" if ("w", i) == nil else "{watch: [\"*.txt\"], task: t%d}" % t) for i, (w, t) in enumerate(base["watchers"])]
        lines += ["pipelines:"]
        for pi, st in enumerate(base["pipelines"]):
            lines.append("  p%d:" % pi)
            for si, t in enumerate(st):
                lines.append("    - %s" % ("" if ("s", pi, si) == nil else "{task: t%d}" % t))
        return "\n".join(lines) + "\n"

    def coq(nil, files):
        ctxs = vlib.clist(["None" if ("c", i) == nil else "(Some tt)" for i in range(2)])
        tasks = vlib.clist(["None" if ("t", i) == nil else ("(Some (mkTD (Some 0)))" if ("e", i) == nil[:2] else "(Some (mkTD None))") for i in range(3)])
        ws = vlib.clist(["None" if ("w", i) == nil else "(Some %d)" % t for i, (w, t) in enumerate(base["watchers"])])
        ps = vlib.clist([vlib.clist(["None" if ("s", pi, si) == nil else "(Some %d)" % t for si, t in enumerate(st)]) for pi, st in enumerate(base["pipelines"])])
        return "((mkND %s %s %s %s), %s)" % (ctxs, tasks, ws, ps, files)
    nils = [("none",)] + [("c", i) for i in range(2)] + [("t", i) for i in range(3)] + [("w", i) for i in range(2)] + [("s", 0, 0), ("s", 0, 1), ("s", 1, 0)]
    for nil in nils:
        cases.append({"id": len(cases), "nil": list(nil), "text": render(nil), "coq": coq(nil, "[]"), "files": {}})
    envs = {"ok.env": ("A=1\nB=2\n", "[Some [[1;2];[1;2]]]"), "blank.env": ("A=1\n\nB=2\n", "[Some [[1;2];[1];[1;2]]]"), "noeq.env": ("NOEQ\n", "[Some [[1]]]"),
            "multi.env": ("A=b=c\n", "[Some [[1;2;3]]]"), "empty.env": ("", "[Some []]"), "missing.env": (None, "[None]")}
    for name, (content, files) in envs.items():
        for i in (0, 2):
            nil = ("e", i, name)
            cases.append({"id": len(cases), "nil": list(nil), "text": render(nil), "coq": coq(nil, files), "files": ({name: content} if content is not None else {})})
    return cases


HEADER = """From Coq Require Import List Arith Bool. Import ListNotations.
From TaskctlV Require Import Model.BuildNil Corr.BuildNilCorr.
"""
FOOTER = """
Definition BAD := Eval vm_compute in bad_ids nil_ok cases.
Print BAD.
"""


def classify(r):
    if r["timeout"]:
        return 3
    if clilib.crashed(r) or r["rc"] not in (0, 1):
        return 2
    return r["rc"]


def run(ctx):
    import base64
    res = vlib.Result()
    res.rule = ("documents from a grammar of the whole schema (tasks, stages, contexts, watchers, imports, variables, every key), 80% of them mutated "
                "(a random node replaced by null / scalar / list / map of the wrong type / deep nesting, deleted, unknown or mis-cased key added), serialised "
                "as YAML / JSON / TOML, some truncated, with stray or invalid UTF-8 bytes or a duplicated line; YAML anchors, merge keys, aliases, "
                "multi-documents, complex keys; 13 env-file shapes; dangling symbolic links (in an imported directory, as import, as env_file); each loaded by list / show / graph / validate and, "
                "for YAML, through default-configuration resolution (10 s limit); eight commands with no configuration file anywhere.  Plus one empty body at "
                "every position of a fixed configuration, compared with the model.  distinct = distinct document text; non-trivial = mutated or special.")
    cases = ctx.replay_cases if ctx.replay_cases else gen_cases(ctx)
    cases = [c for c in cases if "text_b64" in c]
    for k, c in enumerate(cases):
        c["id"] = k
    jobs = []
    for c in cases:
        fn = "cfg." + {"yaml": "yaml", "json": "json", "toml": "toml"}[c["fmt"]]
        files = {fn: base64.b64decode(c["text_b64"])}
        files.update(c["extra"])
        for argv in (["-c", fn, "list"], ["-c", fn, "show", c["show"]], ["-c", fn, "graph", c["graph"]], ["validate", fn]):
            if ctx.tier != "thorough" and argv[-2:-1] == ["show"] and c["id"] % 2:
                continue
            jobs.append({"id": len(jobs), "files": files, "argv": argv, "timeout": 10, "case": c["id"]})
        # the same document found by DEFAULT-CONFIG RESOLUTION (no -c): errors take another path through the command-line front end
        if c["fmt"] == "yaml" and (c["kind"] != "mutated" or c["id"] % 3 == 0):
            f2 = dict(files)
            f2["taskctl.yaml"] = f2.pop(fn)
            if "inc.yaml" in f2 and isinstance(f2["inc.yaml"], str):
                f2["inc.yaml"] = f2["inc.yaml"].replace("cfg.yaml", "taskctl.yaml")
            jobs.append({"id": len(jobs), "files": f2, "argv": ["list"], "timeout": 10, "case": c["id"]})
    out = clilib.run_cli(ctx.workdir, jobs, timeout=10)
    seen_bad = set()
    for j in jobs:
        r = out[j["id"]]
        c = cases[j["case"]]
        res.evaluations += 1
        res.count(c["kind"] + "/" + c["fmt"])
        if c["kind"] != "grammar":
            res.nontrivial_keys.add(c["text_b64"])
        k = classify(r)
        res.count("outcome-" + ["ok", "error", "crash", "timeout"][k])
        if k >= 2 and j["case"] not in seen_bad:
            seen_bad.add(j["case"])
            txt = (r.get("err") or "") + (r.get("out") or "")
            where = ""
            for line in txt.split("\n"):
                if "/repo/" in line or "taskctl/" in line and ".go:" in line:
                    where = line.strip().split(" ")[0]
                    break
            res.violations.append({"class": None, "what": "`taskctl %s` %s while loading a %s document (%s)" % (
                "list (default configuration file)" if j["argv"] == ["list"] else j["argv"][-2] if j["argv"][-2] in ("show", "graph") else j["argv"][-1] if j["argv"][0] == "-c" else "validate",
                "did not end in 10 s" if k == 3 else "crashed", c["fmt"], where[-60:]), "case": c,
                "observed": {"argv": j["argv"], "rc": r["rc"], "tail": txt[-1500:]}})
    # ---- NO configuration file anywhere (no -c, nothing found by default resolution): the front end tolerates the missing default
    #      and every command must still end with a result or an error message ----
    if not ctx.replay_cases or any(c.get("kind") == "noconfig" for c in ctx.replay_cases):
        import os, tempfile, shutil
        def clean_base(d):
            d = os.path.abspath(d)
            while True:
                if any(os.path.exists(os.path.join(d, n)) for n in ("tasks.yaml", "taskctl.yaml")):
                    return False
                if d == os.path.dirname(d):
                    return True
                d = os.path.dirname(d)
        base, made = None, None
        for cand in (ctx.workdir, "/var/tmp", "/dev/shm"):
            if os.path.isdir(cand) or cand == ctx.workdir:
                os.makedirs(cand, exist_ok=True)
                if os.access(cand, os.W_OK) and clean_base(cand):
                    base = cand if cand == ctx.workdir else tempfile.mkdtemp(prefix="verif_c15_", dir=cand)
                    made = None if cand == ctx.workdir else base
                    break
        if base is None:
            res.count("noconfig-skipped")
        else:
            other = "tasks:\n  hello:\n    command:\n      - echo hello\npipelines:\n  p1:\n    - task: hello\n"
            argvs = [["list"], ["validate", "other.yaml"], ["show", "hello"], ["graph", "p1"], ["run", "hello"], ["list", "tasks"], ["validate", "missing.yaml"], ["-d", "list"]]
            qjobs = [{"id": k, "files": {"other.yaml": other}, "argv": a, "timeout": 10} for k, a in enumerate(argvs)]
            qout = clilib.run_cli(os.path.join(base, "noconfig"), qjobs, timeout=10)
            for j in qjobs:
                r = qout[j["id"]]
                res.evaluations += 1
                res.count("noconfig")
                res.nontrivial_keys.add("noconfig " + " ".join(j["argv"]))
                k = classify(r)
                if k >= 2:
                    res.violations.append({"class": None, "what": "`taskctl %s` with no configuration file anywhere (no -c, none found by default resolution) %s" % (
                        " ".join(j["argv"]), "did not end in 10 s" if k == 3 else "crashed"), "case": {"kind": "noconfig", "argv": j["argv"]},
                        "observed": {"rc": r["rc"], "tail": ((r.get("err") or "") + (r.get("out") or ""))[-1200:]}})
            if made:
                shutil.rmtree(made, ignore_errors=True)
    # ---- structured empty-body / env-file cases against the model ----
    if not ctx.replay_cases or any("nil" in c for c in ctx.replay_cases):
        ncs = [c for c in ctx.replay_cases if "nil" in c] if ctx.replay_cases else nil_cases(ctx)
        for k, c in enumerate(ncs):
            c["id"] = k
        njobs = [{"id": c["id"], "files": dict({"cfg.yaml": c["text"], "a.txt": "x"}, **c["files"]), "argv": ["-c", "cfg.yaml", "list"], "timeout": 10} for c in ncs]
        nout = clilib.run_cli(ctx.workdir + "/nil", njobs, timeout=10)
        items = []
        for c in ncs:
            r = nout[c["id"]]
            res.evaluations += 1
            res.count("empty-body")
            res.nontrivial_keys.add(c["text"])
            k = classify(r)
            c["_k"] = k
            if k >= 2:
                res.violations.append({"class": None, "what": "loading a configuration with an empty body / odd env file crashed or hung", "case": {x: y for x, y in c.items() if x != "_k"},
                                       "observed": ((r.get("err") or "") + (r.get("out") or ""))[-1200:]})
            items.append("(%d, (%s, %d))" % (c["id"], c["coq"], k))
        bad = set()
        for rc, o, start, cnt in vlib.coq_eval_sharded(ctx.workdir, "cases_c15", HEADER, items, lambda: FOOTER, shard=200):
            if rc != 0:
                res.mismatches.append({"what": "cases.v did not evaluate", "detail": o[-1500:]})
                continue
            pr = vlib.coq_printed(o)
            if "BAD" not in pr:
                res.mismatches.append({"what": "cases.v output lacks BAD", "detail": o[-800:]})
            bad.update(vlib.nums(pr.get("BAD", "")))
            res.traces_validated += cnt
        for cid in sorted(bad):
            if ncs[cid]["_k"] < 2:
                res.mismatches.append({"what": "accept/error differs from the model of the builders", "case": {x: y for x, y in ncs[cid].items() if x != "_k"}, "observed": ncs[cid]["_k"]})
    res.samples = [{k: v for k, v in cases[0].items()}, {k: v for k, v in cases[-1].items()}] if cases else []
    return res
