"""C14 - Execution-context hooks run the right number of times, in the right order.
Theorems: Properties/C14.v (Model/Ctx.v).  Correspondence: engine `taskrun` (real TaskRunner, simultaneous and sequential runs,
through the scheduler) and the taskctl binary; traces judged in Coq by Corr/CtxCorr.v."""
import json
import re
import vlib
import clilib

TRUSTED = [
    "model Model/Ctx.v: Run/contextForTask/Finish and ExecutionContext.Up/Down/Before/After as an LTS; sync.Once = first arriver runs up, others blocked until it returns",
    "context hooks are anonymous in observed traces (a hook command does not know its run): per-run attribution is checked by counting prefixes (Corr/CtxCorr.v prefix_ok); sequential plans are compared token by token with the model",
    "Go engine taskrun, python driver, the built binary",
]
ASSUMPTIONS = ["each context has three up commands (a failure is the middle one's) and one down / before / after command"]


def mk_ctx(c, up_ok=True, cb_ok=True, down_ok=True, slow_after=False):
    # several up commands: all of them run; the start-up failed if ANY of them failed (here the middle one), not only the last
    # (hook commands are separate shell runs: the `set -e` and the function of the first up command do not reach the before hook, whose
    # first statement fails and is not its last)
    return {"up": ['set -e; cb_guard() { exit 9; }; echo upb.%d >> "$TRACE"' % c, "exit %d" % (0 if up_ok else 3), 'sleep 0.03; echo upe.%d >> "$TRACE"' % c],
            "down": ['echo down.%d >> "$TRACE"; exit %d' % (c, 0 if down_ok else 6)],       # a failing down must not keep other contexts from theirs
            "before": ['false; if type cb_guard >/dev/null 2>&1; then cb_guard; fi; echo cb.%d >> "$TRACE"; exit %d' % (c, 0 if cb_ok else 4)],
            "after": [('sleep 0.4; ' if slow_after else '') + 'echo ca.%d >> "$TRACE"' % c], "env": {"CTXN": str(c)}}


def mk_task(r, c, shape, ok):
    """shape: which optional parts exist; the first part that executes prints body.r"""
    first = 'echo body.%d >> "$TRACE"' % r
    other = 'echo x.%d >> "$TRACE"' % r
    t = {"name": "t%d" % r, "context": "c%d" % c, "commands": [], "before": [], "after": [], "condition": ""}
    used = False
    if shape.get("cond"):
        t["condition"] = first + ("; exit 1" if shape["cond"] == "false" else "")
        used = True
    if shape.get("before"):
        t["before"] = [other if used else first]
        used = True
    t["commands"] = [(other if used else first) + ("" if ok else "; exit 5"), other]
    if shape.get("after"):
        t["after"] = [other]
    return t


def gen_cases(ctx):
    rng = vlib.rng_for(ctx.seed, "C14")
    cases = []
    n_cases = 400 if ctx.tier == "thorough" else 70
    for k in range(n_cases):
        nctx = rng.randint(1, 3)
        nrun = rng.randint(1, 8)
        upok = [rng.random() > 0.2 for _ in range(nctx)]
        cbok = [rng.random() > 0.12 for _ in range(nctx)]
        downok = [rng.random() > 0.35 for _ in range(nctx)]
        ctxs = [rng.randrange(nctx) for _ in range(nrun)]
        oks = [rng.random() > 0.3 for _ in range(nrun)]
        shapes = [{"cond": rng.choice([None, None, "true", "false"]), "before": rng.random() < 0.4, "after": rng.random() < 0.4} for _ in range(nrun)]
        mode = rng.choice(["par", "par", "seq", "mixed", "pipeline"]) if k >= 6 else ["seq", "par", "seq", "par", "mixed", "pipeline"][k]
        if k < 2:      # corpus: a task with condition, before and after (the shape on which the pinned code ran the context's before 4 times)
            shapes[0] = {"cond": "true", "before": True, "after": True}
            upok, cbok = [True] * nctx, [True] * nctx
        if k in (6, 7, 8):   # corpus: three contexts, all used, every down fails / only one fails
            nctx, ctxs, upok, cbok = 3, [0, 1, 2] + ctxs, [True] * 3, [True] * 3
            downok = [[False] * 3, [False, True, True], [True, True, False]][k - 6]
            oks, shapes = [True] * 3 + oks, [{"cond": None, "before": False, "after": False}] * 3 + shapes
        if k in (9, 10, 11, 12):   # a pipeline cancelled from ANOTHER goroutine while tasks run; the contexts' after hooks are slow: down still comes last
            nctx = 1 + k % 2
            ctxs = [i % nctx for i in range(2 + k % 3)]
            nrun = len(ctxs)
            upok, cbok, downok, oks = [True] * nctx, [True] * nctx, [True] * nctx, [True] * nrun
            shapes = [{"cond": None, "before": False, "after": False}] * nrun
            mode = "pipeline-cancel"
        cases.append({"id": len(cases), "nctx": nctx, "ctxs": ctxs, "upok": upok, "cbok": cbok, "downok": downok, "oks": oks, "shapes": shapes, "mode": mode, "kind": mode})
    return cases


def to_engine(c, workdir):
    n = len(c["ctxs"])
    tasks = [mk_task(r, c["ctxs"][r], c["shapes"][r], c["oks"][r]) for r in range(n)]
    contexts = {"c%d" % i: mk_ctx(i, c["upok"][i], c["cbok"][i], c.get("downok", [True] * 8)[i], slow_after=c["mode"] == "pipeline-cancel") for i in range(c["nctx"])}
    if c["mode"] == "pipeline-cancel":
        for t in tasks:
            t["commands"] = [t["commands"][0], "sleep 2"]
    if c["mode"] == "seq":
        plan = [{"op": "run", "tasks": list(range(n))}]
    elif c["mode"] == "par":
        plan = [{"op": "par", "tasks": list(range(n))}]
    elif c["mode"] == "mixed":
        h = n // 2
        plan = [{"op": "par", "tasks": list(range(h))}, {"op": "run", "tasks": list(range(h, n))}] if h else [{"op": "run", "tasks": list(range(n))}]
    elif c["mode"] == "pipeline-cancel":
        plan = [{"op": "pipeline", "stages": [{"task": r, "deps": [], "allow": False} for r in range(n)], "after_ms": 300}]
    else:
        plan = [{"op": "pipeline", "stages": [{"task": r, "deps": [], "allow": False} for r in range(n)]}]
    plan.append({"op": "finish"})
    plan.append({"op": "finish"})          # a second Finish must run nothing
    return {"id": c["id"], "dir": workdir, "contexts": contexts, "tasks": tasks, "plan": plan, "format": "raw"}


def coq_g(c):
    n = len(c["ctxs"])
    body_ok = [c["oks"][r] or c["shapes"][r].get("cond") == "false" for r in range(n)]
    return "(mkCC (fun r => nth r %s 0) (fun c => nth c %s true) (fun r => nth r %s true) (fun r => nth r %s true) %d)" % (
        vlib.clist(c["ctxs"]), vlib.clist(c["upok"], vlib.cbool), vlib.clist([c["cbok"][x] for x in c["ctxs"]], vlib.cbool),
        vlib.clist(body_ok, vlib.cbool), n)


TOK = re.compile(r"(upb|upe|cb|ca|body|down|x)\.(\d+)")


def coq_otrace(lines):
    """tokens are recognised by pattern: two processes appending at the same moment can glue their lines together"""
    out = []
    for k, v in TOK.findall("\n".join(lines)):
        con = {"upb": "OUpB", "upe": "OUpE", "cb": "OCb", "ca": "OCa", "body": "OBody", "down": "ODown"}.get(k)
        if con:
            out.append("%s %d" % (con, int(v)))
    return "[" + "; ".join(out) + "]"


def cli_jobs(ctx, first):
    """the binary: down once at the end, whether the targets succeed or fail"""
    jobs = []
    # every hook is a LIST of commands in which one command text occurs twice: each listed command runs, in order, as often as it is listed
    rep = 'echo rep.%s >> "$PROJ/trace"'
    ctxd = {"cx": {"up": [rep % "up", 'echo upb.0 >> "$PROJ/trace"; echo upe.0 >> "$PROJ/trace"', rep % "up"], "down": [rep % "down", 'echo down.0 >> "$PROJ/trace"', rep % "down"],
                   "before": [rep % "cb", 'echo cb.0 >> "$PROJ/trace"', rep % "cb"], "after": [rep % "ca", 'echo ca.0 >> "$PROJ/trace"', rep % "ca"]},
            "unused": {"up": ['echo upb.1 >> "$PROJ/trace"'], "down": ['echo down.1 >> "$PROJ/trace"']},
            "cy": {"up": ['echo upb.2 >> "$PROJ/trace"; echo upe.2 >> "$PROJ/trace"'], "down": ['echo down.2 >> "$PROJ/trace"; exit 7']},
            "cz": {"up": ['echo upb.3 >> "$PROJ/trace"; echo upe.3 >> "$PROJ/trace"'], "down": ['echo down.3 >> "$PROJ/trace"; exit 7']}}
    tasks = {"ok0": {"context": "cx", "command": ['echo body.0 >> "$PROJ/trace"']},
             "ok1": {"context": "cx", "command": ['echo body.1 >> "$PROJ/trace"'], "condition": "true", "before": ["true"], "after": ["true"]},
             "bad2": {"context": "cx", "command": ['echo body.2 >> "$PROJ/trace"; exit 3']},
             "s3": {"context": "cx", "command": ['echo body.3 >> "$PROJ/trace"']}, "s4": {"context": "cx", "command": ['echo body.4 >> "$PROJ/trace"; exit 2']}}
    doc = {"contexts": ctxd, "tasks": tasks, "pipelines": {"pok": [{"task": "s3"}], "pbad": [{"task": "s4"}]}}
    seqs = [["ok0"], ["bad2"], ["ok0", "ok1"], ["ok0", "bad2"], ["bad2", "ok0"], ["ok1", "ok0", "bad2"], ["pok"], ["pbad"], ["ok0", "pbad"], ["pok", "ok1"], ["ok0", "pok", "bad2"]]
    for s in seqs:
        for form in ("root", "run"):
            argv = ["-c", "cfg.json", "--raw"] + (["run"] if form == "run" else []) + s
            jobs.append({"id": first + len(jobs), "files": {"cfg.json": clilib.jcfg(doc)}, "argv": argv, "keep": ["trace"], "targets": s, "form": form, "kind": "cli"})
    return jobs


HEADER = """From Coq Require Import List Arith NArith Bool. Import ListNotations.
From TaskctlV Require Import Model.Ctx Corr.CtxCorr.
"""
FOOTER = """
Definition BAD := Eval vm_compute in map fst (filter (fun c => negb (snd c)) cases).
Print BAD.
"""


def run(ctx):
    res = vlib.Result()
    res.rule = ("1..8 tasks over 1..3 contexts run simultaneously (goroutines released together), in sequence, mixed, or as independent stages of the "
                "real scheduler; tasks with/without condition (true/false), before, after; succeeding and failing; up and context-before succeeding "
                "and failing; a pipeline cancelled from another goroutine while its tasks run (slow context after hooks); then Finish twice.  Through the binary: target sequences of tasks and pipelines, succeeding and failing.  Every trace is "
                "judged by the C14 monitor in Coq; sequential plans are also compared token by token with the model.  distinct = distinct case; "
                "non-trivial = at least 2 runs sharing a context.")
    cases = ctx.replay_cases if ctx.replay_cases else gen_cases(ctx)
    tcases = [c for c in cases if "ctxs" in c]
    jobs = [c for c in cases if "argv" in c] if ctx.replay_cases else cli_jobs(ctx, len(tcases))
    for k, c in enumerate(tcases):
        c["id"] = k
    obs, logs = vlib.run_engine(ctx.workdir, "taskrun", [to_engine(c, ctx.workdir) for c in tcases], timeout=900)
    items, index = [], {}
    for c in tcases:
        o = obs.get(c["id"])
        res.evaluations += 1
        res.count(c["kind"])
        if o is None or "harness_error" in o:
            res.mismatches.append({"case": c, "what": "engine produced no observation", "observed": o, "log": logs[:2]})
            continue
        if o.get("panic") or o.get("hung"):
            res.violations.append({"class": None, "what": "runs sharing a context crashed or hung", "case": c, "observed": o})
            continue
        n = len(c["ctxs"])
        errs = [False] * n
        for r in o["results"]:
            errs[r["task"]] = bool(r["err"])
        tr = coq_otrace(o.get("trace") or [])
        k = len(items)
        index[k] = (c, o, "monitor")
        if c["mode"] == "pipeline-cancel":
            items.append("(%d%%N, ctx_mon_cancelled %s %s true)" % (k, coq_g(c), tr))
            res.nontrivial_keys.add(json.dumps([c["ctxs"], c["mode"]]))
            continue
        items.append("(%d%%N, ctx_mon %s %s %s true)" % (k, coq_g(c), tr, vlib.clist(errs, vlib.cbool)))
        if c["mode"] == "seq":
            k = len(items)
            index[k] = (c, o, "sequential prediction")
            items.append("(%d%%N, seq_ok %s %s true)" % (k, coq_g(c), tr))
        if len(set(c["ctxs"])) < n:
            res.nontrivial_keys.add(json.dumps([c["ctxs"], c["mode"], c["upok"], c["cbok"], c["oks"], c["shapes"]], sort_keys=True))
    out = clilib.run_cli(ctx.workdir, jobs)
    for j in jobs:
        r = out[j["id"]]
        res.evaluations += 1
        res.count("cli")
        lines = (r["files"].get("trace") or "").split()
        runs = {"ok0": 0, "ok1": 1, "bad2": 2, "pok": 3, "pbad": 4}
        tg = j["targets"]
        stop = next((i for i, t in enumerate(tg) if t in ("bad2", "pbad")), len(tg) - 1)
        ran = tg[:stop + 1]
        # runs are numbered by their body token; the model gets the runs that happened, in order
        order = [runs[t] for t in ran]
        g = "(mkCC (fun _ => 0) (fun _ => true) (fun _ => true) (fun r => negb (Nat.eqb (nth r %s 9) 2 || Nat.eqb (nth r %s 9) 4)) %d)" % (
            vlib.clist(order), vlib.clist(order), len(order))
        renum = {b: i for i, b in enumerate(order)}
        tr = []
        bad_tok = False
        for k_, v in TOK.findall("\n".join(lines)):
            l = "%s.%s" % (k_, v)
            if k_ == "body":
                if int(v) not in renum:
                    bad_tok = True
                    continue
                tr.append("body.%d" % renum[int(v)])
            else:
                tr.append(l)
        reps_ok = True
        for hk, tok in (("up", "upb.0"), ("down", "down.0"), ("cb", "cb.0"), ("ca", "ca.0")):
            # ... the repeated command of a hook: before and after the hook's own token, every time the hook runs
            seq = [l for l in lines if l in ("rep." + hk, tok)]
            if seq != ["rep." + hk, tok, "rep." + hk] * (len(seq) // 3) or len(seq) % 3:
                reps_ok = False
        k = len(items)
        index[k] = (j, r, "cli")
        errs = vlib.clist([t in ("bad2", "pbad") for t in ran], vlib.cbool)
        # the monitor too: it is the one that places `down` after everything else (seq_ok compares the trace without the downs)
        items.append("(%d%%N, seq_ok %s %s true && ctx_mon %s %s %s true && %s)" % (
            k, g, coq_otrace(tr), g, coq_otrace(tr), errs, vlib.cbool(reps_ok and not bad_tok and not r["timeout"] and not clilib.crashed(r))))
        res.nontrivial_keys.add(json.dumps([tg, j["form"]]))
    bad = set()
    for rc, o, start, cnt in vlib.coq_eval_sharded(ctx.workdir, "cases_c14", HEADER, items, lambda: FOOTER, shard=300):
        if rc != 0:
            res.mismatches.append({"what": "cases.v did not evaluate", "detail": o[-1500:]})
            continue
        pr = vlib.coq_printed(o)
        if "BAD" not in pr:
            res.mismatches.append({"what": "cases.v output lacks BAD", "detail": o[-800:]})
        bad.update(vlib.nums(pr.get("BAD", "")))
        res.traces_validated += cnt
    seen = set()
    badkinds = {(id(index[k][0]), index[k][2]) for k in bad}
    for k in sorted(bad, key=lambda k: (index[k][2] != "monitor", k)):
        c, o, why = index[k]
        key = (id(c))
        if key in seen:
            continue
        seen.add(key)
        what = {"monitor": "context hooks ran a wrong number of times or out of order (up once and first; before/after once per task execution; down once at the end for used contexts; errors reported)",
                "sequential prediction": "context hooks ran a wrong number of times or out of order (up once and first; before/after once per task execution; down once at the end for used contexts; errors reported)",
                "cli": "through the CLI: hooks / down did not run exactly as: up once, before+after around each executed target, down exactly once after the last target whether it succeeded or failed"}[why]
        if why == "sequential prediction" and (id(c), "monitor") not in badkinds:
            res.mismatches.append({"what": "sequential run differs from the model's token sequence although the C14 monitor accepts it", "case": c, "observed": o})
            continue
        res.violations.append({"class": None, "what": what, "case": c, "observed": o, "detail": why})
    res.samples = [tcases[0], jobs[3] if jobs else None]
    return res
