"""C06 - Commands of a task run one at a time, in order, and stop at the first failure.
Theorems: Properties/C06.v (Model/TaskRun.v).  Correspondence: engine `taskrun` (real TaskRunner, real mvdan/sh commands)."""
import itertools
import json
import vlib
import tasklib

TRUSTED = [
    "model Model/TaskRun.v: transcription of TaskRunner.Run / before / execute / after / CompileTask; a command is abstracted to (Exit n | Fatal | NoStart, stdout bytes)",
    "the shell commands realising an abstract task have the fixed shape  echo TOKEN >> $TRACE; printf OUT; exit N  (per-variation via case \"$V\")",
    "mvdan.cc/sh interpreter and text/template (modelled: exit statuses, 'missingkey=error')",
]
ASSUMPTIONS = ["commands terminate and do not interfere with each other except through the trace file"]


def gen_cases(ctx, prop="C06"):
    rng = vlib.rng_for(ctx.seed, prop)
    cases = []
    thorough = ctx.tier == "thorough"

    def add(a, kind):
        cases.append({"id": len(cases), "a": a, "kind": kind})

    # exhaustive over the statement's grammar for small shapes: every subset of failing positions
    codes = (1, 2, 126, 127, 128, 129, 200, 255)
    for ncmds in (1, 2, 3):
        for nvars in (0, 1, 2, 3):
            nv = max(nvars, 1)
            positions = [(v, c) for v in range(nv) for c in range(ncmds)]
            subsets = list(itertools.chain.from_iterable(itertools.combinations(positions, k) for k in range(len(positions) + 1)))
            if len(subsets) > 64 and not thorough:
                subsets = [s for s in subsets if len(s) <= 1] + rng.sample(subsets, 40)
            for fail in subsets:
                for allow in (False, True):
                    # (half of the commands print something before they exit: "no\n" / "ok\n")
                    jobs = [[((("exit", rng.choice(codes)), rng.choice([[], [110, 111, 10]])) if (v, c) in fail else (("exit", 0), rng.choice([[], [], [111, 107, 10]])))
                             for c in range(ncmds)] for v in range(nv)]
                    hook = rng.choice([("none", "none"), ("ok", "ok"), ("fail", "ok"), ("ok", "fail"), ("none", "fail")])
                    before = {"none": [], "ok": [("exit", 0)], "fail": [("exit", rng.choice(codes))]}[hook[0]]
                    after = {"none": [], "ok": [("exit", 0)], "fail": [("exit", 3)]}[hook[1]]
                    cond = rng.choice([None, None, ("exit", 0), ("exit", 1)])
                    add({"cond": cond, "before": before, "jobs": jobs, "after": after, "allow": allow, "novar": nvars == 0}, "grammar")
    # every exit status 1..255 once as the first failure of a 2-command task, allow on/off  (also serves C07)
    for n in range(1, 256):
        for allow in (False, True):
            pos = n % 2
            jobs = [[(("exit", n) if c == pos else ("exit", 0), ([115, 116, 32, 37 + n % 80, 10] if n % 3 == 0 else [])) for c in range(2)]]
            add({"cond": None, "before": [], "jobs": jobs, "after": [("exit", 0)], "allow": allow, "novar": True}, "status")
    # random larger tasks
    for _ in range(1500 if thorough else 250):
        add(tasklib.rand_abstract(rng, rng.randint(1, 8), rng.randint(1, 5), novar=rng.random() < 0.2, outs=rng.random() < 0.5), "rand")
    return cases


HEADER = """From Coq Require Import List Arith NArith ZArith Bool. Import ListNotations.
From TaskctlV Require Import Model.TaskRun Corr.TaskRunCorr.
"""
FOOTER = """
Definition BAD_TRACE := Eval vm_compute in bad_ids (fun c => trace_ok (fst c) (snd c)) cases.
Definition BAD_STATUS := Eval vm_compute in bad_ids (fun c => status_ok (fst c) (snd c)) cases.
Definition BAD_OUTPUT := Eval vm_compute in bad_ids (fun c => output_ok (fst c) (snd c)) cases.
Print BAD_TRACE. Print BAD_STATUS. Print BAD_OUTPUT.
"""


def evaluate(ctx, cases, res, tag="c06"):
    """run the abstract tasks through the engine and judge them in Coq; returns {key: set(ids)} and obs"""
    ecases = [{"id": c["id"], "dir": ctx.workdir, "tasks": [tasklib.to_trtask(c["a"])], "plan": [{"op": "run", "tasks": [0]}],
               "format": ("raw", "prefixed", "raw")[c["id"] % 3]}          # what runs must not depend on how the output is decorated
              for c in cases]
    obs, logs = vlib.run_engine(ctx.workdir, "taskrun", ecases, tag=tag)
    items = []
    for c in cases:
        o = obs.get(c["id"])
        res.evaluations += 1
        res.count(c.get("kind", "replay"))
        if o is None or "harness_error" in o or not o.get("results"):
            res.mismatches.append({"case": c, "what": "engine produced no observation", "observed": o, "log": logs[:2]})
            continue
        if o.get("panic") or o.get("hung"):
            res.violations.append({"class": None, "what": "running the task crashed or hung", "case": c, "observed": o})
            continue
        try:
            items.append("(%d%%N, (%s, %s))" % (c["id"], tasklib.coq_task(c["a"]), tasklib.coq_observed(o["results"][0], o.get("trace") or [])))
        except ValueError as e:
            res.mismatches.append({"case": c, "what": str(e), "observed": o})
    bad = {}
    for rc, out, start, cnt in vlib.coq_eval_sharded(ctx.workdir, "cases_" + tag, HEADER, items, lambda: FOOTER, shard=500):
        if rc != 0:
            res.mismatches.append({"what": "cases.v did not evaluate", "detail": out[-1500:]})
            continue
        pr = vlib.coq_printed(out)
        for key in ("BAD_TRACE", "BAD_STATUS", "BAD_OUTPUT"):
            if key not in pr:
                res.mismatches.append({"what": "cases.v output lacks " + key, "detail": out[-800:]})
            bad.setdefault(key, set()).update(vlib.nums(pr.get(key, "")))
        res.traces_validated += cnt
    return bad, obs


def rerun_cases(ctx):
    """the SAME task object run twice: the first run fails at one command (not allowed), the second time every command succeeds.
    The second run must again execute before hooks, every command in order and the after hooks, and return no error."""
    rng = vlib.rng_for(ctx.seed, "C06rerun")
    cases = []
    for _ in range(60 if ctx.tier == "thorough" else 16):
        nc = rng.randint(1, 4)
        p = rng.randrange(nc)
        code = rng.choice([1, 2, 7, 130, 255])
        nb, na = rng.choice([0, 1, 2]), rng.choice([0, 1, 2])
        cases.append({"kind": "rerun", "nc": nc, "p": p, "code": code, "nb": nb, "na": na})
    return cases


def run_reruns(ctx, res, cases):
    ecases = []
    for k, c in enumerate(cases):
        cmds = []
        for i in range(c["nc"]):
            body = 'if [ -f "$WORKDIR/once" ]; then exit 0; else : > "$WORKDIR/once"; exit %d; fi' % c["code"] if i == c["p"] else "exit 0"
            cmds.append('echo "c0.%d" >> "$TRACE"; %s' % (i, body))
        t = {"name": "t", "commands": cmds, "before": ['echo b%d >> "$TRACE"' % i for i in range(c["nb"])], "after": ['echo a%d >> "$TRACE"' % i for i in range(c["na"])], "variations": None}
        ecases.append({"id": k, "dir": ctx.workdir, "tasks": [t, {"name": "mark", "commands": ['echo MARK >> "$TRACE"']}],
                       "plan": [{"op": "run", "tasks": [0]}, {"op": "run", "tasks": [1]}, {"op": "run", "tasks": [0]}], "format": "raw"})
    obs, logs = vlib.run_engine(ctx.workdir, "taskrun", ecases, tag="rerun")
    items = []
    for k, c in enumerate(cases):
        o = obs.get(k)
        res.evaluations += 1
        res.count("rerun")
        res.nontrivial_keys.add(json.dumps(c, sort_keys=True))
        if not o or not o.get("results") or o.get("panic") or o.get("hung"):
            res.violations.append({"class": None, "what": "running a task a second time crashed or hung", "case": c, "observed": o})
            continue
        tr = o.get("trace") or []
        second = tr[tr.index("MARK") + 1:] if "MARK" in tr else []
        runs = [r for r in o["results"] if r["task"] == 0]
        c["_obs"] = {"trace": tr, "errs": [r["err"] for r in runs]}
        a2 = {"cond": None, "before": [("exit", 0)] * c["nb"], "jobs": [[(("exit", 0), []) for _ in range(c["nc"])]], "after": [("exit", 0)] * c["na"], "allow": False, "novar": True}
        fake = {"output_b64": "", "exit_code": 0, "err": runs[-1]["err"] if len(runs) == 2 else True, "errored": False, "skipped": False}
        items.append("(%d%%N, (%s, %s))" % (k, tasklib.coq_task(a2), tasklib.coq_observed(fake, second)))
        if len(runs) != 2 or not runs[0]["err"] or runs[1]["err"]:
            res.violations.append({"class": None, "what": "run twice: the first run must report the failure, the second (every command succeeds) must report none",
                                   "case": c, "observed": c["_obs"]})
    bad = set()
    for rc, out, start, cnt in vlib.coq_eval_sharded(ctx.workdir, "cases_c06rerun", HEADER, items, lambda: FOOTER, shard=500):
        if rc != 0:
            res.mismatches.append({"what": "cases.v did not evaluate", "detail": out[-1500:]})
            continue
        bad.update(vlib.nums(vlib.coq_printed(out).get("BAD_TRACE", "")))
        res.traces_validated += cnt
    for k in sorted(bad):
        res.violations.append({"class": None, "what": "run twice: the second run did not execute before hooks, every command in order and the after hooks",
                               "case": {x: y for x, y in cases[k].items() if x != "_obs"}, "observed": cases[k].get("_obs")})
    for c in cases:
        c.pop("_obs", None)


def run_reconds(ctx, res):
    """the condition is evaluated at EVERY run: (a) the same task run twice, its condition true the first time and false the second (the first run
    leaves a file behind); (b) two tasks whose condition TEXT is the same and whose outcome differs through their environment"""
    ecases = []
    cond_a = 'echo cond >> "$TRACE"; [ ! -f "$WORKDIR/done.$ID" ]'
    for k in range(3):
        t = {"name": "t", "commands": ['echo "c0.0" >> "$TRACE"; : > "$WORKDIR/done.$ID"', 'echo "c0.1" >> "$TRACE"'], "condition": cond_a, "env": {"ID": "a%d" % k},
             "before": ['echo b0 >> "$TRACE"'] if k else [], "after": ['echo a0 >> "$TRACE"'] if k > 1 else [], "variations": None}
        ecases.append({"id": len(ecases), "dir": ctx.workdir, "tasks": [t, {"name": "mark", "commands": ['echo MARK >> "$TRACE"']}],
                       "plan": [{"op": "run", "tasks": [0]}, {"op": "run", "tasks": [1]}, {"op": "run", "tasks": [0]}], "format": "raw", "shape": "same-task", "nb": 1 if k else 0, "na": 1 if k > 1 else 0})
    cond_b = 'echo cond >> "$TRACE"; [ "$GO" = yes ]'
    for first in ("yes", "no"):
        other = "no" if first == "yes" else "yes"
        mk = lambda nm, go: {"name": nm, "commands": ['echo "c0.0" >> "$TRACE"'], "condition": cond_b, "env": {"GO": go}, "variations": None}
        ecases.append({"id": len(ecases), "dir": ctx.workdir, "tasks": [mk("t1", first), {"name": "mark", "commands": ['echo MARK >> "$TRACE"']}, mk("t2", other)],
                       "plan": [{"op": "run", "tasks": [0]}, {"op": "run", "tasks": [1]}, {"op": "run", "tasks": [2]}], "format": "raw", "shape": "same-text", "first": first})
    obs, logs = vlib.run_engine(ctx.workdir, "taskrun", ecases, tag="recond")
    items = []
    for c in ecases:
        o = obs.get(c["id"])
        res.evaluations += 1
        res.count("recond")
        res.nontrivial_keys.add("recond-%s-%d" % (c["shape"], c["id"]))
        case = {"kind": "recond", "shape": c["shape"], "tasks": c["tasks"], "plan": c["plan"]}
        if not o or not o.get("results") or o.get("panic") or o.get("hung"):
            res.violations.append({"class": None, "what": "running tasks with conditions crashed or hung", "case": case, "observed": o})
            continue
        tr = o.get("trace") or []
        if "MARK" not in tr:
            res.mismatches.append({"what": "trace lacks the separator", "case": case, "observed": tr})
            continue
        halves = [tr[:tr.index("MARK")], tr[tr.index("MARK") + 1:]]
        if c["shape"] == "same-task":
            runs_first = [True, False]
            nb, na = c["nb"], c["na"]
        else:
            runs_first = [c["first"] == "yes", c["first"] != "yes"]
            nb = na = 0
        for h, runs in zip(halves, runs_first):
            a = {"cond": ("exit", 0 if runs else 1), "before": [("exit", 0)] * nb, "jobs": [[(("exit", 0), []) for _ in range(2 if c["shape"] == "same-task" else 1)]],
                 "after": [("exit", 0)] * na, "allow": False, "novar": True}
            fake = {"output_b64": "", "exit_code": 0, "err": False, "errored": False, "skipped": not runs}
            items.append("(%d%%N, (%s, %s))" % (len(items), tasklib.coq_task(a), tasklib.coq_observed(fake, h)))
            c.setdefault("_k", []).append(len(items) - 1)
    bad = set()
    for rc, out, start, cnt in vlib.coq_eval_sharded(ctx.workdir, "cases_c06recond", HEADER, items, lambda: FOOTER, shard=500):
        if rc != 0:
            res.mismatches.append({"what": "cases.v did not evaluate", "detail": out[-1500:]})
            continue
        bad.update(vlib.nums(vlib.coq_printed(out).get("BAD_TRACE", "")))
        res.traces_validated += cnt
    for c in ecases:
        if any(k in bad for k in c.get("_k", [])):
            res.violations.append({"class": None, "what": "a task's condition is evaluated at every run: a run was skipped / executed according to ANOTHER run's condition result",
                                   "case": {"kind": "recond", "shape": c["shape"], "tasks": c["tasks"], "plan": c["plan"]}, "observed": (obs.get(c["id"]) or {}).get("trace")})


CFG_MODES = {"direct": ["t"], "run-task": ["run", "task", "t"], "stage": ["p"], "stage-overrides": ["po"], "nested": ["outer"], "stage-allow": ["pa"]}
FOOTER_CFG = """
Definition BAD := Eval vm_compute in bad_ids (fun c => trace_ok (fst c) (mkObs (fst (snd c)) false false false 0%Z []) && Bool.eqb (o_err (run_task (fst c))) (snd (snd c))) cases.
Print BAD.
"""


def cfg_cases(ctx):
    """the same kind of task WRITTEN IN A CONFIGURATION FILE and run by the binary: directly, via `run task`, as a stage, as a stage with
    per-stage overrides, inside a nested pipeline"""
    rng = vlib.rng_for(ctx.seed, "C06cfg")
    cases = []
    for _ in range(150 if ctx.tier == "thorough" else 45):
        a = tasklib.rand_abstract(rng, rng.randint(1, 4), rng.choice([1, 1, 2, 3]), novar=rng.random() < 0.4, nostart=0.0)
        cases.append({"kind": "cfg", "a": a, "mode": rng.choice(sorted(CFG_MODES))})
    return cases


def run_cfg(ctx, res, cases):
    import clilib
    jobs = []
    for k, c in enumerate(cases):
        doc = {"tasks": {"t": tasklib.to_config_task(c["a"])},
               "pipelines": {"p": [{"task": "t"}], "po": [{"task": "t", "env": {"SOME": "x"}, "variables": {"v": "1"}}], "outer": [{"pipeline": "p", "name": "inner"}],
                             # the STAGE's allow_failure lets the pipeline go on; it does not make the task run on after a failing command
                             "pa": [{"task": "t", "allow_failure": True}]}}
        jobs.append({"id": k, "files": {"cfg.json": clilib.jcfg(doc)}, "argv": ["-c", "cfg.json"] + (["--raw"] if k % 2 else ["--output", "prefixed"]) + CFG_MODES[c["mode"]], "keep": ["out"]})
    out = clilib.run_cli(ctx.workdir, jobs)
    items = []
    for k, c in enumerate(cases):
        r = out[k]
        res.evaluations += 1
        res.count("cfg-" + c["mode"])
        res.nontrivial_keys.add(json.dumps([c["a"], c["mode"]], sort_keys=True))
        if r["timeout"] or clilib.crashed(r):
            res.violations.append({"class": None, "what": "taskctl hung or crashed running a task written in a configuration file", "case": c, "observed": r})
            continue
        try:
            tr = vlib.clist((r["files"].get("out") or "").split(), tasklib.parse_tok)
        except ValueError as e:
            res.mismatches.append({"case": c, "what": str(e), "observed": r})
            continue
        failed = r["rc"] != 0
        if c["mode"] == "stage-allow":      # the stage's failure is forgiven by the pipeline: only the trace is judged (and the process must not fail)
            if failed:
                res.violations.append({"class": None, "what": "a pipeline whose only stage allows failure ended with a failure status", "case": c, "observed": r})
                continue
            failed = "(o_err (run_task %s))" % tasklib.coq_task(c["a"])
        else:
            failed = vlib.cbool(failed)
        items.append("(%d%%N, (%s, (%s, %s)))" % (k, tasklib.coq_task(c["a"]), tr, failed))
    bad = set()
    for rc, o, start, cnt in vlib.coq_eval_sharded(ctx.workdir, "cases_c06cfg", HEADER, items, lambda: FOOTER_CFG, shard=500):
        if rc != 0:
            res.mismatches.append({"what": "cases.v did not evaluate", "detail": o[-1500:]})
            continue
        pr = vlib.coq_printed(o)
        if "BAD" not in pr:
            res.mismatches.append({"what": "cases.v output lacks BAD", "detail": o[-800:]})
        bad.update(vlib.nums(pr.get("BAD", "")))
        res.traces_validated += cnt
    for k in sorted(bad):
        res.violations.append({"class": None, "what": "a task written in a configuration file and run by the binary: the executed commands / their order (or the reported failure) differ from: "
                               "before, then variation-major commands up to the first failure, then after", "case": cases[k], "observed": out[k]})


def run(ctx):
    res = vlib.Result()
    if ctx.replay_cases and all(c.get("kind") == "recond" for c in ctx.replay_cases):
        run_reconds(ctx, res)
        res.rule = "replay of the condition-at-every-run cases"
        res.samples = ctx.replay_cases[:2]
        return res
    if ctx.replay_cases and all(c.get("kind") == "cfg" for c in ctx.replay_cases):
        run_cfg(ctx, res, ctx.replay_cases)
        res.rule = "replay of configuration-file cases"
        res.samples = ctx.replay_cases[:2]
        return res
    if ctx.replay_cases and all(c.get("kind") == "rerun" for c in ctx.replay_cases):
        run_reruns(ctx, res, ctx.replay_cases)
        res.rule = "replay of run-twice cases"
        res.samples = ctx.replay_cases[:2]
        return res
    cases = ctx.replay_cases if ctx.replay_cases else gen_cases(ctx)
    for k, c in enumerate(cases):
        c["id"] = k
    res.rule = ("exhaustive over the statement's grammar for <=3 commands x {none,1,2,3} variations: every subset of failing positions "
                "(sampled above 64 subsets in quick) x allow_failure x before/after absent/ok/failing x condition absent/true/false; every exit "
                "status 1..255 as first failure; random tasks up to 8 commands x 5 variations incl. commands that cannot start (undefined "
                "template variable); the same task object run twice; random tasks written in a configuration file and run by the binary (directly, `run task`, "
                "stage, stage with overrides, nested pipeline).  distinct = distinct abstract task; non-trivial = at least 2 jobs and at least one failing command or hook.")
    bad, obs = evaluate(ctx, cases, res)
    for c in cases:
        a = c["a"]
        njobs = sum(len(v) for v in a["jobs"])
        if njobs >= 2 and (any(r[0] != "exit" or r[1] != 0 for v in a["jobs"] for r, _ in v) or a["before"] or a["after"] or a["cond"]):
            res.nontrivial_keys.add(json.dumps(a, sort_keys=True))
    for cid in sorted(bad.get("BAD_TRACE", ())):
        res.violations.append({"class": None, "what": "the executed commands / their order differ from: before, then variation-major commands up to the first failure, then after",
                               "case": cases[cid], "observed": obs.get(cid)})
    flagged = set(bad.get("BAD_TRACE", ()))
    for cid in sorted(bad.get("BAD_STATUS", set()) - flagged):
        res.mismatches.append({"what": "skipped/errored/exit-code/error differ from the model (C07's subject)", "case": cases[cid], "observed": obs.get(cid)})
    if not ctx.replay_cases:
        run_reruns(ctx, res, rerun_cases(ctx))
        run_reconds(ctx, res)
        run_cfg(ctx, res, cfg_cases(ctx))
    res.samples = [cases[3], cases[len(cases) // 2]]
    return res
