"""C17 - Imports load every reachable file once; cycles terminate; broken imports fail.
Theorems: Properties/C17.v (Model/Loader.v).  Correspondence: the taskctl binary on generated directory trees (files in
nested directories importing each other by relative paths, directory imports, repeated imports, one file missing or unparsable
at every position), and on every split of a set of definitions between $HOME/.taskctl/config.yaml and the project file."""
import itertools
import json
import os
import vlib
import clilib

TRUSTED = [
    "model Model/Loader.v: Loader.load/loadDir as a traversal with the `imports` set marked before reading; path.Join/Dir/Clean on segment lists; a file = its import field + a list of definition atoms; mergo.Merge of non-conflicting maps with AppendSlice = concatenation in merge order",
    "observation device: every generated file adds one command `echo F<i>` to a shared task `acc`; running `acc` lists the merged files in merge order, with multiplicity",
    "yaml.v2, mergo, filepath.Glob (sorted), os.Stat; URL imports are outside the model; python driver running the built binary",
]
ASSUMPTIONS = ["definitions of different files do not conflict (the statement's quantifier)", "import paths stay inside the generated project directory"]

LAYOUT = ["r0.yaml", "sub/f1.yaml", "sub/deep/f2.yaml", "lib/f3.yaml", "lib/x/f4.yaml", "f5.yaml", "lib/g6.yaml"]


class Segs:
    def __init__(self):
        self.m = {"..": 0, ".": 1, "proj": 2}

    def seg(self, s):
        if s not in self.m:
            self.m[s] = len(self.m)
        return self.m[s]

    def path(self, rel):
        return [self.seg(x) for x in rel.split("/") if x != ""]


def relimport(rng, frm, to, fancy):
    d = os.path.dirname(frm)
    r = os.path.relpath(to, d or ".")
    if fancy and rng is not None:
        k = rng.random()
        if k < 0.25:
            r = "./" + r
        elif k < 0.4:
            r = "zz/../" + r
        elif k < 0.5 and d:
            r = "../" + os.path.basename(d) + "/" + r
    return r


def mk_case(cid, nfiles, edges, kind, broken=None, rng=None, fancy=False, dir_imports=(), repeat=False, badshape=None):
    """edges: list of (i, j) in import-list order per importer; broken: {file index: "missing"|"unparsable"};
    dir_imports: list of (i, dirname) appended to i's import list; badshape: (i, "string"|"entry")"""
    files = {}
    imports = {i: [] for i in range(nfiles)}
    for i, j in edges:
        imports[i].append(relimport(rng, LAYOUT[i], LAYOUT[j], fancy))
    for i, dname in dir_imports:
        imports[i].append(relimport(rng, LAYOUT[i], dname, fancy))
    if repeat:
        for i in imports:
            if imports[i]:
                imports[i].append(imports[i][0])
    return {"id": cid, "kind": kind, "nfiles": nfiles, "imports": imports, "broken": broken or {}, "badshape": badshape}


def render(c):
    """-> (files for clilib, coq fs term, root path term)"""
    S = Segs()
    files, nodes = {}, []
    n = c["nfiles"]
    present = {}
    for i in range(n):
        b = c["broken"].get(str(i), c["broken"].get(i))
        rel = LAYOUT[i]
        if b == "missing":
            continue
        present[rel] = i
        if b == "unparsable":
            files[rel] = "tasks: [:\n  - {"
            nodes.append((S.path("proj/" + rel), "NUnparsable"))
            continue
        imps = c["imports"].get(str(i), c["imports"].get(i, []))
        doc = {"tasks": {"acc": {"command": ['echo F%d >> "$PROJ/out"' % i]}, "t%d" % i: {"command": ["true"]}}}
        shape = c.get("badshape")
        ents = ["(EPath %s)" % vlib.clist(S.path(x), str) for x in imps]
        ifield = "(IList %s)" % vlib.clist(ents) if imps else "INone"
        if imps:
            doc["import"] = list(imps)
        if shape and shape[0] == i:
            if shape[1] == "string":
                doc["import"] = imps[0] if imps else "nothing.yaml"
                ifield = "IBad"
            else:
                doc["import"] = list(imps) + [7]
                ifield = "(IList %s)" % vlib.clist(ents + ["EBad"])
        files[rel] = json.dumps(doc)       # JSON is YAML
        nodes.append((S.path("proj/" + rel), "(NFile (mkCF %s [%d]))" % (ifield, i)))
    # directories that hold generated files: a directory import globs their *.yaml members in name order
    dirs = {}
    for rel in sorted(files):
        d = os.path.dirname(rel)
        if d:
            dirs.setdefault(d, []).append(os.path.basename(rel))
            dd = os.path.dirname(d)
            while dd:
                dirs.setdefault(dd, [])
                dd = os.path.dirname(dd)
    for d, names in dirs.items():
        nodes.append((S.path("proj/" + d), "(NDir %s)" % vlib.clist([S.seg(x) for x in sorted(names) if x.endswith(".yaml")], str)))
    fs = vlib.clist(nodes, lambda pn: "(%s, %s)" % (vlib.clist(pn[0], str), pn[1]))
    return files, fs, vlib.clist(S.path("proj/" + LAYOUT[0]), str)


def gen_cases(ctx):
    rng = vlib.rng_for(ctx.seed, "C17")
    thorough = ctx.tier == "thorough"
    cases = []
    # exhaustive: every import graph on <= 3 files (self-loops and cycles included), files in nested directories
    for n in (1, 2, 3):
        pairs = [(i, j) for i in range(n) for j in range(n)]
        for mask in range(1 << len(pairs)):
            edges = [p for k, p in enumerate(pairs) if mask >> k & 1]
            cases.append(mk_case(len(cases), n, edges, "exhaustive-%d" % n))
    # the same with the import lists reversed / fancy relative paths (./  zz/../  ../dir/), sampled
    pairs = [(i, j) for i in range(3) for j in range(3)]
    for mask in rng.sample(range(512), 300 if thorough else 80):
        edges = [p for k, p in enumerate(pairs) if mask >> k & 1]
        edges.reverse()
        cases.append(mk_case(len(cases), 3, edges, "fancy-paths", rng=rng, fancy=True, repeat=rng.random() < 0.3))
    # random graphs up to 6-7 files, directory imports, repeated imports
    for _ in range(600 if thorough else 150):
        n = rng.randint(4, 7)
        edges = [(i, j) for i in range(n) for j in range(n) if rng.random() < 0.22]
        rng.shuffle(edges)
        dimp = []
        if rng.random() < 0.5:
            dimp.append((rng.randrange(n), rng.choice(["lib", "sub", "lib/x", "sub/deep"])))
        cases.append(mk_case(len(cases), n, edges, "random", rng=rng, fancy=rng.random() < 0.5, dir_imports=dimp, repeat=rng.random() < 0.3))
    # a directory import whose members differ: one has imports of its own (in and outside the directory), one is plain
    for edges in ([(3, 1)], [(6, 1)], [(3, 6)], [(6, 3), (3, 1)], [(3, 1), (6, 2)], [(3, 4)], []):
        for root_first in (True, False):
            e = ([(0, 5)] if root_first else []) + list(edges)
            cases.append(mk_case(len(cases), 7, e, "dir-mixed", dir_imports=[(0, "lib")]))
            cases.append(mk_case(len(cases), 7, e + [(1, 2)], "dir-mixed", dir_imports=[(5, "lib"), (0, "sub")] if root_first else [(0, "lib"), (0, "sub")]))
    # one file missing / unparsable at every position, reachable or not
    base = [c for c in cases if c["kind"] in ("random", "exhaustive-3") and any(c["imports"].values())]
    for c in rng.sample(base, 200 if thorough else 60):
        for i in range(c["nfiles"]):
            if thorough or rng.random() < 0.6:
                for how in ("missing", "unparsable"):
                    d = json.loads(json.dumps(c))
                    d.update(id=len(cases), kind="broken-" + how, broken={str(i): how})
                    cases.append(d)
    # the import field itself mis-shapen
    for c in rng.sample(base, 30 if thorough else 10):
        for shape in ("string", "entry"):
            d = json.loads(json.dumps(c))
            d.update(id=len(cases), kind="import-shape", badshape=[rng.randrange(c["nfiles"]), shape])
            cases.append(d)
    return cases


def global_cases(ctx):
    """every split of {task ta (runs in context ca), task tb (in cb), context ca, context cb, variable va, variable vb} between global and project file"""
    items = ["ta", "tb", "ca", "cb", "va", "vb"]
    jobs = []
    for mask in range(64):
        g = {"tasks": {}, "contexts": {}, "variables": {}}
        p = {"tasks": {"printvars": {"command": ['echo "{{.va}}-{{.vb}}" >> "$PROJ/out"']}}, "contexts": {}, "variables": {}}
        where = {}
        for k, it in enumerate(items):
            tgt = g if mask >> k & 1 else p
            where[it] = "global" if mask >> k & 1 else "project"
            if it[0] == "t":
                # each task runs in a context that may be defined in the OTHER file
                tgt["tasks"][it] = {"command": ['echo %s:$X >> "$PROJ/out"' % it], "context": "c" + it[1]}
            elif it[0] == "c":
                tgt["contexts"][it] = {"env": {"X": it}}
            else:
                tgt["variables"][it] = it.upper()
        g = {k: v for k, v in g.items() if v}
        p = {k: v for k, v in p.items() if v}
        home = {".taskctl/config.yaml": json.dumps(g)} if g else {}
        if g and mask % 2:          # the global file has imports of its own (relative to its directory), one of them nested
            g["import"] = ["more/extra.yaml"]
            home = {".taskctl/config.yaml": json.dumps(g), ".taskctl/more/extra.yaml": json.dumps({"import": ["deeper.yaml"], "tasks": {"tg": {"command": ['echo tg >> "$PROJ/out"']}}}),
                    ".taskctl/more/deeper.yaml": json.dumps({"tasks": {"tgg": {"command": ['echo tgg >> "$PROJ/out"']}}})}
        for argv, tag in ((["list"], "list"), (["--raw", "printvars", "ta", "tb"] + (["tg", "tgg"] if g.get("import") else []), "run")):
            jobs.append({"id": len(jobs), "files": {"taskctl.yaml": json.dumps(p)}, "home": home, "argv": argv, "keep": ["out"], "where": where, "tag": tag, "mask": mask,
                         "gimport": bool(g.get("import"))})
    return jobs


HEADER = """From Coq Require Import List Arith Bool. Import ListNotations.
From TaskctlV Require Import Model.Loader Corr.LoaderCorr.
"""
FOOTER = """
Definition BAD_MODEL := Eval vm_compute in bad_ids model_ok cases.
Definition BAD_MON := Eval vm_compute in bad_ids monitor_ok cases.
Print BAD_MODEL. Print BAD_MON.
"""


def run(ctx):
    res = vlib.Result()
    res.rule = ("EXHAUSTIVE: every import graph on 1..3 files (all 2^(n*n) edge sets, self-loops and cycles included) with the files in nested "
                "directories; sampled with reversed lists and redundant relative paths; random graphs on 4..7 files with directory imports and "
                "repeated imports; one file missing / unparsable at every position; mis-shapen import fields; all 64 splits of 6 definitions "
                "between the global and the project file.  distinct = distinct tree; non-trivial = at least one import edge.")
    cases = ctx.replay_cases if ctx.replay_cases else gen_cases(ctx)
    # a replay of a case of the global / mixed-formats sections runs that section again
    replay_sections = {c.get("kind") for c in (ctx.replay_cases or []) if c.get("kind") in ("global", "mixed-formats")}
    cases = [c for c in cases if c.get("kind") not in ("global", "mixed-formats")] if ctx.replay_cases else cases
    for k, c in enumerate(cases):
        c["id"] = k
    jobs, terms = [], {}
    for c in cases:
        files, fs, root = render(c)
        terms[c["id"]] = (fs, root)
        jobs.append({"id": c["id"], "files": files, "argv": ["-c", LAYOUT[0], "--raw", "acc"], "keep": ["out"], "timeout": 20})
    out = clilib.run_cli(ctx.workdir, jobs, timeout=20)
    items = []
    for c in cases:
        r = out[c["id"]]
        res.evaluations += 1
        res.count(c["kind"])
        if any(c["imports"].values()):
            res.nontrivial_keys.add(json.dumps([c["nfiles"], c["imports"], c["broken"], c.get("badshape")], sort_keys=True))
        if r["timeout"]:
            kind = 3
        elif clilib.crashed(r):
            kind = 2
        elif r["rc"] == 0:
            kind = 0
        elif r["rc"] == 1:
            kind = 1
        else:
            kind = 2
        ids = [int(l[1:]) for l in (r["files"].get("out") or "").split() if l.startswith("F")]
        fs, root = terms[c["id"]]
        items.append("(%d, mkLC %s %s (mkLO %d %s))" % (c["id"], fs, root, kind, vlib.clist(ids, str)))
        c["_obs"] = {"kind": ["loaded", "error", "crash", "timeout"][kind], "ids": ids, "stderr": (r.get("err") or "")[-400:]}
    bad = {"BAD_MODEL": set(), "BAD_MON": set()}
    for rc, o, start, cnt in vlib.coq_eval_sharded(ctx.workdir, "cases_c17", HEADER, items, lambda: FOOTER, shard=150):
        if rc != 0:
            res.mismatches.append({"what": "cases.v did not evaluate", "detail": o[-1500:]})
            continue
        pr = vlib.coq_printed(o)
        for key in bad:
            if key not in pr:
                res.mismatches.append({"what": "cases.v output lacks " + key, "detail": o[-800:]})
            bad[key].update(vlib.nums(pr.get(key, "")))
        res.traces_validated += cnt
    for cid in sorted(bad["BAD_MON"]):
        c = cases[cid]
        ob = c.get("_obs", {})
        what = {"crash": "loading crashed instead of failing with an error", "timeout": "loading did not terminate",
                "loaded": "loading succeeded although a file of the import closure is missing or cannot be parsed, or the merged definitions are not those of the closure, each once",
                "error": "loading failed although every file of the import closure is readable"}[ob.get("kind", "error")]
        res.violations.append({"class": None, "what": what, "case": {k: v for k, v in c.items() if k != "_obs"}, "observed": ob})
    for cid in sorted(bad["BAD_MODEL"] - bad["BAD_MON"]):
        c = cases[cid]
        res.mismatches.append({"what": "outcome or merge order differs from the model of Loader.load", "case": {k: v for k, v in c.items() if k != "_obs"}, "observed": c.get("_obs")})
    for c in cases:
        c.pop("_obs", None)
    # ---- global + project ---------------------------------------------------------------------------------------
    if not ctx.replay_cases or "global" in replay_sections:
        gj = global_cases(ctx)
        gout = clilib.run_cli(os.path.join(ctx.workdir, "g"), gj, timeout=20)
        for j in gj:
            r = gout[j["id"]]
            res.evaluations += 1
            res.count("global-" + j["tag"])
            res.nontrivial_keys.add("g%d%s" % (j["mask"], j["tag"]))
            case = {"kind": "global", "where": j["where"], "argv": j["argv"]}
            if r["timeout"] or clilib.crashed(r):
                res.violations.append({"class": None, "what": "loading global + project configuration crashed or hung", "case": case, "observed": (r.get("err") or "")[-600:]})
                continue
            if j["tag"] == "list":
                txt = r.get("out") or ""
                missing = [it for it in ("ta", "tb", "ca", "cb") + (("tg", "tgg") if "tg" in j["argv"] or j.get("gimport") else ()) if ("- " + it) not in txt]
                if r["rc"] != 0 or missing:
                    res.violations.append({"class": None, "what": "a task or context defined in the global file or in the project file is not available (missing: %s)" % ",".join(missing),
                                           "case": case, "observed": {"rc": r["rc"], "out": txt[-600:], "err": (r.get("err") or "")[-300:]}})
            else:
                lines = (r["files"].get("out") or "").split()
                if r["rc"] != 0 or lines != ["VA-VB", "ta:ca", "tb:cb"] + (["tg", "tgg"] if j.get("gimport") else []):
                    res.violations.append({"class": None, "what": "variables / tasks of the global and project files are not all usable from the project",
                                           "case": case, "observed": {"rc": r["rc"], "out": lines, "err": (r.get("err") or "")[-400:]}})
    # ---- files of different formats in one import graph, with names YAML reads as integers ------------------------------
    if not ctx.replay_cases or "mixed-formats" in replay_sections:
        inc = "tasks:\n  2024:\n    command: [\"echo y2024 >> \\\"$PROJ/out\\\"\"]\n  extra:\n    command: [\"echo extra >> \\\"$PROJ/out\\\"\"]\n    env: {404: nf}\n"
        main = {"import": ["inc.yaml"], "tasks": {"main": {"command": ['echo main >> "$PROJ/out"']}}}
        # files and directories whose names merely BEGIN like a URL scheme are files and directories
        hmain = {"import": ["http-checks.yaml", "httpd"], "tasks": {"main": {"command": ['echo main >> "$PROJ/out"']}}}
        hj = {"id": 0, "files": {"cfg.yaml": json.dumps(hmain), "http-checks.yaml": json.dumps({"tasks": {"h1": {"command": ['echo h1 >> "$PROJ/out"']}}}),
                                 "httpd/x.yaml": json.dumps({"tasks": {"h2": {"command": ['echo h2 >> "$PROJ/out"']}}})}, "argv": ["-c", "cfg.yaml", "--raw", "main", "h1", "h2"], "keep": ["out"]}
        hr = clilib.run_cli(os.path.join(ctx.workdir, "httpnames"), [hj], timeout=20)[0]
        res.evaluations += 1
        res.count("http-like-names")
        res.nontrivial_keys.add("http-like-names")
        if hr["timeout"] or clilib.crashed(hr) or hr["rc"] != 0 or (hr["files"].get("out") or "").split() != ["main", "h1", "h2"]:
            res.violations.append({"class": None, "what": "imported files / directories whose names begin with `http`: not every definition is available",
                                   "case": {"kind": "mixed-formats", "files": hj["files"], "argv": hj["argv"]}, "observed": {"rc": hr["rc"], "out": hr["files"].get("out"), "err": (hr.get("err") or "")[-400:]}})
        mj = []
        for fn, text in (("cfg.json", json.dumps(main)), ("cfg.yaml", json.dumps(main)), ("cfg.toml", 'import = ["inc.yaml"]\n[tasks.main]\ncommand = ["echo main >> \\"$PROJ/out\\""]\n')):
            mj.append({"id": len(mj), "files": {fn: text, "inc.yaml": inc}, "argv": ["-c", fn, "--raw", "main", "2024", "extra"], "keep": ["out"], "fn": fn})
        mout = clilib.run_cli(os.path.join(ctx.workdir, "mixed"), mj, timeout=20)
        for j in mj:
            r = mout[j["id"]]
            res.evaluations += 1
            res.count("mixed-formats")
            res.nontrivial_keys.add("mixed" + j["fn"])
            lines = (r["files"].get("out") or "").split()
            if r["timeout"] or clilib.crashed(r) or r["rc"] != 0 or lines != ["main", "y2024", "extra"]:
                res.violations.append({"class": None, "what": "a %s file importing a YAML file whose task names YAML reads as integers: not every definition of the imported file is available" % j["fn"].split(".")[1],
                                       "case": {"kind": "mixed-formats", "files": j["files"], "argv": j["argv"]}, "observed": {"rc": r["rc"], "out": lines, "err": (r.get("err") or "")[-400:]}})
    res.exhaustive = False
    res.samples = [cases[min(300, len(cases) - 1)], cases[-1]] if cases else []
    return res
