"""C11 - A task's output is captured exactly and handed to the stages that depend on it.
Theorems: Properties/C11.v (Model/Output.v, Model/TaskRun.v, Model/Sched.v).
Correspondence: engine `taskrun` - the real TaskRunner (and the real Scheduler for pipelines) running real shell commands that
print chosen bytes to stdout / stderr; consumers dump their whole environment (`env -0`) and every command dumps the
`{{.Output}}` it was rendered with; judged in Coq by Corr/OutputCorr.v."""
import base64
import json
import vlib

TRUSTED = [
    "model Model/Output.v: TaskRunner.execute's prevOutput loop, storeTaskOutput's name derivation, r.env as a function of the scheduler log; commands abstracted to the chunks they write to stdout/stderr and whether they end the task",
    "the fixed shape of the generated commands (printf with octal escapes, `env -0 | od` dumps); mvdan/sh, text/template, coreutils env/od/tr",
    "Go engine taskrun, python driver",
]
ASSUMPTIONS = ["outputs contain no NUL byte (environment values cannot hold one) and, where a later command inlines {{.Output}} into a single-quoted shell word, no single quote",
               "exported names of the stages of one generated pipeline are pairwise distinct"]

ALPHA = [10, 10, 13, 9, 32, 32, 65, 97, 122, 48, 34, 92, 36, 37, 96, 123, 125, 0x7E, (0xC3, 0xA9), (0xE2, 0x9C, 0x93),
         (27, 91, 51, 49, 109), (27, 91, 48, 109)]          # ... and colour escape sequences (the decorators may strip them on screen, never in the capture)
DUMP = "$(env -0 | od -An -v -tx1 | tr -d ' \\n')"
PREV = "$(printf '%s' '{{.Output}}' | od -An -v -tx1 | tr -d ' \\n')"


def rbytes(rng, n):
    out = []
    while len(out) < n:
        a = rng.choice(ALPHA)
        out.extend(a if isinstance(a, tuple) else [a])
    return out


def sh_printf(bs, fd):
    if not bs:
        return ""
    return "printf '%s'%s; " % ("".join("\\%03o" % b for b in bs), "" if fd else " >&2")


def rand_job(rng, p_fail=0.15):
    k = rng.choice([0, 1, 1, 2, 3])
    chunks = [(rng.random() < 0.75, rbytes(rng, rng.choice([0, 1, 2, 5, 17, 80]))) for _ in range(k)]
    return {"chunks": chunks, "exit": rng.choice([1, 2, 255]) if rng.random() < p_fail else 0}


def mk_task(name, export_as, jobs, allow, novar, dump_first=None):
    """jobs[v][c] = {"chunks", "exit"}"""
    tf = '"$TRACE"' if dump_first is None else '"$TRACE.%s"' % dump_first
    nv = len(jobs)
    nc = len(jobs[0])
    cmds = []
    for c in range(nc):
        arms = []
        for v in range(nv):
            j = jobs[v][c]
            if j.get("big"):
                blk, times = j["big"]
                body = "i=0; while [ $i -lt %d ]; do %si=$((i+1)); done; " % (times, sh_printf(blk, True))
            else:
                body = "".join(sh_printf(bs, fd) for fd, bs in j["chunks"])
            arms.append("%d) %sexit %d;;" % (v, body, j["exit"]))
        prev = "" if any(jobs[v][c].get("big") for v in range(nv)) and False else 'echo "prev${V:-0}.%d %s" >> %s; ' % (c, PREV, tf)
        cmds.append(prev + 'case "${V:-0}" in %s esac' % " ".join(arms))
    if dump_first is not None:
        cmds = ['echo "envdump.%s %s" >> %s' % (dump_first, DUMP, tf)] + cmds
    t = {"name": name, "export_as": export_as, "commands": cmds, "allow": allow,
         "variations": None if novar else [{"V": str(v)} for v in range(nv)]}
    return t


def flat_jobs(jobs, allow, dump_first=False):
    """the job list in execution order (variation-major) as Coq ojob terms + python mirror"""
    nv, nc = len(jobs), len(jobs[0])
    res = []
    for v in range(nv):
        if dump_first:
            res.append({"chunks": [], "stops": False})
        for c in range(nc):
            j = jobs[v][c]
            chunks = j["chunks"]
            if j.get("big"):
                blk, times = j["big"]
                chunks = [(True, blk * times)]
            res.append({"chunks": chunks, "stops": j["exit"] != 0 and not allow})
    return res


def coq_ojob(j):
    return "(mkOJ %s %s)" % (vlib.clist(j["chunks"], lambda ch: "(%s, %s)" % (vlib.cbool(ch[0]), vlib.cbytes(ch[1]))), vlib.cbool(j["stops"]))


CONSUMER = {"name": "zz consumer zz", "commands": ['echo "envdump.x %s" >> "$TRACE"' % DUMP]}


def rand_name(rng):
    n = rng.choice([1, 2, 3, 5, 8, 12])
    return "".join(chr(rng.randint(32, 126)) for _ in range(n))


def gen_cases(ctx):
    rng = vlib.rng_for(ctx.seed, "C11")
    thorough = ctx.tier == "thorough"
    cases = []

    def add_prod(name, export_as, jobs, allow, novar, kind):
        cases.append({"id": len(cases), "kind": kind, "type": "prod", "name": name, "export_as": export_as, "jobs": jobs, "allow": allow, "novar": novar})

    def rjobs(nc, nv, p_fail=0.15):
        return [[rand_job(rng, p_fail) for _ in range(nc)] for _ in range(nv)]
    # every printable ASCII character in a task name
    for ch in range(32, 127):
        name = rng.choice(["t", "ab", "Z9"]) + chr(ch) + rng.choice(["x", "", "q_"])
        add_prod(name, "", rjobs(rng.choice([1, 2]), 1, 0.0), False, True, "name-char")
    for _ in range(200 if thorough else 60):
        novar = rng.random() < 0.3
        add_prod(rand_name(rng), rng.choice(["", "", "MY_VAR", "lower_case", "X1"]), rjobs(rng.randint(1, 3), 1 if novar else rng.randint(1, 3)),
                 rng.random() < 0.5, novar, "random")
    # multi-command x multi-variation grid without failures
    for nc in (1, 2, 3):
        for nv in (1, 2, 3):
            add_prod("grid-%d.%d" % (nc, nv), "", rjobs(nc, nv, 0.0), False, False, "grid")
    # empty output, no trailing newline, only newlines, 64 KiB
    add_prod("empty", "", [[{"chunks": [], "exit": 0}]], False, True, "shape")
    add_prod("notrail", "", [[{"chunks": [(True, [97, 10, 98])], "exit": 0}]], False, True, "shape")
    add_prod("newlines", "", [[{"chunks": [(True, [10, 10, 32, 10])], "exit": 0}]], False, True, "shape")
    add_prod("big one", "", [[{"chunks": [], "big": (rbytes(rng, 61) + [10, 32, 10], 1024), "exit": 0}]], False, True, "big")
    add_prod("big2", "BIG", [[{"chunks": [(True, [120])], "exit": 0}, {"chunks": [], "big": (rbytes(rng, 126) + [10, 10], 500), "exit": 0}]], False, True, "big")
    # pipelines: random DAGs on 2..5 stages, every stage produces and dumps; some tasks fail under an allow_failure stage
    npipe = 400 if thorough else 120
    for _ in range(npipe):
        n = rng.randint(2, 5)
        stages = []
        names = set()
        for k in range(n):
            while True:
                nm = rand_name(rng) + str(k)
                ea = rng.choice(["", "", "", "EXP%d" % k])
                key = ea or "".join(c if c.isalnum() and c.isascii() or c == "_" else "_" for c in nm.upper())
                if key not in names:
                    names.add(key)
                    break
            deps = [d for d in range(k) if rng.random() < 0.5]
            fails = rng.random() < 0.12
            jobs = rjobs(rng.randint(1, 2), rng.choice([1, 1, 2]), 0.0)
            if fails:
                jobs[-1][-1]["exit"] = 3
            stages.append({"name": nm, "export_as": ea, "jobs": jobs, "deps": deps, "stage_allow": True if fails else rng.random() < 0.2,
                           "novar": len(jobs) == 1 and rng.random() < 0.5})
        perm = list(range(n))
        rng.shuffle(perm)       # declaration order is independent of the dependency order
        cases.append({"id": len(cases), "kind": "pipeline", "type": "pipe", "stages": stages, "order": perm})
    # fan-in: many producers finishing at nearly the same moment (their stores into the runner-wide environment race), one consumer of all
    for _ in range(60 if thorough else 25):
        n = rng.choice([16, 24, 32])
        stages = [{"name": "prod %d" % k, "export_as": "", "jobs": [[{"chunks": [(True, [80, 48 + k % 10, 48 + k // 10, 10])], "exit": 0}]], "deps": [],
                   "stage_allow": False, "novar": True} for k in range(n)]
        stages.append({"name": "fan-in", "export_as": "", "jobs": [[{"chunks": [], "exit": 0}]], "deps": list(range(n)), "stage_allow": False, "novar": True})
        cases.append({"id": len(cases), "kind": "fan-in", "type": "pipe", "stages": stages, "order": list(range(n + 1))})
    return cases


def to_engine(ctx, c):
    if c["type"] == "prod":
        t = mk_task(c["name"], c["export_as"], c["jobs"], c["allow"], c["novar"])
        # the output format is presentation only: the capture is the same under raw and prefixed
        return {"id": c["id"], "dir": ctx.workdir, "tasks": [t, CONSUMER],
                "plan": [{"op": "run", "tasks": [1]}, {"op": "run", "tasks": [0]}, {"op": "run", "tasks": [1]}], "format": ["raw", "prefixed"][c["id"] % 2]}
    order = c["order"]
    pos = {k: i for i, k in enumerate(order)}      # stage k is declared at position pos[k]
    tasks = [CONSUMER]
    est = []
    for k in order:
        s = c["stages"][k]
        tasks.append(mk_task(s["name"], s["export_as"], s["jobs"], False, s["novar"], dump_first=str(k)))
        est.append({"task": len(tasks) - 1, "deps": [pos[d] for d in s["deps"]], "allow": s["stage_allow"]})
    return {"id": c["id"], "dir": ctx.workdir, "tasks": tasks, "plan": [{"op": "run", "tasks": [0]}, {"op": "pipeline", "stages": est}], "format": ["raw", "prefixed"][c["id"] % 2]}


def parse_env(hexs):
    d = {}
    for e in bytes.fromhex(hexs).split(b"\0"):
        if e:
            k, _, v = e.partition(b"=")
            d[k] = v
    return d


def newvars(base, dump):
    return [(k, v) for k, v in dump.items() if k not in base and k not in (b"ZZ_CONSUMER_ZZ_OUTPUT", b"V", b"TASK_NAME", b"_", b"PWD", b"OLDPWD", b"SHLVL")]


def classify(c):
    return None


HEADER = """From Coq Require Import List Arith NArith Bool. Import ListNotations.
From TaskctlV Require Import Model.Output Corr.OutputCorr.
"""
FOOT_PROD = """
Definition BAD_CAPTURE := Eval vm_compute in bad_ids capture_ok cases.
Definition BAD_SEEN := Eval vm_compute in bad_ids seen_ok cases.
Definition BAD_EXPORT := Eval vm_compute in bad_ids export_ok cases.
Definition BAD_MONITOR := Eval vm_compute in bad_ids export_monitor cases.
Print BAD_CAPTURE. Print BAD_SEEN. Print BAD_EXPORT. Print BAD_MONITOR.
"""
FOOT_PIPE = """
Definition BAD_PIPE := Eval vm_compute in bad_ids (fun c => pipe_ok (fst c) (snd c)) cases.
Print BAD_PIPE.
"""


def cb(b):
    return vlib.cbytes(list(b))


def shared_task_cli(ctx, res):
    import clilib
    jobs = []
    for warm in (True, False):
        for nshare in (2, 3):
            # stage s1 prints at once and ends last; the others print while s1 is still going; `show` depends on s1 only
            msgs = ["first"] + ["second-%d" % k for k in range(1, nshare)]
            stages = [{"name": "s1", "task": "emit", "env": {"MSG": msgs[0], "D1": "0", "D2": "0.9"}}]
            for k in range(1, nshare):
                stages.append({"name": "s%d" % (k + 1), "task": "emit", "env": {"MSG": msgs[k], "D1": "0.%d" % (2 + k), "D2": "0"}})
            stages.append({"name": "c1", "task": "show", "depends_on": ["s1"]})
            doc = {"tasks": {"emit": {"env": {"MSG": "warm-up text that is longer than the others", "D1": "0", "D2": "0"}, "command": ["sleep $D1; echo $MSG; sleep $D2"]},
                             "show": {"command": ['printf %s "$EMIT_OUTPUT" > $PROJ/c1.out']}},
                   "pipelines": {"p1": stages}}
            jobs.append({"id": len(jobs), "files": {"cfg.json": json.dumps(doc)}, "argv": ["-c", "cfg.json", "run"] + (["emit"] if warm else []) + ["p1"],
                         "keep": ["c1.out"], "timeout": 20, "warm": warm, "nshare": nshare})
    out = clilib.run_cli(ctx.workdir + "/shared", jobs, timeout=20)
    for j in jobs:
        r = out[j["id"]]
        res.evaluations += 1
        res.count("shared-task-cli")
        res.nontrivial_keys.add("shared-task-cli %s %d" % (j["warm"], j["nshare"]))
        got = (r.get("files") or {}).get("c1.out")
        if isinstance(got, bytes):
            got = got.decode("latin-1")
        if r["timeout"] or r["rc"] != 0 or got != "first\n":
            res.violations.append({"class": None, "what": "a stage depending on stage s1 (task `emit`, which two more stages in flight at the same time also use%s) "
                                   "does not see s1's output in EMIT_OUTPUT" % (", after a direct run of the task" if j["warm"] else ""),
                                   "case": {"kind": "shared-task-cli", "argv": j["argv"], "config": j["files"]["cfg.json"]},
                                   "observed": {"rc": r["rc"], "timeout": r["timeout"], "EMIT_OUTPUT seen by c1": got, "expected": "first\n", "tail": ((r.get("err") or "") + (r.get("out") or ""))[-600:]}})


def run(ctx):
    res = vlib.Result()
    res.rule = ("producer cases: every printable ASCII character in a task name, random names x exportAs x 1..3 commands x 1..3 variations x "
                "stdout/stderr chunks over an alphabet with LF CR TAB quotes backslash $ % ` { } and UTF-8, failures with/without allow_failure, "
                "empty / unterminated / newline-only / 64 KiB outputs; each followed by a task that dumps its environment.  pipelines: random "
                "DAGs on 2..5 stages in shuffled declaration order, every stage produces and dumps what it sees.  distinct = distinct case; "
                "non-trivial = the producer writes at least one byte (producer cases) / at least one dependency edge (pipelines).")
    # ---- several stages backed by ONE task, in flight together, after the task has (or has not) been run on its own: each stage's capture is
    #      its own bytes, and a consumer of the stage that finished last sees that stage's text (through the binary) ----
    if not ctx.replay_cases or any(c.get("kind") == "shared-task-cli" for c in ctx.replay_cases):
        shared_task_cli(ctx, res)
        if ctx.replay_cases:
            ctx.replay_cases = [c for c in ctx.replay_cases if c.get("kind") != "shared-task-cli"]
            if not ctx.replay_cases:
                res.samples = [{"replayed_sections": ["shared-task-cli"]}]
                return res
    cases = ctx.replay_cases if ctx.replay_cases else gen_cases(ctx)
    for k, c in enumerate(cases):
        c["id"] = k
    obs, logs = vlib.run_engine(ctx.workdir, "taskrun", [to_engine(ctx, c) for c in cases], timeout=900)
    prod_items, pipe_items = [], []
    for c in cases:
        o = obs.get(c["id"])
        res.evaluations += 1
        res.count(c["kind"])
        if o is None or "harness_error" in o or not o.get("results"):
            res.mismatches.append({"case": c, "what": "engine produced no observation", "observed": o, "log": logs[:2]})
            continue
        if o.get("panic") or o.get("hung"):
            res.violations.append({"class": None, "what": "running the case crashed or hung", "case": c, "observed": {k: o.get(k) for k in ("panic", "hung")}})
            continue
        dumps, seen = {}, []
        try:
            for l in o.get("trace") or []:
                key, _, h = l.partition(" ")
                if key.startswith("envdump."):
                    dumps.setdefault(key[8:], []).append(parse_env(h))
                elif key.startswith("prev"):
                    seen.append(bytes.fromhex(h))
        except ValueError as e:
            res.mismatches.append({"case": c, "what": "unparsable trace: %s" % e})
            continue
        if c["type"] == "prod":
            fj = flat_jobs(c["jobs"], c["allow"])
            if any(ch[1] for j in fj for ch in j["chunks"]):
                res.nontrivial_keys.add(json.dumps([c["name"], c["export_as"], c["jobs"], c["allow"]]))
            xs = dumps.get("x", [])
            if len(xs) != 2:
                later = [r for r in o["results"] if r["task"] == 1 and r["step"] == 2]
                prodr = [r for r in o["results"] if r["task"] == 0]
                if len(xs) == 1 and later and later[0]["err"] and prodr and not prodr[0]["err"]:
                    res.violations.append({"class": classify(c), "what": "a task run after the producer finished could not start, so it never saw the output",
                                           "case": c, "observed": o.get("results")})
                else:
                    res.mismatches.append({"case": c, "what": "consumer dumps missing", "observed": o.get("results")})
                continue
            nv = newvars(xs[0], xs[1])
            r = [r for r in o["results"] if r["task"] == 0][0]
            out = base64.b64decode(r.get("output_b64") or "")
            prod_items.append("(%d%%N, mkPC %s %s %s %s %s %s)" % (
                c["id"], cb(c["name"].encode()), cb(c["export_as"].encode()), vlib.clist(fj, coq_ojob), cb(out),
                vlib.clist(seen, cb), vlib.clist(nv, lambda kv: "(%s, %s)" % (cb(kv[0]), cb(kv[1])))))
            c["_obs"] = {"output": out.decode("latin1")[:200], "newvars": [(k.decode("latin1"), v.decode("latin1")[:200]) for k, v in nv], "err": r["err"]}
        else:
            if any(s["deps"] for s in c["stages"]):
                res.nontrivial_keys.add(json.dumps([c["stages"], c["order"]]))
            base = (dumps.get("x") or [{}])[0]
            sts = vlib.clist(c["stages"], lambda s: "(mkPS %s %s %s %s)" % (
                cb(s["name"].encode()), cb(s["export_as"].encode()), vlib.clist(flat_jobs(s["jobs"], False, dump_first=True), coq_ojob),
                vlib.clist(s["deps"], str)))
            seenl = []
            for k in range(len(c["stages"])):
                for d in dumps.get(str(k), [])[:1]:
                    seenl.append("(%d, %s)" % (k, vlib.clist(newvars(base, d), lambda kv: "(%s, %s)" % (cb(kv[0]), cb(kv[1])))))
            pipe_items.append("(%d%%N, (%s, [%s]))" % (c["id"], sts, "; ".join(seenl)))
            # a stage all of whose dependencies ended Done (or were allowed to fail) must itself have run its first command
            fin = (o.get("pipe_fin") or [[]])[0]
            pos = {k: i for i, k in enumerate(c["order"])}
            for k, st in enumerate(c["stages"]):
                if len(fin) == len(c["stages"]) and all(fin[pos[d]] == 3 for d in st["deps"]) and st["deps"] and str(k) not in dumps:
                    res.violations.append({"class": classify(c), "what": "a stage whose dependencies all completed could not start, so it never saw their output",
                                           "case": c, "observed": {"pipe_fin": fin, "stage": k, "results": [r for r in o["results"] if r.get("task") == pos[k] + 1]}})
                    break
            c["_obs"] = {"pipe_fin": o.get("pipe_fin"), "stages_that_ran": sorted(dumps)}
    bad = {}
    for items, foot, keys, tag in ((prod_items, FOOT_PROD, ("BAD_CAPTURE", "BAD_SEEN", "BAD_EXPORT", "BAD_MONITOR"), "prod"),
                                   (pipe_items, FOOT_PIPE, ("BAD_PIPE",), "pipe")):
        for rc, out, start, cnt in vlib.coq_eval_sharded(ctx.workdir, "cases_c11" + tag, HEADER, items, lambda f=foot: f, shard=40 if tag == "prod" else 60):
            if rc != 0:
                res.mismatches.append({"what": "cases.v did not evaluate", "detail": out[-1500:]})
                continue
            pr = vlib.coq_printed(out)
            for key in keys:
                if key not in pr:
                    res.mismatches.append({"what": "cases.v output lacks " + key, "detail": out[-800:]})
                bad.setdefault(key, set()).update(vlib.nums(pr.get(key, "")))
            res.traces_validated += cnt
    what = {"BAD_CAPTURE": "the captured output (Task.Output()) is not exactly the bytes the commands wrote to stdout, in order",
            "BAD_SEEN": "a command did not read the previous command's output as .Output",
            "BAD_MONITOR": "a task run afterwards does not see the captured output under <NAME>_OUTPUT / exportAs",
            "BAD_PIPE": "a stage did not see, under <NAME>_OUTPUT / exportAs, exactly the output of a dependency that completed"}
    flagged = set()
    for key in ("BAD_CAPTURE", "BAD_SEEN", "BAD_MONITOR", "BAD_PIPE"):
        for cid in sorted(bad.get(key, ())):
            c = cases[cid]
            flagged.add(cid)
            res.violations.append({"class": None, "what": what[key], "case": {k: v for k, v in c.items() if k != "_obs"}, "observed": c.get("_obs")})
    for cid in sorted(bad.get("BAD_EXPORT", set()) - flagged):
        c = cases[cid]
        res.mismatches.append({"what": "the set of newly exported variables differs from the model (an extra variable, or one exported by a task that did not complete)",
                               "case": {k: v for k, v in c.items() if k != "_obs"}, "observed": c.get("_obs")})
    for c in cases:
        c.pop("_obs", None)
    res.samples = [cases[1], cases[-1]]
    return res
