"""C19 - Output decoration never loses or mixes task output; format is presentation only  (partial).
Theorems: Properties/C19.v (Model/Prefixed.v; Model/Regex.v for predictions).  Correspondence: engine `output`
(output.NewTaskOutput in front of a synchronised recording sink; bufio.ScanLines and Go's regexp validated against the
model's scanner and matcher) and engine `taskrun` in child processes (every task outcome under raw / prefixed / cockpit)."""
import base64
import itertools
import json
import re
import vlib

TRUSTED = [
    "model Model/Prefixed.v: prefixed Write = ScanLines(atEOF) loop + flush per line, lineWriter = one sink Write per non-empty line; raw = identity; the decorator calls Run makes per outcome; cockpit add/remove state",
    "Model/Regex.v (backtracking matcher + the ANSI expression) is used for predictions and for the class of K1 only; validated against Go's regexp on every generated stream; the theorems hold for any line-local stripper",
    "NOT exhibited by the model, observed only: atomicity of one Write at the synchronised sink, the spinner goroutine's timing / lock order, format-independence of results",
    "Go engines output and taskrun (child process), python driver",
]
ASSUMPTIONS = ["task names contain no ESC byte and no name's prefix string is a prefix of another's (generated names are distinct identifiers)",
               "the property observes at a synchronised sink"]

K1 = "K1-ansi-sequence-cut-by-write-boundary"
ALPHA7 = [97, 27, 91, 51, 109, 10, 13]


def b64(bs):
    return base64.b64encode(bytes(bs)).decode()


def splits(s, maxchunks=3):
    """every split of s into 1..maxchunks non-empty chunks (s non-empty), plus s itself when empty"""
    n = len(s)
    if n == 0:
        return [[[]]]
    res = []
    for k in range(0, maxchunks):
        for cuts in itertools.combinations(range(1, n), k):
            pts = [0] + list(cuts) + [n]
            res.append([s[pts[i]:pts[i + 1]] for i in range(len(pts) - 1)])
    return res


ANSI_SAMPLES = [[27, 91, 51, 49, 109], [27, 91, 48, 109], [27, 91, 49, 59, 51, 50, 109], [27, 91, 50, 75], [27, 93, 48, 59, 116, 7], [0xC2, 0x9B, 51, 109],
                [27, 91, 63, 50, 53, 108], [27, 40, 66], [27, 91, 49, 50, 51, 52, 53, 109], [27, 55]]


def rand_stream(rng, nlines, maxlen):
    s = []
    for _ in range(nlines):
        n = rng.choice([0, 0, 1, 3, 10, 40, 200, maxlen])
        line = []
        while len(line) < n:
            r = rng.random()
            if r < 0.12:
                line += rng.choice(ANSI_SAMPLES)
            elif r < 0.16:
                line += [27]
            elif r < 0.2:
                line += [13]
            else:
                line += [rng.choice([97, 98, 32, 48, 49, 59, 91, 109, 0xC3, 0xA9, 126, 9])] * rng.choice([1, 1, 2, 7])
        s += line + rng.choice([[10], [10], [13, 10], [13], [10, 10]])
    if rng.random() < 0.5:
        s += [120, 121, 122][:rng.randint(1, 3)]           # unterminated tail
    return s


def rand_chunks(rng, s, esc_bias=True):
    if not s:
        return [[]]
    n = len(s)
    k = rng.choice([0, 1, 2, 4, 9, 30])
    cuts = set(rng.randrange(1, n) for _ in range(k)) if n > 1 else set()
    if esc_bias and rng.random() < 0.4:
        # cut near escape bytes on purpose
        for i, b in enumerate(s):
            if b == 27 and rng.random() < 0.5 and 0 < i + rng.choice([0, 1, 2, 3]) < n:
                cuts.add(i + rng.choice([1, 2, 3]) if i + 3 < n else i)
    cuts = sorted(c for c in cuts if 0 < c < n)
    pts = [0] + cuts + [n]
    ch = [s[pts[i]:pts[i + 1]] for i in range(len(pts) - 1)]
    if rng.random() < 0.1:
        ch.insert(rng.randrange(len(ch) + 1), [])       # an empty Write
    return ch


def gen_cases(ctx):
    rng = vlib.rng_for(ctx.seed, "C19")
    thorough = ctx.tier == "thorough"
    cases = []

    def add(kind, **kw):
        kw.update(id=len(cases), kind=kind)
        cases.append(kw)

    # exhaustive: every stream of <= L bytes over {a ESC [ 3 m LF CR}, every split into <= 3 chunks, prefixed
    L = 5 if thorough else 4
    for n in range(0, L + 1):
        for s in itertools.product(ALPHA7, repeat=n):
            for ch in splits(list(s)):
                add("exh", format="prefixed", mode="seq", writers=[{"name": "t1", "chunks": ch}])
    # validation of scanner and matcher on the same alphabet (whole streams) and on ESC-rich random streams
    for n in range(0, L + 1):
        for s in itertools.product(ALPHA7, repeat=n):
            add("val", data=list(s))
    for _ in range(600 if thorough else 200):
        add("val", data=rand_stream(rng, rng.randint(1, 4), 60))
    for smp in ANSI_SAMPLES:
        add("val", data=[97] + smp + [98] + smp[:-1] + [10] + smp + smp)
    # random long streams, random chunkings
    sizes = [rng.choice([100, 300, 1000]) for _ in range(400 if thorough else 110)] + [4095, 4096, 4097, 10000] * (6 if thorough else 2)
    for maxlen in sizes:
        s = rand_stream(rng, rng.randint(1, 6) if maxlen <= 1000 else rng.randint(1, 3), maxlen)
        add("long", format="prefixed", mode="seq", writers=[{"name": "task-%d" % rng.randint(0, 99), "chunks": rand_chunks(rng, s)}])
    # 1..8 tasks writing concurrently into one sink
    for _ in range(200 if thorough else 60):
        k = rng.randint(1, 8)
        ws = [{"name": "w%d%s" % (i, rng.choice(["", "-x", ".y"])), "chunks": rand_chunks(rng, rand_stream(rng, rng.randint(1, 5), 200), esc_bias=False)} for i in range(k)]
        add("conc", format="prefixed", mode="par", writers=ws)
    # raw
    for _ in range(120 if thorough else 40):
        add("raw", format="raw", mode="seq", writers=[{"name": "r", "chunks": rand_chunks(rng, rand_stream(rng, rng.randint(0, 4), 300))}])
    return cases


FMT_LINES = {"success": ["out"], "failure": ["x"], "allowed-failure": ["x", "y"], "failing-after": ["o"], "interactive": ["asking"], "complains": ["o", "p"], "longlines": ["x" * 6000, "y" * 10000, "tail"]}


def fmt_cases(ctx):
    """task outcomes x formats, one child process each (a crash or a hang of the child is an observation)"""
    kinds = {
        "success": {"commands": ["printf 'out\\n'"]},
        "failure": {"commands": ["printf 'x\\n'; exit 3", "printf 'never\\n'"]},
        "allowed-failure": {"commands": ["printf 'x\\n'; exit 3", "printf 'y\\n'"], "allow": True},
        "skipped": {"commands": ["printf 'no\\n'"], "condition": "exit 1"},
        "failing-before": {"commands": ["printf 'no\\n'"], "before": ["exit 2"]},
        "condition-error": {"commands": ["printf 'no\\n'"], "condition": "echo {{.Undefined}}"},
        "failing-after": {"commands": ["printf 'o\\n'"], "after": ["exit 9"]},
        # an interactive task is shown raw whatever the selected format; the tasks after it get the selected format again
        "interactive": {"commands": ["printf 'asking\\n'"], "interactive": True},
        # both streams, then a failure: what is recorded (output, error message, exit code) is the same under every format
        "complains": {"commands": ["printf 'o\\n'; printf 'e\\n' >&2", "printf 'p\\n'; printf 'q\\n' >&2; exit 4"]},
        # lines far longer than any buffer of a few KiB, written by an external program; a short line after them
        "longlines": {"commands": ["head -c 6000 /dev/zero | tr '\\0' 'x'; echo; head -c 10000 /dev/zero | tr '\\0' 'y'; echo; echo tail"]},
    }
    cases = []
    for kind, t in kinds.items():
        for fmt in ("raw", "prefixed", "cockpit"):
            tt = dict(t)
            tt["name"] = "k-" + kind
            # (Finish at the end: the output layer is closed after the last task, whatever became of the tasks)
            cases.append({"id": len(cases), "okind": kind, "format": fmt, "dir": ctx.workdir, "tasks": [tt], "plan": [{"op": "run", "tasks": [0]}, {"op": "finish"}]})
    # several outcomes in one process (the cockpit state is process-wide), repeated: lock-order problems are schedule dependent
    seqs = [["skipped", "failing-before"], ["complains", "success"], ["skipped", "success"], ["success", "skipped", "failure", "failing-before", "success", "success"], ["success"] * 6, ["failure", "success", "allowed-failure"],
            ["success", "interactive", "success", "failure"]]
    reps = 6 if ctx.tier == "thorough" else 3
    for sq in seqs:
        for fmt in ("raw", "prefixed", "cockpit"):
            for rep in range(reps if fmt == "cockpit" else 1):
                ts = []
                for i, k in enumerate(sq):
                    tt = dict(kinds[k])
                    tt["name"] = "s%d-%s" % (i, k)
                    ts.append(tt)
                cases.append({"id": len(cases), "okind": "+".join(sq), "format": fmt, "dir": ctx.workdir, "tasks": ts, "plan": [{"op": "run", "tasks": list(range(len(ts)))}, {"op": "finish"}], "rep": rep})
    return cases


HEADER = """From Coq Require Import List Arith NArith Bool. Import ListNotations.
From TaskctlV Require Import Model.Prefixed Model.Regex Corr.PrefixedCorr.
"""
FOOT_P = """
Definition BAD_MODEL := Eval vm_compute in bad_ids model_ok cases.
Definition BAD_MON := Eval vm_compute in bad_ids monitor_ok cases.
Definition UNSAFE := Eval vm_compute in bad_ids all_safe cases.
Print BAD_MODEL. Print BAD_MON. Print UNSAFE.
"""
FOOT_R = """
Definition BAD_RAW := Eval vm_compute in bad_ids raw_ok cases.
Definition BAD_RAWMON := Eval vm_compute in bad_ids raw_monitor cases.
Print BAD_RAW. Print BAD_RAWMON.
"""
FOOT_V = """
Definition BAD_SCAN := Eval vm_compute in bad_ids (fun c => scan_ok (fst (fst c)) (snd (fst c))) cases.
Definition BAD_STRIP := Eval vm_compute in bad_ids (fun c => stripv_ok (fst (fst c)) (snd c)) cases.
Print BAD_SCAN. Print BAD_STRIP.
"""


def cb(bs):
    return vlib.cbytes(list(bs))


def run(ctx):
    res = vlib.Result()
    res.rule = ("prefixed writer: EXHAUSTIVELY every stream of <=4 (thorough: 5) bytes over {a ESC [ 3 m LF CR} under every split into <=3 Write calls; "
                "random streams (lines of 0..10000 bytes, LF/CRLF/CR, ANSI sequences, unterminated tail) under random chunkings biased to cut near ESC; "
                "1..8 goroutines writing concurrently into one synchronised sink; raw writer; the scanner and the matcher of the model validated "
                "against bufio.ScanLines and Go's regexp on all those streams; every task outcome under raw/prefixed/cockpit in child processes.  "
                "distinct = distinct (streams, chunking); non-trivial = at least two Write calls or an ESC byte or several writers.")
    cases = ctx.replay_cases if ctx.replay_cases else gen_cases(ctx)
    for k, c in enumerate(cases):
        c["id"] = k
    ecases = []
    for c in cases:
        if c["kind"] == "val":
            ecases.append({"id": c["id"], "scan_b64": b64(c["data"]) or "", "strip_b64": b64(c["data"])})
        elif c["kind"] != "fmt":
            ecases.append({"id": c["id"], "format": c["format"], "mode": c["mode"],
                           "writers": [{"name": w["name"], "chunks_b64": [b64(ch) for ch in w["chunks"]]} for w in c["writers"]]})
    obs, logs = vlib.run_engine(ctx.workdir, "output", ecases, timeout=900)
    groups = {"p": [], "r": [], "v": []}
    for c in cases:
        if c["kind"] == "fmt":
            continue
        o = obs.get(c["id"])
        res.evaluations += 1
        res.count(c["kind"])
        if o is None or "harness_error" in o:
            res.mismatches.append({"case": c, "what": "engine produced no observation", "observed": o, "log": logs[:2]})
            continue
        if o.get("panic") or o.get("hung") or o.get("err"):
            res.violations.append({"class": None, "what": "the output layer crashed, hung or refused the format", "case": c, "observed": o})
            continue
        if c["kind"] == "val":
            if not c["data"]:
                continue
            lines = [base64.b64decode(x) for x in o.get("scan_lines_b64") or []]
            st = base64.b64decode(o.get("stripped_b64") or "")
            groups["v"].append("(%d%%N, (%s, %s, %s))" % (c["id"], cb(c["data"]), vlib.clist(lines, cb), cb(st)))
            if 27 in c["data"]:
                res.nontrivial_keys.add("v" + json.dumps(c["data"]))
            continue
        writes = [base64.b64decode(x) for x in o.get("writes_b64") or []]
        item = "(%d%%N, mkPCase %s %s %s)" % (c["id"], vlib.clist([w["name"].encode() for w in c["writers"]], cb),
                                            vlib.clist(c["writers"], lambda w: vlib.clist(w["chunks"], cb)), vlib.clist(writes, cb))
        groups["r" if c["kind"] == "raw" else "p"].append(item)
        c["_writes"] = [w.decode("latin1") for w in writes[:12]]
        if len(c["writers"]) > 1 or any(len(w["chunks"]) > 1 or any(27 in ch for ch in w["chunks"]) for w in c["writers"]):
            res.nontrivial_keys.add(json.dumps(c["writers"]))
        # the task log receives the bytes unchanged whatever the format
        for w, lg in zip(c["writers"], o.get("log_stdout_b64") or []):
            if base64.b64decode(lg) != bytes(b for ch in w["chunks"] for b in ch):
                res.violations.append({"class": None, "what": "Task.Log.Stdout is not the bytes written", "case": c, "observed": lg})
    bad = {}
    for g, foot, keys, shard in (("p", FOOT_P, ("BAD_MODEL", "BAD_MON", "UNSAFE"), 700), ("r", FOOT_R, ("BAD_RAW", "BAD_RAWMON"), 100),
                                 ("v", FOOT_V, ("BAD_SCAN", "BAD_STRIP"), 600)):
        items = groups[g]
        # long streams make big terms: keep shards of comparable text size
        shards, cur, size = [], [], 0
        for it in items:
            cur.append(it)
            size += len(it)
            if len(cur) >= shard or size > 120000:
                shards.append(cur)
                cur, size = [], 0
        if cur:
            shards.append(cur)
        flat = [(k, sh) for k, sh in enumerate(shards)]

        def one(ksh, foot=foot, g=g):
            k, sh = ksh
            body = HEADER + "\nDefinition cases := [\n" + ";\n".join(sh) + "\n].\n" + foot
            rc, out = vlib.coq_eval(ctx.workdir, "cases_c19%s_%d" % (g, k), body, 1200)
            return rc, out, len(sh)
        from concurrent.futures import ThreadPoolExecutor
        with ThreadPoolExecutor(max_workers=vlib.NCPU) as ex:
            for rc, out, cnt in ex.map(one, flat):
                if rc != 0:
                    res.mismatches.append({"what": "cases.v did not evaluate", "detail": out[-1500:]})
                    continue
                pr = vlib.coq_printed(out)
                for key in keys:
                    if key not in pr:
                        res.mismatches.append({"what": "cases.v output lacks " + key, "detail": out[-800:]})
                    bad.setdefault(key, set()).update(vlib.nums(pr.get(key, "")))
                res.traces_validated += cnt
    unsafe = bad.get("UNSAFE", set())
    for cid in sorted(bad.get("BAD_MON", set())):
        c = cases[cid]
        res.violations.append({"class": K1 if cid in unsafe else None,
                               "what": "prefixed output: removing prefixes, line terminators and ANSI sequences does not give the task's output (or a write is not a whole line of one task)",
                               "case": {k: v for k, v in c.items() if k != "_writes"}, "observed": c.get("_writes")})
    for cid in sorted(bad.get("BAD_RAWMON", set())):
        c = cases[cid]
        res.violations.append({"class": None, "what": "raw output did not forward the bytes unchanged and in order", "case": {k: v for k, v in c.items() if k != "_writes"}, "observed": c.get("_writes")})
    for key, what in (("BAD_MODEL", "the sequence of sink writes differs from the model of the prefixed writer"),
                      ("BAD_RAW", "the sequence of sink writes differs from the model of the raw writer"),
                      ("BAD_SCAN", "bufio.ScanLines differs from the model's scanner"), ("BAD_STRIP", "Go's regexp differs from the model's matcher on the ANSI expression")):
        for cid in sorted(bad.get(key, set()) - bad.get("BAD_MON", set()) - bad.get("BAD_RAWMON", set())):
            c = cases[cid]
            res.mismatches.append({"what": what, "case": {k: v for k, v in c.items() if k != "_writes"}, "observed": c.get("_writes")})
    for c in cases:
        c.pop("_writes", None)
    # ---- outcomes x formats -------------------------------------------------------------------------------------
    if not ctx.replay_cases or any(c["kind"] == "fmt" for c in cases):
        fcs = [c["fmt"] for c in cases if c["kind"] == "fmt"] if ctx.replay_cases else fmt_cases(ctx)
        if ctx.replay_cases:          # a recorded result is judged against the same outcome under the raw format: run that one too
            have = {(c["okind"], c["format"]) for c in fcs}
            fcs += [dict(c, format="raw") for c in list(fcs) if (c["okind"], "raw") not in have]
        for k, c in enumerate(fcs):
            c["id"] = k
            c["dir"] = ctx.workdir
        fobs = vlib.run_children(ctx.workdir, "taskrun", fcs, timeout=40)
        byk = {}
        for c in fcs:
            o = fobs[c["id"]]
            res.evaluations += 1
            res.count("fmt-" + c["format"])
            res.nontrivial_keys.add("fmt" + c["okind"] + c["format"])
            rc = {"kind": "fmt", "fmt": c}
            if "child_crash" in o or o.get("panic"):
                res.violations.append({"class": None, "what": "the process crashed in the output layer (format %s)" % c["format"], "case": rc,
                                       "observed": (o.get("child_crash") or o.get("panic"))[-1500:]})
                continue
            if o.get("child_timeout") or o.get("hung"):
                res.violations.append({"class": None, "what": "the run hung in the output layer (format %s)" % c["format"], "case": rc, "observed": str(o)[-1500:]})
                continue
            # what the stream shows: every output line of every task, decorated as the SELECTED format says (an interactive task: raw)
            if c["format"] in ("raw", "prefixed"):
                stream = re.sub(r"\x1b\[[0-9;]*m", "", base64.b64decode(o.get("stdout_b64") or "").decode("utf-8", "replace"))
                shown = [l.rstrip("\r") for l in stream.split("\n")]
                want = []
                for t in c["tasks"]:
                    for l in FMT_LINES.get(t["name"].split("-", 1)[1], []):
                        want.append(l if (c["format"] == "raw" or t.get("interactive")) else "%s: %s" % (t["name"], l))
                missing = [w for w in want if w not in shown]
                if any(t["name"].endswith("-longlines") for t in c["tasks"]):
                    # a line longer than the decorator's buffer may be shown in several pieces: what must hold is the statement's projection -
                    # the task's lines without prefixes and line ends are exactly its output without line ends
                    missing = []
                    for t in c["tasks"]:
                        pre = "" if c["format"] == "raw" else t["name"] + ": "
                        got = "".join(l[len(pre):] for l in shown if l.startswith(pre) and (pre or l))
                        wantp = "".join(FMT_LINES.get(t["name"].split("-", 1)[1], []))
                        if t["name"].endswith("-longlines") and got != wantp:
                            missing.append("%s: %d bytes shown, %d written" % (t["name"], len(got), len(wantp)))
                if missing:
                    res.violations.append({"class": None, "what": "format %s: a line of a task's output is missing from the stream or is not decorated as the selected format says" % c["format"],
                                           "case": rc, "observed": {"missing": missing, "stream": stream[-800:]}})
                    continue
            proj = [(r["task"], r["err"], r["errored"], r["skipped"], r["exit_code"], r["output_b64"]) for r in sorted(o.get("results") or [], key=lambda r: r["task"])]
            byk.setdefault(c["okind"], {})[c["format"]] = (proj, rc)
        for kind, d in byk.items():
            if "raw" in d:
                for fmt in ("prefixed", "cockpit"):
                    if fmt in d and d[fmt][0] != d["raw"][0]:
                        res.violations.append({"class": None, "what": "a task's recorded result differs between formats raw and %s" % fmt, "case": d[fmt][1],
                                               "observed": {"raw": d["raw"][0], fmt: d[fmt][0]}})
    res.samples = [cases[min(100, len(cases) - 1)], cases[-1]] if cases else []
    return res
