"""C09 - Environment and working directory are layered with a fixed precedence.
Theorems: Properties/C09.v (Model/Env.v).  Correspondence: the taskctl binary on generated projects (engine `cli`)."""
import itertools
import json
import re
import os
import vlib
import clilib

TRUSTED = [
    "model Model/Env.v: the expression that builds the job environment (Run / CompileTask / buildTask / runStage) and Execute's hand-over to the interpreter; containers as association lists",
    "model Model/EnvFile.v: bufio.ScanLines + strings.SplitN(line, \"=\", 2) of utils.ReadEnvFile over the file's bytes (lines below 64 KiB)",
    "mvdan.cc/sh expand.ListEnviron (modelled: after the repair no name is defined twice in what it receives)",
    "python driver running the built binary with a controlled parent environment (lib/clilib.py)",
]
ASSUMPTIONS = ["the parent environment defines each name at most once"]

LEVELS = ["parent", "ctx", "envfile", "task", "stage", "variation"]


def env_jobs(ctx):
    jobs = []
    subsets = [s for k in range(1, 7) for s in itertools.combinations(LEVELS, k)]
    for sub in subsets:
        for order in ("inc", "dec"):
            vals = {}
            for rank, lv in enumerate(LEVELS):
                if lv in sub:
                    vals[lv] = "v%d" % (rank + 1 if order == "inc" else 9 - rank)
            modes = ["stage"] if "stage" in sub else ["direct", "stage"]
            for mode, varpos in [(m, vp) for m in modes for vp in (("last", "first") if "variation" in sub else ("last",))]:
                # the hooks and the condition are commands of the task too: they see the same layers (all but the variation, which belongs to the commands)
                hk = 'echo "%sX=${X-UNSET}" >> "$PROJ/out"; echo "%sTN=${TASK_NAME-UNSET}" >> "$PROJ/out"'
                task = {"command": ['echo "X=${X-UNSET}" >> "$PROJ/out"; echo "P=${PASSTHRU-UNSET}" >> "$PROJ/out"; echo "TN=${TASK_NAME-UNSET}" >> "$PROJ/out"'],
                        "before": [hk % ("B", "B")], "after": [hk % ("A", "A")], "condition": hk % ("C", "C"), "context": "cx"}
                files = {}
                if "task" in vals:
                    task["env"] = {"X": vals["task"]}
                if "envfile" in vals:
                    task["env_file"] = "envfile"
                    files["envfile"] = "X=%s\nOTHER=1\n" % vals["envfile"]
                judged = dict(vals)
                if "variation" in vals:
                    # the variations of one task define DIFFERENT name sets; what is judged is the LAST variation's output
                    # (later lines of the out file replace earlier ones): "last" = it defines X; "first" = only the first one does
                    if varpos == "last":
                        task["variations"] = [{"OTHER_V": "1"}, {"X": vals["variation"]}]
                    else:
                        task["variations"] = [{"X": vals["variation"]}, {"OTHER_V": "1"}]
                        del judged["variation"]
                cx = {"env": {"X": vals["ctx"]}} if "ctx" in vals else {"env": {"CX": "1"}}
                stage = {"task": "t"}
                if order == "dec":
                    stage["name"] = "explicitly-named-stage"          # TASK_NAME carries the TASK's name, whatever the stage is called
                if "stage" in vals:
                    stage["env"] = {"X": vals["stage"]}
                doc = {"contexts": {"cx": cx}, "tasks": {"t": task}, "pipelines": {"p": [stage]}}
                files["cfg.json"] = clilib.jcfg(doc)
                env = {"PASSTHRU": "from-parent"}
                if "parent" in vals:
                    env["X"] = vals["parent"]
                jobs.append({"id": len(jobs), "files": files, "argv": ["-c", "cfg.json", "--raw", "t" if mode == "direct" else "p"], "env": env,
                             "keep": ["out"], "vals": judged, "mode": mode, "kind": "env", "order": order, "varpos": varpos, "defined": sorted(vals)})
    return jobs


def dir_jobs(ctx, first_id, workdir):
    jobs = []
    for sub in [s for k in range(0, 4) for s in itertools.combinations(["stage", "task", "ctx"], k)]:
        for where in ("root", "sub", "sub-default"):
            for mode in (["stage"] if "stage" in sub else ["direct", "stage"]):
                # rel: the task's / stage's dir written as a RELATIVE path: it is relative to the directory taskctl was started in
                # (also when the context has a dir of its own)
                # "dotdot": the task's dir is a template action followed by `..` (the parent of a variable's value): resolved after rendering
                for rel in ((False, True) + (("dotdot",) if "task" in sub else ()) if ("task" in sub or "stage" in sub) else (False,)):
                    jid = first_id + len(jobs)
                    proj = os.path.join(workdir, "cli", str(jid), "proj")
                    start = proj if where == "root" else proj + "/sub"
                    pr = 'echo "%s:$(/bin/pwd)" >> "$PROJ/out"'        # the external pwd: the directory the command's processes really run in
                    # (the command before it changes directory: every command starts in the task's directory again)
                    task = {"command": ['cd "$PROJ/sub"', pr % "cmd"], "before": ['cd "$PROJ/sub"', pr % "before"], "after": [pr % "after"], "condition": pr % "cond", "context": "cx"}
                    if "task" in sub:
                        task["dir"] = "{{.PD}}/../proj/td" if rel == "dotdot" else "{{.RelT}}" if rel else "{{.PD}}/td"
                    cx = {"env": {"CX": "1"}}
                    if "ctx" in sub:
                        cx["dir"] = proj + "/cd"
                    elif where == "root":
                        del task["context"]          # no context at all (the default one has no directory of its own)
                    stage = {"task": "t"}
                    if "stage" in sub:
                        stage["dir"] = "sd" if rel is True else proj + "/sd"
                    doc = {"contexts": {"cx": cx}, "tasks": {"t": task}, "pipelines": {"p": [stage]}}
                    files = {("taskctl.yaml" if where == "sub-default" else "cfg.json"): clilib.jcfg(doc), "td/x": "", "cd/x": "", "sd/x": "", "sub/x": "", "sub/td/x": "", "sub/sd/x": ""}
                    cfgp = "cfg.json" if where == "root" else "../cfg.json"
                    # "sub-default": no -c; taskctl.yaml is discovered in the parent directory (JSON is YAML)
                    jobs.append({"id": jid, "files": files, "argv": ([] if where == "sub-default" else ["-c", cfgp]) + ["--raw", "--set", "PD=" + proj, "--set", "RelT=td", "t" if mode == "direct" else "p"],
                                 "cwd": "" if where == "root" else "sub", "keep": ["out"], "kind": "dir", "sub": list(sub) + (["dotdot"] if rel == "dotdot" else ["relative"] if rel else []), "where": where, "mode": mode,
                                 "dirs": {"stage": (start + "/sd" if rel is True else proj + "/sd") if "stage" in sub else "", "task": (start + "/td" if rel is True else proj + "/td") if "task" in sub else "",
                                          "ctx": proj + "/cd" if "ctx" in sub else "", "start": start}})
    return jobs


def sequence_jobs(ctx, first_id, workdir):
    """several uses of tasks in ONE process: (a) a task with a templated dir run directly and then as a stage whose variables change the
    template's value; (b) tasks without any env run as parallel stages: each sees its own TASK_NAME in every command and hook"""
    jobs = []
    for order in (["t", "p"], ["p", "t"], ["t", "p", "t"]):
        jid = first_id + len(jobs)
        proj = os.path.join(workdir, "cli", str(jid), "proj")
        pr = 'echo "%s:$(pwd)" >> "$PROJ/out"'
        doc = {"tasks": {"t": {"command": [pr % "cmd"], "before": [pr % "before"], "after": [pr % "after"], "dir": "{{.PD}}/{{.Area}}", "variables": {"Area": "alpha"}}},
               "pipelines": {"p": [{"task": "t", "variables": {"Area": "beta"}}]}}
        want = []
        for tgt in order:
            d = proj + ("/alpha" if tgt == "t" else "/beta")
            want += ["before:" + d, "cmd:" + d, "after:" + d]
        jobs.append({"id": jid, "files": {"cfg.json": clilib.jcfg(doc), "alpha/x": "", "beta/x": ""}, "argv": ["-c", "cfg.json", "--raw", "--set", "PD=" + proj] + order,
                     "keep": ["out"], "kind": "seq-dir", "mode": "+".join(order), "want": want})
    for n in (2, 3):
        jid = first_id + len(jobs)
        # (one file per task: concurrent appends to one file can interleave)
        tasks = {"n%d" % i: {"command": ['echo "c1.%d=$TASK_NAME" >> "$PROJ/out.%d"; sleep 0.15' % (i, i), 'echo "c2.%d=$TASK_NAME" >> "$PROJ/out.%d"' % (i, i)],
                              "after": ['echo "a.%d=$TASK_NAME" >> "$PROJ/out.%d"' % (i, i)]} for i in range(n)}
        doc = {"tasks": tasks, "pipelines": {"p": [{"task": "n%d" % i} for i in range(n)]}}
        want = sorted("%s.%d=n%d" % (k, i, i) for i in range(n) for k in ("c1", "c2", "a"))
        for rep in range(3):
            jobs.append({"id": first_id + len(jobs), "files": {"cfg.json": clilib.jcfg(doc)}, "argv": ["-c", "cfg.json", "--raw", "p"], "keep": ["out.%d" % i for i in range(n)], "kind": "seq-taskname",
                         "mode": "parallel-%d" % n, "want": want})
    return jobs


EF_NAMES = ["A", "B", "AB"]


def envtext_jobs(ctx, first_id):
    """the env_file level from the file's TEXT: NAME=value lines whose values contain '=', '#', spaces or nothing, names defined twice,
    blank lines, lines without '=', names with a leading '#' or blank, CRLF line ends, a last line without LF"""
    rng = vlib.rng_for(ctx.seed, "C09envtext")
    corpus = ["A=1=2\n", "A=\n", "A\nB=x\n", "A=1\nA=2\n", "A=1\r\nB=2\r\n", "A=1\n\n\nB= x y \n", "#A=1\nB=#2\n", "A=x", "A=x\nB=y=z", " A=1\nB =2\nAB=3\n",
              "AB=A=B\nA=AB\n", "A=1\n=2\nB=3\n", "\n", "", "A==\n", "B=1\nB\nB=\n"]
    texts = list(corpus)
    for _ in range(120 if ctx.tier == "thorough" else 40):
        ls = []
        for _ in range(rng.randrange(1, 6)):
            r = rng.random()
            val = "".join(rng.choice("ab=# x:") for _ in range(rng.randrange(0, 6)))
            name = rng.choice(EF_NAMES + ["C"])
            if r < 0.6:
                l = name + "=" + val
            elif r < 0.7:
                l = rng.choice(["#", " ", ""]) + name + rng.choice(["", " "]) + "=" + val
            elif r < 0.8:
                l = ""
            elif r < 0.9:
                l = name + val.replace("=", "")
            else:
                l = val
            ls.append(l)
        eol = rng.choice(["\n", "\n", "\r\n"])
        t = eol.join(ls) + (eol if rng.random() < 0.7 else "")
        texts.append(t)
    jobs = []
    for t in texts:
        doc = {"tasks": {"t": {"command": ['echo "EF|%s|" >> "$PROJ/out"' % "|".join("${%s-UNSET}" % n for n in EF_NAMES)], "env_file": "envfile"}},
               "pipelines": {"p": [{"task": "t"}]}}
        mode = rng.choice(["direct", "stage"])
        jobs.append({"id": first_id + len(jobs), "files": {"cfg.json": clilib.jcfg(doc), "envfile": t}, "argv": ["-c", "cfg.json", "--raw", "t" if mode == "direct" else "p"],
                     "env": {}, "keep": ["out"], "kind": "envtext", "mode": mode, "text": t})
    return jobs


HEADER = """From Coq Require Import List Arith NArith Bool. Import ListNotations.
From TaskctlV Require Import Model.Stage Model.Env Corr.EnvCorr Model.SetFlag Model.EnvFile Corr.EnvFileCorr.
"""
FOOTER = """
Definition BAD := Eval vm_compute in map fst (filter (fun c => negb (snd c)) cases).
Print BAD.
"""


def run(ctx):
    res = vlib.Result()
    res.rule = ("environment: every non-empty subset (63) of {parent, context env, env_file, task env, stage env, variation} defining X, with values "
                "increasing and decreasing with precedence, run directly and as a stage, read by the command and (without the variation level) by the condition, a before hook and an after hook; plus a name only the parent defines and TASK_NAME.  "
                "directory: every subset of {stage dir, task dir (templated), context dir} (task / stage dir absolute and relative) x invoked from the project root / a sub-directory x "
                "direct / stage; pwd of command, before, after and condition.  env_file texts: NAME=value lines with values over {a b = # space x :}, repeated names, "
                "blank lines, lines without '=', names with a leading # or blank, LF / CRLF, unterminated last line.  distinct = distinct case; non-trivial = at least two levels define X "
                "(env) or at least one dir level is set (dir).")
    res.exhaustive = True
    if ctx.replay_cases:
        jobs = ctx.replay_cases
    else:
        jobs = env_jobs(ctx)
        jobs += dir_jobs(ctx, len(jobs), ctx.workdir)
        jobs += sequence_jobs(ctx, len(jobs), ctx.workdir)
        jobs += envtext_jobs(ctx, len(jobs))
    out = clilib.run_cli(ctx.workdir, jobs)
    items = []
    index = {}
    for j in jobs:
        r = out[j["id"]]
        res.evaluations += 1
        res.count(j["kind"] + "-" + j["mode"])
        if r["timeout"] or clilib.crashed(r) or r["rc"] != 0:
            res.violations.append({"class": None, "what": "taskctl failed, hung or crashed on a valid layered configuration (rc=%s)" % r.get("rc"), "case": j, "observed": r})
            continue
        if j["kind"].startswith("seq-"):
            got = [l for l in (r["files"].get("out") or "").split("\n") if l]
            if j["kind"] == "seq-taskname":
                got = sorted(l for fn in sorted(r["files"]) for l in r["files"][fn].split("\n") if l)
            res.nontrivial_keys.add(json.dumps([j["kind"], j["mode"]]))
            if got != j["want"]:
                res.violations.append({"class": None, "what": ("a task run directly and as a stage in one process: commands / hooks did not run in the directory of THIS use" if j["kind"] == "seq-dir"
                                                               else "parallel stages without any env: a command or hook saw another task's TASK_NAME"),
                                       "case": j, "observed": got})
            continue
        if j["kind"] == "envtext":
            def bl(t):
                return vlib.clist(list(t.encode()), str)
            m = re.match(r"^EF\|(.*)\|\n?$", r["files"].get("out") or "", re.S)
            vals = m.group(1).split("|") if m else []
            if len(vals) != len(EF_NAMES):
                vals = ["<the command's output is missing>"] * len(EF_NAMES)
            k = len(items)
            index[k] = (j, "env_file text")
            items.append("(%d%%N, envtext_ok %s %s)" % (k, bl(j["text"]), vlib.clist(list(zip(EF_NAMES, vals)),
                         lambda nv: "(%s, %s)" % (bl(nv[0]), "None" if nv[1] == "UNSET" else "(Some %s)" % bl(nv[1])))))
            res.nontrivial_keys.add(json.dumps(j["text"]))
            continue
        lines = dict(l.split("=", 1) if "=" in l.split(":", 1)[0] else l.split(":", 1) for l in (r["files"].get("out") or "").split("\n") if l)
        I = Intern()
        if j["kind"] == "env":
            v = j["vals"]

            def am(lv):
                return "[(1, %d)]" % I(v[lv]) if lv in v else "[]"
            L = "(mkEnvL %s [(4, %d)] %s (2, %d) %s %s %s %s)" % (
                "[(3, %d)%s]" % (I("from-parent"), "; (1, %d)" % I(v["parent"]) if "parent" in v else ""), I("args"),
                am("ctx") if "ctx" in v else "[(5, 1)]", I("t"), am("envfile") if "envfile" not in v else "[(1, %d); (6, 1)]" % I(v["envfile"]),
                am("task"), am("stage"), am("variation"))
            Lh = "(mkEnvL %s [(4, %d)] %s (2, %d) %s %s %s [])" % (
                "[(3, %d)%s]" % (I("from-parent"), "; (1, %d)" % I(v["parent"]) if "parent" in v else ""), I("args"),
                am("ctx") if "ctx" in v else "[(5, 1)]", I("t"), am("envfile") if "envfile" not in v else "[(1, %d); (6, 1)]" % I(v["envfile"]),
                am("task"), am("stage"))
            for name, key, LL in ((1, "X", L), (3, "P", L), (2, "TN", L), (1, "CX", Lh), (2, "CTN", Lh), (1, "BX", Lh), (2, "BTN", Lh), (1, "AX", Lh), (2, "ATN", Lh)):
                val = lines.get(key)
                k = len(items)
                index[k] = (j, key)
                items.append("(%d%%N, env_ok %s %d %s)" % (k, LL, name, "None" if val in (None, "UNSET") else "(Some %d)" % I(val)))
            if len(v) >= 2:
                res.nontrivial_keys.add(json.dumps([v, j["mode"]], sort_keys=True))
        else:
            d = j["dirs"]
            D = "(mkDirL %d %d %d %d)" % (I(d["stage"]), I(d["task"]), I(d["ctx"]), I(d["start"]))
            for tok in ("cmd", "before", "after", "cond"):
                k = len(items)
                index[k] = (j, tok)
                items.append("(%d%%N, dir_ok %s %d)" % (k, D, I(lines.get(tok, "<missing>"))))
            if j["sub"]:
                res.nontrivial_keys.add(json.dumps([j["sub"], j["where"], j["mode"]]))
    bad = set()
    for rc, o, start, cnt in vlib.coq_eval_sharded(ctx.workdir, "cases_c09", HEADER, items, lambda: FOOTER, shard=600):
        if rc != 0:
            res.mismatches.append({"what": "cases.v did not evaluate", "detail": o[-1500:]})
            continue
        pr = vlib.coq_printed(o)
        if "BAD" not in pr:
            res.mismatches.append({"what": "cases.v output lacks BAD", "detail": o[-800:]})
        bad.update(vlib.nums(pr.get("BAD", "")))
        res.traces_validated += cnt
    seen = set()
    for k in sorted(bad):
        j, key = index[k]
        if (j["id"], j["kind"]) in seen:
            continue
        seen.add((j["id"], j["kind"]))
        what = ("env_file: a command did not see exactly what the file's NAME=value lines define (value = the rest of the line after the first '=', later lines win, other lines define nothing)"
                if j["kind"] == "envtext" else "a command saw a value for a name other than the one of the highest level defining it (or a pass-through / TASK_NAME was wrong)"
                if j["kind"] in ("env", "envtext") else "a command / hook / condition ran in a directory other than stage dir > task dir > context dir > start directory")
        res.violations.append({"class": None, "what": what, "case": j, "observed": out[j["id"]], "detail": "first wrong: " + key})
    res.samples = [jobs[10], jobs[-3]]
    return res


class Intern:
    def __init__(self):
        self.d = {"": 0}

    def __call__(self, s):
        if s not in self.d:
            self.d[s] = len(self.d) + 10
        return self.d[s]
