"""C08 - Per-stage overrides stay with their stage.
Theorems: Properties/C08.v (Model/Stage.v).  Correspondence: engine `stageov` (real Scheduler.runStage with a recording Runner)."""
import json
import vlib
import schedlib

TRUSTED = [
    "model Model/Stage.v: store of task cells, a use = Prep + Hand micro-steps; transcription of Scheduler.runStage (repaired: private copy) ",
    "Go engine `stageov` (harness/stageov.go): recording runner.Runner snapshotting Env/Variables/Dir of the task it is handed",
    "variables.Container modelled as association lists compared extensionally",
]
ASSUMPTIONS = ["stages are built as scheduler.Stage values over one shared *task.Task (the shape buildPipeline produces); configuration-level layering through the CLI is exercised by C09/C10"]


class Intern:
    def __init__(self):
        self.d = {"": 0}

    def __call__(self, s):
        if s not in self.d:
            self.d[s] = len(self.d)
        return self.d[s]


def gen_cases(ctx):
    rng = vlib.rng_for(ctx.seed, "C08")
    cases = []
    dags = {n: schedlib.all_dags(n) for n in (2, 3, 4)}

    def ov(i, pipe):
        env = None
        r = rng.random()
        if r < 0.75:
            env = {"VK": "p%d.s%d" % (pipe, i)}
            if rng.random() < 0.6:
                env["E_TASK"] = rng.choice(["stage%d.%d" % (pipe, i), "stage%d.%d" % (pipe, i), ""])   # overrides a key the task defines, possibly with the empty string
            if rng.random() < 0.5:
                env["E_S%d" % i] = "x%d" % i
        elif r < 0.85:
            env = {}
        vars_ = None
        r = rng.random()
        if r < 0.65:
            vars_ = {"VS": "p%d.v%d" % (pipe, i)}
            if rng.random() < 0.5:
                vars_["V_TASK"] = rng.choice(["svar%d.%d" % (pipe, i), ""])
        elif r < 0.75:
            vars_ = {}
        d = "/dir/p%d/s%d" % (pipe, i) if rng.random() < 0.4 else ""
        return {"env": env, "vars": vars_, "dir": d, "delay_us": rng.choice([0, 0, 200, 800, 2000]), "allow": rng.random() < 0.3}

    def mk(deps, pipe):
        return [dict(ov(i, pipe), deps=list(deps[i])) for i in range(len(deps))]

    def add(st1, st2, kind):
        cases.append({"id": len(cases), "env": {"E_TASK": "task", "E_OWN": "own"}, "vars": {"V_TASK": "tvar", "V_OWN": "vown"},
                      "dir": rng.choice(["", "/taskdir"]), "stages": st1, "stages2": st2, "kind": kind})

    # corpus: the reproduced defect (stage 0 overrides env, stage 1 -> same task, none)
    add([{"deps": [], "env": {"VK": "a", "E_TASK": "bbb"}, "vars": {"VS": "a"}, "dir": "", "delay_us": 0},
         {"deps": [0], "env": None, "vars": None, "dir": "", "delay_us": 0}], [], "corpus")
    add([{"deps": [], "env": None, "vars": {"VS": "a"}, "dir": "/d0", "delay_us": 0},
         {"deps": [], "env": {"VK": "b"}, "vars": None, "dir": "", "delay_us": 500}], [], "corpus")
    reps = {2: 20, 3: 6, 4: (2 if ctx.tier == "thorough" else 0)}
    for n in (2, 3, 4):
        for deps in dags[n]:
            for _ in range(reps[n]):
                st2 = mk(rng.choice(dags[2]), 2) if rng.random() < 0.4 else []
                add(mk(deps, 1), st2, "dag%d" % n)
    if ctx.tier != "thorough":
        for deps in rng.sample(dags[4], 150):
            add(mk(deps, 1), mk(rng.choice(dags[2]), 2) if rng.random() < 0.3 else [], "dag4")
    for _ in range(300 if ctx.tier == "thorough" else 40):
        n = rng.randint(5, 6)
        deps = schedlib.random_dag(rng, n)
        add(mk(deps, 1), [], "rand")
    return cases


def cli_cases(ctx):
    """what the COMMANDS of each use actually see (environment, variables, directory, variation values), through the binary: stages of
    one pipeline sharing a task, with and without overrides, chained and parallel, then the task run directly in the same process"""
    import clilib
    rng = vlib.rng_for(ctx.seed, "C08cli")
    jobs = []
    for _ in range(60 if ctx.tier == "thorough" else 18):
        n = rng.randint(2, 3)
        stages, ovs = [], []
        for k in range(n):
            st = {"task": "t", "name": "s%d" % k}
            ov = {"env": None, "vars": None, "dir": ""}
            if rng.random() < 0.6:
                ov["env"] = {}
                if rng.random() < 0.7:
                    ov["env"]["E_S"] = "e%d" % k
                if rng.random() < 0.5:
                    ov["env"]["E_TASK"] = rng.choice(["st%d" % k, ""])
                if rng.random() < 0.4:          # a name that taskctl's own environment defines too
                    ov["env"]["E_PARENT"] = "sp%d" % k
                if rng.random() < 0.2:          # this stage switches the shared task off through the task's condition (which reads E_S)
                    ov["env"]["E_S"] = "skipme"
                st["env"] = ov["env"]
            if rng.random() < 0.6:
                ov["vars"] = {}
                if rng.random() < 0.7:
                    ov["vars"]["VS"] = "v%d" % k
                if rng.random() < 0.5:
                    ov["vars"]["V_TASK"] = "sv%d" % k
                st["variables"] = ov["vars"]
            if rng.random() < 0.3:
                ov["dir"] = "/tmp"
                st["dir"] = "/tmp"
            if k and rng.random() < 0.5:
                st["depends_on"] = ["s%d" % rng.randrange(k)]
            stages.append(st)
            ovs.append(ov)
        cmd = ('echo "E_TASK=${E_TASK-UNSET}|E_S=${E_S-UNSET}|E_PARENT=${E_PARENT-UNSET}|VV=${VV-UNSET}|V_TASK={{.V_TASK}}|VS={{index . \"VS\"}}|PWD=$(pwd)" > "$PROJ/u.{{index . \".Stage.Name\"}}"')
        doc = {"tasks": {"t": {"command": [cmd], "env": {"E_TASK": "task"}, "variables": {"V_TASK": "tvar"}, "variations": [{"VV": "{{.V_TASK}}"}],
                               "condition": 'test "${E_S-}" != skipme'}}, "pipelines": {"p": stages}}
        if rng.random() < 0.5:          # the task runs in a NAMED context: one object shared by all its uses in the process
            doc["contexts"] = {"cx": {"env": {"CXE": "1"}}}
            doc["tasks"]["t"]["context"] = "cx"
        order = rng.choice([["p", "t"], ["t", "p", "t"]])
        jobs.append({"id": len(jobs), "files": {"cfg.json": clilib.jcfg(doc)}, "argv": ["-c", "cfg.json", "--raw"] + order, "keep": ["u.s%d" % k for k in range(n)] + ["u.<no value>"],
                     "env": {"E_PARENT": "outer"}, "ovs": ovs, "kind": "cli", "order": order})
    return jobs


def templated_parallel(ctx, res):
    """eight stages sharing one task run at the same time, each with ten stage variables whose VALUES are templates over the stage's own
    `Id`: every stage's command sees the values rendered from its own variables"""
    import clilib
    nst, nv = 8, 10
    cmd = 'echo "%s" > "$PROJ/tp.{{.Id}}"' % "|".join("{{.W%d}}" % i for i in range(nv))
    stages = [{"task": "t", "name": "s%d" % k, "variables": dict({"Id": "s%d" % k}, **{"W%d" % i: "{{.Id}}-%d-%d" % (k, i) for i in range(nv)})} for k in range(nst)]
    doc = {"tasks": {"t": {"command": [cmd]}}, "pipelines": {"p": stages}}
    jobs = [{"id": r, "files": {"cfg.json": clilib.jcfg(doc)}, "argv": ["-c", "cfg.json", "--raw", "run", "pipeline", "p"], "keep": ["tp.s%d" % k for k in range(nst)], "timeout": 30}
            for r in range(12 if ctx.tier != "thorough" else 40)]
    out = clilib.run_cli(ctx.workdir + "/tp8", jobs, timeout=30, workers=4)
    for j in jobs:
        r = out[j["id"]]
        res.evaluations += 1
        res.count("templated-parallel")
        res.nontrivial_keys.add("templated-parallel")
        want = {"tp.s%d" % k: "|".join("s%d-%d-%d" % (k, k, i) for i in range(nv)) for k in range(nst)}
        got = {fn: (txt or "").strip() for fn, txt in r["files"].items()}
        if r["timeout"] or clilib.crashed(r) or r["rc"] != 0 or got != want:
            res.violations.append({"class": None, "what": "parallel stages sharing a task, with stage variables whose values are templates: a stage's command saw values rendered from ANOTHER stage's variables (or the run failed)",
                                   "case": {"kind": "cli", "shape": "templated-parallel", "config": doc}, "observed": {"rc": r["rc"], "differs": {k: v for k, v in got.items() if want.get(k) != v}, "err": (r.get("err") or "")[-300:]}})
            break


def run_cli_part(ctx, res):
    import clilib
    templated_parallel(ctx, res)
    jobs = cli_cases(ctx)
    out = clilib.run_cli(ctx.workdir + "/cli8", jobs, timeout=30)
    items, index = [], {}
    for j in jobs:
        r = out[j["id"]]
        res.evaluations += 1
        res.count("cli")
        res.nontrivial_keys.add(json.dumps([j["ovs"], j["order"]], sort_keys=True))
        case = {"kind": "cli", "argv": j["argv"], "config": json.loads(j["files"]["cfg.json"])}
        if r["timeout"] or clilib.crashed(r) or r["rc"] != 0:
            res.violations.append({"class": None, "what": "a pipeline whose stages share a task failed, hung or crashed", "case": case, "observed": (r.get("err") or "")[-600:]})
            continue
        I = Intern()
        proj_dir = None
        uses = [("u.s%d" % k, "(Stage 0 %s)" % coq_ov(ov, I)) for k, ov in enumerate(j["ovs"])] + [("u.<no value>", "(Direct 0)")]
        # a use whose own environment makes the task's condition false is skipped (and only such a use)
        off = {"u.s%d" % k for k, ov in enumerate(j["ovs"]) if (ov["env"] or {}).get("E_S") == "skipme"}
        wrong = [fn for fn, _ in uses if (fn in off) != (not (r["files"].get(fn) or "").strip())]
        if wrong:
            res.violations.append({"class": None, "what": "the task's condition reads the use's own environment: a use was skipped / run according to ANOTHER use's environment (%s)" % ",".join(wrong),
                                   "case": case, "observed": r["files"]})
            continue
        uses = [u for u in uses if u[0] not in off]
        for fn, use in uses:
            txt = (r["files"].get(fn) or "").strip()
            d = dict(x.split("=", 1) for x in txt.split("|") if "=" in x)
            if fn == "u.<no value>":
                proj_dir = d.get("PWD")
        for fn, use in uses:
            txt = (r["files"].get(fn) or "").strip()
            d = dict(x.split("=", 1) for x in txt.split("|") if "=" in x)
            if not d:
                res.violations.append({"class": None, "what": "a use of the shared task left no record (%s)" % fn, "case": case, "observed": r["files"]})
                break
            env = {k: d[k] for k in ("E_TASK", "E_S", "E_PARENT") if d.get(k, "UNSET") != "UNSET"}
            vars_ = {k: d[k] for k in ("V_TASK", "VS") if d.get(k, "<no value>") != "<no value>"}
            pwd = "" if d.get("PWD") == proj_dir else d.get("PWD", "?")
            k = len(items)
            index[k] = (case, fn, r["files"])
            # (the value taskctl's own environment gives E_PARENT is the lowest layer: for the model it is part of the task's own settings)
            t = coq_settings({"env": {"E_TASK": "task", "E_PARENT": "outer"}, "vars": {"V_TASK": "tvar"}, "dir": ""}, I)
            items.append("(%d%%N, settings_equiv (expected (fun _ => %s) %s) %s && %s)" % (
                k, t, use, coq_settings({"env": env, "vars": vars_, "dir": pwd}, I), vlib.cbool(d.get("VV") == "{{.V_TASK}}")))
    bad = set()
    for rc, o, start, cnt in vlib.coq_eval_sharded(ctx.workdir, "cases_c08cli", HEADER, items, lambda: FOOTER, shard=400):
        if rc != 0:
            res.mismatches.append({"what": "cases.v did not evaluate", "detail": o[-1500:]})
            continue
        pr = vlib.coq_printed(o)
        bad.update(vlib.nums(pr.get("BAD", "")))
        res.traces_validated += cnt
    seen = set()
    for k in sorted(bad):
        case, fn, files = index[k]
        key = json.dumps(case, sort_keys=True)
        if key in seen:
            continue
        seen.add(key)
        res.violations.append({"class": None, "what": "through the binary: the commands of a use (%s) saw environment / variables / directory / variation values other than the task's own layered with that use's own overrides" % fn,
                               "case": case, "observed": files})


def coq_amap(m, I):
    return vlib.clist(sorted(m.items()), lambda kv: "(%d, %d)" % (I(kv[0]), I(kv[1])))


def coq_settings(s, I):
    return "(mkSet %s %s %d %d)" % (coq_amap(s["env"], I), coq_amap(s["vars"], I), I(s["dir"]), I(s.get("rest", "")))


def coq_ov(s, I):
    return "(mkOv %s %s %d)" % (vlib.copt(s["env"], lambda m: coq_amap(m, I)), vlib.copt(s["vars"], lambda m: coq_amap(m, I)), I(s["dir"]))


HEADER = """From Coq Require Import List Arith NArith Bool. Import ListNotations.
From TaskctlV Require Import Model.Stage Corr.StageCorr.
"""
FOOTER = """
Definition BAD := Eval vm_compute in map fst (filter (fun c => negb (snd c)) cases).
Print BAD.
"""


def run(ctx):
    res = vlib.Result()
    if ctx.replay_cases and any(c.get("kind") == "cli" for c in ctx.replay_cases):
        run_cli_part(ctx, res)          # a replay of a through-the-binary case runs that section again
        ctx.replay_cases = [c for c in ctx.replay_cases if c.get("kind") != "cli"]
        if not ctx.replay_cases:
            res.rule = "replay of the through-the-binary section"
            res.samples = [{"replayed": "cli"}]
            return res
    cases = ctx.replay_cases if ctx.replay_cases else gen_cases(ctx)
    for k, c in enumerate(cases):
        c["id"] = k
    res.rule = ("corpus; every DAG on 2..3 stages (several override assignments each) and DAGs on 4 stages (sample in quick, all in thorough), "
                "random DAGs on 5..6 stages; ALL stages share one task; each stage has its own env / variables / dir override or none (nil or "
                "empty containers included), keys overriding the task's own keys included; random per-stage durations so that parallel "
                "stages overlap; then a direct run of the task and (some) a second pipeline over the same task.  distinct = distinct case; "
                "non-trivial = at least two stages with different overrides.")
    obs, logs = vlib.run_engine(ctx.workdir, "stageov", [{k: v for k, v in c.items() if k != "kind"} for c in cases])
    items = []
    index = {}
    for c in cases:
        o = obs.get(c["id"])
        res.evaluations += 1
        res.count(c.get("kind", "replay"))
        if o is None or "harness_error" in o:
            res.mismatches.append({"case": c, "what": "engine produced no observation", "observed": o, "log": logs[:2]})
            continue
        if o.get("panic") or o.get("err"):
            res.violations.append({"class": None, "what": "pipeline over a shared task crashed or failed: %s" % (o.get("panic") or o.get("err")), "case": c, "observed": o})
            continue
        I = Intern()
        t = coq_settings({"env": c["env"], "vars": c["vars"], "dir": c["dir"], "rest": o.get("rest0", "")}, I)
        for part, (sts, handed, direct) in enumerate(((c["stages"], o.get("p1") or [], o["direct1"]),
                                                      (c["stages2"], o.get("p2") or [], o.get("direct2")))):
            if not sts:
                continue
            k = len(items)
            index[k] = (c, o, part)
            items.append("(%d%%N, pipeline_ok %s %s %s %s)" % (k, t, vlib.clist(sts, lambda s: coq_ov(s, I)),
                                                              vlib.clist(handed, lambda s: coq_settings(s, I)), coq_settings(direct, I)))
        if len({json.dumps([s["env"], s["vars"], s["dir"]], sort_keys=True) for s in c["stages"]}) >= 2:
            res.nontrivial_keys.add(json.dumps(c["stages"], sort_keys=True))
    bad = set()
    for rc, out, start, cnt in vlib.coq_eval_sharded(ctx.workdir, "cases_c08", HEADER, items, lambda: FOOTER, shard=400):
        if rc != 0:
            res.mismatches.append({"what": "cases.v did not evaluate", "detail": out[-1500:]})
            continue
        pr = vlib.coq_printed(out)
        if "BAD" not in pr:
            res.mismatches.append({"what": "cases.v output lacks BAD", "detail": out[-800:]})
        bad.update(vlib.nums(pr.get("BAD", "")))
        res.traces_validated += cnt
    for k in sorted(bad):
        c, o, part = index[k]
        res.violations.append({"class": None, "case": c, "observed": o,
                               "what": "an execution was handed settings other than its task's own layered with its own stage's overrides (or another field of the task - name, commands, hooks, timeout, allow_failure ... - was changed on the way), or the task itself was modified (pipeline %d)" % (part + 1),
                               "predicted": "each stage: task settings layered with that stage's overrides; direct run: the task's own settings"})
    if not ctx.replay_cases:
        run_cli_part(ctx, res)
    res.samples = [cases[0], cases[len(cases) // 2]]
    return res
