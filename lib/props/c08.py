"""C08 - Per-stage overrides stay with their stage.
Theorems: Properties/C08.v (Model/Stage.v).  Correspondence: engine `stageov` (real Scheduler.runStage with a recording Runner)."""
import json
import vlib
import schedlib

TRUSTED = [
    "model Model/Stage.v: store of task cells, a use = Prep + Hand micro-steps; transcription of Scheduler.runStage (repaired: private copy) ",
    "Go engine `stageov` (harness/stageov.go): recording runner.Runner snapshotting Env/Variables/Dir of the task it is handed",
    "variables.Container modelled as association lists compared extensionally",
]
ASSUMPTIONS = ["stages are built as scheduler.Stage values over one shared *task.Task (the shape buildPipeline produces); configuration-level layering through the CLI is exercised by C09/C10"]


class Intern:
    def __init__(self):
        self.d = {"": 0}

    def __call__(self, s):
        if s not in self.d:
            self.d[s] = len(self.d)
        return self.d[s]


def gen_cases(ctx):
    rng = vlib.rng_for(ctx.seed, "C08")
    cases = []
    dags = {n: schedlib.all_dags(n) for n in (2, 3, 4)}

    def ov(i, pipe):
        env = None
        r = rng.random()
        if r < 0.75:
            env = {"VK": "p%d.s%d" % (pipe, i)}
            if rng.random() < 0.6:
                env["E_TASK"] = rng.choice(["stage%d.%d" % (pipe, i), "stage%d.%d" % (pipe, i), ""])   # overrides a key the task defines, possibly with the empty string
            if rng.random() < 0.5:
                env["E_S%d" % i] = "x%d" % i
        elif r < 0.85:
            env = {}
        vars_ = None
        r = rng.random()
        if r < 0.65:
            vars_ = {"VS": "p%d.v%d" % (pipe, i)}
            if rng.random() < 0.5:
                vars_["V_TASK"] = rng.choice(["svar%d.%d" % (pipe, i), ""])
        elif r < 0.75:
            vars_ = {}
        d = "/dir/p%d/s%d" % (pipe, i) if rng.random() < 0.4 else ""
        return {"env": env, "vars": vars_, "dir": d, "delay_us": rng.choice([0, 0, 200, 800, 2000])}

    def mk(deps, pipe):
        return [dict(ov(i, pipe), deps=list(deps[i])) for i in range(len(deps))]

    def add(st1, st2, kind):
        cases.append({"id": len(cases), "env": {"E_TASK": "task", "E_OWN": "own"}, "vars": {"V_TASK": "tvar", "V_OWN": "vown"},
                      "dir": rng.choice(["", "/taskdir"]), "stages": st1, "stages2": st2, "kind": kind})

    # corpus: the reproduced defect (stage 0 overrides env, stage 1 -> same task, none)
    add([{"deps": [], "env": {"VK": "a", "E_TASK": "bbb"}, "vars": {"VS": "a"}, "dir": "", "delay_us": 0},
         {"deps": [0], "env": None, "vars": None, "dir": "", "delay_us": 0}], [], "corpus")
    add([{"deps": [], "env": None, "vars": {"VS": "a"}, "dir": "/d0", "delay_us": 0},
         {"deps": [], "env": {"VK": "b"}, "vars": None, "dir": "", "delay_us": 500}], [], "corpus")
    reps = {2: 20, 3: 6, 4: (2 if ctx.tier == "thorough" else 0)}
    for n in (2, 3, 4):
        for deps in dags[n]:
            for _ in range(reps[n]):
                st2 = mk(rng.choice(dags[2]), 2) if rng.random() < 0.4 else []
                add(mk(deps, 1), st2, "dag%d" % n)
    if ctx.tier != "thorough":
        for deps in rng.sample(dags[4], 150):
            add(mk(deps, 1), mk(rng.choice(dags[2]), 2) if rng.random() < 0.3 else [], "dag4")
    for _ in range(300 if ctx.tier == "thorough" else 40):
        n = rng.randint(5, 6)
        deps = schedlib.random_dag(rng, n)
        add(mk(deps, 1), [], "rand")
    return cases


def coq_amap(m, I):
    return vlib.clist(sorted(m.items()), lambda kv: "(%d, %d)" % (I(kv[0]), I(kv[1])))


def coq_settings(s, I):
    return "(mkSet %s %s %d)" % (coq_amap(s["env"], I), coq_amap(s["vars"], I), I(s["dir"]))


def coq_ov(s, I):
    return "(mkOv %s %s %d)" % (vlib.copt(s["env"], lambda m: coq_amap(m, I)), vlib.copt(s["vars"], lambda m: coq_amap(m, I)), I(s["dir"]))


HEADER = """From Coq Require Import List Arith NArith Bool. Import ListNotations.
From TaskctlV Require Import Model.Stage Corr.StageCorr.
"""
FOOTER = """
Definition BAD := Eval vm_compute in map fst (filter (fun c => negb (snd c)) cases).
Print BAD.
"""


def run(ctx):
    res = vlib.Result()
    cases = ctx.replay_cases if ctx.replay_cases else gen_cases(ctx)
    for k, c in enumerate(cases):
        c["id"] = k
    res.rule = ("corpus; every DAG on 2..3 stages (several override assignments each) and DAGs on 4 stages (sample in quick, all in thorough), "
                "random DAGs on 5..6 stages; ALL stages share one task; each stage has its own env / variables / dir override or none (nil or "
                "empty containers included), keys overriding the task's own keys included; random per-stage durations so that parallel "
                "stages overlap; then a direct run of the task and (some) a second pipeline over the same task.  distinct = distinct case; "
                "non-trivial = at least two stages with different overrides.")
    obs, logs = vlib.run_engine(ctx.workdir, "stageov", [{k: v for k, v in c.items() if k != "kind"} for c in cases])
    items = []
    index = {}
    for c in cases:
        o = obs.get(c["id"])
        res.evaluations += 1
        res.count(c.get("kind", "replay"))
        if o is None or "harness_error" in o:
            res.mismatches.append({"case": c, "what": "engine produced no observation", "observed": o, "log": logs[:2]})
            continue
        if o.get("panic") or o.get("err"):
            res.violations.append({"class": None, "what": "pipeline over a shared task crashed or failed: %s" % (o.get("panic") or o.get("err")), "case": c, "observed": o})
            continue
        I = Intern()
        t = coq_settings({"env": c["env"], "vars": c["vars"], "dir": c["dir"]}, I)
        for part, (sts, handed, direct) in enumerate(((c["stages"], o.get("p1") or [], o["direct1"]),
                                                      (c["stages2"], o.get("p2") or [], o.get("direct2")))):
            if not sts:
                continue
            k = len(items)
            index[k] = (c, o, part)
            items.append("(%d%%N, pipeline_ok %s %s %s %s)" % (k, t, vlib.clist(sts, lambda s: coq_ov(s, I)),
                                                              vlib.clist(handed, lambda s: coq_settings(s, I)), coq_settings(direct, I)))
        if len({json.dumps([s["env"], s["vars"], s["dir"]], sort_keys=True) for s in c["stages"]}) >= 2:
            res.nontrivial_keys.add(json.dumps(c["stages"], sort_keys=True))
    bad = set()
    for rc, out, start, cnt in vlib.coq_eval_sharded(ctx.workdir, "cases_c08", HEADER, items, lambda: FOOTER, shard=400):
        if rc != 0:
            res.mismatches.append({"what": "cases.v did not evaluate", "detail": out[-1500:]})
            continue
        pr = vlib.coq_printed(out)
        if "BAD" not in pr:
            res.mismatches.append({"what": "cases.v output lacks BAD", "detail": out[-800:]})
        bad.update(vlib.nums(pr.get("BAD", "")))
        res.traces_validated += cnt
    for k in sorted(bad):
        c, o, part = index[k]
        res.violations.append({"class": None, "case": c, "observed": o,
                               "what": "an execution was handed settings other than its task's own layered with its own stage's overrides, or the task itself was modified (pipeline %d)" % (part + 1),
                               "predicted": "each stage: task settings layered with that stage's overrides; direct run: the task's own settings"})
    res.samples = [cases[0], cases[len(cases) // 2]]
    return res
