"""C04 - see coq/theories/Properties/C04.v; correspondence run shared by C01-C04 in lib/schedlib.py"""
import schedlib

TRUSTED = schedlib.TRUSTED
ASSUMPTIONS = schedlib.ASSUMPTIONS


def run(ctx):
    return schedlib.run(ctx, "C04")
