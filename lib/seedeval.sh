#!/bin/bash
# usage: seedeval.sh <PROP> <seedout dir> <suffix: "" or "2"> [extra PROP...]
# Confirms a seeded change independently (applies, builds, existing suite green, demonstration fails with / passes without),
# then runs the quick check(s) of a SNAPSHOT of /verif (/tmp/vsnap, see lib/mutsnap.sh) against the changed tree.
# Everything happens in the scratch worktree /tmp/mw (never in /repo).
prop="$1"; dir="$2"; sfx="$3"; shift 3
export GOFLAGS=-mod=mod GOPROXY=off GOSUMDB=off GOTOOLCHAIN=local
wt=${MW:-/tmp/mw}
patch="$dir/patch$sfx.diff"; demo="$dir/demo$sfx"
[ -f "$patch" ] || { echo "NO PATCH $patch"; exit 2; }
cd $wt || exit 2
git checkout -q -f --detach "$(git -C /repo rev-parse HEAD)"; git clean -fdq
run_demo() {   # copies the demo test files into the package named by the go test command of RUN.txt and runs it; shell demos are run as they are
  local cmd pkg
  cmd=$(grep -oE "go test [^#;]*" "$demo/RUN.txt" | tail -1)
  if ls "$demo"/*_test.go >/dev/null 2>&1 && [ -n "$cmd" ]; then
    pkg=$(echo "$cmd" | grep -oE '\./[A-Za-z0-9_/]+' | tail -1); pkg=${pkg%/}
    cp "$demo"/*_test.go "$wt/$pkg/"
  else
    local sh=$(ls "$demo"/*.sh | head -1)
    cmd="bash $sh"
  fi
  cmd=$(echo "$cmd" | sed -E "s#/tmp/seed_${prop}[bcdef]?#$wt#g")
  if (cd $wt && timeout 600 bash -c "$cmd") >/tmp/mw_demo.log 2>&1; then echo PASS; else echo FAIL; fi
}
echo "== $prop$sfx demo on clean tree: $(run_demo)"
git clean -fdq
if ! git apply "$patch" 2>/dev/null; then echo "PATCH DOES NOT APPLY"; exit 3; fi
go build ./... 2>&1 | tail -3
suite=$(go test -vet=off -count=1 -timeout 120s ./... 2>&1 | grep -v "^ok\|no test files" | head -5)
echo "== existing suite with patch: ${suite:-GREEN}"
echo "== demo with patch: $(run_demo)"
git clean -fdq
export VERIF_REPO="$wt" VERIF_WORK="${MWORK:-/tmp/mwork}"
mkdir -p "$VERIF_WORK"
for p in "$prop" "$@"; do
  (cd ${VSNAP:-/tmp/vsnap} && timeout 2400 ./check "$p" quick 2>&1 | grep -E "VIOLATION|KNOWN|seed=" | cut -c1-220)
done
git checkout -q -f -- . ; git clean -fdq
