#!/bin/bash
# usage: seedeval.sh <PROP> <seedout dir> <suffix: "" or "2"> [extra PROP...]
# Confirms a seeded change independently (applies, builds, existing suite green, demonstration fails with / passes without),
# then runs the quick check(s) of a SNAPSHOT of /verif (/tmp/vsnap, see lib/mutsnap.sh) against the changed tree.
# Everything happens in the scratch worktree /tmp/mw (never in /repo).
prop="$1"; dir="$2"; sfx="$3"; shift 3
export GOFLAGS=-mod=mod GOPROXY=off GOSUMDB=off GOTOOLCHAIN=local
wt=/tmp/mw
patch="$dir/patch$sfx.diff"; demo="$dir/demo$sfx"
[ -f "$patch" ] || { echo "NO PATCH $patch"; exit 2; }
cd $wt || exit 2
git checkout -q -f --detach "$(git -C /repo rev-parse HEAD)"; git clean -fdq
run_demo() {   # copies the demo files as RUN.txt says, runs the command; prints PASS/FAIL
  local cmd dest
  # heuristics: RUN.txt holds a copy destination (a path under the repo ending in _test.go or a package dir) and a command line
  for f in "$demo"/*_test.go; do [ -f "$f" ] || continue
    dest=$(grep -oE '(pkg|internal|cmd)/[A-Za-z0-9_/]+' "$demo/RUN.txt" | head -1); dest=${dest%/}
    case "$dest" in *_test.go) dest=$(dirname "$dest");; esac
    [ -d "$dest" ] || dest=$(dirname "$dest")
    cp "$f" "$dest/"
  done
  cmd=$(grep -E '^\s*(cd .*&& )?(go test|bash|sh|\./)' "$demo/RUN.txt" | tail -1)
  [ -n "$cmd" ] || cmd=$(grep -E 'go test' "$demo/RUN.txt" | tail -1 | sed 's/^[^g]*go test/go test/')
  cmd=$(echo "$cmd" | sed "s#/tmp/seed_$prop#$wt#g")
  if timeout 300 bash -c "$cmd" >/tmp/mw_demo.log 2>&1; then echo PASS; else echo FAIL; fi
}
echo "== $prop$sfx demo on clean tree: $(run_demo)"
git clean -fdq
if ! git apply "$patch" 2>/dev/null; then echo "PATCH DOES NOT APPLY"; exit 3; fi
go build ./... 2>&1 | tail -3
suite=$(go test -vet=off -count=1 -timeout 120s ./... 2>&1 | grep -v "^ok\|no test files" | head -5)
echo "== existing suite with patch: ${suite:-GREEN}"
echo "== demo with patch: $(run_demo)"
git clean -fdq
export VERIF_REPO="$wt" VERIF_WORK="/tmp/mwork"
mkdir -p "$VERIF_WORK"
for p in "$prop" "$@"; do
  (cd /tmp/vsnap && timeout 2400 ./check "$p" quick 2>&1 | grep -E "VIOLATION|KNOWN|seed=" | cut -c1-220)
done
git checkout -q -f -- . ; git clean -fdq
