"""Shared machinery of /verif/check: builds, engine runs, Coq evaluation, evidence, findings.

Python 3 standard library only.  Nothing here decides a property: properties are decided by the
Coq theorems under coq/theories/Properties and tied to /repo by the correspondence runs that the
per-property modules in lib/props describe.
"""
import fcntl
import hashlib
import json
import os
import random
import re
import shutil
import subprocess
import sys
import time
from concurrent.futures import ThreadPoolExecutor

ROOT = os.path.dirname(os.path.dirname(os.path.abspath(__file__)))
WORK = os.environ.get("VERIF_WORK") or os.path.join(ROOT, ".work")   # VERIF_WORK/VERIF_REPO: isolated runs against a scratch tree (seeded changes)
COQ = os.path.join(ROOT, "coq")
HARNESS_SRC = os.path.join(ROOT, "harness")
BIN = os.path.join(WORK, "bin")
REPO = os.environ.get("VERIF_REPO", "/repo")
NCPU = os.cpu_count() or 4

GOENV = dict(os.environ)
GOENV.update({
    "GOFLAGS": "-mod=mod", "GOPROXY": "off", "GOSUMDB": "off", "GOTOOLCHAIN": "local",
    "GOCACHE": os.path.join(ROOT, ".work", "gocache"),      # shared by isolated runs (the go build cache is concurrency-safe)
})

FORBIDDEN = re.compile(
    r"\b(Admitted|admit|Axiom|Axioms|Parameter|Parameters|Conjecture|Conjectures|bypass_check|Admit Obligations)\b"
    r"|Unset\s+(Guard|Positivity|Universe)\s+Checking|type-in-type|impredicative-set|native_compute")

ALLOWED_AXIOMS = set()  # none is needed by this development; anything printed is reported


class Lock:
    def __init__(self, name, shared=False):
        d = os.path.join(ROOT, ".work") if shared else WORK
        os.makedirs(d, exist_ok=True)
        self.path = os.path.join(d, name + ".lock")

    def __enter__(self):
        self.f = open(self.path, "w")
        fcntl.flock(self.f, fcntl.LOCK_EX)
        return self

    def __exit__(self, *a):
        fcntl.flock(self.f, fcntl.LOCK_UN)
        self.f.close()


def sh(cmd, cwd=None, timeout=600, env=None, stdin=None):
    """run a command; returns (rc, combined output). rc = 124 on timeout."""
    try:
        p = subprocess.run(cmd, cwd=cwd, env=env, input=stdin, stdout=subprocess.PIPE,
                           stderr=subprocess.STDOUT, timeout=timeout, shell=isinstance(cmd, str))
        return p.returncode, p.stdout.decode("utf-8", "replace")
    except subprocess.TimeoutExpired as e:
        out = (e.stdout or b"").decode("utf-8", "replace")
        return 124, out + "\n[timeout after %ss]" % timeout


# ----------------------------------------------------------------------------------------------
# Coq
# ----------------------------------------------------------------------------------------------

def coq_sources():
    res = []
    for d, _, fs in os.walk(os.path.join(COQ, "theories")):
        for f in fs:
            if f.endswith(".v"):
                res.append(os.path.relpath(os.path.join(d, f), COQ))
    return sorted(res)


def forbidden_vernacular():
    """grep the development for anything that would declare an axiom or switch a check off"""
    hits = []
    for rel in coq_sources():
        with open(os.path.join(COQ, rel), encoding="utf-8") as f:
            txt = f.read()
        txt_nc = strip_coq_comments(txt)
        for i, line in enumerate(txt_nc.split("\n"), 1):
            if FORBIDDEN.search(line):
                hits.append("%s:%d: %s" % (rel, i, line.strip()))
    return hits


def strip_coq_comments(txt):
    out = []
    depth = 0
    i = 0
    n = len(txt)
    while i < n:
        if txt.startswith("(*", i):
            depth += 1
            i += 2
        elif txt.startswith("*)", i) and depth > 0:
            depth -= 1
            i += 2
        else:
            if depth == 0:
                out.append(txt[i])
            elif txt[i] == "\n":
                out.append("\n")
            i += 1
    return "".join(out)


def build_coq(timeout=1500, prop=None):
    """full .vo build of the development (make is a no-op when fresh). Returns (ok, log)."""
    with Lock("coq", shared=True):
        srcs = coq_sources()
        mk = os.path.join(COQ, "Makefile")
        stamp = os.path.join(COQ, ".filelist")
        want = "\n".join(srcs)
        have = open(stamp).read() if os.path.exists(stamp) else None
        if have != want or not os.path.exists(mk):
            rc, out = sh(["coq_makefile", "-f", "_CoqProject"] + srcs + ["-o", "Makefile"], cwd=COQ, timeout=120)
            if rc != 0:
                return False, out
            with open(stamp, "w") as f:
                f.write(want)
        rc, out = sh(["make", "-k", "-j%d" % NCPU], cwd=COQ, timeout=timeout)
        if rc != 0 and prop:
            # something does not compile: what matters to this check is its own property file and the comparison
            # functions its generated cases use (and everything those depend on)
            targets = ["theories/Properties/%s.vo" % prop] + \
                      [t[:-2] + ".vo" for t in srcs if t.startswith("theories/Corr/")]
            targets = [t for t in targets if os.path.exists(os.path.join(COQ, t[:-1]))]
            rc2, out2 = sh(["make", "-k", "-j%d" % NCPU] + needed_targets(prop, targets), cwd=COQ, timeout=timeout)
            return rc2 == 0, out + "\n--- closure of %s ---\n" % prop + out2
        return rc == 0, out


def needed_targets(prop, targets):
    """Properties/<prop>.vo plus the Corr files named by the property's check module or by the lib modules it imports"""
    seen, todo, used = set(), [os.path.join(ROOT, "lib", "props", prop.lower() + ".py")], set()
    while todo:
        f = todo.pop()
        if f in seen or not os.path.exists(f):
            continue
        seen.add(f)
        txt = open(f).read()
        used |= set(re.findall(r"Corr\.([A-Za-z0-9_]+)", txt))
        for names in re.findall(r"^\s*(?:import|from props import|from \S+ import)\s+([A-Za-z0-9_., ]+)", txt, re.M):
            for n in re.split(r"[,\s]+", names):
                n = n.split(".")[-1]
                todo += [os.path.join(ROOT, "lib", n + ".py"), os.path.join(ROOT, "lib", "props", n + ".py")]
    res = [t for t in targets if "/Properties/" in t]
    used.add("Hex")
    res += [t for t in targets if "/Corr/" in t and os.path.basename(t)[:-3] in used]
    return res


THM_RE = re.compile(r"^\s*(Theorem|Corollary|Lemma|Example|Proposition|Fact)\s+([A-Za-z0-9_']+)", re.M)


def property_theorems(prop_id):
    path = os.path.join(COQ, "theories", "Properties", prop_id + ".v")
    if not os.path.exists(path):
        return []
    txt = strip_coq_comments(open(path, encoding="utf-8").read())
    return [m.group(2) for m in THM_RE.finditer(txt)]


def check_assumptions(prop_id, workdir):
    """Print Assumptions for every theorem of Properties/<id>.v, evaluated against the compiled .vo.
    Returns list of dicts {name, closed, axioms}."""
    names = property_theorems(prop_id)
    lines = ["From TaskctlV Require Import Properties.%s." % prop_id]
    for n in names:
        lines.append('Goal True. idtac "@@THM %s". exact I. Qed.' % n)
        lines.append("Print Assumptions %s." % n)
    lines.append('Goal True. idtac "@@END". exact I. Qed.')
    path = os.path.join(workdir, "assum_%s.v" % prop_id)
    with open(path, "w") as f:
        f.write("\n".join(lines) + "\n")
    rc, out = sh(["coqc", "-Q", os.path.join(COQ, "theories"), "TaskctlV", path], cwd=workdir, timeout=300)
    res = []
    if rc != 0:
        return [{"name": n, "closed": False, "axioms": ["<Print Assumptions failed: %s>" % out[-300:]]} for n in names] or \
               [{"name": "<none>", "closed": False, "axioms": [out[-300:]]}]
    chunks = out.split("@@THM ")[1:]
    for ch in chunks:
        name, _, body = ch.partition("\n")
        body = body.split("@@END")[0]
        closed = "Closed under the global context" in body
        axioms = []
        if not closed:
            axioms = [l.strip() for l in body.split("\n") if l.strip() and not l.startswith("Axioms:")]
        res.append({"name": name.strip(), "closed": closed, "axioms": axioms})
    return res


def coqchk(prop_id, timeout=3000):
    """thorough tier: re-check the compiled closure of Properties/<id>.vo with the independent checker and read its context summary.
    The result is cached per state of the compiled files.  Returns {"ok": bool, "axioms": str, "summary": str}"""
    h = hashlib.sha256()
    for d, _, fs in os.walk(os.path.join(COQ, "theories")):
        for f in sorted(fs):
            if f.endswith(".vo"):
                st = os.stat(os.path.join(d, f))
                h.update(("%s:%d:%d;" % (f, st.st_size, int(st.st_mtime))).encode())
    cache = os.path.join(ROOT, ".work", "coqchk_%s.json" % prop_id)
    key = h.hexdigest()
    if os.path.exists(cache):
        try:
            c = json.load(open(cache))
            if c.get("key") == key:
                return c["res"]
        except ValueError:
            pass
    rc, out = sh(["coqchk", "-silent", "-o", "-Q", "theories", "TaskctlV", "TaskctlV.Properties.%s" % prop_id], cwd=COQ, timeout=timeout)
    summ = out[out.find("CONTEXT SUMMARY"):] if "CONTEXT SUMMARY" in out else out[-1500:]
    def field(name):
        m = re.search(r"\* %s:\s*(.*?)\n\s*\n" % re.escape(name), summ, re.S)
        return " ".join(m.group(1).split()) if m else "?"
    res = {"ok": rc == 0 and all(field(n) == "<none>" for n in ("Axioms", "Constants/Inductives relying on type-in-type",
                                                               "Constants/Inductives relying on unsafe (co)fixpoints", "Inductives whose positivity is assumed")),
           "axioms": field("Axioms"), "summary": " | ".join(l.strip() for l in summ.split("\n") if l.strip().startswith("*"))}
    os.makedirs(os.path.dirname(cache), exist_ok=True)
    with open(cache, "w") as f:
        json.dump({"key": key, "res": res}, f)
    return res


def coq_eval(workdir, name, text, timeout=900):
    """compile a generated .v file against the development; returns (rc, stdout)"""
    path = os.path.join(workdir, name + ".v")
    with open(path, "w") as f:
        f.write("From Coq Require Import String.\nFrom TaskctlV Require Import Corr.Hex.\n" + text)
    # generated cases may hold byte lists of 64 KiB: coqc needs more than the default 8 MiB stack to read them
    cmd = "ulimit -s 1000000 2>/dev/null || ulimit -s unlimited 2>/dev/null; exec coqc -Q '%s' TaskctlV '%s'" % (os.path.join(COQ, "theories"), path)
    rc, out = sh(cmd, cwd=workdir, timeout=timeout)
    if rc != 0 and "[timeout after" in out:
        # an evaluation that normally takes seconds: the machine is overloaded - once more, with three times the allowance
        rc, out = sh(cmd, cwd=workdir, timeout=3 * timeout)
    return rc, out


PRINT_RE = re.compile(r"^([A-Za-z0-9_']+)\s*=\s*(.*?)\n\s*:\s", re.M | re.S)


def coq_printed(out):
    """parse the output of `Print X.` for definitions whose value is a (possibly nested) list of numbers:
    returns {name: text-of-value}"""
    res = {}
    for m in PRINT_RE.finditer(out):
        res[m.group(1)] = " ".join(m.group(2).split())
    return res


def nums(text):
    return [int(x) for x in re.findall(r"\d+", text)]


def coq_eval_sharded(workdir, name, header, items, footer_fn, shard=700, timeout=900):
    """items: list of Coq terms (strings), one per case.  Builds files
         header ; Definition cases := [items...]. ; footer_fn()
       per shard, compiles them in parallel, returns list of (rc, out, first_index, count)."""
    if not items:                                      # nothing to evaluate (a replay file holding cases of another part only)
        return []
    shards = [(i, items[i:i + shard]) for i in range(0, len(items), shard)]

    def one(k_sh):
        k, (start, its) = k_sh
        body = header + "\nDefinition cases := [\n" + ";\n".join(its) + "\n].\n" + footer_fn()
        rc, out = coq_eval(workdir, "%s_%d" % (name, k), body, timeout)
        return rc, out, start, len(its)

    with ThreadPoolExecutor(max_workers=NCPU) as ex:
        return list(ex.map(one, enumerate(shards)))


# Coq term emitters ---------------------------------------------------------------------------

def cnat(n):
    return str(int(n))


def cbool(b):
    return "true" if b else "false"


def clist(xs, f=str):
    return "[" + "; ".join(f(x) for x in xs) + "]"


def cpair(a, b):
    return "(%s, %s)" % (a, b)


def copt(x, f=str):
    return "None" if x is None else "(Some %s)" % f(x)


def cstring(s):
    """a Coq string literal (ASCII printable only; callers map other bytes themselves)"""
    return '"' + s.replace('"', '""') + '"'


def cbytes(bs):
    """list of N byte codes; long ones in the compact notation of Corr/Hex.v (imported by coq_eval into every cases file)"""
    bs = list(bs)
    if len(bs) > 24:
        return '(hx "%s")' % bytes(bs).hex()
    return "[" + "; ".join(str(b) for b in bs) + "]%N"


# ----------------------------------------------------------------------------------------------
# Go
# ----------------------------------------------------------------------------------------------

def repo_fingerprint():
    """hash of every .go / go.mod / go.sum file of /repo's working tree (to reuse builds safely)"""
    h = hashlib.sha256()
    for d, dirs, fs in os.walk(REPO):
        dirs[:] = sorted(x for x in dirs if x != ".git")
        for f in sorted(fs):
            if f.endswith(".go") or f in ("go.mod", "go.sum"):
                p = os.path.join(d, f)
                h.update(p.encode())
                with open(p, "rb") as fh:
                    h.update(fh.read())
    for d, dirs, fs in os.walk(HARNESS_SRC):
        for f in sorted(fs):
            if f.endswith(".go") or f == "go.mod":
                p = os.path.join(d, f)
                h.update(p.encode())
                with open(p, "rb") as fh:
                    h.update(fh.read())
    return h.hexdigest()


def build_go(timeout=900):
    """rebuild harness and taskctl binary from /repo's current working tree with -tags verif."""
    with Lock("go"):
        os.makedirs(BIN, exist_ok=True)
        fp = repo_fingerprint()
        stamp = os.path.join(BIN, "stamp")
        if os.path.exists(stamp) and open(stamp).read() == fp and \
                os.path.exists(os.path.join(BIN, "harness")) and os.path.exists(os.path.join(BIN, "taskctl")):
            return True, "up to date (source hash %s)" % fp[:12]
        if os.path.exists(stamp):
            os.remove(stamp)
        # the harness is built from a copy of its sources next to a go.mod generated for the tree under test
        hsrc = os.path.join(WORK, "hsrc")
        shutil.rmtree(hsrc, ignore_errors=True)
        os.makedirs(hsrc)
        for f in os.listdir(HARNESS_SRC):
            if f.endswith(".go"):
                shutil.copyfile(os.path.join(HARNESS_SRC, f), os.path.join(hsrc, f))
        shutil.copyfile(os.path.join(REPO, "go.sum"), os.path.join(hsrc, "go.sum"))
        write_harness_gomod(hsrc)
        overlay = hook_overlay()
        ov = ["-overlay", overlay] if overlay else []
        rc, out = sh(["go", "build", "-tags", "verif"] + ov + ["-o", os.path.join(BIN, "harness"), "."],
                     cwd=hsrc, timeout=timeout, env=GOENV)
        if rc != 0:
            return False, "harness build failed:\n" + out
        rc, out2 = sh(["go", "build", "-tags", "verif"] + ov + ["-o", os.path.join(BIN, "taskctl"), "./cmd/taskctl"],
                      cwd=REPO, timeout=timeout, env=GOENV)
        if rc != 0:
            return False, "taskctl build failed:\n" + out2
        with open(stamp, "w") as f:
            f.write(fp)
        return True, out + out2


def write_harness_gomod(hsrc):
    """harness/go.mod = /repo's requirements + replace => /repo (regenerated so that it follows /repo)"""
    req = []
    txt = open(os.path.join(REPO, "go.mod")).read()
    m = re.search(r"require\s*\((.*?)\)", txt, re.S)
    if m:
        req = [l.strip() for l in m.group(1).split("\n") if l.strip()]
    gover = re.search(r"^go\s+(\S+)", txt, re.M)
    lines = ["module github.com/taskctl/taskctl/verifharness", "", "go %s" % (gover.group(1) if gover else "1.16"), "",
             "require (", "\tgithub.com/taskctl/taskctl v0.0.0"]
    lines += ["\t" + r for r in req]
    lines += [")", "", "replace github.com/taskctl/taskctl => %s" % REPO, ""]
    with open(os.path.join(hsrc, "go.mod"), "w") as f:
        f.write("\n".join(lines))


def hook_overlay():
    """if the tree under test lacks the verif hook file, inject the identical file with -overlay"""
    hook = os.path.join(REPO, "pkg", "scheduler", "verif_hooks.go")
    if os.path.exists(hook):
        return None
    src = os.path.join(HARNESS_SRC, "overlay", "verif_hooks.go")
    ov = os.path.join(WORK, "overlay.json")
    with open(ov, "w") as f:
        json.dump({"Replace": {hook: src}}, f)
    return ov


def run_engine(workdir, engine, cases, shards=None, timeout=600, tag=""):
    """run `harness <engine>` over the cases (list of dicts with an "id"); returns {id: obs}.
    Cases are split into shards run as parallel processes."""
    if shards is None:
        shards = min(NCPU, max(1, len(cases) // 50))
    shards = max(1, shards)
    chunks = [cases[i::shards] for i in range(shards)]

    def one(k):
        cf = os.path.join(workdir, "%s%s_cases_%d.jsonl" % (engine, tag, k))
        of = os.path.join(workdir, "%s%s_obs_%d.jsonl" % (engine, tag, k))
        with open(cf, "w") as f:
            for c in chunks[k]:
                f.write(json.dumps(c) + "\n")
        rc, out = sh([os.path.join(BIN, "harness"), engine, cf, of], cwd=workdir, timeout=timeout, env=GOENV)
        res = {}
        if os.path.exists(of):
            with open(of) as f:
                for line in f:
                    line = line.strip()
                    if line:
                        try:
                            o = json.loads(line)
                        except ValueError:
                            continue
                        if "id" in o:
                            res[o["id"]] = o
        return rc, out, res

    obs = {}
    logs = []
    with ThreadPoolExecutor(max_workers=shards) as ex:
        for rc, out, res in ex.map(one, range(shards)):
            obs.update(res)
            if rc != 0:
                logs.append("engine %s exit %d: %s" % (engine, rc, out[-2000:]))
    return obs, logs


def run_children(workdir, engine, cases, timeout=40, workers=None, tag=""):
    """one `harness child <engine>` PROCESS per case (a crash or hang of the child is an observation).
    returns {id: obs}; obs = {"child_crash": stderr-tail, "rc": n} or {"child_timeout": True} when there is no output"""
    d = os.path.join(workdir, "children" + tag)
    os.makedirs(d, exist_ok=True)

    def one(c):
        cf = os.path.join(d, "case_%s.json" % c["id"])
        of = os.path.join(d, "obs_%s.json" % c["id"])
        with open(cf, "w") as f:
            json.dump(c, f)
        if os.path.exists(of):
            os.remove(of)
        rc, out = sh([os.path.join(BIN, "harness"), "child", engine, cf, of], cwd=workdir, timeout=timeout, env=GOENV)
        if os.path.exists(of):
            try:
                with open(of) as f:
                    o = json.load(f)
                o["child_rc"] = rc
                return c["id"], o
            except ValueError:
                pass
        if rc == 124:
            return c["id"], {"child_timeout": True, "tail": out[-1500:]}
        return c["id"], {"child_crash": out[-3000:], "rc": rc}

    with ThreadPoolExecutor(max_workers=workers or NCPU) as ex:
        return dict(ex.map(one, cases))


# ----------------------------------------------------------------------------------------------
# findings, evidence, reporting
# ----------------------------------------------------------------------------------------------

def known_findings(prop_id):
    path = os.path.join(ROOT, "known_findings.json")
    if not os.path.exists(path):
        return []
    with open(path) as f:
        data = json.load(f)
    return [e for e in data.get("findings", []) if e.get("property") == prop_id]


class Result:
    """what a property module returns to the driver"""

    def __init__(self):
        self.evaluations = 0
        self.nontrivial_keys = set()
        self.rule = ""
        self.samples = []
        self.violations = []      # dicts: {"class": key-or-None, "what": str, "case":…, "observed":…, "predicted":…}
        self.mismatches = []      # model/implementation disagreements on which every monitor passed
        self.traces_validated = 0
        self.extra = {}
        self.assumptions = []
        self.exhaustive = False
        self.distribution = {}

    def count(self, key):
        self.distribution[key] = self.distribution.get(key, 0) + 1


def write_json(path, obj):
    os.makedirs(os.path.dirname(path), exist_ok=True)
    tmp = path + ".tmp"
    with open(tmp, "w") as f:
        json.dump(obj, f, indent=1, sort_keys=True, default=str)
    os.replace(tmp, path)


def rng_for(seed, label):
    return random.Random("%s/%s" % (seed, label))
