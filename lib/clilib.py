"""Running the built taskctl binary on generated project directories (engine `cli`)."""
import json
import os
import shutil
import subprocess
import time
from concurrent.futures import ThreadPoolExecutor
import vlib


def run_cli(workdir, jobs, timeout=15, workers=None):
    """jobs: dicts {id, files:{relpath:str|bytes}, argv:[...], env:{...}, cwd:relpath, home:{relpath:content}, keep:[relpaths to read back]}
    returns {id: {rc, out, err, timeout, files:{relpath:content}}}"""
    base = os.path.join(workdir, "cli")
    os.makedirs(base, exist_ok=True)
    binp = os.path.join(vlib.BIN, "taskctl")

    def one(j):
        d = os.path.join(base, str(j["id"]))
        shutil.rmtree(d, ignore_errors=True)
        proj = os.path.join(d, "proj")
        home = os.path.join(d, "home")
        os.makedirs(proj)
        os.makedirs(home)
        for root, files in ((proj, j.get("files", {})), (home, j.get("home", {}))):
            for rel, content in files.items():
                p = os.path.join(root, rel)
                os.makedirs(os.path.dirname(p), exist_ok=True)
                if content is None:
                    os.makedirs(p, exist_ok=True)
                    continue
                if isinstance(content, dict) and "symlink" in content:          # a symbolic link (its target need not exist)
                    os.symlink(content["symlink"], p)
                    continue
                mode = "wb" if isinstance(content, bytes) else "w"
                with open(p, mode) as f:
                    f.write(content)
        env = {"PATH": os.environ.get("PATH", "/usr/bin:/bin"), "HOME": home, "TERM": "dumb", "PROJ": proj}
        env.update(j.get("env", {}))
        cwd = os.path.join(proj, j.get("cwd", ""))
        res = {"timeout": False}
        t0 = time.time()
        stdin, keep = subprocess.DEVNULL, None
        if j.get("stdin_open"):          # a terminal nobody types at: the input stays open and silent
            stdin, keep = os.pipe()
        try:
            p = subprocess.run([binp] + j["argv"], cwd=cwd, env=env, stdin=stdin, stdout=subprocess.PIPE,
                               stderr=subprocess.PIPE, timeout=j.get("timeout", timeout))
            res.update(rc=p.returncode, out=p.stdout.decode("utf-8", "replace"), err=p.stderr.decode("utf-8", "replace"))
        except subprocess.TimeoutExpired as e:
            res.update(rc=None, timeout=True, out=(e.stdout or b"").decode("utf-8", "replace"), err=(e.stderr or b"").decode("utf-8", "replace"))
        if keep is not None:
            os.close(keep)
            os.close(stdin)
        res["wall_ms"] = int((time.time() - t0) * 1000)
        if j.get("linger"):          # give processes the command may have left behind the time to show themselves
            time.sleep(j["linger"])
        res["files"] = {}
        for rel in j.get("keep", []):
            p = os.path.join(proj, rel)
            if os.path.exists(p):
                with open(p, "rb") as f:
                    res["files"][rel] = f.read().decode("utf-8", "replace")
        if j.get("keepglob"):          # every file of the project directory matching a pattern
            import glob as _glob
            for fp in _glob.glob(os.path.join(proj, j["keepglob"])):
                if os.path.isfile(fp):
                    with open(fp, "rb") as f:
                        res["files"][os.path.relpath(fp, proj)] = f.read().decode("utf-8", "replace")
        if not j.get("leave"):
            shutil.rmtree(d, ignore_errors=True)
        return j["id"], res

    with ThreadPoolExecutor(max_workers=workers or vlib.NCPU) as ex:
        return dict(ex.map(one, jobs))


def crashed(r):
    """abnormal death of the process: Go panic / runtime fatal error / signal"""
    txt = (r.get("err") or "") + (r.get("out") or "")
    return ("panic:" in txt) or ("fatal error:" in txt) or ("goroutine " in txt and "[running]" in txt) or (r.get("rc") is not None and (r["rc"] < 0 or r["rc"] == 2 and "runtime" in txt))


def jcfg(doc):
    return json.dumps(doc, indent=1)
