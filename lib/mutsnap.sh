#!/bin/sh
# refresh the snapshot of /verif's HEAD used for testing seeded changes, and build its Coq development
if [ ! -d /tmp/vsnap ]; then git -C /verif worktree add -q --detach /tmp/vsnap HEAD; else (cd /tmp/vsnap && git checkout -q -f --detach $(git -C /verif rev-parse HEAD)); fi
cd /tmp/vsnap && coq/mk.sh > /tmp/vsnap/.coqbuild.log 2>&1; tail -1 /tmp/vsnap/.coqbuild.log
