#!/bin/sh
# refresh the snapshot of /verif's HEAD used for testing seeded changes (default /tmp/vsnap, or $1), and build its Coq development
d=${1:-/tmp/vsnap}
if [ ! -d $d ]; then git -C /verif worktree add -q --detach $d HEAD; else (cd $d && git checkout -q -f --detach $(git -C /verif rev-parse HEAD)); fi
cd $d && coq/mk.sh > $d/.coqbuild.log 2>&1; tail -1 $d/.coqbuild.log
