#!/bin/bash
# usage: harmless.sh <patch.diff> [PROP...]   (default: all twenty)
# applies a behaviour-preserving refactoring in the scratch worktree $MW (default /tmp/mw) and runs the quick checks of the /verif snapshot
# (/tmp/vsnap) against it: every one of them must stay silent.
patch="$1"; shift
props="$@"; [ -n "$props" ] || props="C01 C02 C03 C04 C05 C06 C07 C08 C09 C10 C11 C12 C13 C14 C15 C16 C17 C18 C19 C20"
export GOFLAGS=-mod=mod GOPROXY=off GOSUMDB=off GOTOOLCHAIN=local
wt=${MW:-/tmp/mw}; cd $wt || exit 2
git checkout -q -f --detach "$(git -C /repo rev-parse HEAD)"; git clean -fdq
git apply "$patch" || { echo "PATCH DOES NOT APPLY: $patch"; exit 3; }
go build ./... || { echo "DOES NOT BUILD"; exit 3; }
suite=$(go test -vet=off -count=1 -timeout 120s ./... 2>&1 | grep -v "^ok\|no test files" | head -3)
echo "== $patch: suite ${suite:-GREEN}"
export VERIF_REPO=$wt VERIF_WORK=${MWORK:-/tmp/mwork}
for p in $props; do (cd ${VSNAP:-/tmp/vsnap} && timeout 2400 ./check "$p" quick 2>&1 | grep -E "VIOLATION|seed=" | cut -c1-200); done
git checkout -q -f -- .; git clean -fdq
